#!/usr/bin/env python3
"""verdict: assemble a unit from /repo's working tree, run Verus on it, map every verifier
message to a named obligation, compare with the committed baseline and known findings,
write evidence and (on violation) a replay file.

exit 0  every baseline obligation discharged (known findings printed)
exit 1  a baseline obligation fails with a genuine verification error -> VIOLATION line
exit 2  undecided: lost anchor, construct Verus rejects, resource limit, tool error
"""
import argparse
import hashlib
import json
import os
import re
import subprocess
import sys
import time

sys.path.insert(0, os.path.dirname(os.path.abspath(__file__)))
import rsx
import assemble as asm
from rsx import Lost

VERIF = os.path.dirname(os.path.dirname(os.path.abspath(__file__)))
OUT = os.environ.get("VERIF_OUT", VERIF)  # scratch runs (mutants) write evidence/replay/build elsewhere
BUILD = os.path.join(OUT, "build")

VERIF_MSGS = (
    "postcondition not satisfied", "precondition not satisfied", "assertion failed", "assertion not satisfied",
    "invariant not satisfied", "possible arithmetic underflow/overflow", "possible division by zero",
    "decreases not satisfied", "possible bit shift underflow/overflow", "unreachable", "cannot show",
    "loop invariant not satisfied", "recommendation not met", "could not prove termination", "index out of bounds",
    "possible truncation", "failed to satisfy", "possible panic", "may panic", "constructor of a datatype with an unsatisfied",
    "unable to prove", "failed this", "panic", "cannot prove", "value may be out of range", "possible overflow",
    "the target of the call", "call to non-static-build function", "refinement", "possible cast",
)
RLIMIT_MSGS = ("Resource limit", "rlimit", "timed out", "timeout")


# ---------------------------------------------------------------------------------------------
# parsing the assembled file: functions, clauses


class Fn:
    def __init__(self):
        self.name = None
        self.qual = None  # qualified path
        self.mode = "exec"
        self.external = False
        self.start = self.end = 0
        self.sig_end = 0
        self.body = None  # (lo, hi)
        self.ensures = []  # (label, lo, hi, text)
        self.requires = []  # (lo, hi)
        self.invariants = []  # (label, lo, hi, text)
        self.extracted = None
        self.canary = False


CLAUSE_KW = ("requires", "ensures", "decreases", "recommends", "opens_invariants", "no_unwind", "returns", "via", "when", "invariant", "invariant_except_break", "default_ensures")


def split_clauses(text, toks, lo_i, hi_i):
    """toks: all tokens (with ws/comments) of the file; [lo_i,hi_i) index range of one section (after keyword).
    Split on commas at bracket depth 0, skipping quantifier binders. Returns [(label, start, end)]."""
    out = []
    depth = 0
    cur_start = None
    label = None
    i = lo_i
    binder = False
    last_sig_end = None

    def flush():
        nonlocal cur_start, label, last_sig_end
        if cur_start is not None:
            out.append((label, cur_start, last_sig_end))
        cur_start = None
        label = None

    while i < hi_i:
        t = toks[i]
        if t.kind in ("ws", "doc"):
            i += 1
            continue
        if t.kind == "comment":
            m = re.match(r"/\*@\s*([A-Za-z0-9_.\-]+)\s*\*/", t.text)
            if m and cur_start is None:
                label = m.group(1)
            i += 1
            continue
        if t.kind == "punct" and t.text == "," and depth == 0 and not binder:
            flush()
            i += 1
            continue
        if cur_start is None:
            cur_start = t.start
        last_sig_end = t.end
        if t.kind == "punct":
            if t.text in rsx.OPEN:
                depth += 1
            elif t.text in rsx.CLOSE:
                depth -= 1
            elif t.text == "|":
                # binder bars of forall|..| exists|..| choose|..| closures
                if binder:
                    binder = False
                else:
                    # previous significant token
                    j = i - 1
                    while j >= 0 and toks[j].kind in ("ws", "comment", "doc"):
                        j -= 1
                    prev = toks[j].text if j >= 0 else ""
                    if prev in ("forall", "exists", "choose", "(", ",", "=", ">", "&", "{"):
                        # `||` empty binder?
                        if i + 1 < hi_i and toks[i + 1].text == "|" and toks[i + 1].start == t.end:
                            i += 1
                            last_sig_end = toks[i].end
                        else:
                            binder = True
            elif t.text == "<" and i >= 2 and toks[i - 1].text == ":" and toks[i - 2].text == ":":
                # turbofish: skip to matching '>'
                d = 0
                while i < hi_i:
                    if toks[i].text == "<":
                        d += 1
                    elif toks[i].text == ">":
                        d -= 1
                        if d == 0:
                            break
                    i += 1
                last_sig_end = toks[i].end
        i += 1
    flush()
    return out


def parse_sections(text, toks, lo_i, hi_i):
    """Find clause keywords at depth 0 in toks[lo_i:hi_i]; return {kw: [(label,start,end)]}"""
    secs = []
    depth = 0
    i = lo_i
    while i < hi_i:
        t = toks[i]
        if t.kind == "punct":
            if t.text in rsx.OPEN:
                depth += 1
            elif t.text in rsx.CLOSE:
                depth -= 1
        elif t.kind == "ident" and depth == 0 and t.text in CLAUSE_KW:
            secs.append((t.text, i))
        i += 1
    res = {}
    for n, (kw, idx) in enumerate(secs):
        end = secs[n + 1][1] if n + 1 < len(secs) else hi_i
        res.setdefault(kw, []).extend(split_clauses(text, toks, idx + 1, end))
    return res


def parse_file(text, extract_items):
    toks = rsx.tokenize(text)
    st = rsx.sig(toks)
    pos2idx = {t.start: i for i, t in enumerate(toks)}
    items = rsx.find_items(text, deep=True)
    containers = [it for it in items if it.kw in ("mod", "impl", "trait", "fn") and it.body_open is not None]
    fns = []
    extracted_names = {}
    for it in items:
        if it.kw != "fn":
            continue
        f = Fn()
        f.name = it.name
        f.start, f.end = it.start, it.end
        quals = it.quals
        if "spec" in quals:
            f.mode = "spec"
        elif "proof" in quals or "axiom" in quals:
            f.mode = "proof"
        if "axiom" in quals:
            f.external = True  # an axiom has no body to check
        # attributes just before the item
        pre = text[max(0, it.start - 400):it.start]
        lines = pre.rstrip().split("\n")
        k = len(lines) - 1
        while k >= 0 and (lines[k].strip().startswith("#[") or lines[k].strip() == ""):
            if "external_body" in lines[k] or "verifier::external" in lines[k]:
                f.external = True
            k -= 1
        # enclosing path
        encl = [c for c in containers if c.body_open < it.start and it.end <= c.body_close + 1 and c is not it]
        encl.sort(key=lambda c: c.start)
        names = []
        for c in encl:
            if c.kw == "impl":
                h = c.name
                h = re.sub(r"^<[^>]*>", "", h)
                m = re.match(r"^(.*?)for(?=[A-Z&(<]|il::|crate::|core::|std::)(.*)$", h)
                if m and "for" in h and m.group(1):
                    names.append("<%s as %s>" % (re.sub(r"<.*$", "", m.group(2)), re.sub(r"<.*$", "", m.group(1))))
                else:
                    names.append(re.sub(r"<.*$", "", h))
            else:
                names.append(c.name)
        f.qual = "::".join(names + [it.name])
        # signature / body
        if it.body_open is None:
            f.body = None
            f.sig_end = it.end
        else:
            # real body brace: first '{' at depth 0 after the parameter list
            i = pos2idx[[t for t in st if t.start >= it.kw_pos and t.text == "("][0].start]
            # walk tokens from the '(' to find its close, then first '{' at depth 0
            depth = 0
            j = i
            body_idx = None
            while j < len(toks):
                t = toks[j]
                if t.kind == "punct":
                    if t.text == "{" and depth == 0:
                        body_idx = j
                        break
                    if t.text in rsx.OPEN:
                        depth += 1
                    elif t.text in rsx.CLOSE:
                        depth -= 1
                j += 1
            if body_idx is None:
                raise Lost("no body for fn %s" % f.qual)
            f.sig_end = toks[body_idx].start
            # matching close
            d = 0
            k2 = body_idx
            while k2 < len(toks):
                t = toks[k2]
                if t.kind == "punct":
                    if t.text == "{":
                        d += 1
                    elif t.text == "}":
                        d -= 1
                        if d == 0:
                            break
                k2 += 1
            f.body = (toks[body_idx].start, toks[k2].end)
            secs = parse_sections(text, toks, i, body_idx)
            for n, (label, a, b) in enumerate(secs.get("ensures", [])):
                f.ensures.append((label or ("e%d" % n), a, b, text[a:b]))
            for n, (label, a, b) in enumerate(secs.get("requires", [])):
                f.requires.append((a, b))
            # loop invariants
            if f.mode != "spec":
                body_text = text[f.body[0]:f.body[1]]
                try:
                    loops = rsx.loops_of(body_text, 0)
                except Lost:
                    loops = []
                for ln, (kw_off, brace_off) in enumerate(loops):
                    a_i = pos2idx.get(f.body[0] + kw_off)
                    b_i = pos2idx.get(f.body[0] + brace_off)
                    if a_i is None or b_i is None:
                        continue
                    lsecs = parse_sections(text, toks, a_i + 1, b_i)
                    n = 0
                    for kw in ("invariant", "invariant_except_break", "ensures"):
                        for (label, a, b) in lsecs.get(kw, []):
                            lab = label or ("loop%d.i%d" % (ln, n))
                            if any(x[0] == lab for x in f.invariants):
                                lab = "%s@loop%d" % (lab, ln)  # same label reused in another loop of this fn
                            f.invariants.append((lab, a, b, text[a:b]))
                            n += 1
        f.canary = f.name.startswith("vf_canary")
        fns.append(f)
    # nested fns: the outer fn's body contains inner fns; attribution uses the innermost.
    return fns


def obligations_of(unit, fns):
    obs = {}
    for f in fns:
        if f.mode == "spec" or f.external or f.canary or f.body is None:
            continue
        base = "%s.%s" % (unit, f.qual)
        for (label, a, b, txt) in f.ensures:
            obs["%s.ensures.%s" % (base, label)] = dict(fn=f.qual, kind="postcondition", clause=txt)
        for (label, a, b, txt) in f.invariants:
            obs["%s.invariant.%s" % (base, label)] = dict(fn=f.qual, kind="loop-invariant", clause=txt)
        obs["%s.body" % base] = dict(fn=f.qual, kind="body: callee preconditions, arithmetic/index safety, assertions, unreachable panics, termination", clause="")
    return obs


_B2C = {}


def byte_to_char(text, pos):
    """rustc reports UTF-8 byte offsets; the parser works on Python str (code point) offsets."""
    key = id(text)
    if key not in _B2C:
        b = text.encode("utf-8")
        if len(b) == len(text):
            _B2C[key] = None
        else:
            import bisect
            # byte offset of every non-ASCII char and its extra length
            offs, extra, bpos = [], [], 0
            for ch in text:
                n = len(ch.encode("utf-8"))
                if n > 1:
                    offs.append(bpos)
                    extra.append(n - 1)
                bpos += n
            cum = []
            t = 0
            for e in extra:
                t += e
                cum.append(t)
            _B2C[key] = (offs, cum)
    tab = _B2C[key]
    if tab is None:
        return pos
    import bisect
    offs, cum = tab
    i = bisect.bisect_left(offs, pos)  # non-ASCII chars starting strictly before pos
    return pos - (cum[i - 1] if i > 0 else 0)


def attribute(unit, fns, diag, text):
    """Map one diagnostic to (obligation id | None, fn qual | None)."""
    spans = [dict(s) for s in diag.get("spans", []) if s.get("file_name", "").endswith(".rs") and "build" in s.get("file_name", "")]
    for ch in diag.get("children", []):
        spans += [dict(s) for s in ch.get("spans", []) if "build" in s.get("file_name", "")]
    for s in spans:
        s["byte_start"] = byte_to_char(text, s["byte_start"])
    msg = diag.get("message", "")
    prim = [s for s in spans if s.get("is_primary")] + [s for s in spans if not s.get("is_primary")]

    def innermost(pos, key):
        best = None
        for f in fns:
            rng = key(f)
            if rng and rng[0] <= pos < rng[1]:
                if best is None or (rng[1] - rng[0]) < (key(best)[1] - key(best)[0]):
                    best = f
        return best

    # 1. a span inside an ensures / invariant clause of some fn
    if not msg.startswith("precondition"):
        for s in prim:
            pos = s["byte_start"]
            for f in fns:
                for (label, a, b, _) in f.ensures:
                    if a <= pos < b:
                        return "%s.%s.ensures.%s" % (unit, f.qual, label), f
                for (label, a, b, _) in f.invariants:
                    if a <= pos < b:
                        return "%s.%s.invariant.%s" % (unit, f.qual, label), f
    # 2. a span inside a fn body
    for s in prim:
        f = innermost(s["byte_start"], lambda f: f.body)
        if f is not None:
            return "%s.%s.body" % (unit, f.qual), f
    # 3. a span inside a whole fn item
    for s in prim:
        f = innermost(s["byte_start"], lambda f: (f.start, f.end))
        if f is not None:
            return "%s.%s.body" % (unit, f.qual), f
    return None, None


def run_verus(path, rlimit, extra=()):
    cmd = ["verus", path, "--multiple-errors", "200", "--output-json", "--time", "--error-format=json", "--rlimit", str(rlimit)] + list(extra)
    t0 = time.time()
    p = subprocess.run(cmd, capture_output=True, text=True, cwd=VERIF)
    dt = time.time() - t0
    out_json = None
    try:
        out_json = json.loads(p.stdout)
    except Exception:
        # stdout may contain non-JSON noise before the object
        m = re.search(r"\{.*\}\s*$", p.stdout, re.S)
        if m:
            try:
                out_json = json.loads(m.group(0))
            except Exception:
                out_json = None
    diags = []
    other = []
    for line in p.stderr.split("\n"):
        line = line.strip()
        if not line:
            continue
        if line.startswith("{"):
            try:
                diags.append(json.loads(line))
                continue
            except Exception:
                pass
        other.append(line)
    return dict(cmd=" ".join(cmd), rc=p.returncode, json=out_json, diags=diags, other=other, wall=dt)


KNOWN_WITNESS_PRINTED = set()


def witness_defects(prop):
    """listed known findings of the bounded kind for this property: {defect id: finding}"""
    kf_path = os.path.join(VERIF, "known_findings.json")
    kf_all = json.load(open(kf_path)) if os.path.exists(kf_path) else {}
    return {k["witness_defect"]: k for k in kf_all.get("findings", []) if k.get("property") == prop and k.get("witness_defect")}


def run_witness(meta, unit):
    """Bounded witness search against the REAL crate at VERIF_REPO (cargo build of /verif/witness with the
    falcon path dependency pointed at VERIF_REPO). Returns (list of disagreement dicts, summary dict | None, log)."""
    wbin = meta.get("witness")
    if not wbin:
        return [], None, "no witness binary for this unit"
    import shutil, tempfile
    repo = os.environ.get("VERIF_REPO", "/repo")
    if not os.path.exists(os.path.join(repo, "Cargo.toml")):
        return [], None, "VERIF_REPO has no Cargo.toml; witness search skipped"
    wd = tempfile.mkdtemp(prefix="vf_witness_src.")
    try:
        shutil.copytree(os.path.join(VERIF, "witness"), os.path.join(wd, "w"), ignore=shutil.ignore_patterns("target"))
        ct = os.path.join(wd, "w", "Cargo.toml")
        txt = open(ct).read().replace('path = "/repo"', 'path = "%s"' % repo)
        open(ct, "w").write(txt)
        shutil.copy(os.path.join(repo, "Cargo.lock"), os.path.join(wd, "w", "Cargo.lock"))
        env = dict(os.environ, CARGO_TARGET_DIR=os.environ.get("VERIF_WITNESS_TARGET", "/tmp/vf_witness_target"), CARGO_NET_OFFLINE="true", VERIF_TIER=os.environ.get("VERIF_TIER", "quick"))
        # the target directory is only a build cache shared by concurrent checks (possibly of different trees): build
        # and take a private copy of the binary under a lock, so that the binary run is the one built from VERIF_REPO
        import fcntl
        os.makedirs(env["CARGO_TARGET_DIR"], exist_ok=True)
        with open(os.path.join(env["CARGO_TARGET_DIR"], ".verif.lock"), "w") as lk:
            fcntl.flock(lk, fcntl.LOCK_EX)
            b = subprocess.run(["cargo", "build", "--offline", "--release", "--bin", wbin], cwd=os.path.join(wd, "w"), env=env, capture_output=True, text=True, timeout=1500)
            if b.returncode != 0:
                return [], None, "witness build failed:\n" + b.stderr[-1500:]
            exe = os.path.join(wd, wbin)
            shutil.copy2(os.path.join(env["CARGO_TARGET_DIR"], "release", wbin), exe)
        note = "ok"
        try:
            wt_timeout = 3000 if env["VERIF_TIER"] == "thorough" else 900
            out = subprocess.run([exe], capture_output=True, text=True, timeout=wt_timeout, env=env).stdout
        except subprocess.TimeoutExpired as te:  # keep what was found so far (a broken tree can make the search slow)
            out = te.stdout.decode("utf-8", "replace") if isinstance(te.stdout, bytes) else (te.stdout or "")
            note = "witness search stopped after %d s (partial output used)" % wt_timeout
        wit, summ = [], None
        for line in out.split("\n"):
            line = line.strip()
            if line.startswith("{"):
                try:
                    j = json.loads(line)
                except Exception:
                    continue
                if j.get("witness"):
                    wit.append(j)
                elif j.get("summary"):
                    summ = j
        # known findings of the bounded kind: a disagreement the enumerator itself classifies as an instance of a
        # LISTED defect (field `known_defect`, set only when the observed result is exactly what the documented
        # defective behaviour yields) is reported as KNOWN-FINDING; an unlisted tag, and every untagged disagreement,
        # stays a violation
        listed = witness_defects(meta.get("property"))
        kept, seen = [], {}
        for w in wit:
            d = w.get("known_defect")
            if d and d in listed:
                seen.setdefault(d, []).append(w)
            else:
                kept.append(w)
        for d, ws in sorted(seen.items()):
            if d not in KNOWN_WITNESS_PRINTED:
                KNOWN_WITNESS_PRINTED.add(d)
                w0 = {k: v for k, v in ws[0].items() if k not in ("witness", "known_defect")}
                print("KNOWN-FINDING: property=%s %s.bounded-witness.known.%s — %s (observed on this run, e.g. %s)" % (
                    meta.get("property"), unit, d, listed[d].get("what", ""), json.dumps(w0)[:400]))
        for d in sorted(set(listed) - set(seen)):
            if d not in KNOWN_WITNESS_PRINTED and summ is not None:
                KNOWN_WITNESS_PRINTED.add(d)
                print("note: known finding %s.bounded-witness.known.%s was not observed on this run" % (unit, d))
        if summ is not None:
            summ = dict(summ, known_defect_instances={d: len(ws) for d, ws in seen.items()})
        return kept, summ, note
    except Exception as e:  # noqa
        return [], None, "witness search error: %s" % e
    finally:
        shutil.rmtree(wd, ignore_errors=True)


def scan_trusted(text, fns):
    """Mechanical scan of the assembled file for everything that is assumed rather than proved."""
    tb = []
    imported = {}
    for f in fns:
        if f.external and not f.canary:
            sig_txt = re.sub(r"\s+", " ", text[f.start:f.sig_end]).strip()
            pre = text[max(0, f.start - 200):f.start]
            m = re.search(r"/\*proved-in:(\w+)\*/\s*$", pre.rstrip())
            if m:
                imported.setdefault(m.group(1), []).append(f.qual)
            else:
                tb.append("assumed contract (external_body/axiom): %s" % sig_txt[:300])
    for u, names in sorted(imported.items()):
        tb.append("contracts imported from unit %s (proved there against the same /repo text, assumed here): %s" % (u, ", ".join(sorted(names))))
    for m in re.finditer(r"#\[verifier::external_body\]\s*pub struct\s+(\w+)", text):
        tb.append("opaque stand-in type: %s" % m.group(1))
    for m in re.finditer(r"\b(assume|admit)\s*\(", text):
        line = text.count("\n", 0, m.start()) + 1
        tb.append("%s( at generated line %d" % (m.group(1), line))
    for m in re.finditer(r"assume_specification", text):
        line = text.count("\n", 0, m.start()) + 1
        tb.append("assume_specification at generated line %d: %s" % (line, text[m.start():m.start() + 160].split("\n")[0]))
    for m in re.finditer(r"exec_allows_no_decreases_clause", text):
        line = text.count("\n", 0, m.start()) + 1
        tb.append("termination not proved (exec_allows_no_decreases_clause) at generated line %d" % line)
    return tb


def main():
    ap = argparse.ArgumentParser()
    ap.add_argument("unit")
    ap.add_argument("--tier", default=os.environ.get("VERIF_TIER", "quick"))
    ap.add_argument("--update-baseline", action="store_true")
    ap.add_argument("--replay", default=None)
    ap.add_argument("--keep", action="store_true")
    args = ap.parse_args()
    unit = args.unit
    tier = args.tier if args.tier in ("quick", "thorough") else "quick"
    os.environ["VERIF_TIER"] = tier  # the bounded enumerators widen their bounds in the thorough tier
    seed = int(os.environ.get("VERIF_SEED", "0") or 0)
    t_start = time.time()
    os.makedirs(BUILD, exist_ok=True)
    os.makedirs(os.path.join(OUT, "evidence"), exist_ok=True)
    os.makedirs(os.path.join(OUT, "replay"), exist_ok=True)

    meta_path = os.path.join(VERIF, "units", unit, "meta.json")
    meta = json.load(open(meta_path)) if os.path.exists(meta_path) else {}
    prop = meta.get("property", unit)
    ev_path = os.path.join(OUT, "evidence", "%s.json" % prop)

    if args.replay:
        rp = json.load(open(args.replay))
        print("replay of %s: obligation %s" % (args.replay, rp.get("obligation")))
        print("re-running the check for unit %s against /repo ..." % unit)

    def undecided(reason, detail=""):
        # The verifier could not decide. A bounded witness search against the real crate may still exhibit a
        # concrete failing input (labelled bounded; it never turns an undecided run into a pass).
        if not args.update_baseline and os.environ.get("VERIF_NO_WITNESS") != "1":
            wit, summ, wlog = run_witness(meta, unit)
            if wit:
                rp_path = os.path.join(OUT, "replay", "%s.witness.json" % unit)
                json.dump(dict(property=prop, unit=unit, obligation="%s.bounded-witness" % unit, verifier="undecided: %s" % reason,
                               verifier_detail=detail[:3000], witnesses=wit, summary=summ,
                               note="bounded witness search: the real public API of the crate at VERIF_REPO disagrees with the executable transcription of the specification on these inputs",
                               rerun="./check %s" % unit), open(rp_path, "w"), indent=1)
                ev = dict(property_id=prop, tier=tier, seed=seed, level="proof",
                          coverage=dict(obligations=0, discharged=0, checker_cmd="verus (undecided: %s) + bounded witness search" % reason, trusted_base=[],
                                        evaluations=(summ or {}).get("evaluations", 1), distinct_nontrivial=len(wit), explanation="verifier undecided; bounded witness search found failing inputs", samples=wit[:3]),
                          assumptions=[], wall_s=round(time.time() - t_start, 2), violations=len(wit))
                json.dump(ev, open(ev_path, "w"), indent=1)
                w0 = wit[0]
                print("VIOLATION property=%s replay=%s obligation=%s.bounded-witness.%s input=%s (verifier undecided: %s; failing input found by bounded search on the real code)" % (
                    prop, rp_path, unit, w0.get("op", "?"), json.dumps({k: v for k, v in w0.items() if k not in ("witness",)}), reason))
                sys.exit(1)
        ev = dict(property_id=prop, tier=tier, seed=seed, level="proof",
                  coverage=dict(obligations=0, discharged=0, checker_cmd="verus (not reached)", trusted_base=[],
                                evaluations=1, distinct_nontrivial=0, explanation="UNDECIDED: %s" % reason),
                  assumptions=[], wall_s=round(time.time() - t_start, 2), violations=0, undecided=reason, detail=detail[:4000])
        json.dump(ev, open(ev_path, "w"), indent=1)
        print("UNDECIDED property=%s unit=%s reason=%s" % (prop, unit, reason))
        if detail:
            print(detail[:3000])
        sys.exit(2)

    # 1. assemble from the working tree
    try:
        text, ctx = asm.assemble(unit)
    except Lost as e:
        undecided("lost-anchor", str(e))
    gen = os.path.join(BUILD, unit + ".rs")
    open(gen, "w").write(text)
    json.dump({"items": [{k: v for k, v in it.items() if k != "src_text"} for it in ctx.items]}, open(os.path.join(BUILD, unit + ".extract.json"), "w"), indent=1)

    # 1b. functions whose full specification is only checked by the bounded witness search
    bounded = meta.get("bounded", {})
    bounded_hashes = {}
    try:
        for pth in bounded.get("functions", []):
            f_, comps_ = asm.parse_path(ctx, pth)
            bounded_hashes[pth] = rsx.locate(ctx.src(f_), comps_).sha()
    except Lost as e:
        undecided("lost-anchor", "bounded function: %s" % e)

    # 1c. functions whose contract is imported from another unit and that live in a file the PROPERTY is anchored in
    # (properties.jsonl anchors.files, plus meta.json "watch_files"): a change of their text is checked by re-running
    # the unit that proves them, and a failure there is reported under this unit's property.
    anchor_files = set(meta.get("watch_files", []))
    try:
        for line in open(os.path.join(VERIF, "properties.jsonl")):
            pj = json.loads(line)
            if pj.get("id") == prop:
                anchor_files.update(pj.get("anchors", {}).get("files", []))
    except OSError:
        pass
    imported_hashes = {}
    imported_unit = {}
    for it in ctx.items:
        if it["kind"] == "fn" and it.get("imported_from") and it["file"] in anchor_files:
            imported_hashes[it["path"]] = it["sha256"]
            imported_unit[it["path"]] = (it["imported_from"], it["out_name"])

    # 1d. loop / closure structure of the functions this unit verifies itself. The proof annotations of the template
    # (loop invariants, typed closure headers with their specifications) are placed by ordinal; a function that now has
    # a different number of loops or closures than on the baseline carries constructs without annotations, and a proof
    # failure there says nothing about the property (a refactoring of `match` into `.and_then(|x| ..)` fails with
    # "precondition not satisfied" inside the un-annotated closure). That is a lost anchor, not a violation: the bounded
    # enumerator decides on the real code.
    structure = {it["path"]: it.get("structure") for it in ctx.items if it["kind"] == "fn" and not it.get("imported_from")}
    base_structure = {}
    try:
        base_structure = json.load(open(os.path.join(VERIF, "units", unit, "baseline_obligations.json"))).get("structure", {})
    except (OSError, ValueError):
        pass
    if not args.update_baseline:
        moved = ["%s: loops/closures %s -> %s" % (p_, base_structure[p_], s_) for p_, s_ in sorted(structure.items())
                 if p_ in base_structure and base_structure[p_] is not None and s_ is not None and base_structure[p_] != s_]
        if moved:
            undecided("lost-anchor", "structure changed (the template's loop invariants / closure specifications are placed by ordinal): " + "; ".join(moved))

    # 2. parse
    try:
        fns = parse_file(text, ctx.items)
    except Lost as e:
        undecided("parse-generated", str(e))
    obs = obligations_of(unit, fns)
    if not obs:
        undecided("no-obligations")
    extracted_fns = {}
    for it in ctx.items:
        if it["kind"] == "fn":
            extracted_fns.setdefault(it["out_name"], []).append(it)

    # 3. verify
    rlimit = meta.get("rlimit_quick", 30) if tier == "quick" else meta.get("rlimit_thorough", 120)
    runs = []
    seeds = [None]
    if tier == "thorough":
        seeds = [None, (seed * 7919 + 1) % 100000, (seed * 104729 + 2) % 100000]
    failed = {}  # obligation id -> list of messages
    undec = []  # (fn, message)
    unknown = []
    canary_failed = set()
    per_fn_time = {}
    verified_counts = []
    for sd in seeds:
        extra = []
        if sd is not None:
            extra = ["-V", "smt.random_seed=%d" % sd] if False else ["--smt-option", "smt.random_seed=%d" % sd]
        r = run_verus(gen, rlimit, extra)
        runs.append(r)
        j = r["json"]
        if j is None or "verification-results" not in j:
            msgs = [d.get("rendered") or d.get("message", "") for d in r["diags"] if d.get("level") == "error"]
            undecided("verus-did-not-verify", "\n".join(msgs + r["other"])[:4000])
        vr = j["verification-results"]
        if vr.get("encountered-vir-error"):
            msgs = [d.get("rendered") or d.get("message", "") for d in r["diags"] if d.get("level") == "error"]
            undecided("unsupported-construct", "\n".join(msgs)[:4000])
        verified_counts.append((vr.get("verified"), vr.get("errors")))
        # per-function smt times
        try:
            for mod in j["times-ms"]["smt"]["smt-run-module-times"]:
                for fb in mod.get("function-breakdown", []):
                    nm = fb.get("function")
                    per_fn_time[nm] = max(per_fn_time.get(nm, 0), fb.get("time-micros", 0))
        except Exception:
            pass
        n_ver_err = 0
        for d in r["diags"]:
            if d.get("level") != "error":
                continue
            msg = d.get("message", "")
            if msg.startswith("aborting due to"):
                continue
            ob, f = attribute(unit, fns, d, text)
            rendered = d.get("rendered", msg)
            if any(k in msg for k in RLIMIT_MSGS):
                undec.append((f.qual if f else "?", msg))
                continue
            if f is not None and f.canary:
                canary_failed.add(f.qual)
                continue
            if d.get("code") is not None or not any(k in msg.lower() for k in [m.lower() for m in VERIF_MSGS]):
                unknown.append(rendered)
                continue
            if ob is None:
                unknown.append(rendered)
                continue
            failed.setdefault(ob, []).append(rendered)
            n_ver_err += 1
    if unknown:
        undecided("unclassified-verifier-message", "\n".join(unknown)[:4000])
    canaries = [f.qual for f in fns if f.canary]
    alive = [c for c in canaries if c not in canary_failed]
    if alive:
        undecided("vacuity-canary-verified", "`ensures false` was provable in: %s — the context is inconsistent" % alive)

    # 4. compare with baseline and known findings
    base_path = os.path.join(VERIF, "units", unit, "baseline_obligations.json")
    kf_path = os.path.join(VERIF, "known_findings.json")
    kf_all = json.load(open(kf_path)) if os.path.exists(kf_path) else {"findings": [], "fixed": []}
    kfs = {k["obligation"]: k for k in kf_all.get("findings", []) if k.get("property") == prop}
    if args.update_baseline:
        good = sorted(o for o in obs if o not in failed)
        json.dump({"unit": unit, "obligations": good, "bounded_hashes": bounded_hashes, "imported_hashes": imported_hashes, "structure": structure}, open(base_path, "w"), indent=1)
        print("baseline written: %d obligations (%d failing, not listed)" % (len(good), len(failed)))
    base_json = json.load(open(base_path)) if os.path.exists(base_path) else {"obligations": []}
    baseline = set(base_json["obligations"])
    # bounded stand-in: run the witness enumerator when one of the bounded-only functions changed, or in the thorough tier
    bounded_info = None
    bounded_hits = []
    bsumm = None
    if bounded.get("functions") or (meta.get("witness") and (tier == "thorough" or witness_defects(prop))):
        changed = sorted(p_ for p_, h_ in bounded_hashes.items() if base_json.get("bounded_hashes", {}).get(p_) != h_)
        ran = False
        bw, bsumm, blog = [], None, "not run: bounded-only functions unchanged since the baseline (quick tier)"
        listed_bounded = witness_defects(prop)  # their KNOWN-FINDING lines must come from an observation on this run
        if (changed or tier == "thorough" or listed_bounded) and os.environ.get("VERIF_NO_WITNESS") != "1" and not args.update_baseline:
            bw, bsumm, blog = run_witness(meta, unit)
            ran = True
        bounded_info = dict(label="BOUNDED (never counted as proved)", statement=bounded.get("statement", "differential test of the public API against an executable transcription of the specification"),
                            bound=bounded.get("bound", meta.get("witness_bound", "see witness/src/bin/%s.rs" % meta.get("witness"))),
                            functions=bounded.get("functions", []), changed_since_baseline=changed, ran=ran, log=blog, summary=bsumm,
                            disagreements=len(bw), samples=bw[:3])
        bounded_hits = bw

    if undec and not failed:
        undecided("resource-limit", "\n".join("%s: %s" % u for u in undec))

    dep_violations = []
    dep_info = None
    base_imp = base_json.get("imported_hashes")
    if base_imp is not None and not args.update_baseline and os.environ.get("VERIF_NO_DEPS") != "1":
        changed_imp = sorted(p_ for p_, h_ in imported_hashes.items() if base_imp.get(p_) not in (None, h_))
        if changed_imp:
            dep_units = sorted(set(imported_unit[p_][0] for p_ in changed_imp))
            names = set(imported_unit[p_][1] for p_ in changed_imp)
            dep_info = dict(changed_imported_functions=changed_imp, rerun_units=dep_units, results={})
            import tempfile, shutil
            for du_ in dep_units:
                tmp_out = tempfile.mkdtemp(prefix="vf_dep.")
                # the proving unit's own bounded enumerator is allowed to run: when the change takes the function out of the
                # verified dialect there (verifier undecided), a failing input it finds on the real code is the verdict
                env = dict(os.environ, VERIF_OUT=tmp_out, VERIF_NO_DEPS="1")
                env.pop("VERIF_NO_WITNESS", None)
                pr = subprocess.run([sys.executable, os.path.join(VERIF, "tools", "verdict.py"), du_, "--tier", "quick"], capture_output=True, text=True, env=env, cwd=VERIF)
                dep_info["results"][du_] = "exit %d" % pr.returncode
                for line in pr.stdout.split("\n"):
                    mm = re.match(r"^VIOLATION property=\S+ replay=(\S+) obligation=(\S+)", line)
                    if mm and (any(re.search(r"(::|\.)%s\." % re.escape(n_), mm.group(2)) for n_ in names)
                               or (".bounded-witness." in mm.group(2) and "(verifier undecided" in line)):
                        keep = os.path.join(OUT, "replay", "dep_" + os.path.basename(mm.group(1)))
                        try:
                            shutil.copy(mm.group(1), keep)
                        except OSError:
                            keep = mm.group(1)
                        mi = re.search(r" input=(\{.*?\}) \(", line)
                        dep_violations.append((mm.group(2), keep, du_, mi.group(1) if mi else None))
                shutil.rmtree(tmp_out, ignore_errors=True)

    missing = sorted(o for o in baseline if o not in obs)
    if missing:
        undecided("baseline-obligation-missing", "obligations on the committed baseline that the generated file no longer contains: %s" % missing[:20])

    violations = []
    known_hit = []
    new_unlisted = []
    if dep_violations:
        # an imported function this unit relies on changed and no longer meets the contract proved by its own unit
        wit, summ, wlog = ([], None, "skipped") if os.environ.get("VERIF_NO_WITNESS") == "1" else run_witness(meta, unit)
        ev_dep = dict(property_id=prop, tier=tier, seed=seed, level="proof",
                      coverage=dict(obligations=len(obs), discharged=len([o for o in obs if o not in failed]), checker_cmd=runs[0]["cmd"], trusted_base=[],
                                    dependency_check=dep_info, evaluations=1, distinct_nontrivial=len(dep_violations)),
                      assumptions=[], wall_s=round(time.time() - t_start, 2), violations=len(dep_violations))
        json.dump(ev_dep, open(ev_path, "w"), indent=1)
        for (ob, rp, du_, dep_input) in dep_violations:
            extra = (" input=%s" % dep_input) if dep_input else ""
            if wit:
                w0 = wit[0]
                extra = " input=%s" % json.dumps({k: v for k, v in w0.items() if k != "witness"})
            print("VIOLATION property=%s replay=%s obligation=%s (function imported from unit %s changed: the contract this unit relies on no longer verifies there, or that unit's bounded enumerator finds a failing input)%s" % (
                prop, rp, ob, du_, extra if extra else " no-failing-input-found"))
        sys.exit(1)
    if dep_info is not None and not dep_violations and os.environ.get("VERIF_NO_WITNESS") != "1" and meta.get("witness") and not failed:
        # the imported functions changed but still meet their contracts (or their unit is undecided): the behaviour this
        # unit sees may still have changed within the contract's slack -> run this unit's bounded enumerator
        wit, summ, wlog = run_witness(meta, unit)
        if wit:
            rp_path = os.path.join(OUT, "replay", "%s.witness.json" % unit)
            json.dump(dict(property=prop, unit=unit, obligation="%s.bounded-witness" % unit, dependency_check=dep_info, witnesses=wit, summary=summ,
                           rerun="./check %s" % unit), open(rp_path, "w"), indent=1)
            w0 = wit[0]
            print("VIOLATION property=%s replay=%s obligation=%s.bounded-witness.%s input=%s (an imported function changed; failing input found by bounded search on the real code)" % (
                prop, rp_path, unit, w0.get("op", "?"), json.dumps({k: v for k, v in w0.items() if k != "witness"})))
            sys.exit(1)
    for ob, msgs in sorted(failed.items()):
        if ob in kfs:
            known_hit.append(ob)
        elif ob in baseline:
            violations.append(ob)
        else:
            new_unlisted.append(ob)
    for ob in known_hit:
        print("KNOWN-FINDING: property=%s %s — %s" % (prop, ob, kfs[ob].get("what", "")))
    for ob, k in kfs.items():
        if ob in obs and ob not in failed:
            print("note: known finding %s no longer fails (obligation discharged)" % ob)

    discharged = [o for o in obs if o not in failed]
    # where each verified function's text comes from (template file of which unit / shared prelude / spec)
    origins = [(m.start(), m.group(1)) for m in re.finditer(r"(?m)^//@@origin (\S+)$", text)]
    def origin_of(pos):
        cur = "units/%s/unit.rs" % unit
        for off, o in origins:
            if off <= pos:
                cur = o
            else:
                break
        mm = re.match(r"units/([^/]+)/", cur)
        return mm.group(1) if mm else cur.split("/")[0]
    by_origin = {}
    for f in fns:
        if f.mode == "spec" or f.external or f.canary or f.body is None:
            continue
        n = len(f.ensures) + len(f.invariants) + 1
        by_origin[origin_of(f.start)] = by_origin.get(origin_of(f.start), 0) + n
    trusted = scan_trusted(text, fns)
    trusted += meta.get("trusted_notes", [])
    samples = []
    for o in sorted(obs)[:0] + [o for o in sorted(obs) if ".ensures." in o][:4]:
        samples.append({"obligation": o, "function": obs[o]["fn"], "clause": re.sub(r"\s+", " ", obs[o]["clause"])[:400]})
    fn_under_contract = []
    for it in ctx.items:
        if it["kind"] == "fn" and not it.get("imported_from"):
            fn_under_contract.append({"path": it["path"], "lines": it["lines"], "sha256": it["sha256"][:16],
                                      "rewrites": [r for r in it["rules"] if r.get("rule") not in ("R-attr", "R-ret")]})
    slow = sorted(per_fn_time.items(), key=lambda kv: -kv[1])[:8]
    counted = [o for o in obs if o not in kfs]
    ev = dict(
        property_id=prop, tier=tier, seed=seed, level="proof",
        coverage=dict(
            obligations=len(counted), discharged=len([o for o in counted if o not in failed]),
            checker_cmd=runs[0]["cmd"], trusted_base=trusted,
            back_end="Verus 0.2026.09.13 (Z3 4.12.5 bundled), single-file mode on text extracted from /repo on this run",
            verus_runs=[dict(cmd=r["cmd"], wall_s=round(r["wall"], 2), verified_fns=vc[0], errors=vc[1]) for r, vc in zip(runs, verified_counts)],
            smt_time_ms=sum(per_fn_time.values()) // 1000,
            slowest_functions_ms=[[k, v // 1000] for k, v in slow],
            functions_under_contract=fn_under_contract,
            functions_under_contract_count=len(fn_under_contract),
            lemma_and_shim_functions=len([f for f in fns if f.mode != "spec" and not f.external and not f.canary]) - len(fn_under_contract),
            extraction=dict(source="/repo working tree", items=len(ctx.items), dropped="attributes (#[...]) only; see per-function rewrites"),
            vacuity=dict(canaries=len(canaries), canaries_failed_as_required=len(canary_failed)),
            samples=samples,
            known_findings=[kfs[o] for o in known_hit],
            undecided_subclaims=meta.get("undecided_subclaims", []),
            bounded=bounded_info,
            baseline_obligations=len(baseline),
            obligations_by_origin=by_origin,
            dependency_check=dep_info,
            imported_functions_watched=len(imported_hashes),
            obligations_note="obligations counts every ensures / loop-invariant / body obligation of the generated file; obligations_by_origin says how many belong to this unit's own files and how many are lemmas of imported units / shared spec files re-checked here",
            failing_obligations=sorted(failed.keys()),
        ),
        assumptions=meta.get("assumptions", []) + ["every entry of coverage.trusted_base"],
        wall_s=round(time.time() - t_start, 2),
        violations=len(violations),
    )
    json.dump(ev, open(ev_path, "w"), indent=1)

    if violations:
        wit, summ, wlog = ([], None, "skipped") if os.environ.get("VERIF_NO_WITNESS") == "1" else run_witness(meta, unit)
        for ob in violations:
            rp_path = os.path.join(OUT, "replay", re.sub(r"[^A-Za-z0-9_.-]", "_", ob) + ".json")
            f = next((f for f in fns if "%s.%s" % (unit, f.qual) == ob.rsplit(".ensures.", 1)[0].rsplit(".invariant.", 1)[0].rsplit(".body", 1)[0]), None)
            src_items = extracted_fns.get(f.name, []) if f else []
            rp = dict(property=prop, unit=unit, obligation=ob, kind=obs.get(ob, {}).get("kind"), clause=obs.get(ob, {}).get("clause"),
                      verifier_output=failed[ob], generated_file=gen,
                      function_text=text[f.start:f.end] if f else None,
                      source=[dict(path=i["path"], lines=i["lines"], sha256=i["sha256"]) for i in src_items],
                      counterexample=None,
                      note="Verus produces no counterexample; this obligation was discharged on the pinned tree and now fails with the verifier message above.",
                      witness_search=wlog, witness_summary=summ,
                      rerun="./check %s" % unit)
            fname = (f.name if f else "")
            mine = [w for w in wit if w.get("op") == fname or fname in w.get("ops_related", [])]
            if mine:
                rp["counterexample"] = mine[:5]
                rp["note"] = "Verus produces no counterexample; the bounded witness search replayed against the real crate found the failing input(s) in `counterexample`."
            json.dump(rp, open(rp_path, "w"), indent=1)
            if mine:
                print("VIOLATION property=%s replay=%s obligation=%s input=%s" % (prop, rp_path, ob, json.dumps({k: v for k, v in mine[0].items() if k != "witness"})))
            else:
                print("VIOLATION property=%s replay=%s obligation=%s no-failing-input-found" % (prop, rp_path, ob))
        if bounded_hits:
            w0 = bounded_hits[0]
            print("VIOLATION property=%s replay=%s obligation=%s.bounded-witness.%s input=%s (bounded enumeration on the real code)" % (prop, rp_path, unit, w0.get("op", "?"), json.dumps({k: v for k, v in w0.items() if k != "witness"})))
        sys.exit(1)
    if bounded_hits:
        bw = bounded_hits
        rp_path = os.path.join(OUT, "replay", "%s.bounded.json" % unit)
        json.dump(dict(property=prop, unit=unit, obligation="%s.bounded-witness" % unit, witnesses=bw, summary=bsumm,
                       note="bounded enumeration against the real crate: the public API disagrees with the executable transcription of the specification on these inputs",
                       rerun="./check %s --tier thorough" % unit), open(rp_path, "w"), indent=1)
        ev["violations"] = len(bw)
        json.dump(ev, open(ev_path, "w"), indent=1)
        w0 = bw[0]
        print("VIOLATION property=%s replay=%s obligation=%s.bounded-witness.%s input=%s (bounded enumeration on the real code)" % (
            prop, rp_path, unit, w0.get("op", "?"), json.dumps({k: v for k, v in w0.items() if k != "witness"})))
        sys.exit(1)
    if new_unlisted:
        undecided("obligation-not-on-baseline-fails", "\n".join("%s: %s" % (o, failed[o][0][:300]) for o in new_unlisted))
    print("OK property=%s unit=%s obligations=%d discharged=%d known_findings=%d fns_under_contract=%d wall=%.1fs" % (
        prop, unit, len(counted), len([o for o in counted if o not in failed]), len(known_hit), len(fn_under_contract), time.time() - t_start))
    sys.exit(0)


if __name__ == "__main__":
    main()
