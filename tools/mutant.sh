#!/bin/bash
# tools/mutant.sh <unit> <file-relative-to-repo> <python-regex-from> <to>   (development aid, not a registered command)
# Copies /repo/lib to a scratch dir, applies one textual edit, runs the unit's check against the copy.
set -e
unit=$1; file=$2; from=$3; to=$4
d=$(mktemp -d /tmp/vfmut.XXXX)
mkdir -p $d/repo $d/out
base=${VERIF_BASE:-/repo}; cp -r $base/lib $d/repo/lib; cp $base/Cargo.toml $base/Cargo.lock $d/repo/ 2>/dev/null
python3 - "$d/repo/$file" "$from" "$to" <<'PY'
import sys,re
p,frm,to=sys.argv[1:4]
s=open(p).read()
n=len(re.findall(frm,s))
if n!=1:
    print("mutant pattern matched %d times"%n); sys.exit(3)
open(p,'w').write(re.sub(frm,to,s,count=1))
PY
set +e
VERIF_REPO=$d/repo VERIF_OUT=$d/out /verif/check $unit 2>&1 | grep -E "^(VIOLATION|OK|UNDECIDED|KNOWN)" | head -5
rc=${PIPESTATUS[0]}
rm -rf $d
exit $rc
