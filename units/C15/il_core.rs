// ======================================================================================
// units/C15/il_core.rs - falcon::il core: the REAL type definitions (extracted), the
// graph::Vertex / graph::Edge impls for Block / Edge, the data invariants `block_wf`, `cfg_wf`,
// `function_wf`, `program_wf`, and the contracts of the read-only accessors.
// To be included inside `pub mod il { use super::*; ... }`; see units/C15/PHASE1_DONE.
// The heavy editing proofs (new_block, append, insert, merge, ...) are NOT in this file
// (units/C15/block_edit.rs, units/C15/cfg_edit.rs).
// ======================================================================================

// ---- il::{Constant, Scalar, Expression} (types, spec vocabulary, contracts proved by unit C04) are
// pulled in at the END of this file (the `//@ mode` switch must come last so that a unit which
// includes this file under `//@ mode contracts-only C15` keeps that mode for everything above it).

// ---- the remaining il types are the REAL ones (extracted; attributes dropped, fields made pub)
//@ source lib/il/intrinsic.rs
//@ item struct Intrinsic
//@ source lib/il/operation.rs
//@ item enum Operation
//@ source lib/il/instruction.rs
//@ item struct Instruction
//@ source lib/il/phi_node.rs
//@ item struct PhiNode
//@ source lib/il/block.rs
//@ item struct Block
//@ source lib/il/edge.rs
//@ item struct Edge
//@ source lib/il/control_flow_graph.rs
//@ item struct ControlFlowGraph
//@ source lib/il/function.rs
//@ item struct Function
//@ source lib/il/program.rs
//@ item struct Program

// ---- derive(Clone) / derive(PartialEq) re-supplied.  ASSUMED (listed in the trusted base):
// the compiler-generated impls are a structural copy / structural equality, i.e. the clone is
// indistinguishable from the original for every spec function (`r == *self`) and `==` decides
// spec equality.  Containers (Vec, BTreeMap, String, Box, Rc) are treated as the mathematical
// values they hold.
impl Clone for Intrinsic {
    #[verifier::external_body]
    fn clone(&self) -> (r: Intrinsic) ensures r == *self { unimplemented!() }
}
impl Clone for Operation {
    #[verifier::external_body]
    fn clone(&self) -> (r: Operation) ensures r == *self { unimplemented!() }
}
impl Clone for Instruction {
    #[verifier::external_body]
    fn clone(&self) -> (r: Instruction) ensures r == *self { unimplemented!() }
}
impl Clone for PhiNode {
    #[verifier::external_body]
    fn clone(&self) -> (r: PhiNode) ensures r == *self { unimplemented!() }
}
impl Clone for Block {
    #[verifier::external_body]
    fn clone(&self) -> (r: Block) ensures r == *self { unimplemented!() }
}
impl Clone for Edge {
    #[verifier::external_body]
    fn clone(&self) -> (r: Edge) ensures r == *self { unimplemented!() }
}
impl Clone for ControlFlowGraph {
    #[verifier::external_body]
    fn clone(&self) -> (r: ControlFlowGraph) ensures r == *self { unimplemented!() }
}
impl Clone for Function {
    #[verifier::external_body]
    fn clone(&self) -> (r: Function) ensures r == *self { unimplemented!() }
}
impl Clone for Program {
    #[verifier::external_body]
    fn clone(&self) -> (r: Program) ensures r == *self { unimplemented!() }
}

impl vstd::std_specs::cmp::PartialEqSpecImpl for Operation {
    open spec fn obeys_eq_spec() -> bool { true }
    open spec fn eq_spec(&self, other: &Operation) -> bool { *self == *other }
}
impl PartialEq for Operation {
    #[verifier::external_body]
    fn eq(&self, other: &Operation) -> (r: bool) ensures r == (*self == *other) { unimplemented!() }
}
impl vstd::std_specs::cmp::PartialEqSpecImpl for Instruction {
    open spec fn obeys_eq_spec() -> bool { true }
    open spec fn eq_spec(&self, other: &Instruction) -> bool { *self == *other }
}
impl PartialEq for Instruction {
    #[verifier::external_body]
    fn eq(&self, other: &Instruction) -> (r: bool) ensures r == (*self == *other) { unimplemented!() }
}
impl vstd::std_specs::cmp::PartialEqSpecImpl for Block {
    open spec fn obeys_eq_spec() -> bool { true }
    open spec fn eq_spec(&self, other: &Block) -> bool { *self == *other }
}
impl PartialEq for Block {
    #[verifier::external_body]
    fn eq(&self, other: &Block) -> (r: bool) ensures r == (*self == *other) { unimplemented!() }
}
impl vstd::std_specs::cmp::PartialEqSpecImpl for Edge {
    open spec fn obeys_eq_spec() -> bool { true }
    open spec fn eq_spec(&self, other: &Edge) -> bool { *self == *other }
}
impl PartialEq for Edge {
    #[verifier::external_body]
    fn eq(&self, other: &Edge) -> (r: bool) ensures r == (*self == *other) { unimplemented!() }
}
impl vstd::std_specs::cmp::PartialEqSpecImpl for ControlFlowGraph {
    open spec fn obeys_eq_spec() -> bool { true }
    open spec fn eq_spec(&self, other: &ControlFlowGraph) -> bool { *self == *other }
}
impl PartialEq for ControlFlowGraph {
    #[verifier::external_body]
    fn eq(&self, other: &ControlFlowGraph) -> (r: bool) ensures r == (*self == *other) { unimplemented!() }
}
impl vstd::std_specs::cmp::PartialEqSpecImpl for Function {
    open spec fn obeys_eq_spec() -> bool { true }
    open spec fn eq_spec(&self, other: &Function) -> bool { *self == *other }
}
impl PartialEq for Function {
    #[verifier::external_body]
    fn eq(&self, other: &Function) -> (r: bool) ensures r == (*self == *other) { unimplemented!() }
}

// ---- `impl fmt::Display` for Block / Expression: needed only as trait bounds of the `format!`
// calls in dot_label (graphviz text).  Opaque, NO contract: the produced text is never inspected by
// verified code.  (The formatting code itself is not verified.)
impl vstd::std_specs::fmt::DisplaySpecImpl for Block {
    open spec fn fmt_req(&self, f: &std::fmt::Formatter<'_>) -> bool { true }
}
impl vstd::std_specs::fmt::DisplaySpecImpl for Expression {
    open spec fn fmt_req(&self, f: &std::fmt::Formatter<'_>) -> bool { true }
}
impl std::fmt::Display for Block {
    #[verifier::external_body]
    fn fmt(&self, f: &mut std::fmt::Formatter<'_>) -> std::fmt::Result { unimplemented!() }
}
impl std::fmt::Display for Expression {
    #[verifier::external_body]
    fn fmt(&self, f: &mut std::fmt::Formatter<'_>) -> std::fmt::Result { unimplemented!() }
}

// ---- Block is a graph vertex, Edge is a graph edge (the trait contracts are C11's)
impl graph::Vertex for Block {
    open spec fn index_spec(&self) -> usize { self.index }
    proof fn lemma_clone_index(a: &Self, b: &Self) {}
//@ fn lib/il/block.rs :: impl graph::Vertex for Block :: fn index nopub
//@ end
//@ fn lib/il/block.rs :: impl graph::Vertex for Block :: fn dot_label nopub
//@ rewrite 1 `format!("{}", self)` => `format!("{}", *self)` ## R-display-deref: `impl Display for &T` forwards to `T::fmt`, so formatting `self: &Block` and `*self` produce the same text (vstd models formatting of a value, not of a reference to a user type)
//@ end
}

impl graph::Edge for Edge {
    open spec fn head_spec(&self) -> usize { self.head }
    open spec fn tail_spec(&self) -> usize { self.tail }
    proof fn lemma_clone_ends(a: &Self, b: &Self) {}
//@ fn lib/il/edge.rs :: impl graph::Edge for Edge :: fn head nopub
//@ end
//@ fn lib/il/edge.rs :: impl graph::Edge for Edge :: fn tail nopub
//@ end
//@ fn lib/il/edge.rs :: impl graph::Edge for Edge :: fn dot_label nopub
//@ rewrite 1 `format!("{}", condition)` => `format!("{}", *condition)` ## R-display-deref: `impl Display for &T` forwards to `T::fmt`, so formatting `condition: &Expression` and `*condition` produce the same text
//@ end
}

// ---------------------------------------------------------------------------------------------
// data invariants

impl Block {
    /// data invariant of il::Block: instruction indices are pairwise distinct and all below the
    /// block's counter `next_instruction_index` (so a fresh index is really fresh); the counter
    /// has been bumped at least once per stored instruction.
    pub open spec fn block_wf(&self) -> bool {
        &&& forall|i: int, j: int| 0 <= i < j < self.instructions@.len() ==>
                (#[trigger] self.instructions@[i]).index != (#[trigger] self.instructions@[j]).index
        &&& forall|i: int| 0 <= i < self.instructions@.len() ==> (#[trigger] self.instructions@[i]).index < self.next_instruction_index
        &&& self.instructions@.len() <= self.next_instruction_index
    }

    /// the block holds an instruction with this index
    pub open spec fn has_instruction(&self, index: usize) -> bool {
        exists|i: int| 0 <= i < self.instructions@.len() && (#[trigger] self.instructions@[i]).index == index
    }
}

pub open spec fn block_wf(b: Block) -> bool { b.block_wf() }

impl ControlFlowGraph {
    /// the blocks, by index
    pub open spec fn blocks_view(&self) -> Map<usize, Block> { self.graph.vertices@ }

    /// the edges, by (head, tail)
    pub open spec fn edges_view(&self) -> Map<(usize, usize), Edge> { self.graph.edges@ }

    pub open spec fn has_block(&self, k: usize) -> bool { self.graph.vertices@.contains_key(k) }

    pub open spec fn has_edge(&self, h: usize, t: usize) -> bool { self.graph.edges@.contains_key((h, t)) }

    /// data invariant of il::ControlFlowGraph:
    ///  * the inner graph satisfies C11's `graph_wf` (every edge joins existing blocks, successor /
    ///    predecessor sets agree with the edge set, blocks / edges are stored under their own index / ends),
    ///  * entry and exit, when set, name existing blocks,
    ///  * `next_index` is above every block index (a fresh block index is really fresh),
    ///  * every block satisfies `block_wf` and is stored under its own index.
    pub open spec fn cfg_wf(&self) -> bool {
        &&& self.graph.graph_wf()
        &&& (self.entry matches Some(e) ==> self.graph.vertices@.contains_key(e))
        &&& (self.exit matches Some(e) ==> self.graph.vertices@.contains_key(e))
        &&& forall|k: usize| #![trigger self.graph.vertices@.contains_key(k)] self.graph.vertices@.contains_key(k) ==> k < self.next_index
        &&& forall|k: usize| #![trigger self.graph.vertices@[k]] self.graph.vertices@.contains_key(k) ==>
                self.graph.vertices@[k].block_wf() && self.graph.vertices@[k].index == k
    }
}

pub open spec fn cfg_wf(cfg: ControlFlowGraph) -> bool { cfg.cfg_wf() }

impl Function {
    pub open spec fn function_wf(&self) -> bool { self.control_flow_graph.cfg_wf() }
}

pub open spec fn function_wf(f: Function) -> bool { f.function_wf() }

impl Program {
    /// every function is well formed, stored under its own index, and `next_index` is above every function index
    pub open spec fn program_wf(&self) -> bool {
        &&& forall|k: usize| #![trigger self.functions@[k]] self.functions@.contains_key(k) ==>
                (*self.functions@[k]).function_wf() && (*self.functions@[k]).index == Some(k)
        &&& forall|k: usize| #![trigger self.functions@.contains_key(k)] self.functions@.contains_key(k) ==> k < self.next_index
    }
}

pub open spec fn program_wf(p: Program) -> bool { p.program_wf() }

impl Program {
    /// `f` is (the value of) one of the stored functions.  Opaque: the hidden existential would
    /// otherwise form a matching loop with the completeness half of `lists_functions`;
    /// `reveal(Program::holds_function)` where the key is needed.
    #[verifier::opaque]
    pub open spec fn holds_function(&self, f: Function) -> bool {
        exists|k: usize| #![trigger self.functions@.contains_key(k)] self.functions@.contains_key(k) && *self.functions@[k] == f
    }

    /// `fs` lists exactly the stored functions (every listed item is stored, every stored function is listed)
    pub open spec fn lists_functions(&self, fs: Seq<&Function>) -> bool {
        &&& forall|i: int| 0 <= i < fs.len() ==> self.holds_function(*#[trigger] fs[i])
        &&& forall|k: usize| #![trigger self.functions@.contains_key(k)] self.functions@.contains_key(k) ==>
                exists|i: int| 0 <= i < fs.len() && *#[trigger] fs[i] == *self.functions@[k]
    }

    /// no stored function has this address
    pub open spec fn no_function_at(&self, address: u64) -> bool {
        forall|k: usize| #![trigger self.functions@.contains_key(k)] self.functions@.contains_key(k) ==> (*self.functions@[k]).address != address
    }

    pub proof fn lemma_holds_function(&self, k: usize)
        requires self.functions@.contains_key(k),
        ensures self.holds_function(*self.functions@[k]),
    {
        reveal(Program::holds_function);
    }

    pub proof fn lemma_lists_functions(&self, v: Seq<&Function>, s: Seq<(&usize, &RC<Function>)>)
        requires
            graph::seq_lists_map(s, self.functions@), v.len() <= s.len(),
            forall|i: int| 0 <= i < v.len() ==> *#[trigger] v[i] == **s[i].1,
        ensures v.len() == s.len() ==> v.len() == self.functions@.dom().len() && self.lists_functions(v),
    {
        if v.len() != s.len() { return; }
        graph::lemma_seq_lists_map(s, self.functions@);
        assert forall|i: int| 0 <= i < v.len() implies self.holds_function(*#[trigger] v[i]) by {
            assert(self.functions@.contains_pair(*s[i].0, *s[i].1));
            self.lemma_holds_function(*s[i].0);
        }
        assert forall|k: usize| #![trigger self.functions@.contains_key(k)] self.functions@.contains_key(k) implies
            exists|i: int| 0 <= i < v.len() && *#[trigger] v[i] == *self.functions@[k] by {
            let i = choose|i: int| 0 <= i < s.len() && *(#[trigger] s[i]).0 == k;
            assert(self.functions@.contains_pair(*s[i].0, *s[i].1));
            assert(*v[i] == *self.functions@[k]);
        }
    }

    pub proof fn lemma_no_function_at(&self, s: Seq<(&usize, &RC<Function>)>, n: int, address: u64)
        requires
            graph::seq_lists_map(s, self.functions@), 0 <= n <= s.len(),
            forall|i: int| 0 <= i < n ==> (**(#[trigger] s[i]).1).address != address,
        ensures n == s.len() ==> self.no_function_at(address),
    {
        if n != s.len() { return; }
        graph::lemma_seq_lists_map(s, self.functions@);
        assert forall|k: usize| #![trigger self.functions@.contains_key(k)] self.functions@.contains_key(k) implies (*self.functions@[k]).address != address by {
            let i = choose|i: int| 0 <= i < s.len() && *(#[trigger] s[i]).0 == k;
            assert(self.functions@.contains_pair(*s[i].0, *s[i].1));
        }
    }
}

// ---------------------------------------------------------------------------------------------
// read-only accessors

impl Instruction {
//@ source lib/il/instruction.rs
//@ fn impl Instruction :: fn index
//@ spec
    ensures /*@field*/ r == self.index,
//@ end
//@ fn impl Instruction :: fn operation
//@ spec
    ensures /*@field*/ *r == self.operation,
//@ end
//@ fn impl Instruction :: fn address
//@ spec
    ensures /*@field*/ r == self.address,
//@ end
}

impl Edge {
//@ source lib/il/edge.rs
//@ fn impl Edge :: fn head
//@ spec
    ensures /*@field*/ r == self.head,
//@ end
//@ fn impl Edge :: fn tail
//@ spec
    ensures /*@field*/ r == self.tail,
//@ end
//@ fn impl Edge :: fn condition
//@ spec
    ensures
        /*@some*/ (r is Some) == (self.condition is Some),
        /*@value*/ r matches Some(c) ==> *c == self.condition->0,
//@ end
}

impl Block {
//@ source lib/il/block.rs
//@ fn impl Block :: fn index
//@ spec
    ensures /*@field*/ r == self.index,
//@ end
//@ fn impl Block :: fn instructions
//@ spec
    ensures /*@field*/ *r == self.instructions,
//@ end
//@ fn impl Block :: fn is_empty
//@ spec
    ensures /*@iff*/ r == (self.instructions@.len() == 0),
//@ end
//@ fn impl Block :: fn phi_nodes
//@ spec
    ensures /*@field*/ *r == self.phi_nodes,
//@ end
//@ fn impl Block :: fn address
//@ spec
    ensures
        /*@empty*/ self.instructions@.len() == 0 ==> r is None,
        /*@first*/ self.instructions@.len() > 0 ==> r == self.instructions@[0].address,
//@ closure 0 |instruction: &Instruction| -> (r0: Option<u64>)
    ensures r0 == instruction.address,
//@ end
//@ fn impl Block :: fn instruction loops=1
//@ rewrite 1 `self.instructions .iter() .find(|instruction|` => `for instruction in it: self.instructions.iter() { if` ## R-find: `ITER.find(|x| P)` is by definition the loop that returns `Some(x)` for the first item satisfying P and `None` when the iterator is exhausted (part 1 of 2; the iterator expression and P stay the original tokens)
//@ rewrite 1 `== index)` => `== index { return Some(instruction); } } None` ## R-find: part 2 of 2
//@ spec
    ensures
        /*@found*/ r matches Some(ins) ==> ins.index == index && (exists|i: int| 0 <= i < self.instructions@.len() && #[trigger] self.instructions@[i] == *ins
            && forall|j: int| 0 <= j < i ==> (#[trigger] self.instructions@[j]).index != index),
        /*@missing*/ r is None ==> !self.has_instruction(index),
//@ loop 0
    invariant
        it.seq().len() == self.instructions@.len(),
        forall|j: int| 0 <= j < it.seq().len() ==> *#[trigger] it.seq()[j] == self.instructions@[j],
        forall|j: int| 0 <= j < it.index@ ==> (#[trigger] self.instructions@[j]).index != index,
//@ end
}

impl ControlFlowGraph {
//@ source lib/il/control_flow_graph.rs
//@ fn impl ControlFlowGraph :: fn graph
//@ spec
    ensures /*@field*/ *r == self.graph,
//@ end
//@ fn impl ControlFlowGraph :: fn entry
//@ spec
    ensures /*@field*/ r == self.entry,
//@ end
//@ fn impl ControlFlowGraph :: fn exit
//@ spec
    ensures /*@field*/ r == self.exit,
//@ end
//@ fn impl ControlFlowGraph :: fn block
//@ spec
    ensures
        /*@found*/ self.has_block(index) ==> r == Ok::<&Block, Error>(&self.graph.vertices@[index]),
        /*@missing*/ !self.has_block(index) ==> r == Err::<&Block, Error>(Error::GraphVertexNotFound(index)),
//@ end
//@ fn impl ControlFlowGraph :: fn blocks
//@ spec
    requires self.graph.graph_wf(),
    ensures /*@list*/ r@.len() == self.graph.vertices@.dom().len() && self.graph.lists_vertices(r@, |k: usize| true),
//@ end
//@ fn impl ControlFlowGraph :: fn edge
//@ spec
    ensures
        /*@found*/ self.has_edge(head, tail) ==> r == Ok::<&Edge, Error>(&self.graph.edges@[(head, tail)]),
        /*@missing*/ !self.has_edge(head, tail) ==> r == Err::<&Edge, Error>(Error::GraphEdgeNotFound(head, tail)),
//@ end
//@ fn impl ControlFlowGraph :: fn edges
//@ spec
    requires self.graph.graph_wf(),
    ensures /*@list*/ r@.len() == self.graph.edges@.dom().len() && self.graph.lists_edges(r@, |k: (usize, usize)| true),
//@ end
//@ fn impl ControlFlowGraph :: fn edges_in
//@ spec
    requires self.graph.graph_wf(),
    ensures
        /*@missing*/ !self.has_block(index) ==> r == Err::<Vec<&Edge>, Error>(Error::GraphVertexNotFound(index)),
        /*@ok*/ self.has_block(index) ==> r is Ok,
        /*@list*/ r matches Ok(es) ==> es@.len() == self.graph.predecessors@[index]@.len()
            && self.graph.lists_edges(es@, |k: (usize, usize)| k.1 == index),
//@ end
//@ fn impl ControlFlowGraph :: fn edges_out
//@ spec
    requires self.graph.graph_wf(),
    ensures
        /*@missing*/ !self.has_block(index) ==> r == Err::<Vec<&Edge>, Error>(Error::GraphVertexNotFound(index)),
        /*@ok*/ self.has_block(index) ==> r is Ok,
        /*@list*/ r matches Ok(es) ==> es@.len() == self.graph.successors@[index]@.len()
            && self.graph.lists_edges(es@, |k: (usize, usize)| k.0 == index),
//@ end
//@ fn impl ControlFlowGraph :: fn predecessor_indices
//@ spec
    requires self.graph.graph_wf(),
    ensures
        /*@missing*/ !self.has_block(index) ==> r == Err::<Vec<usize>, Error>(Error::GraphVertexNotFound(index)),
        /*@ok*/ self.has_block(index) ==> r is Ok,
        /*@list*/ r matches Ok(v) ==> graph::seq_lists_set(v@, self.graph.predecessors@[index]@) && v@.to_set() == self.graph.predecessors@[index]@,
        /*@edges*/ r matches Ok(v) ==> forall|p: usize| #![trigger v@.contains(p)] v@.contains(p) <==> self.has_edge(p, index),
//@ end
//@ fn impl ControlFlowGraph :: fn successor_indices
//@ spec
    requires self.graph.graph_wf(),
    ensures
        /*@missing*/ !self.has_block(index) ==> r == Err::<Vec<usize>, Error>(Error::GraphVertexNotFound(index)),
        /*@ok*/ self.has_block(index) ==> r is Ok,
        /*@list*/ r matches Ok(v) ==> graph::seq_lists_set(v@, self.graph.successors@[index]@) && v@.to_set() == self.graph.successors@[index]@,
        /*@edges*/ r matches Ok(v) ==> forall|s: usize| #![trigger v@.contains(s)] v@.contains(s) <==> self.has_edge(index, s),
//@ end
}

impl Function {
//@ source lib/il/function.rs
//@ fn impl Function :: fn address
//@ spec
    ensures /*@field*/ r == self.address,
//@ end
//@ fn impl Function :: fn block
//@ spec
    ensures
        /*@found*/ self.control_flow_graph.has_block(index) ==> r == Ok::<&Block, Error>(&self.control_flow_graph.graph.vertices@[index]),
        /*@missing*/ !self.control_flow_graph.has_block(index) ==> r == Err::<&Block, Error>(Error::GraphVertexNotFound(index)),
//@ end
//@ fn impl Function :: fn blocks
//@ spec
    requires self.control_flow_graph.graph.graph_wf(),
    ensures /*@list*/ r@.len() == self.control_flow_graph.graph.vertices@.dom().len() && self.control_flow_graph.graph.lists_vertices(r@, |k: usize| true),
//@ end
//@ fn impl Function :: fn edge
//@ spec
    ensures
        /*@found*/ self.control_flow_graph.has_edge(head, tail) ==> r == Ok::<&Edge, Error>(&self.control_flow_graph.graph.edges@[(head, tail)]),
        /*@missing*/ !self.control_flow_graph.has_edge(head, tail) ==> r == Err::<&Edge, Error>(Error::GraphEdgeNotFound(head, tail)),
//@ end
//@ fn impl Function :: fn edges
//@ spec
    requires self.control_flow_graph.graph.graph_wf(),
    ensures /*@list*/ r@.len() == self.control_flow_graph.graph.edges@.dom().len() && self.control_flow_graph.graph.lists_edges(r@, |k: (usize, usize)| true),
//@ end
//@ fn impl Function :: fn control_flow_graph
//@ spec
    ensures /*@field*/ *r == self.control_flow_graph,
//@ end
//@ fn impl Function :: fn index
//@ spec
    ensures /*@field*/ r == self.index,
//@ end
//@ fn impl Function :: fn name
//@ end
}

impl Program {
//@ source lib/il/program.rs
//@ fn impl Program :: fn function
//@ spec
    ensures
        /*@found*/ self.functions@.contains_key(index) ==> r == Some(&*self.functions@[index]),
        /*@missing*/ !self.functions@.contains_key(index) ==> r is None,
//@ closure 0 |f: &RC<Function>| -> (r0: &Function)
    ensures *r0 == **f,
//@ end
//@ fn impl Program :: fn functions loops=1
//@ rewrite 1 `for f in &self.functions {` => `for f in it: &self.functions {` ## R-ghost-iter-name: names the ghost iterator of the for loop so that invariants can mention it; no executable change
//@ rewrite 1 `let mut v = Vec::new();` => `let mut v: Vec<&Function> = Vec::new();` ## R-type-annot: writes down the element type rustc infers for `v` (the function returns it as `Vec<&Function>`); needed because the invariant mentions `v` before the first `push`
//@ spec
    ensures
        /*@len*/ r@.len() == self.functions@.dom().len(),
        /*@list*/ self.lists_functions(r@),
//@ loop 0
    invariant
        graph::seq_lists_map(it.seq(), self.functions@),
        v@.len() == it.index@,
        forall|i: int| 0 <= i < it.index@ ==> *#[trigger] v@[i] == **it.seq()[i].1,
        it.index@ == it.seq().len() ==> v@.len() == self.functions@.dom().len() && self.lists_functions(v@),
//@ after 0 `v.push(f);`
    proof { self.lemma_lists_functions(v@, it.seq()); }
//@ end
//@ fn impl Program :: fn function_by_address loops=1
//@ rewrite 1 `for function in &self.functions {` => `for function in it: &self.functions {` ## R-ghost-iter-name: names the ghost iterator of the for loop so that invariants can mention it; no executable change
//@ spec
    ensures
        /*@found*/ r matches Some(f) ==> f.address == address && self.holds_function(*f),
        /*@missing*/ r is None ==> self.no_function_at(address),
//@ loop 0
    invariant
        graph::seq_lists_map(it.seq(), self.functions@),
        forall|i: int| 0 <= i < it.index@ ==> (**(#[trigger] it.seq()[i]).1).address != address,
        it.index@ == it.seq().len() ==> self.no_function_at(address),
//@ before 0 `return Some(function.1)`
    proof {
        assert(self.functions@.contains_pair(*function.0, *function.1));
        self.lemma_holds_function(*function.0);
    }
//@ after 0 `return Some(function.1); }`
    proof { self.lemma_no_function_at(it.seq(), it.index@ + 1, address); }
//@ end
}

// ---- il::{Constant, Scalar, Expression}: types, spec vocabulary and contracts proved by unit C04.
// KEEP THIS LAST (see the note at the top).
//@ mode contracts-only C04
//@ include units/C04/constant.rs
//@ include units/C04/expression.rs
//@ mode full
