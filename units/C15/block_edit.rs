// ======================================================================================
// units/C15/block_edit.rs - construction / editing operations of il::Operation, il::Instruction
// and il::Block.  Included inside `pub mod il` after units/C15/il_core.rs.
// Every Block edit: `requires old(self).block_wf()` (+ a counter bound where the code bumps the
// instruction counter), `ensures final(self).block_wf()` + the exact effect on every field.
// ======================================================================================

// ---- spec vocabulary --------------------------------------------------------------------------

/// the instruction `Block::<op>()` appends: fresh index, no comment, no address
pub open spec fn mk_instruction(index: usize, operation: Operation) -> Instruction {
    Instruction { operation, index, comment: None, address: None }
}

/// `i` with its index replaced
pub open spec fn reindexed(i: Instruction, index: usize) -> Instruction {
    Instruction { operation: i.operation, index, comment: i.comment, address: i.address }
}

impl Block {
    /// `self` is `old` with one more instruction holding `operation` under the fresh index
    /// `old.next_instruction_index`; nothing else changed.
    pub open spec fn pushed_op(&self, old: Block, operation: Operation) -> bool {
        &&& self.index == old.index
        &&& self.phi_nodes == old.phi_nodes
        &&& self.next_instruction_index == old.next_instruction_index + 1
        &&& self.instructions@ == old.instructions@.push(mk_instruction(old.next_instruction_index, operation))
    }

    /// `self` is `old` followed by the instructions of `other`, re-indexed with consecutive fresh
    /// indices starting at `old.next_instruction_index`; nothing else changed.
    pub open spec fn appended(&self, old: Block, other: Block) -> bool {
        &&& self.index == old.index
        &&& self.phi_nodes == old.phi_nodes
        &&& self.next_instruction_index == old.next_instruction_index + other.instructions@.len()
        &&& self.instructions@.len() == old.instructions@.len() + other.instructions@.len()
        &&& forall|i: int| 0 <= i < old.instructions@.len() ==> #[trigger] self.instructions@[i] == old.instructions@[i]
        &&& forall|j: int| 0 <= j < other.instructions@.len() ==>
                #[trigger] self.instructions@[old.instructions@.len() + j] == reindexed(other.instructions@[j], (old.next_instruction_index + j) as usize)
    }

    /// pushing a fresh index keeps the invariant
    pub proof fn lemma_push_fresh_wf(old: Block, new: Block, ins: Instruction)
        requires
            old.block_wf(),
            ins.index == old.next_instruction_index,
            new.next_instruction_index == old.next_instruction_index + 1,
            new.instructions@ == old.instructions@.push(ins),
        ensures new.block_wf(),
    {
        assert forall|i: int, j: int| 0 <= i < j < new.instructions@.len() implies
            (#[trigger] new.instructions@[i]).index != (#[trigger] new.instructions@[j]).index by {
            assert(new.instructions@[i] == old.instructions@[i]);
            if j < old.instructions@.len() {
                assert(new.instructions@[j] == old.instructions@[j]);
            }
        }
        assert forall|i: int| 0 <= i < new.instructions@.len() implies (#[trigger] new.instructions@[i]).index < new.next_instruction_index by {
            if i < old.instructions@.len() {
                assert(new.instructions@[i] == old.instructions@[i]);
            }
        }
    }
}

// ---- il::Operation constructors -----------------------------------------------------------------
impl Operation {
//@ source lib/il/operation.rs
//@ fn impl Operation :: fn assign
//@ spec
    ensures /*@ctor*/ r == (Operation::Assign { dst, src }),
//@ end
//@ fn impl Operation :: fn store
//@ spec
    ensures /*@ctor*/ r == (Operation::Store { index, src }),
//@ end
//@ fn impl Operation :: fn load
//@ spec
    ensures /*@ctor*/ r == (Operation::Load { dst, index }),
//@ end
//@ fn impl Operation :: fn branch
//@ spec
    ensures /*@ctor*/ r == (Operation::Branch { target }),
//@ end
//@ fn impl Operation :: fn intrinsic
//@ spec
    ensures /*@ctor*/ r == (Operation::Intrinsic { intrinsic }),
//@ end
//@ fn impl Operation :: fn nop
//@ spec
    ensures /*@ctor*/ r == (Operation::Nop { placeholder: None }),
//@ end
//@ fn impl Operation :: fn placeholder
//@ spec
    ensures /*@ctor*/ r == (Operation::Nop { placeholder: Some(Box::new(operation)) }),
//@ end
}

// ---- il::Instruction constructors ---------------------------------------------------------------
impl Instruction {
//@ source lib/il/instruction.rs
//@ fn impl Instruction :: fn new
//@ spec
    ensures /*@ctor*/ r == mk_instruction(index, operation),
//@ end
//@ fn impl Instruction :: fn assign
//@ spec
    ensures /*@ctor*/ r == mk_instruction(index, Operation::Assign { dst, src }),
//@ end
//@ fn impl Instruction :: fn store
//@ spec
    ensures /*@ctor*/ r == mk_instruction(instruction_index, Operation::Store { index, src }),
//@ end
//@ fn impl Instruction :: fn load
//@ spec
    ensures /*@ctor*/ r == mk_instruction(instruction_index, Operation::Load { dst, index }),
//@ end
//@ fn impl Instruction :: fn branch
//@ spec
    ensures /*@ctor*/ r == mk_instruction(index, Operation::Branch { target }),
//@ end
//@ fn impl Instruction :: fn intrinsic
//@ spec
    ensures /*@ctor*/ r == mk_instruction(index, Operation::Intrinsic { intrinsic }),
//@ end
//@ fn impl Instruction :: fn nop
//@ spec
    ensures /*@ctor*/ r == mk_instruction(index, Operation::Nop { placeholder: None }),
//@ end
//@ fn impl Instruction :: fn placeholder
//@ spec
    ensures /*@ctor*/ r == mk_instruction(index, Operation::Nop { placeholder: Some(Box::new(operation)) }),
//@ end
//@ fn impl Instruction :: fn clone_new_index
//@ spec
    ensures /*@reindexed*/ r == reindexed(*self, index),
//@ end
//@ fn impl Instruction :: fn set_address
//@ spec
    ensures /*@effect*/ *final(self) == (Instruction { operation: old(self).operation, index: old(self).index, comment: old(self).comment, address }),
//@ end
}

// ---- il::Block construction and editing ----------------------------------------------------------
impl Block {
//@ source lib/il/block.rs
//@ fn impl Block :: fn new
//@ spec
    ensures
        /*@wf*/ r.block_wf(),
        /*@fields*/ r.index == index && r.next_instruction_index == 0 && r.instructions@ == Seq::<Instruction>::empty() && r.phi_nodes@ == Seq::<PhiNode>::empty(),
//@ end

//@ fn impl Block :: fn new_instruction_index
//@ spec
    requires old(self).next_instruction_index < usize::MAX,
    ensures
        /*@fresh*/ r == old(self).next_instruction_index,
        /*@bump*/ final(self).next_instruction_index == old(self).next_instruction_index + 1,
        /*@frame*/ final(self).index == old(self).index && final(self).instructions == old(self).instructions && final(self).phi_nodes == old(self).phi_nodes,
//@ end

//@ fn impl Block :: fn push
//@ spec
    ensures
        /*@pushed*/ final(self).instructions@ == old(self).instructions@.push(instruction),
        /*@frame*/ final(self).index == old(self).index && final(self).next_instruction_index == old(self).next_instruction_index && final(self).phi_nodes == old(self).phi_nodes,
//@ end

//@ fn impl Block :: fn assign
//@ spec
    requires old(self).block_wf(), old(self).next_instruction_index < usize::MAX,
    ensures
        /*@wf*/ final(self).block_wf(),
        /*@effect*/ final(self).pushed_op(*old(self), Operation::Assign { dst, src }),
//@ after 0 `self.push(Instruction::assign(index, dst, src));`
    proof { Block::lemma_push_fresh_wf(*old(self), *self, self.instructions@.last()); }
//@ end

//@ fn impl Block :: fn store
//@ spec
    requires old(self).block_wf(), old(self).next_instruction_index < usize::MAX,
    ensures
        /*@wf*/ final(self).block_wf(),
        /*@effect*/ final(self).pushed_op(*old(self), Operation::Store { index: address, src }),
//@ end

//@ fn impl Block :: fn load
//@ spec
    requires old(self).block_wf(), old(self).next_instruction_index < usize::MAX,
    ensures
        /*@wf*/ final(self).block_wf(),
        /*@effect*/ final(self).pushed_op(*old(self), Operation::Load { dst, index: address }),
//@ after 0 `self.push(Instruction::load(index, dst, address));`
    proof { Block::lemma_push_fresh_wf(*old(self), *self, self.instructions@.last()); }
//@ end

//@ fn impl Block :: fn branch
//@ spec
    requires old(self).block_wf(), old(self).next_instruction_index < usize::MAX,
    ensures
        /*@wf*/ final(self).block_wf(),
        /*@effect*/ final(self).pushed_op(*old(self), Operation::Branch { target: dst }),
//@ after 0 `self.push(Instruction::branch(index, dst));`
    proof { Block::lemma_push_fresh_wf(*old(self), *self, self.instructions@.last()); }
//@ end

//@ fn impl Block :: fn intrinsic
//@ spec
    requires old(self).block_wf(), old(self).next_instruction_index < usize::MAX,
    ensures
        /*@wf*/ final(self).block_wf(),
        /*@effect*/ final(self).pushed_op(*old(self), Operation::Intrinsic { intrinsic }),
//@ after 0 `self.push(Instruction::intrinsic(index, intrinsic));`
    proof { Block::lemma_push_fresh_wf(*old(self), *self, self.instructions@.last()); }
//@ end

//@ fn impl Block :: fn nop
//@ spec
    requires old(self).block_wf(), old(self).next_instruction_index < usize::MAX,
    ensures
        /*@wf*/ final(self).block_wf(),
        /*@effect*/ final(self).pushed_op(*old(self), Operation::Nop { placeholder: None }),
//@ after 0 `self.push(Instruction::nop(index));`
    proof { Block::lemma_push_fresh_wf(*old(self), *self, self.instructions@.last()); }
//@ end

//@ fn impl Block :: fn placeholder
//@ spec
    requires old(self).block_wf(), old(self).next_instruction_index < usize::MAX,
    ensures
        /*@wf*/ final(self).block_wf(),
        /*@effect*/ final(self).pushed_op(*old(self), Operation::Nop { placeholder: Some(Box::new(operation)) }),
//@ after 0 `self.push(Instruction::placeholder(index, operation));`
    proof { Block::lemma_push_fresh_wf(*old(self), *self, self.instructions@.last()); }
//@ end

//@ fn impl Block :: fn add_phi_node
//@ spec
    ensures
        /*@pushed*/ final(self).phi_nodes@ == old(self).phi_nodes@.push(phi_node),
        /*@frame*/ final(self).index == old(self).index && final(self).next_instruction_index == old(self).next_instruction_index && final(self).instructions == old(self).instructions,
        /*@wf*/ old(self).block_wf() ==> final(self).block_wf(),
//@ end

//@ fn impl Block :: fn clone_new_index
//@ spec
    ensures
        /*@copy*/ r == (Block { index, next_instruction_index: self.next_instruction_index, instructions: self.instructions, phi_nodes: self.phi_nodes }),
        /*@wf*/ self.block_wf() ==> r.block_wf(),
//@ end

//@ fn impl Block :: fn append loops=1
//@ rewrite 1 `other.instructions().iter().for_each(|instruction| {` => `for instruction in it: other.instructions().iter() {` ## R-for-each: `ITER.for_each(|x| { BODY })` is by definition `for x in ITER { BODY }` (part 1 of 2: loop header in front of the unchanged iterator expression)
//@ rewrite 1 `}) }` => `} }` ## R-for-each: part 2 of 2, closes the loop body instead of the closure and the call
//@ spec
    requires old(self).block_wf(), old(self).next_instruction_index + other.instructions@.len() <= usize::MAX,
    ensures
        /*@wf*/ final(self).block_wf(),
        /*@appended*/ final(self).appended(*old(self), *other),
//@ loop 0
    invariant
        it.seq().len() == other.instructions@.len(),
        forall|j: int| 0 <= j < it.seq().len() ==> *#[trigger] it.seq()[j] == other.instructions@[j],
        old(self).next_instruction_index + other.instructions@.len() <= usize::MAX,
        self.block_wf(),
        self.index == old(self).index,
        self.phi_nodes == old(self).phi_nodes,
        self.next_instruction_index == old(self).next_instruction_index + it.index@,
        self.instructions@.len() == old(self).instructions@.len() + it.index@,
        forall|i: int| 0 <= i < old(self).instructions@.len() ==> #[trigger] self.instructions@[i] == old(self).instructions@[i],
        forall|j: int| 0 <= j < it.index@ ==>
            #[trigger] self.instructions@[old(self).instructions@.len() + j] == reindexed(other.instructions@[j], (old(self).next_instruction_index + j) as usize),
//@ before 0 `let index = self.new_instruction_index();`
    let ghost pre = *self;
//@ before 0 `} }`
    proof {
        Block::lemma_push_fresh_wf(pre, *self, self.instructions@.last());
        assert forall|i: int| 0 <= i < old(self).instructions@.len() implies #[trigger] self.instructions@[i] == old(self).instructions@[i] by {
            assert(self.instructions@[i] == pre.instructions@[i]);
        }
        assert forall|j: int| 0 <= j < it.index@ + 1 implies
            #[trigger] self.instructions@[old(self).instructions@.len() + j] == reindexed(other.instructions@[j], (old(self).next_instruction_index + j) as usize) by {
            if j < it.index@ {
                assert(self.instructions@[old(self).instructions@.len() + j] == pre.instructions@[old(self).instructions@.len() + j]);
            }
        }
    }
//@ end

//@ fn impl Block :: fn remove_instruction loops=1
//@ rewrite 1 `self.instructions .iter() .position(|instruction|` => `match { let mut pos__: Option<usize> = None; let mut i__: usize = 0; for instruction in it: self.instructions.iter() { if` ## R-position: `ITER.position(|x| P)` is by definition the loop that counts the items before the first one satisfying P (`Some(count)`), `None` when the iterator is exhausted (part 1 of 2; the iterator expression and P stay the original tokens)
//@ rewrite 1 `== index) .map(|index| {` => `== index { pos__ = Some(i__); break; } i__ += 1; } pos__ } { Some(index) => {` ## R-position-then-option-map-ok-or-else: closes the R-position loop (part 2 of 2) and opens the match: `OPT.map(|index| { BODY }).ok_or_else(|| ERR)` is by definition `match OPT { Some(index) => { BODY Ok(()) } None => Err(ERR) }` (Option::map / Option::ok_or_else are exactly these matches; Verus cannot take a closure that captures `&mut self.instructions`) (part 1 of 3; BODY and ERR stay the original tokens)
//@ rewrite 1 `}) .ok_or_else(||` => `Ok(()) } None => Err(` ## R-option-map-ok-or-else: part 2 of 3
//@ rewrite 1 `.into())` => `.into()) }` ## R-option-map-ok-or-else: part 3 of 3, closes the match
//@ spec
    requires old(self).block_wf(),
    ensures
        /*@wf*/ final(self).block_wf(),
        /*@frame*/ final(self).index == old(self).index && final(self).next_instruction_index == old(self).next_instruction_index && final(self).phi_nodes == old(self).phi_nodes,
        /*@missing*/ !old(self).has_instruction(index) ==> (r matches Err(e) && e is Custom) && final(self).instructions@ == old(self).instructions@,
        /*@removed*/ old(self).has_instruction(index) ==> r is Ok && (exists|p: int| 0 <= p < old(self).instructions@.len() && (#[trigger] old(self).instructions@[p]).index == index
            && final(self).instructions@ == old(self).instructions@.remove(p)),
        /*@gone*/ r is Ok ==> !final(self).has_instruction(index),
//@ loop 0
    invariant_except_break
        i__ == it.index@,
        pos__ is None,
        forall|j: int| 0 <= j < it.index@ ==> (#[trigger] self.instructions@[j]).index != index,
    invariant
        it.seq().len() == self.instructions@.len(),
        forall|j: int| 0 <= j < it.seq().len() ==> *#[trigger] it.seq()[j] == self.instructions@[j],
        self.instructions@.len() <= usize::MAX,
    ensures
        pos__ matches Some(p) ==> p < self.instructions@.len() && self.instructions@[p as int].index == index,
        pos__ is None ==> forall|j: int| 0 <= j < self.instructions@.len() ==> (#[trigger] self.instructions@[j]).index != index,
//@ after 0 `self.instructions.remove(index);`
    proof {
        let p = index as int;
        let o = old(self).instructions@;
        assert(self.instructions@ == o.remove(p));
        assert forall|i: int, j: int| 0 <= i < j < self.instructions@.len() implies
            (#[trigger] self.instructions@[i]).index != (#[trigger] self.instructions@[j]).index by {
            let i0 = if i < p { i } else { i + 1 };
            let j0 = if j < p { j } else { j + 1 };
            assert(self.instructions@[i] == o[i0] && self.instructions@[j] == o[j0]);
        }
        assert forall|i: int| 0 <= i < self.instructions@.len() implies (#[trigger] self.instructions@[i]).index < self.next_instruction_index
            && self.instructions@[i].index != o[p].index by {
            let i0 = if i < p { i } else { i + 1 };
            assert(self.instructions@[i] == o[i0]);
        }
    }
//@ end

// instruction_mut hands out `&mut Instruction` found through `iter_mut().find(..)`; vstd has no usable
// specification of `IterMut` / `find`, so the function is only checked for absence of panics - NO effect
// contract (listed under undecided_subclaims; keeping block_wf is the caller's obligation).
//@ fn impl Block :: fn instruction_mut
//@ closure 0 |instruction: &&mut Instruction| -> (r0: bool)
//@ end
}
