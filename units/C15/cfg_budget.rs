// ======================================================================================
// units/C15/cfg_budget.rs - the instruction budget (see cfg_merge.rs) of a graph that imported the
// blocks of another graph (append / insert) is the sum of the two budgets.  Only lemmas.
// The enumeration order of the imported blocks is arbitrary, hence the permutation argument.
// ======================================================================================

/// sum of the instruction counters of the blocks w[s[0]], w[s[1]], ...
pub open spec fn seq_budget(w: Map<usize, Block>, s: Seq<usize>) -> nat
    decreases s.len(),
{
    if s.len() == 0 { 0 } else { seq_budget(w, s.drop_last()) + w[s.last()].next_instruction_index as nat }
}

pub proof fn lemma_budget_empty(w: Map<usize, Block>, n: nat)
    requires n <= usize::MAX + 1, forall|k: usize| #![trigger w.contains_key(k)] k < n ==> !w.contains_key(k),
    ensures budget_upto(w, n) == 0,
    decreases n,
{
    reveal(budget_upto);
    if n > 0 {
        lemma_budget_empty(w, (n - 1) as nat);
        assert(!w.contains_key((n - 1) as usize));
    }
}

pub proof fn lemma_seq_budget_agree(w1: Map<usize, Block>, w2: Map<usize, Block>, s: Seq<usize>)
    requires forall|j: int| 0 <= j < s.len() ==> w1[#[trigger] s[j]].next_instruction_index == w2[s[j]].next_instruction_index,
    ensures seq_budget(w1, s) == seq_budget(w2, s),
    decreases s.len(),
{
    if s.len() > 0 {
        let t = s.drop_last();
        assert forall|j: int| 0 <= j < t.len() implies w1[#[trigger] t[j]].next_instruction_index == w2[t[j]].next_instruction_index by {
            assert(t[j] == s[j]);
        }
        lemma_seq_budget_agree(w1, w2, t);
        assert(s.last() == s[s.len() - 1]);
    }
}

/// a duplicate-free enumeration of all keys sums up to the budget
pub proof fn lemma_seq_budget_perm(w: Map<usize, Block>, n: nat, s: Seq<usize>)
    requires
        n <= usize::MAX + 1,
        s.no_duplicates(),
        forall|j: int| 0 <= j < s.len() ==> w.contains_key(#[trigger] s[j]) && s[j] < n,
        forall|k: usize| #![trigger w.contains_key(k)] w.contains_key(k) && k < n ==> s.contains(k),
    ensures seq_budget(w, s) == budget_upto(w, n),
    decreases s.len(),
{
    if s.len() == 0 {
        assert forall|k: usize| #![trigger w.contains_key(k)] k < n implies !w.contains_key(k) by {
            if w.contains_key(k) { assert(s.contains(k)); }
        }
        lemma_budget_empty(w, n);
    } else {
        let k = s.last();
        let t = s.drop_last();
        let w2 = w.remove(k);
        assert(s[s.len() - 1] == k);
        assert(t.no_duplicates()) by {
            assert forall|i: int, j: int| 0 <= i < t.len() && 0 <= j < t.len() && i != j implies t[i] != t[j] by {
                assert(t[i] == s[i] && t[j] == s[j]);
            }
        }
        assert forall|j: int| 0 <= j < t.len() implies w2.contains_key(#[trigger] t[j]) && t[j] < n by {
            assert(t[j] == s[j]);
            assert(s[j] != s[s.len() - 1]);
        }
        assert forall|k2: usize| #![trigger w2.contains_key(k2)] w2.contains_key(k2) && k2 < n implies t.contains(k2) by {
            assert(w.contains_key(k2));
            assert(s.contains(k2));
            let i = choose|i: int| 0 <= i < s.len() && s[i] == k2;
            assert(i != s.len() - 1);
            assert(t[i] == k2);
        }
        lemma_seq_budget_perm(w2, n, t);
        assert forall|j: int| 0 <= j < t.len() implies w[#[trigger] t[j]].next_instruction_index == w2[t[j]].next_instruction_index by {
            assert(t[j] == s[j]);
            assert(s[j] != s[s.len() - 1]);
        }
        lemma_seq_budget_agree(w, w2, t);
        lemma_budget_remove(w, n, k);
    }
}

/// the budget of v2 up to n0 + j = budget of v up to n0 + the counters of the first j imported blocks
pub proof fn lemma_budget_prefix(v2: Map<usize, Block>, v: Map<usize, Block>, w: Map<usize, Block>, n0: nat, s: Seq<usize>, j: nat)
    requires
        n0 + s.len() <= usize::MAX + 1, j <= s.len(),
        forall|k: usize| #![trigger v2.contains_key(k)] k < n0 ==> (v2.contains_key(k) == v.contains_key(k)),
        forall|k: usize| #![trigger v2[k]] k < n0 && v2.contains_key(k) ==> v2[k].next_instruction_index == v[k].next_instruction_index,
        forall|x: usize| #![trigger v2.contains_key(x)] #![trigger v2[x]] n0 <= x < n0 + s.len() ==> v2.contains_key(x)
            && v2[x].next_instruction_index == w[s[x - n0]].next_instruction_index,
    ensures budget_upto(v2, n0 + j) == budget_upto(v, n0) + seq_budget(w, s.take(j as int)),
    decreases j,
{
    if j == 0 {
        lemma_budget_agree(v2, v, n0);
        assert(s.take(0).len() == 0);
    } else {
        lemma_budget_prefix(v2, v, w, n0, s, (j - 1) as nat);
        reveal(budget_upto);
        let t = s.take(j as int);
        assert(t.drop_last() =~= s.take(j - 1));
        assert(t.last() == s[j - 1]);
        let x = (n0 + j - 1) as usize;
        assert(v2.contains_key(x) && v2[x].next_instruction_index == w[s[x - n0]].next_instruction_index);
    }
}

/// importing the blocks of `other` adds its budget
pub proof fn lemma_imported_budget(cur: ControlFlowGraph, o: ControlFlowGraph, other: ControlFlowGraph, m: Map<usize, usize>, minv: Map<usize, usize>)
    requires
        o.cfg_wf(), other.cfg_wf(),
        o.next_index + other.graph.vertices@.len() <= usize::MAX,
        renaming_pair(m, minv, other, o.next_index),
        cur.blocks_imported(o, other, m),
    ensures cur.instr_budget() == o.instr_budget() + other.instr_budget(),
{
    let n0 = o.next_index as nat;
    let cnt = other.graph.vertices@.len();
    let w = other.graph.vertices@;
    let s = Seq::new(cnt, |j: int| minv[(n0 + j) as usize]);
    // s enumerates the keys of w exactly once
    assert(s.no_duplicates()) by {
        assert forall|i: int, j: int| 0 <= i < s.len() && 0 <= j < s.len() && i != j implies s[i] != s[j] by {
            let xi = (n0 + i) as usize;
            let xj = (n0 + j) as usize;
            assert(minv.contains_key(xi) && minv.contains_key(xj));
            assert(m[minv[xi]] == xi && m[minv[xj]] == xj);
        }
    }
    assert forall|j: int| 0 <= j < s.len() implies w.contains_key(#[trigger] s[j]) && s[j] < other.next_index by {
        let x = (n0 + j) as usize;
        assert(minv.contains_key(x));
        assert(m.contains_key(minv[x]));
    }
    assert forall|k: usize| #![trigger w.contains_key(k)] w.contains_key(k) && k < other.next_index implies s.contains(k) by {
        assert(m.contains_key(k));
        let x = m[k];
        assert(minv.contains_key(x) && minv[x] == k);
        let j = x - n0;
        assert(s[j] == k);
    }
    lemma_seq_budget_perm(w, other.next_index as nat, s);
    // the imported copies carry the same counters
    let v2 = cur.graph.vertices@;
    assert forall|x: usize| #![trigger v2.contains_key(x)] #![trigger v2[x]] n0 <= x < n0 + s.len() implies v2.contains_key(x)
        && v2[x].next_instruction_index == w[s[x - n0]].next_instruction_index by {
        assert(minv.contains_key(x));
        let k = minv[x];
        assert(m.contains_key(k) && m[k] == x);
        assert(w.contains_key(k));
        assert(v2[m[k]] == reindexed_block(w[k], m[k]));
    }
    assert forall|k: usize| #![trigger v2.contains_key(k)] k < n0 implies (v2.contains_key(k) == o.graph.vertices@.contains_key(k)) by {}
    assert forall|k: usize| #![trigger v2[k]] k < n0 && v2.contains_key(k) implies v2[k].next_instruction_index == o.graph.vertices@[k].next_instruction_index by {
        assert(o.graph.vertices@.contains_key(k));
    }
    lemma_budget_prefix(v2, o.graph.vertices@, w, n0, s, cnt);
    assert(s.take(cnt as int) =~= s);
}

/// a finite map with a key is not empty
pub proof fn lemma_map_nonempty(m: Map<usize, Block>, k: usize)
    requires m.dom().finite(), m.contains_key(k),
    ensures m.len() > 0,
{
    let s = Set::<usize>::empty().insert(k);
    assert(s.subset_of(m.dom()));
    vstd::set_lib::lemma_len_subset(s, m.dom());
    assert(s.len() == 1);
}
