// ---- falcon::Error conversion used by `format!(..).into()` (Block::remove_instruction), extracted from
// lib/lib.rs.  `From<String>` wraps the text into Error::Custom; the contract only says which variant
// comes out (the text itself is never inspected by verified code).  Same pattern as units/C11/error_from.rs.
impl vstd::std_specs::convert::FromSpecImpl<String> for Error {
    open spec fn obeys_from_spec() -> bool { false }
    open spec fn from_spec(v: String) -> Error { arbitrary() }
}
impl From<String> for Error {
//@ fn lib/lib.rs :: impl From<String> for Error :: fn from nopub
//@ spec
    ensures /*@custom*/ r is Custom,
//@ end
}
