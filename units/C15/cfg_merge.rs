// ======================================================================================
// units/C15/cfg_merge.rs - ControlFlowGraph::merge.
//
// Resource bound.  Merging block s into block m bumps m's instruction counter once per instruction
// of s (`next_instruction_index + 1`, a machine addition).  The sum of all instruction counters of a
// graph - its *instruction budget* - never grows under merging, so "budget <= usize::MAX" is the
// (stated) bound under which no counter overflows.
// ======================================================================================

/// sum of `next_instruction_index` over the blocks stored under keys < n
#[verifier::opaque]
pub open spec fn budget_upto(v: Map<usize, Block>, n: nat) -> nat
    decreases n,
{
    if n == 0 { 0 } else {
        budget_upto(v, (n - 1) as nat)
            + (if v.contains_key((n - 1) as usize) { v[(n - 1) as usize].next_instruction_index as nat } else { 0 })
    }
}

impl ControlFlowGraph {
    /// the instruction budget: sum of the instruction counters of all blocks
    pub open spec fn instr_budget(&self) -> nat { budget_upto(self.graph.vertices@, self.next_index as nat) }
}

pub proof fn lemma_budget_agree(v1: Map<usize, Block>, v2: Map<usize, Block>, n: nat)
    requires
        n <= usize::MAX + 1,
        forall|k: usize| #![trigger v1.contains_key(k)] k < n ==> (v1.contains_key(k) == v2.contains_key(k)),
        forall|k: usize| #![trigger v1[k]] k < n && v1.contains_key(k) ==> v1[k].next_instruction_index == v2[k].next_instruction_index,
    ensures budget_upto(v1, n) == budget_upto(v2, n),
    decreases n,
{
    reveal(budget_upto);
    if n > 0 {
        lemma_budget_agree(v1, v2, (n - 1) as nat);
        let k = (n - 1) as usize;
        assert(v1.contains_key(k) == v2.contains_key(k));
    }
}

/// removing a block gives its counter back
pub proof fn lemma_budget_remove(v: Map<usize, Block>, n: nat, k: usize)
    requires n <= usize::MAX + 1, v.contains_key(k), k < n,
    ensures budget_upto(v, n) == budget_upto(v.remove(k), n) + v[k].next_instruction_index,
    decreases n,
{
    reveal(budget_upto);
    let w = v.remove(k);
    if n - 1 == k {
        lemma_budget_agree(v, w, (n - 1) as nat);
    } else {
        lemma_budget_remove(v, (n - 1) as nat, k);
        let j = (n - 1) as usize;
        assert(w.contains_key(j) == v.contains_key(j));
    }
}

/// replacing a stored block changes the budget by the difference of the counters
pub proof fn lemma_budget_update(v: Map<usize, Block>, n: nat, k: usize, b: Block)
    requires n <= usize::MAX + 1, v.contains_key(k), k < n,
    ensures budget_upto(v.insert(k, b), n) + v[k].next_instruction_index == budget_upto(v, n) + b.next_instruction_index,
{
    lemma_budget_remove(v, n, k);
    lemma_budget_remove(v.insert(k, b), n, k);
    assert(v.insert(k, b).remove(k) =~= v.remove(k));
}

/// two different stored blocks together stay within the budget
pub proof fn lemma_budget_two(v: Map<usize, Block>, n: nat, a: usize, b: usize)
    requires n <= usize::MAX + 1, v.contains_key(a), v.contains_key(b), a != b, a < n, b < n,
    ensures v[a].next_instruction_index + v[b].next_instruction_index <= budget_upto(v, n),
{
    lemma_budget_remove(v, n, a);
    lemma_budget_remove(v.remove(a), n, b);
}

/// merge step 1: block m has absorbed the instructions of block s
pub proof fn lemma_merge_append_step(pre: ControlFlowGraph, post: ControlFlowGraph, m: usize, s: usize)
    requires
        pre.cfg_wf(), m != s, pre.graph.vertices@.contains_key(m), pre.graph.vertices@.contains_key(s),
        post.graph.vertices@ == pre.graph.vertices@.insert(m, post.graph.vertices@[m]),
        post.graph.vertices@[m].appended(pre.graph.vertices@[m], pre.graph.vertices@[s]),
        post.graph.vertices@[m].block_wf(),
        post.graph.edges == pre.graph.edges, post.graph.successors == pre.graph.successors, post.graph.predecessors == pre.graph.predecessors,
        post.same_scalars(pre),
    ensures
        post.cfg_wf(),
        post.instr_budget() == pre.instr_budget() + pre.graph.vertices@[s].instructions@.len(),
        post.graph.vertices@.dom() == pre.graph.vertices@.dom(),
{
    lemma_budget_update(pre.graph.vertices@, pre.next_index as nat, m, post.graph.vertices@[m]);
    assert(post.graph.vertices@.dom() =~= pre.graph.vertices@.dom());
    assert forall|k: usize| #![trigger post.graph.vertices@[k]] post.graph.vertices@.contains_key(k) implies
        post.graph.vertices@[k].block_wf() && post.graph.vertices@[k].index == k by {
        if k != m { assert(post.graph.vertices@[k] == pre.graph.vertices@[k]); }
    }
    assert(post.graph.graph_wf());
}

/// the precondition of `Block::append` in merge step 1 follows from the budget bound
pub proof fn lemma_merge_append_pre(pre: ControlFlowGraph, m: usize, s: usize)
    requires
        pre.cfg_wf(), m != s, pre.graph.vertices@.contains_key(m), pre.graph.vertices@.contains_key(s),
        pre.instr_budget() <= usize::MAX,
    ensures
        pre.graph.vertices@[m].block_wf(),
        pre.graph.vertices@[m].next_instruction_index + pre.graph.vertices@[s].instructions@.len() <= usize::MAX,
{
    lemma_budget_two(pre.graph.vertices@, pre.next_index as nat, m, s);
    assert(pre.graph.vertices@[s].block_wf());
}

/// merge step 3: block s has been removed
pub proof fn lemma_merge_remove_step(pre: ControlFlowGraph, post: ControlFlowGraph, s: usize)
    requires
        pre.cfg_wf(), pre.graph.vertices@.contains_key(s),
        pre.entry != Some(s), pre.exit != Some(s),
        post.graph.graph_wf(),
        post.graph.vertices@ == pre.graph.vertices@.remove(s),
        post.same_scalars(pre),
    ensures
        post.cfg_wf(),
        post.instr_budget() + pre.graph.vertices@[s].next_instruction_index == pre.instr_budget(),
        post.graph.vertices@.len() + 1 == pre.graph.vertices@.len(),
{
    lemma_budget_remove(pre.graph.vertices@, pre.next_index as nat, s);
    assert forall|k: usize| #![trigger post.graph.vertices@[k]] post.graph.vertices@.contains_key(k) implies
        post.graph.vertices@[k].block_wf() && post.graph.vertices@[k].index == k by {
        assert(pre.graph.vertices@.contains_key(k));
    }
    assert(pre.graph.vertices@.dom().finite());
}

impl ControlFlowGraph {
//@ source lib/il/control_flow_graph.rs
//@ fn impl ControlFlowGraph :: fn merge loops=5
//@ rewrite 1 `for block in self.blocks() {` => `let bs__ = self.blocks(); let mut bi__: usize = 0; while bi__ < bs__.len() { let block = bs__[bi__]; bi__ += 1;` ## R-for-to-while: `for x in VEC { BODY }` over a vector of references is the index loop that binds x to the elements in order; the index is advanced before BODY so that `continue` proceeds to the next element exactly as in the for loop (Verus: "for-loops do not yet support continue")
//@ rewrite 1 `for (merge_index, successor_index) in merges {` => `for (merge_index, successor_index) in it1: merges {` ## R-ghost-iter-name: names the ghost iterator of the for loop; no executable change
//@ spec
    requires old(self).cfg_wf(), old(self).instr_budget() <= usize::MAX,
    ensures
        /*@wf*/ final(self).cfg_wf(),
        /*@entry*/ final(self).entry == old(self).entry,
        /*@exit*/ (final(self).exit is Some) == (old(self).exit is Some),
        /*@blocks*/ forall|k: usize| #![trigger final(self).graph.vertices@.contains_key(k)] final(self).graph.vertices@.contains_key(k) ==> old(self).graph.vertices@.contains_key(k),
        /*@counters*/ final(self).next_index == old(self).next_index && final(self).next_temp_index == old(self).next_temp_index && final(self).ssa_form == old(self).ssa_form,
        /*@budget*/ r is Ok ==> final(self).instr_budget() <= old(self).instr_budget(),
//@ loop 0
    invariant
        self.cfg_wf(), self.instr_budget() <= old(self).instr_budget(), old(self).instr_budget() <= usize::MAX,
        self.entry == old(self).entry, (self.exit is Some) == (old(self).exit is Some),
        forall|k: usize| #![trigger self.graph.vertices@.contains_key(k)] self.graph.vertices@.contains_key(k) ==> old(self).graph.vertices@.contains_key(k),
        self.next_index == old(self).next_index, self.next_temp_index == old(self).next_temp_index, self.ssa_form == old(self).ssa_form,
    decreases self.graph.vertices@.len(),
//@ loop 1
    invariant
        self.cfg_wf(),
        bi__ <= bs__@.len(),
        self.graph.lists_vertices(bs__@, |k: usize| true),
        forall|i: int| 0 <= i < merges@.len() ==> (#[trigger] merges@[i]).0 != merges@[i].1 && self.entry != Some(merges@[i].1),
    decreases bs__@.len() - bi__,
//@ before 0 `let successors = self.graph.edges_out(block.index()).unwrap();`
    proof {
        assert(self.graph.vertices@.contains_key(block.index_spec()));
    }
//@ before 0 `let predecessors = self.graph.edges_in(successor).unwrap();`
    proof {
        let e0 = successors@[0];
        assert(self.graph.edges@.contains_key((e0.head_spec(), e0.tail_spec())));
        lemma_edge_ends(*self, e0.head_spec(), e0.tail_spec());
    }
//@ closure 0 |entry: usize| -> (b: bool)
    ensures b == (entry == successor),
//@ before 0 `for (merge_index, successor_index) in it1`
    let ghost len0 = self.graph.vertices@.len();
    let ghost mq = merges@;
//@ loop 2
    invariant
        it1.seq() == mq,
        forall|i: int| 0 <= i < mq.len() ==> (#[trigger] mq[i]).0 != mq[i].1 && self.entry != Some(mq[i].1),
        self.cfg_wf(), self.instr_budget() <= old(self).instr_budget(), old(self).instr_budget() <= usize::MAX,
        self.entry == old(self).entry, (self.exit is Some) == (old(self).exit is Some),
        forall|k: usize| #![trigger self.graph.vertices@.contains_key(k)] self.graph.vertices@.contains_key(k) ==> old(self).graph.vertices@.contains_key(k),
        self.next_index == old(self).next_index, self.next_temp_index == old(self).next_temp_index, self.ssa_form == old(self).ssa_form,
        self.graph.vertices@.len() + it1.index@ == len0,
//@ before 0 `let successor_block = self.graph.vertex(successor_index)?.clone();`
    let ghost pre = *self;
    proof {
        assert(mq[it1.index@] == (merge_index, successor_index));
    }
//@ before 0 `self.graph.vertex_mut(merge_index)?.append(&successor_block);`
    proof {
        if self.graph.vertices@.contains_key(merge_index) {
            lemma_merge_append_pre(*self, merge_index, successor_index);
        }
    }
//@ before 0 `let mut new_edges = Vec::new();`
    proof {
        lemma_merge_append_step(pre, *self, merge_index, successor_index);
    }
    let ghost mid = *self;
//@ loop 3
    invariant
        self.cfg_wf(), *self == mid,
//@ loop 4
    invariant
        self.cfg_wf(), self.graph.vertices@ == mid.graph.vertices@, self.same_scalars(mid),
        mid.entry == old(self).entry, (mid.exit is Some) == (old(self).exit is Some),
        forall|k: usize| #![trigger mid.graph.vertices@.contains_key(k)] mid.graph.vertices@.contains_key(k) ==> old(self).graph.vertices@.contains_key(k),
        mid.next_index == old(self).next_index, mid.next_temp_index == old(self).next_temp_index, mid.ssa_form == old(self).ssa_form,
//@ before 0 `self.graph.remove_vertex(successor_index)?;`
    let ghost pre_rm = *self;
//@ after 0 `self.graph.remove_vertex(successor_index)?;`
    proof {
        lemma_merge_remove_step(pre_rm, *self, successor_index);
        assert(pre.graph.vertices@[successor_index].block_wf());
    }
//@ end
}
