// ======================================================================================
// units/C15/cfg_merge.rs - ControlFlowGraph::merge: invariant preservation, no error, and the trace theorem
// "merging does not change the instruction sequences that can be executed from the entry" (definitions below,
// lemmas in units/C15/cfg_merge_traces.rs - a unit that imports this file in contracts-only mode gets the
// definitions and the contract; it includes cfg_merge_traces.rs as well only if it wants to reason with the lemmas).
//
// Resource bound.  Merging block s into block m bumps m's instruction counter once per instruction
// of s (`next_instruction_index + 1`, a machine addition).  The sum of all instruction counters of a
// graph - its *instruction budget* - never grows under merging, so "budget <= usize::MAX" is the
// (stated) bound under which no counter overflows.
// ======================================================================================

/// sum of `next_instruction_index` over the blocks stored under keys < n
#[verifier::opaque]
pub open spec fn budget_upto(v: Map<usize, Block>, n: nat) -> nat
    decreases n,
{
    if n == 0 { 0 } else {
        budget_upto(v, (n - 1) as nat)
            + (if v.contains_key((n - 1) as usize) { v[(n - 1) as usize].next_instruction_index as nat } else { 0 })
    }
}

impl ControlFlowGraph {
    /// the instruction budget: sum of the instruction counters of all blocks
    pub open spec fn instr_budget(&self) -> nat { budget_upto(self.graph.vertices@, self.next_index as nat) }
}

pub proof fn lemma_budget_agree(v1: Map<usize, Block>, v2: Map<usize, Block>, n: nat)
    requires
        n <= usize::MAX + 1,
        forall|k: usize| #![trigger v1.contains_key(k)] k < n ==> (v1.contains_key(k) == v2.contains_key(k)),
        forall|k: usize| #![trigger v1[k]] k < n && v1.contains_key(k) ==> v1[k].next_instruction_index == v2[k].next_instruction_index,
    ensures budget_upto(v1, n) == budget_upto(v2, n),
    decreases n,
{
    reveal(budget_upto);
    if n > 0 {
        lemma_budget_agree(v1, v2, (n - 1) as nat);
        let k = (n - 1) as usize;
        assert(v1.contains_key(k) == v2.contains_key(k));
    }
}

/// removing a block gives its counter back
pub proof fn lemma_budget_remove(v: Map<usize, Block>, n: nat, k: usize)
    requires n <= usize::MAX + 1, v.contains_key(k), k < n,
    ensures budget_upto(v, n) == budget_upto(v.remove(k), n) + v[k].next_instruction_index,
    decreases n,
{
    reveal(budget_upto);
    let w = v.remove(k);
    if n - 1 == k {
        lemma_budget_agree(v, w, (n - 1) as nat);
    } else {
        lemma_budget_remove(v, (n - 1) as nat, k);
        let j = (n - 1) as usize;
        assert(w.contains_key(j) == v.contains_key(j));
    }
}

/// replacing a stored block changes the budget by the difference of the counters
pub proof fn lemma_budget_update(v: Map<usize, Block>, n: nat, k: usize, b: Block)
    requires n <= usize::MAX + 1, v.contains_key(k), k < n,
    ensures budget_upto(v.insert(k, b), n) + v[k].next_instruction_index == budget_upto(v, n) + b.next_instruction_index,
{
    lemma_budget_remove(v, n, k);
    lemma_budget_remove(v.insert(k, b), n, k);
    assert(v.insert(k, b).remove(k) =~= v.remove(k));
}

/// two different stored blocks together stay within the budget
pub proof fn lemma_budget_two(v: Map<usize, Block>, n: nat, a: usize, b: usize)
    requires n <= usize::MAX + 1, v.contains_key(a), v.contains_key(b), a != b, a < n, b < n,
    ensures v[a].next_instruction_index + v[b].next_instruction_index <= budget_upto(v, n),
{
    lemma_budget_remove(v, n, a);
    lemma_budget_remove(v.remove(a), n, b);
}

// ======================================================================================
// Execution traces (second sentence of property C15, for `merge`).
//
// A WALK from the entry is the entry block alone or a walk extended by one out-edge of its last block
// (`entry_walk`).  A RUN is a walk together with the number n of instructions executed in its last block
// (`is_run`): executions stop between any two instructions, not only at block ends.  The TRACE of a run
// (`run_trace`) is what the execution observes, in order: for every instruction its operation and its
// address (`TraceItem::Ins`; the index - a block-local name that Block::append renumbers - and the comment
// are not observed), and for every CONDITIONAL edge taken its guard (`TraceItem::Guard`); an unconditional
// edge contributes nothing.  Phi nodes are not part of a trace (merge keeps the phi nodes of the surviving
// blocks and drops those of a merged-away block, which has exactly one predecessor: clause `phi`).
//
// `exec_equiv(new, old)`: (1) every run of `old` has a run of `new` with the same trace; (2) every run of `new`
// has a run of `old` with the same trace, and a run of `new` that stops at the end of a block comes from a run
// of `old` that stops at the end of a block.  ((1) cannot keep block ends: the old run that stops at the
// end of the block merge glues a successor to has no block-end counterpart, its trace is a proper prefix.)
// The lemmas are in units/C15/cfg_merge_traces.rs.
// ======================================================================================

/// what an execution observes
pub enum TraceItem {
    /// an instruction is executed: its operation and its address
    Ins { operation: Operation, address: Option<u64> },
    /// a conditional edge is taken: its guard
    Guard { condition: Expression },
}

/// the observations of the instructions of a block, in order
#[verifier::opaque]
pub open spec fn code_of(b: Block) -> Seq<TraceItem> {
    Seq::new(b.instructions@.len(), |i: int| TraceItem::Ins { operation: b.instructions@[i].operation, address: b.instructions@[i].address })
}

/// the observation of taking an edge with this condition: its guard, nothing for an unconditional edge
#[verifier::opaque]
pub open spec fn guard_of(c: Option<Expression>) -> Seq<TraceItem> {
    match c {
        Some(e) => seq![TraceItem::Guard { condition: e }],
        None => Seq::<TraceItem>::empty(),
    }
}

impl ControlFlowGraph {
    pub open spec fn code_at(&self, k: usize) -> Seq<TraceItem> { code_of(self.graph.vertices@[k]) }

    pub open spec fn guard_at(&self, h: usize, t: usize) -> Seq<TraceItem> { guard_of(self.graph.edges@[(h, t)].condition) }

    /// w is a walk from the entry: the entry block alone, or a walk extended by one out-edge of its last block
    #[verifier::opaque]
    pub open spec fn entry_walk(&self, w: Seq<usize>) -> bool
        decreases w.len(),
    {
        if w.len() == 0 {
            false
        } else if w.len() == 1 {
            self.entry == Some(w[0]) && self.has_block(w[0])
        } else {
            self.entry_walk(w.drop_last()) && self.has_edge(w[w.len() - 2], w.last()) && self.has_block(w.last())
        }
    }

    /// what is observed along w before the first instruction of its last block: the complete blocks and the guards taken
    #[verifier::opaque]
    pub open spec fn walk_prefix_trace(&self, w: Seq<usize>) -> Seq<TraceItem>
        decreases w.len(),
    {
        if w.len() <= 1 {
            Seq::<TraceItem>::empty()
        } else {
            self.walk_prefix_trace(w.drop_last()) + self.code_at(w[w.len() - 2]) + self.guard_at(w[w.len() - 2], w.last())
        }
    }

    /// a run: a walk from the entry and the number of instructions executed in its last block
    pub open spec fn is_run(&self, w: Seq<usize>, n: int) -> bool {
        self.entry_walk(w) && 0 <= n <= self.code_at(w.last()).len()
    }

    pub open spec fn run_trace(&self, w: Seq<usize>, n: int) -> Seq<TraceItem> {
        self.walk_prefix_trace(w) + self.code_at(w.last()).take(n)
    }

    pub open spec fn run_at_block_end(&self, w: Seq<usize>, n: int) -> bool {
        n == self.code_at(w.last()).len()
    }

    /// some run has the trace t (and stops at a block end, when `at_end`)
    pub open spec fn has_run(&self, t: Seq<TraceItem>, at_end: bool) -> bool {
        exists|w: Seq<usize>, n: int| #[trigger] self.is_run(w, n) && self.run_trace(w, n) == t && (at_end ==> self.run_at_block_end(w, n))
    }

    /// every run of self has a run of o with the same trace (block ends to block ends, when `keep_ends`)
    pub open spec fn simulated_by(&self, o: ControlFlowGraph, keep_ends: bool) -> bool {
        forall|w: Seq<usize>, n: int| #[trigger] self.is_run(w, n) ==> o.has_run(self.run_trace(w, n), keep_ends && self.run_at_block_end(w, n))
    }

    /// self (new) and old have the same executions from the entry (see the header)
    #[verifier::opaque]
    pub open spec fn exec_equiv(&self, old: ControlFlowGraph) -> bool {
        old.simulated_by(*self, false) && self.simulated_by(old, true)
    }

    /// block s can be merged into block m: m -> s is the only edge out of m, it is unconditional, it is the only
    /// edge into s, m != s and s is not the entry.  (What `merge` checks before it lists the pair (m, s).)
    #[verifier::opaque]
    pub open spec fn mergeable(&self, m: usize, s: usize) -> bool {
        &&& m != s
        &&& self.has_block(m) && self.has_block(s)
        &&& self.has_edge(m, s) && self.graph.edges@[(m, s)].condition is None
        &&& forall|t: usize| #[trigger] self.has_edge(m, t) ==> t == s
        &&& forall|p: usize| #[trigger] self.has_edge(p, s) ==> p == m
        &&& self.entry != Some(s)
    }

    /// self is `pre` after the elementary step "merge s into m": block s is gone, block m holds the code of m
    /// followed by the code of s, every other block keeps its code; the edges into / out of s are gone, every edge
    /// s -> t has become an edge m -> t with the same condition, every other edge is kept with its condition; same entry.
    #[verifier::opaque]
    pub open spec fn merge_step_of(&self, pre: ControlFlowGraph, m: usize, s: usize) -> bool {
        &&& self.entry == pre.entry
        &&& forall|k: usize| #[trigger] self.has_block(k) <==> (pre.has_block(k) && k != s)
        &&& forall|k: usize| #[trigger] self.has_block(k) && k != m ==> self.code_at(k) == pre.code_at(k)
        &&& self.code_at(m) == pre.code_at(m) + pre.code_at(s)
        &&& forall|a: usize, b: usize| #[trigger] self.has_edge(a, b) <==> (a != s && b != s && (pre.has_edge(a, b) || (a == m && pre.has_edge(s, b))))
        &&& forall|a: usize, b: usize| #[trigger] self.has_edge(a, b) && a != m ==> self.graph.edges@[(a, b)].condition == pre.graph.edges@[(a, b)].condition
        &&& forall|b: usize| #[trigger] self.has_edge(m, b) ==> self.graph.edges@[(m, b)].condition == pre.graph.edges@[(s, b)].condition
    }
}

/// the pairs do not share a block
pub open spec fn pairs_disjoint(p: (usize, usize), q: (usize, usize)) -> bool {
    p.0 != q.0 && p.0 != q.1 && p.1 != q.0 && p.1 != q.1
}

/// the merge list from position `from` on: every pair is mergeable in g, no two pairs of the whole list share a block
#[verifier::opaque]
pub open spec fn merge_list_ok(g: ControlFlowGraph, mq: Seq<(usize, usize)>, from: int) -> bool {
    &&& forall|i: int| from <= i < mq.len() ==> g.mergeable((#[trigger] mq[i]).0, mq[i].1)
    &&& forall|i: int, j: int| 0 <= i < j < mq.len() ==> pairs_disjoint(#[trigger] mq[i], #[trigger] mq[j])
}

/// every block of a listed pair is in the set
pub open spec fn merge_list_covered(mq: Seq<(usize, usize)>, bbm: Set<usize>) -> bool {
    forall|i: int| 0 <= i < mq.len() ==> bbm.contains((#[trigger] mq[i]).0) && bbm.contains(mq[i].1)
}

/// merge step 1: block m has absorbed the instructions of block s
pub proof fn lemma_merge_append_step(pre: ControlFlowGraph, post: ControlFlowGraph, m: usize, s: usize)
    requires
        pre.cfg_wf(), m != s, pre.graph.vertices@.contains_key(m), pre.graph.vertices@.contains_key(s),
        post.graph.vertices@ == pre.graph.vertices@.insert(m, post.graph.vertices@[m]),
        post.graph.vertices@[m].appended(pre.graph.vertices@[m], pre.graph.vertices@[s]),
        post.graph.vertices@[m].block_wf(),
        post.graph.edges == pre.graph.edges, post.graph.successors == pre.graph.successors, post.graph.predecessors == pre.graph.predecessors,
        post.same_scalars(pre),
    ensures
        post.cfg_wf(),
        post.instr_budget() == pre.instr_budget() + pre.graph.vertices@[s].instructions@.len(),
        post.graph.vertices@.dom() == pre.graph.vertices@.dom(),
{
    lemma_budget_update(pre.graph.vertices@, pre.next_index as nat, m, post.graph.vertices@[m]);
    assert(post.graph.vertices@.dom() =~= pre.graph.vertices@.dom());
    assert forall|k: usize| #![trigger post.graph.vertices@[k]] post.graph.vertices@.contains_key(k) implies
        post.graph.vertices@[k].block_wf() && post.graph.vertices@[k].index == k by {
        if k != m { assert(post.graph.vertices@[k] == pre.graph.vertices@[k]); }
    }
    assert(post.graph.graph_wf());
}

/// the precondition of `Block::append` in merge step 1 follows from the budget bound
pub proof fn lemma_merge_append_pre(pre: ControlFlowGraph, m: usize, s: usize)
    requires
        pre.cfg_wf(), m != s, pre.graph.vertices@.contains_key(m), pre.graph.vertices@.contains_key(s),
        pre.instr_budget() <= usize::MAX,
    ensures
        pre.graph.vertices@[m].block_wf(),
        pre.graph.vertices@[m].next_instruction_index + pre.graph.vertices@[s].instructions@.len() <= usize::MAX,
{
    lemma_budget_two(pre.graph.vertices@, pre.next_index as nat, m, s);
    assert(pre.graph.vertices@[s].block_wf());
}

/// merge step 3: block s has been removed
pub proof fn lemma_merge_remove_step(pre: ControlFlowGraph, post: ControlFlowGraph, s: usize)
    requires
        pre.cfg_wf(), pre.graph.vertices@.contains_key(s),
        pre.entry != Some(s), pre.exit != Some(s),
        post.graph.graph_wf(),
        post.graph.vertices@ == pre.graph.vertices@.remove(s),
        post.same_scalars(pre),
    ensures
        post.cfg_wf(),
        post.instr_budget() + pre.graph.vertices@[s].next_instruction_index == pre.instr_budget(),
        post.graph.vertices@.len() + 1 == pre.graph.vertices@.len(),
{
    lemma_budget_remove(pre.graph.vertices@, pre.next_index as nat, s);
    assert forall|k: usize| #![trigger post.graph.vertices@[k]] post.graph.vertices@.contains_key(k) implies
        post.graph.vertices@[k].block_wf() && post.graph.vertices@[k].index == k by {
        assert(pre.graph.vertices@.contains_key(k));
    }
    assert(pre.graph.vertices@.dom().finite());
}

impl ControlFlowGraph {
    /// the phi nodes of every block of self are those the block has in `old`
    pub open spec fn phi_nodes_kept(&self, old: ControlFlowGraph) -> bool {
        forall|k: usize| #![trigger self.graph.vertices@[k]] self.graph.vertices@.contains_key(k) ==>
            old.graph.vertices@.contains_key(k) && self.graph.vertices@[k].phi_nodes == old.graph.vertices@[k].phi_nodes
    }

//@ source lib/il/control_flow_graph.rs
//@ fn impl ControlFlowGraph :: fn merge loops=5
//@ rewrite 1 `for block in self.blocks() {` => `let bs__ = self.blocks(); let mut bi__: usize = 0; while bi__ < bs__.len() { let block = bs__[bi__]; bi__ += 1;` ## R-for-to-while: `for x in VEC { BODY }` over a vector of references is the index loop that binds x to the elements in order; the index is advanced before BODY so that `continue` proceeds to the next element exactly as in the for loop (Verus: "for-loops do not yet support continue")
//@ rewrite 1 `for (merge_index, successor_index) in merges {` => `for (merge_index, successor_index) in it1: merges {` ## R-ghost-iter-name: names the ghost iterator of the for loop; no executable change
//@ rewrite 1 `for edge in self.graph.edges_out(successor_index).unwrap() {` => `let eo__ = self.graph.edges_out(successor_index).unwrap(); for edge in it3: eo__ {` ## R-let-temp: gives the temporary vector a name (and names the ghost iterator) so that ghost code can mention the enumeration; evaluation order and values are unchanged
//@ rewrite 1 `let mut new_edges = Vec::new();` => `let mut new_edges: Vec<Edge> = Vec::new();` ## R-type-annot: writes down the element type rustc infers for `new_edges` (Edge::new results are pushed); needed because the invariant mentions it before the first `push`
//@ rewrite 1 `for edge in new_edges {` => `for edge in it4: new_edges {` ## R-ghost-iter-name: names the ghost iterator of the for loop; no executable change
//@ spec
    requires old(self).cfg_wf(), old(self).instr_budget() <= usize::MAX,
    ensures
        /*@wf*/ final(self).cfg_wf(),
        /*@entry*/ final(self).entry == old(self).entry,
        /*@exit*/ (final(self).exit is Some) == (old(self).exit is Some),
        /*@blocks*/ forall|k: usize| #![trigger final(self).graph.vertices@.contains_key(k)] final(self).graph.vertices@.contains_key(k) ==> old(self).graph.vertices@.contains_key(k),
        /*@counters*/ final(self).next_index == old(self).next_index && final(self).next_temp_index == old(self).next_temp_index && final(self).ssa_form == old(self).ssa_form,
        /*@budget*/ r is Ok ==> final(self).instr_budget() <= old(self).instr_budget(),
        /*@executions*/ final(self).exec_equiv(*old(self)),
        /*@phi*/ final(self).phi_nodes_kept(*old(self)),
        /*@ok*/ r is Ok,
//@ enter
    proof { lemma_exec_equiv_refl(*self); }
//@ loop 0
    invariant
        self.cfg_wf(), self.instr_budget() <= old(self).instr_budget(), old(self).instr_budget() <= usize::MAX,
        self.entry == old(self).entry, (self.exit is Some) == (old(self).exit is Some),
        forall|k: usize| #![trigger self.graph.vertices@.contains_key(k)] self.graph.vertices@.contains_key(k) ==> old(self).graph.vertices@.contains_key(k),
        self.next_index == old(self).next_index, self.next_temp_index == old(self).next_temp_index, self.ssa_form == old(self).ssa_form,
        self.exec_equiv(*old(self)),
        self.phi_nodes_kept(*old(self)),
    decreases self.graph.vertices@.len(),
//@ before 0 `let bs__`
    proof { lemma_merge_list_empty(*self); }
//@ loop 1
    invariant
        self.cfg_wf(),
        bi__ <= bs__@.len(),
        self.graph.lists_vertices(bs__@, |k: usize| true),
        forall|i: int| 0 <= i < merges@.len() ==> (#[trigger] merges@[i]).0 != merges@[i].1 && self.entry != Some(merges@[i].1),
        merge_list_ok(*self, merges@, 0),
        merge_list_covered(merges@, blocks_being_merged@),
    decreases bs__@.len() - bi__,
//@ before 0 `let successors = self.graph.edges_out(block.index()).unwrap();`
    proof {
        assert(self.graph.vertices@.contains_key(block.index_spec()));
    }
//@ before 0 `let predecessors = self.graph.edges_in(successor).unwrap();`
    proof {
        let e0 = successors@[0];
        assert(self.graph.edges@.contains_key((e0.head_spec(), e0.tail_spec())));
        lemma_edge_ends(*self, e0.head_spec(), e0.tail_spec());
    }
//@ closure 0 |entry: usize| -> (b: bool)
    ensures b == (entry == successor),
//@ before 0 `blocks_being_merged.insert(block.index());`
    proof {
        lemma_mergeable_intro(*self, successors@, predecessors@, block.index_spec(), successor);
        lemma_merge_list_push(*self, merges@, blocks_being_merged@, block.index_spec(), successor);
    }
//@ before 0 `for (merge_index, successor_index) in it1`
    let ghost len0 = self.graph.vertices@.len();
    let ghost mq = merges@;
//@ loop 2
    invariant
        it1.seq() == mq,
        forall|i: int| 0 <= i < mq.len() ==> (#[trigger] mq[i]).0 != mq[i].1 && self.entry != Some(mq[i].1),
        self.cfg_wf(), self.instr_budget() <= old(self).instr_budget(), old(self).instr_budget() <= usize::MAX,
        self.entry == old(self).entry, (self.exit is Some) == (old(self).exit is Some),
        forall|k: usize| #![trigger self.graph.vertices@.contains_key(k)] self.graph.vertices@.contains_key(k) ==> old(self).graph.vertices@.contains_key(k),
        self.next_index == old(self).next_index, self.next_temp_index == old(self).next_temp_index, self.ssa_form == old(self).ssa_form,
        self.graph.vertices@.len() + it1.index@ == len0,
        merge_list_ok(*self, mq, it1.index@ as int),
        self.exec_equiv(*old(self)),
        self.phi_nodes_kept(*old(self)),
//@ before 0 `let successor_block = self.graph.vertex(successor_index)?.clone();`
    let ghost pre = *self;
    proof {
        assert(mq[it1.index@ as int] == (merge_index, successor_index));
        lemma_merge_list_head(pre, mq, it1.index@ as int);
        lemma_mergeable_facts(pre, merge_index, successor_index);
    }
//@ before 0 `self.graph.vertex_mut(merge_index)?.append(&successor_block);`
    proof {
        if self.graph.vertices@.contains_key(merge_index) {
            lemma_merge_append_pre(*self, merge_index, successor_index);
        }
    }
//@ before 0 `let mut new_edges: Vec<Edge> = Vec::new();`
    proof {
        lemma_merge_append_step(pre, *self, merge_index, successor_index);
    }
    let ghost mid = *self;
//@ before 0 `for edge in it3`
    let ghost eos = eo__@;
//@ loop 3
    invariant
        self.cfg_wf(), *self == mid,
        it3.seq() == eos,
        new_edges@.len() == it3.index@,
        forall|j: int| 0 <= j < it3.index@ ==> #[trigger] new_edges@[j] == reattached(*eos[j], merge_index),
//@ before 0 `for edge in it4`
    let ghost ne = new_edges@;
    proof {
        lemma_merge_new_edges(mid, eos, ne, merge_index, successor_index);
        lemma_merge_edges_init(mid, ne, merge_index);
        assert forall|t: usize| #[trigger] mid.has_edge(merge_index, t) implies t == successor_index by {
            assert(pre.has_edge(merge_index, t));
        }
    }
//@ loop 4
    invariant
        self.cfg_wf(), self.graph.vertices@ == mid.graph.vertices@, self.same_scalars(mid),
        mid.entry == old(self).entry, (mid.exit is Some) == (old(self).exit is Some),
        forall|k: usize| #![trigger mid.graph.vertices@.contains_key(k)] mid.graph.vertices@.contains_key(k) ==> old(self).graph.vertices@.contains_key(k),
        mid.next_index == old(self).next_index, mid.next_temp_index == old(self).next_temp_index, mid.ssa_form == old(self).ssa_form,
        it4.seq() == ne,
        mid.cfg_wf(), mid.graph.vertices@.contains_key(merge_index),
        mid.graph.edges == pre.graph.edges,
        !mid.has_edge(successor_index, successor_index),
        forall|t: usize| #[trigger] mid.has_edge(merge_index, t) ==> t == successor_index,
        merge_new_edges(mid, ne, merge_index, successor_index),
        merge_edges_inv(*self, mid, ne, it4.index@ as int, merge_index),
//@ before 0 `self.graph.insert_edge(edge)?;`
    let ghost before_ins = *self;
    proof {
        assert(edge == ne[it4.index@ as int]);
        lemma_merge_edges_fresh(before_ins, mid, ne, it4.index@ as int, merge_index, successor_index);
    }
//@ after 0 `self.graph.insert_edge(edge)?;`
    proof {
        lemma_merge_edges_step(before_ins, *self, mid, ne, it4.index@ as int, merge_index, successor_index);
    }
//@ before 0 `if self.exit == Some(successor_index) {`
    let ghost ins = *self;
//@ before 0 `self.graph.remove_vertex(successor_index)?;`
    let ghost pre_rm = *self;
//@ after 0 `self.graph.remove_vertex(successor_index)?;`
    proof {
        lemma_merge_remove_step(pre_rm, *self, successor_index);
        assert(pre.graph.vertices@[successor_index].block_wf());
        lemma_merge_step_done(pre, mid, ins, *self, ne, merge_index, successor_index);
        if self.merge_step_of(pre, merge_index, successor_index) {
            lemma_merge_step_equiv(pre, *self, merge_index, successor_index);
            lemma_exec_equiv_trans(*self, pre, *old(self));
            lemma_merge_list_advance(pre, *self, mq, it1.index@ as int);
        }
    }
//@ end
}
