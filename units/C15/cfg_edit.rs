// ======================================================================================
// units/C15/cfg_edit.rs - construction / editing operations of il::ControlFlowGraph (+ Edge::new,
// Scalar::new).  Included inside `pub mod il` after il_core.rs and block_edit.rs.
// Every edit: `requires old(self).cfg_wf()` (+ counter bounds), `ensures final(self).cfg_wf()` and the
// exact effect on blocks, edges, entry, exit and the counters.
// ======================================================================================

impl Scalar {
//@ fn lib/il/scalar.rs :: impl Scalar :: fn new
//@ spec
    ensures /*@fields*/ r.bits == bits && r.ssa is None,
//@ end
}

impl Edge {
//@ fn lib/il/edge.rs :: impl Edge :: fn new
//@ spec
    ensures /*@ctor*/ r == (Edge { head, tail, condition, comment: None }),
//@ end
}

impl ControlFlowGraph {
    /// everything but the inner graph is unchanged
    pub open spec fn same_scalars(&self, o: ControlFlowGraph) -> bool {
        &&& self.next_index == o.next_index
        &&& self.next_temp_index == o.next_temp_index
        &&& self.entry == o.entry
        &&& self.exit == o.exit
        &&& self.ssa_form == o.ssa_form
    }

    /// `self` is `o` plus the edge `e` (stored under its own ends); blocks untouched
    pub open spec fn edge_added(&self, o: ControlFlowGraph, e: Edge) -> bool {
        &&& self.graph.vertices == o.graph.vertices
        &&& self.graph.edges@.dom() == o.graph.edges@.dom().insert((e.head, e.tail))
        &&& self.graph.edges@[(e.head, e.tail)] == e
        &&& forall|k: (usize, usize)| #![trigger self.graph.edges@[k]] k != (e.head, e.tail) && o.graph.edges@.contains_key(k) ==> self.graph.edges@[k] == o.graph.edges@[k]
    }

    /// the exact result / effect of inserting the edge `e` (unconditional_edge / conditional_edge)
    pub open spec fn edge_insert_spec(&self, o: ControlFlowGraph, e: Edge, r: Result<(), Error>) -> bool {
        &&& self.same_scalars(o)
        &&& (r is Ok) == (!o.has_edge(e.head, e.tail) && o.has_block(e.head) && o.has_block(e.tail))
        &&& (r is Ok ==> self.edge_added(o, e))
        &&& (r is Err ==> *self == o)
        &&& (o.has_edge(e.head, e.tail) ==> (r matches Err(x) && x is Custom))
        &&& (!o.has_edge(e.head, e.tail) && !o.has_block(e.head) ==> r == Err::<(), Error>(Error::GraphVertexNotFound(e.head)))
        &&& (!o.has_edge(e.head, e.tail) && o.has_block(e.head) && !o.has_block(e.tail) ==> r == Err::<(), Error>(Error::GraphVertexNotFound(e.tail)))
    }

//@ source lib/il/control_flow_graph.rs
//@ fn impl ControlFlowGraph :: fn new
//@ spec
    ensures
        /*@wf*/ r.cfg_wf(),
        /*@empty*/ r.graph.vertices@ == Map::<usize, Block>::empty() && r.graph.edges@ == Map::<(usize, usize), Edge>::empty(),
        /*@scalars*/ r.next_index == 0 && r.next_temp_index == 0 && r.entry is None && r.exit is None && !r.ssa_form,
//@ end

//@ fn impl ControlFlowGraph :: fn set_entry
//@ spec
    requires old(self).cfg_wf(),
    ensures
        /*@wf*/ final(self).cfg_wf(),
        /*@ok*/ old(self).has_block(entry) ==> r is Ok && final(self).entry == Some(entry),
        /*@missing*/ !old(self).has_block(entry) ==> (r matches Err(e) && e is Custom) && final(self).entry == old(self).entry,
        /*@frame*/ final(self).graph == old(self).graph && final(self).next_index == old(self).next_index && final(self).next_temp_index == old(self).next_temp_index
            && final(self).exit == old(self).exit && final(self).ssa_form == old(self).ssa_form,
//@ end

//@ fn impl ControlFlowGraph :: fn set_exit
//@ spec
    requires old(self).cfg_wf(),
    ensures
        /*@wf*/ final(self).cfg_wf(),
        /*@ok*/ old(self).has_block(exit) ==> r is Ok && final(self).exit == Some(exit),
        /*@missing*/ !old(self).has_block(exit) ==> (r matches Err(e) && e is Custom) && final(self).exit == old(self).exit,
        /*@frame*/ final(self).graph == old(self).graph && final(self).next_index == old(self).next_index && final(self).next_temp_index == old(self).next_temp_index
            && final(self).entry == old(self).entry && final(self).ssa_form == old(self).ssa_form,
//@ end

// block_mut hands out `&mut Block`: whether cfg_wf holds afterwards depends on what the caller stores
// (the final block must keep its index and be block_wf) - stated as the /*@wf*/ implication.
//@ fn impl ControlFlowGraph :: fn block_mut
//@ spec
    ensures
        /*@found*/ old(self).has_block(index) ==> (r matches Ok(b) && *b == old(self).graph.vertices@[index]
            && final(self).graph.vertices@ == old(self).graph.vertices@.insert(index, *final(b))),
        /*@missing*/ !old(self).has_block(index) ==> (r matches Err(e) && e == Error::GraphVertexNotFound(index)) && final(self).graph.vertices@ == old(self).graph.vertices@,
        /*@frame*/ final(self).graph.edges == old(self).graph.edges && final(self).graph.successors == old(self).graph.successors
            && final(self).graph.predecessors == old(self).graph.predecessors && final(self).same_scalars(*old(self)),
        /*@wf*/ old(self).cfg_wf() ==> (r matches Ok(b) ==> (final(b).index == index && final(b).block_wf() ==> final(self).cfg_wf())),
        /*@wf_missing*/ old(self).cfg_wf() && r is Err ==> final(self).cfg_wf(),
//@ end

//@ fn impl ControlFlowGraph :: fn temp
//@ spec
    requires old(self).next_temp_index < u64::MAX,
    ensures
        /*@scalar*/ r.bits == bits && r.ssa is None,
        /*@bump*/ final(self).next_temp_index == old(self).next_temp_index + 1,
        /*@frame*/ final(self).graph == old(self).graph && final(self).next_index == old(self).next_index
            && final(self).entry == old(self).entry && final(self).exit == old(self).exit && final(self).ssa_form == old(self).ssa_form,
        /*@wf*/ old(self).cfg_wf() ==> final(self).cfg_wf(),
//@ end

// new_block hands out `&mut Block` of the freshly inserted, empty block (same caller obligation as block_mut).
//@ fn impl ControlFlowGraph :: fn new_block
//@ spec
    requires old(self).cfg_wf(), old(self).next_index < usize::MAX,
    ensures
        /*@ok*/ r is Ok,
        /*@block*/ r matches Ok(b) ==> b.index == old(self).next_index && b.next_instruction_index == 0
            && b.instructions@ == Seq::<Instruction>::empty() && b.phi_nodes@ == Seq::<PhiNode>::empty(),
        /*@vertices*/ r matches Ok(b) ==> !old(self).has_block(old(self).next_index)
            && final(self).graph.vertices@ == old(self).graph.vertices@.insert(old(self).next_index, *final(b)),
        /*@edges*/ final(self).graph.edges == old(self).graph.edges,
        /*@counter*/ final(self).next_index == old(self).next_index + 1,
        /*@frame*/ final(self).next_temp_index == old(self).next_temp_index && final(self).entry == old(self).entry
            && final(self).exit == old(self).exit && final(self).ssa_form == old(self).ssa_form,
        /*@wf*/ r matches Ok(b) ==> (final(b).index == old(self).next_index && final(b).block_wf() ==> final(self).cfg_wf()),
//@ end

//@ fn impl ControlFlowGraph :: fn unconditional_edge
//@ spec
    requires old(self).cfg_wf(),
    ensures
        /*@wf*/ final(self).cfg_wf(),
        /*@effect*/ final(self).edge_insert_spec(*old(self), Edge { head, tail, condition: None, comment: None }, r),
//@ end

//@ fn impl ControlFlowGraph :: fn conditional_edge
//@ spec
    requires old(self).cfg_wf(),
    ensures
        /*@wf*/ final(self).cfg_wf(),
        /*@effect*/ final(self).edge_insert_spec(*old(self), Edge { head, tail, condition: Some(condition), comment: None }, r),
//@ end

//@ fn impl ControlFlowGraph :: fn append loops=2
//@ rewrite 1 `for block in other.graph().vertices() {` => `let vs__ = other.graph().vertices(); for block in it1: vs__ {` ## R-let-temp: gives the temporary vector a name (and names the ghost iterator) so that ghost code can mention the enumeration; evaluation order and values are unchanged
//@ rewrite 1 `for edge in other.graph().edges() {` => `let es__ = other.graph().edges(); for edge in it2: es__ {` ## R-let-temp: gives the temporary vector a name (and names the ghost iterator); evaluation order and values are unchanged
//@ spec
    requires old(self).cfg_wf(), other.cfg_wf(), old(self).next_index + other.graph.vertices@.len() <= usize::MAX,
    ensures
        /*@wf*/ final(self).cfg_wf(),
        /*@effect*/ final(self).append_spec(*old(self), *other, r),
        /*@counter*/ r is Ok ==> final(self).next_index == old(self).next_index + other.graph.vertices@.len(),
        /*@budget*/ r is Ok ==> final(self).instr_budget() == old(self).instr_budget() + other.instr_budget(),
        /*@nonempty*/ r is Ok ==> final(self).graph.vertices@.len() > 0,
//@ enter
    broadcast use stdcoll::axiom_btreemap_index_req;
//@ before 0 `for block in it1`
    let ghost vsq = vs__@;
    let ghost mut minv: Map<usize, usize> = Map::empty();
    proof {
        lemma_import_blocks_init(*self, *other, vsq);
        lemma_listed(other.graph, vsq, other.entry->0);
    }
//@ loop 0
    invariant
        old(self).cfg_wf(), other.cfg_wf(),
        old(self).next_index + other.graph.vertices@.len() <= usize::MAX,
        it1.seq() == vsq,
        vsq.len() == other.graph.vertices@.len(),
        other.graph.lists_vertices(vsq, |k: usize| true),
        import_blocks_inv(*self, *old(self), *other, block_map@, minv, vsq, it1.index@),
        self.entry == old(self).entry, self.exit == old(self).exit,
        self.next_temp_index == old(self).next_temp_index, self.ssa_form == old(self).ssa_form,
        it1.index@ == vsq.len() ==> renaming_pair(block_map@, minv, *other, old(self).next_index) && self.blocks_imported(*old(self), *other, block_map@),
//@ before 0 `let new_block = block.clone_new_index(self.next_index);`
    let ghost pre = *self;
    let ghost bm0 = block_map@;
    proof {
        assert(!self.graph.vertices@.contains_key(self.next_index));
    }
//@ after 0 `self.graph.insert_vertex(new_block)?;`
    proof {
        lemma_import_blocks_step(pre, *self, *old(self), *other, bm0, minv, vsq, it1.index@);
        minv = minv.insert(pre.next_index, block.index);
        if it1.index@ + 1 == vsq.len() {
            lemma_import_blocks_done(*self, *old(self), *other, block_map@, minv, vsq);
        }
    }
//@ before 0 `for edge in it2`
    let ghost esq = es__@;
    let ghost v1 = self.graph.vertices@;
    let ghost mut done: Set<(usize, usize)> = Set::empty();
    let ghost mut epos: Map<(usize, usize), int> = Map::empty();
    proof {
        if esq.len() == 0 {
            lemma_import_edges_done(*self, *old(self), *other, block_map@, minv, esq, done, epos, v1);
        }
    }
//@ loop 1
    invariant
        old(self).cfg_wf(), other.cfg_wf(),
        it2.seq() == esq,
        other.graph.lists_edges(esq, |k: (usize, usize)| true),
        renaming_pair(block_map@, minv, *other, old(self).next_index),
        self.blocks_imported(*old(self), *other, block_map@),
        import_edges_inv(*self, *old(self), *other, block_map@, minv, esq, it2.index@, done, epos, v1),
        self.entry == old(self).entry, self.exit == old(self).exit,
        self.next_temp_index == old(self).next_temp_index, self.ssa_form == old(self).ssa_form,
        it2.index@ == esq.len() ==> self.edges_imported(*old(self), *other, block_map@, minv, None),
//@ before 0 `let new_head: usize`
    broadcast use stdcoll::axiom_btreemap_index_req;
    let ghost pre = *self;
    proof {
        lemma_import_edges_fresh(*self, *old(self), *other, block_map@, minv, esq, it2.index@, done, epos, v1);
        assert(*edge == *esq[it2.index@]);
        assert(block_map@.contains_key(edge.head) && block_map@.contains_key(edge.tail));
    }
//@ after 0 `self.graph.insert_edge(new_edge)?;`
    proof {
        lemma_import_edges_step(pre, *self, *old(self), *other, block_map@, minv, esq, it2.index@, done, epos, v1);
        done = done.insert((edge.head, edge.tail));
        epos = epos.insert((edge.head, edge.tail), it2.index@);
        if it2.index@ + 1 == esq.len() {
            lemma_import_edges_done(*self, *old(self), *other, block_map@, minv, esq, done, epos, v1);
        }
    }
//@ before 0 `if is_empty {`
    let ghost mid = *self;
    proof {
        assert(block_map@.contains_key(other.entry->0) && block_map@.contains_key(other.exit->0));
        assert(minv.contains_key(block_map@[other.entry->0]));
        if !is_empty {
            lemma_transition_fresh(*self, *old(self), *other, block_map@, minv, self.exit->0, block_map@[other.entry->0]);
        }
    }
//@ after 0 `self.graph.insert_edge(transition_edge)?;`
    proof {
        lemma_transition_step(mid, *self, *old(self), *other, block_map@, minv, transition_edge);
    }
//@ before 0 `Ok(())`
    proof {
        lemma_imported_wf(*self, *old(self), *other, block_map@, minv);
        lemma_imported_budget(*self, *old(self), *other, block_map@, minv);
        lemma_map_nonempty(self.graph.vertices@, block_map@[other.exit->0]);
        assert(self.appended_with(*old(self), *other, block_map@, minv));
    }
//@ end

//@ fn impl ControlFlowGraph :: fn insert loops=2
//@ rewrite 1 `for block in other.graph().vertices() {` => `let vs__ = other.graph().vertices(); for block in it1: vs__ {` ## R-let-temp: gives the temporary vector a name (and names the ghost iterator) so that ghost code can mention the enumeration; evaluation order and values are unchanged
//@ rewrite 1 `for edge in other.graph().edges() {` => `let es__ = other.graph().edges(); for edge in it2: es__ {` ## R-let-temp: gives the temporary vector a name (and names the ghost iterator); evaluation order and values are unchanged
//@ spec
    requires old(self).cfg_wf(), other.cfg_wf(), old(self).next_index + other.graph.vertices@.len() <= usize::MAX,
    ensures
        /*@wf*/ final(self).cfg_wf(),
        /*@effect*/ final(self).insert_spec(*old(self), *other, r),
        /*@counter*/ r is Ok ==> final(self).next_index == old(self).next_index + other.graph.vertices@.len(),
        /*@budget*/ r is Ok ==> final(self).instr_budget() == old(self).instr_budget() + other.instr_budget(),
//@ enter
    broadcast use stdcoll::axiom_btreemap_index_req;
//@ before 0 `for block in it1`
    let ghost vsq = vs__@;
    let ghost mut minv: Map<usize, usize> = Map::empty();
    proof {
        lemma_import_blocks_init(*old(self), *other, vsq);
        lemma_listed(other.graph, vsq, other.entry->0);
    }
//@ loop 0
    invariant
        old(self).cfg_wf(), other.cfg_wf(),
        old(self).next_index + other.graph.vertices@.len() <= usize::MAX,
        other.entry is Some, other.exit is Some,
        it1.seq() == vsq,
        vsq.len() == other.graph.vertices@.len(),
        other.graph.lists_vertices(vsq, |k: usize| true),
        import_blocks_inv(*self, *old(self), *other, block_map@, minv, vsq, it1.index@),
        self.entry is None, self.exit is None,
        self.next_temp_index == old(self).next_temp_index, self.ssa_form == old(self).ssa_form,
        entry_index == (if block_map@.contains_key(other.entry->0) { Some(block_map@[other.entry->0]) } else { None::<usize> }),
        exit_index == (if block_map@.contains_key(other.exit->0) { Some(block_map@[other.exit->0]) } else { None::<usize> }),
        it1.index@ == vsq.len() ==> renaming_pair(block_map@, minv, *other, old(self).next_index) && self.blocks_imported(*old(self), *other, block_map@),
//@ before 0 `let new_block = block.clone_new_index(self.next_index);`
    let ghost pre = *self;
    let ghost bm0 = block_map@;
    proof {
        assert(!self.graph.vertices@.contains_key(self.next_index));
    }
//@ after 0 `self.graph.insert_vertex(new_block)?;`
    proof {
        lemma_import_blocks_step(pre, *self, *old(self), *other, bm0, minv, vsq, it1.index@);
        minv = minv.insert(pre.next_index, block.index);
        if it1.index@ + 1 == vsq.len() {
            lemma_import_blocks_done(*self, *old(self), *other, block_map@, minv, vsq);
        }
    }
//@ before 0 `for edge in it2`
    let ghost esq = es__@;
    let ghost v1 = self.graph.vertices@;
    let ghost mut done: Set<(usize, usize)> = Set::empty();
    let ghost mut epos: Map<(usize, usize), int> = Map::empty();
    proof {
        if esq.len() == 0 {
            lemma_import_edges_done(*self, *old(self), *other, block_map@, minv, esq, done, epos, v1);
        }
    }
//@ loop 1
    invariant
        old(self).cfg_wf(), other.cfg_wf(),
        other.entry is Some, other.exit is Some,
        it2.seq() == esq,
        other.graph.lists_edges(esq, |k: (usize, usize)| true),
        renaming_pair(block_map@, minv, *other, old(self).next_index),
        self.blocks_imported(*old(self), *other, block_map@),
        import_edges_inv(*self, *old(self), *other, block_map@, minv, esq, it2.index@, done, epos, v1),
        self.entry is None, self.exit is None,
        self.next_temp_index == old(self).next_temp_index, self.ssa_form == old(self).ssa_form,
        it2.index@ == esq.len() ==> self.edges_imported(*old(self), *other, block_map@, minv, None),
//@ before 0 `let new_head: usize`
    broadcast use stdcoll::axiom_btreemap_index_req;
    let ghost pre = *self;
    proof {
        lemma_import_edges_fresh(*self, *old(self), *other, block_map@, minv, esq, it2.index@, done, epos, v1);
        assert(*edge == *esq[it2.index@]);
        assert(block_map@.contains_key(edge.head) && block_map@.contains_key(edge.tail));
    }
//@ after 0 `self.graph.insert_edge(new_edge)?;`
    proof {
        lemma_import_edges_step(pre, *self, *old(self), *other, block_map@, minv, esq, it2.index@, done, epos, v1);
        done = done.insert((edge.head, edge.tail));
        epos = epos.insert((edge.head, edge.tail), it2.index@);
        if it2.index@ + 1 == esq.len() {
            lemma_import_edges_done(*self, *old(self), *other, block_map@, minv, esq, done, epos, v1);
        }
    }
//@ before 0 `if entry_index.is_none() || exit_index.is_none()`
    proof {
        assert(block_map@.contains_key(other.entry->0) && block_map@.contains_key(other.exit->0));
    }
//@ before 0 `Ok((entry_index.unwrap(), exit_index.unwrap()))`
    proof {
        lemma_imported_wf(*self, *old(self), *other, block_map@, minv);
        lemma_imported_budget(*self, *old(self), *other, block_map@, minv);
        assert(self.inserted_with(*old(self), *other, block_map@, minv));
    }
//@ end
}
