// ======================================================================================
// units/C15/cfg_walks.rs - what `append` means for walks (only lemmas, nothing extracted).
// For g2 = o.append(other) (o not empty) under the renaming m / minv:
//   * lemma_append_walk_split: every walk of g2 that starts in a block of o is a walk of o, possibly
//     followed by the transition edge o.exit -> copy(other.entry) and the renamed copy of a walk of
//     `other` that starts at other.entry   ("runs the first graph and then the second");
//   * lemma_append_walk_old / lemma_append_walk_new: conversely every walk of o, and the copy of every
//     walk of `other`, is a walk of g2.
// Together with blocks_imported (copies hold the identical instruction vectors) and edges_imported
// (old edges and copies keep their conditions, the transition edge is unconditional) this is the
// block-walk form of "appending does not change the executable instruction sequences".
// ======================================================================================

/// the renamed copy of a walk of `other`
pub open spec fn renamed_walk(p: Seq<usize>, m: Map<usize, usize>) -> Seq<usize> {
    Seq::new(p.len(), |i: int| m[p[i]])
}

pub proof fn lemma_append_walk_old(g2: ControlFlowGraph, o: ControlFlowGraph, other: ControlFlowGraph,
                                   m: Map<usize, usize>, minv: Map<usize, usize>, p: Seq<usize>)
    requires g2.appended_with(o, other, m, minv), graph::is_walk(o.graph.edges@.dom(), p),
    ensures graph::is_walk(g2.graph.edges@.dom(), p),
{
    assert forall|i: int| 0 <= i < p.len() - 1 implies #[trigger] graph::walk_edge(g2.graph.edges@.dom(), p, i) by {
        assert(graph::walk_edge(o.graph.edges@.dom(), p, i));
        assert(o.graph.edges@.contains_key((p[i], p[i + 1])));
    }
}

pub proof fn lemma_append_walk_new(g2: ControlFlowGraph, o: ControlFlowGraph, other: ControlFlowGraph,
                                   m: Map<usize, usize>, minv: Map<usize, usize>, p: Seq<usize>)
    requires g2.appended_with(o, other, m, minv), graph::is_walk(other.graph.edges@.dom(), p),
    ensures graph::is_walk(g2.graph.edges@.dom(), renamed_walk(p, m)),
{
    let q = renamed_walk(p, m);
    assert forall|i: int| 0 <= i < q.len() - 1 implies #[trigger] graph::walk_edge(g2.graph.edges@.dom(), q, i) by {
        assert(graph::walk_edge(other.graph.edges@.dom(), p, i));
        assert(other.graph.edges@.contains_key((p[i], p[i + 1])));
        assert(g2.graph.edges@.contains_key((m[p[i]], m[p[i + 1]])));
    }
}

/// the statement of lemma_append_walk_split for the split position k
pub open spec fn walk_splits_at(p: Seq<usize>, k: int, o: ControlFlowGraph, other: ControlFlowGraph, m: Map<usize, usize>, minv: Map<usize, usize>) -> bool {
    &&& 1 <= k <= p.len()
    &&& graph::is_walk(o.graph.edges@.dom(), p.take(k))
    &&& forall|i: int| 0 <= i < k ==> o.graph.vertices@.contains_key(#[trigger] p[i])
    &&& forall|i: int| k <= i < p.len() ==> minv.contains_key(#[trigger] p[i])
    &&& (k < p.len() ==> p[k - 1] == o.exit->0 && p[k] == m[other.entry->0]
            && graph::is_walk(other.graph.edges@.dom(), renamed_walk(p.skip(k), minv)))
}

pub proof fn lemma_append_walk_split(g2: ControlFlowGraph, o: ControlFlowGraph, other: ControlFlowGraph,
                                     m: Map<usize, usize>, minv: Map<usize, usize>, p: Seq<usize>)
    requires
        o.cfg_wf(), other.cfg_wf(), o.graph.vertices@.len() > 0,
        o.entry is Some, o.exit is Some, other.entry is Some, other.exit is Some,
        g2.appended_with(o, other, m, minv),
        graph::is_walk(g2.graph.edges@.dom(), p), o.graph.vertices@.contains_key(p[0]),
    ensures exists|k: int| #[trigger] walk_splits_at(p, k, o, other, m, minv),
    decreases p.len(),
{
    let es2 = g2.graph.edges@.dom();
    let eso = o.graph.edges@.dom();
    let esh = other.graph.edges@.dom();
    if p.len() == 1 {
        assert(p.take(1) =~= p);
        assert(graph::is_walk(eso, p.take(1)));
        assert(walk_splits_at(p, 1, o, other, m, minv));
    } else {
        let q = p.drop_last();
        let n = q.len() as int;          // p = q.push(v), edge (u, v)
        let u = p[n - 1];
        let v = p[n];
        assert forall|i: int| 0 <= i < q.len() - 1 implies #[trigger] graph::walk_edge(es2, q, i) by {
            assert(graph::walk_edge(es2, p, i));
        }
        lemma_append_walk_split(g2, o, other, m, minv, q);
        let k = choose|k: int| #[trigger] walk_splits_at(q, k, o, other, m, minv);
        assert(graph::walk_edge(es2, p, n - 1));
        assert(g2.graph.edges@.contains_key((u, v)));
        let tr = Edge { head: o.exit->0, tail: m[other.entry->0], condition: None, comment: None };
        // classification of the last edge
        let is_old = o.graph.edges@.contains_key((u, v));
        let is_copy = minv.contains_key(u) && minv.contains_key(v) && other.graph.edges@.contains_key((minv[u], minv[v]));
        let is_tr = (u, v) == (tr.head, tr.tail);
        assert(is_old || is_copy || is_tr);
        // old blocks are below o.next_index, copies are not
        assert forall|x: usize| o.graph.vertices@.contains_key(x) implies !minv.contains_key(x) by {}
        assert(minv.contains_key(m[other.entry->0])) by { assert(m.contains_key(other.entry->0)); }
        if k == n {
            // q lies in o
            assert(o.graph.vertices@.contains_key(q[n - 1]));
            assert(!is_copy);
            if is_old {
                lemma_edge_ends(o, u, v);
                assert(p.take(n + 1) =~= p);
                assert(q.take(n) =~= q);
                assert forall|i: int| 0 <= i < p.len() - 1 implies #[trigger] graph::walk_edge(eso, p, i) by {
                    if i < n - 1 { assert(graph::walk_edge(eso, q.take(n), i)); }
                }
                assert forall|i: int| 0 <= i < n + 1 implies o.graph.vertices@.contains_key(#[trigger] p[i]) by {
                    if i < n { assert(p[i] == q[i]); }
                }
                assert(walk_splits_at(p, n + 1, o, other, m, minv));
            } else {
                // the transition edge: the second part starts here
                assert(p.take(n) =~= q.take(n));
                let tail = renamed_walk(p.skip(n), minv);
                assert(tail.len() == 1);
                assert(graph::is_walk(esh, tail));
                assert forall|i: int| 0 <= i < n implies o.graph.vertices@.contains_key(#[trigger] p[i]) by { assert(p[i] == q[i]); }
                assert(walk_splits_at(p, n, o, other, m, minv));
            }
        } else {
            // u is a copy: the last edge is the copy of an edge of `other`
            assert(minv.contains_key(q[n - 1]));
            if is_old { lemma_edge_ends(o, u, v); }
            assert(!is_old && !is_tr);
            assert(p.take(k) =~= q.take(k));
            let tq = renamed_walk(q.skip(k), minv);
            let tp = renamed_walk(p.skip(k), minv);
            assert forall|i: int| 0 <= i < tp.len() - 1 implies #[trigger] graph::walk_edge(esh, tp, i) by {
                if i < tq.len() - 1 {
                    assert(graph::walk_edge(esh, tq, i));
                    assert(tp[i] == tq[i] && tp[i + 1] == tq[i + 1]);
                } else {
                    assert(tp[i] == minv[u] && tp[i + 1] == minv[v]);
                }
            }
            assert forall|i: int| 0 <= i < k implies o.graph.vertices@.contains_key(#[trigger] p[i]) by { assert(p[i] == q[i]); }
            assert forall|i: int| k <= i < p.len() implies minv.contains_key(#[trigger] p[i]) by {
                if i < n { assert(p[i] == q[i]); }
            }
            assert(p[k - 1] == q[k - 1] && p[k] == q[k]);
            assert(walk_splits_at(p, k, o, other, m, minv));
        }
    }
}
