// ======================================================================================
// units/C15/cfg_import.rs - specification and proof vocabulary for ControlFlowGraph::append /
// ::insert (copying every block and edge of another graph under fresh block indices).
// Only spec fns and lemmas; the extracted functions are in cfg_edit.rs.
// ======================================================================================

/// `b` stored under a new index (what Block::clone_new_index returns)
pub open spec fn reindexed_block(b: Block, index: usize) -> Block {
    Block { index, next_instruction_index: b.next_instruction_index, instructions: b.instructions, phi_nodes: b.phi_nodes }
}

/// the copy of `e` between the renamed blocks (the comment is dropped: Edge::new)
pub open spec fn renamed_edge(e: Edge, m: Map<usize, usize>) -> Edge {
    Edge { head: m[e.head], tail: m[e.tail], condition: e.condition, comment: None }
}

/// `m` renames the blocks of `other` one-to-one onto the fresh indices base .. base + #blocks,
/// `minv` is its inverse.
pub open spec fn renaming_pair(m: Map<usize, usize>, minv: Map<usize, usize>, other: ControlFlowGraph, base: usize) -> bool {
    &&& forall|k: usize| #![trigger m.contains_key(k)] m.contains_key(k) <==> other.graph.vertices@.contains_key(k)
    &&& forall|x: usize| #![trigger minv.contains_key(x)] minv.contains_key(x) <==> base <= x < base + other.graph.vertices@.len()
    &&& forall|k: usize| #![trigger m[k]] #![trigger m.contains_key(k)] m.contains_key(k) ==> minv.contains_key(m[k]) && minv[m[k]] == k
    &&& forall|x: usize| #![trigger minv[x]] #![trigger minv.contains_key(x)] minv.contains_key(x) ==> m.contains_key(minv[x]) && m[minv[x]] == x
}

impl ControlFlowGraph {
    /// blocks of `self` = blocks of `o` (unchanged) + one re-indexed copy per block of `other`; the
    /// block counter moved past the new indices
    pub open spec fn blocks_imported(&self, o: ControlFlowGraph, other: ControlFlowGraph, m: Map<usize, usize>) -> bool {
        &&& self.next_index == o.next_index + other.graph.vertices@.len()
        &&& forall|k: usize| #![trigger self.graph.vertices@.contains_key(k)]
                self.graph.vertices@.contains_key(k) <==> (o.graph.vertices@.contains_key(k) || o.next_index <= k < self.next_index)
        &&& forall|k: usize| #![trigger o.graph.vertices@[k]] #![trigger self.graph.vertices@[k]] o.graph.vertices@.contains_key(k) ==> self.graph.vertices@[k] == o.graph.vertices@[k]
        &&& forall|k: usize| #![trigger m[k]] #![trigger other.graph.vertices@.contains_key(k)] other.graph.vertices@.contains_key(k) ==>
                self.graph.vertices@.contains_key(m[k]) && self.graph.vertices@[m[k]] == reindexed_block(other.graph.vertices@[k], m[k])
    }

    /// edges of `self` = edges of `o` (unchanged) + one renamed copy per edge of `other` + `extra`, nothing else
    pub open spec fn edges_imported(&self, o: ControlFlowGraph, other: ControlFlowGraph, m: Map<usize, usize>, minv: Map<usize, usize>, extra: Option<Edge>) -> bool {
        &&& forall|e: (usize, usize)| #![trigger o.graph.edges@.contains_key(e)] o.graph.edges@.contains_key(e) ==>
                self.graph.edges@.contains_key(e) && self.graph.edges@[e] == o.graph.edges@[e]
        &&& forall|h: usize, t: usize| #![trigger other.graph.edges@.contains_key((h, t))] other.graph.edges@.contains_key((h, t)) ==>
                self.graph.edges@.contains_key((m[h], m[t])) && self.graph.edges@[(m[h], m[t])] == renamed_edge(other.graph.edges@[(h, t)], m)
        &&& (extra matches Some(x) ==> self.graph.edges@.contains_key((x.head, x.tail)) && self.graph.edges@[(x.head, x.tail)] == x)
        &&& forall|e: (usize, usize)| #![trigger self.graph.edges@.contains_key(e)] self.graph.edges@.contains_key(e) ==>
                o.graph.edges@.contains_key(e)
                || (minv.contains_key(e.0) && minv.contains_key(e.1) && other.graph.edges@.contains_key((minv[e.0], minv[e.1])))
                || (extra matches Some(x) && e == (x.head, x.tail))
    }

    /// `self` is `o.append(other)` under the renaming m / minv
    pub open spec fn appended_with(&self, o: ControlFlowGraph, other: ControlFlowGraph, m: Map<usize, usize>, minv: Map<usize, usize>) -> bool {
        let o_empty = o.graph.vertices@.len() == 0;
        &&& renaming_pair(m, minv, other, o.next_index)
        &&& self.blocks_imported(o, other, m)
        &&& self.edges_imported(o, other, m, minv,
                if o_empty { None } else { Some(Edge { head: o.exit->0, tail: m[other.entry->0], condition: None, comment: None }) })
        &&& self.entry == (if o_empty { Some(m[other.entry->0]) } else { o.entry })
        &&& self.exit == Some(m[other.exit->0])
        &&& self.next_temp_index == o.next_temp_index
        &&& self.ssa_form == o.ssa_form
    }

    /// exact result / effect of `o.append(other)`
    pub open spec fn append_spec(&self, o: ControlFlowGraph, other: ControlFlowGraph, r: Result<(), Error>) -> bool {
        let o_empty = o.graph.vertices@.len() == 0;
        if (!o_empty && (o.entry is None || o.exit is None)) || other.entry is None || other.exit is None {
            (r matches Err(e) && e is Custom) && *self == o
        } else {
            r is Ok && exists|m: Map<usize, usize>, minv: Map<usize, usize>| #[trigger] self.appended_with(o, other, m, minv)
        }
    }

    /// `self` is `o.insert(other)` under the renaming m / minv
    pub open spec fn inserted_with(&self, o: ControlFlowGraph, other: ControlFlowGraph, m: Map<usize, usize>, minv: Map<usize, usize>) -> bool {
        &&& renaming_pair(m, minv, other, o.next_index)
        &&& self.blocks_imported(o, other, m)
        &&& self.edges_imported(o, other, m, minv, None)
        &&& self.entry is None
        &&& self.exit is None
        &&& self.next_temp_index == o.next_temp_index
        &&& self.ssa_form == o.ssa_form
    }

    /// exact result / effect of `o.insert(other)`
    pub open spec fn insert_spec(&self, o: ControlFlowGraph, other: ControlFlowGraph, r: Result<(usize, usize), Error>) -> bool {
        if other.entry is None || other.exit is None {
            r == Err::<(usize, usize), Error>(Error::ControlFlowGraphEntryExitNotFound) && *self == o
        } else {
            r is Ok && exists|m: Map<usize, usize>, minv: Map<usize, usize>| #[trigger] self.inserted_with(o, other, m, minv)
                && r->Ok_0 == (m[other.entry->0], m[other.exit->0])
        }
    }
}

// ---------------------------------------------------------------------------------------------
// loop invariants (bundled) and step lemmas

/// every stored block is listed by an exact enumeration
pub proof fn lemma_listed(g: graph::Graph<Block, Edge>, vs: Seq<&Block>, k: usize)
    requires g.lists_vertices(vs, |k: usize| true), g.vertices@.contains_key(k),
    ensures exists|j: int| 0 <= j < vs.len() && (#[trigger] vs[j]).index == k,
{
    let ids = |k: usize| true;
    assert(ids(k));
    let j = choose|j: int| 0 <= j < vs.len() && (#[trigger] vs[j]).index_spec() == k;
    assert(vs[j].index == k);
}

/// every stored edge is listed by an exact enumeration
pub proof fn lemma_listed_edge(g: graph::Graph<Block, Edge>, es: Seq<&Edge>, e: (usize, usize))
    requires g.lists_edges(es, |k: (usize, usize)| true), g.edges@.contains_key(e),
    ensures exists|j: int| 0 <= j < es.len() && ((#[trigger] es[j]).head, es[j].tail) == e,
{
    let sel = |k: (usize, usize)| true;
    assert(sel(e));
    let j = choose|j: int| 0 <= j < es.len() && ((#[trigger] es[j]).head_spec(), es[j].tail_spec()) == e;
    assert((es[j].head, es[j].tail) == e);
}

/// state of the block-import loop after `i` blocks of the enumeration `vs` of other's blocks
pub open spec fn import_blocks_inv(cur: ControlFlowGraph, o: ControlFlowGraph, other: ControlFlowGraph,
                                   bm: Map<usize, usize>, minv: Map<usize, usize>, vs: Seq<&Block>, i: int) -> bool {
    let n0 = o.next_index;
    &&& 0 <= i <= vs.len()
    &&& cur.next_index == n0 + i
    &&& cur.graph.graph_wf()
    &&& cur.graph.edges == o.graph.edges
    &&& forall|k: usize| #![trigger cur.graph.vertices@.contains_key(k)]
            cur.graph.vertices@.contains_key(k) <==> (o.graph.vertices@.contains_key(k) || n0 <= k < n0 + i)
    &&& forall|k: usize| #![trigger o.graph.vertices@[k]] #![trigger cur.graph.vertices@[k]] o.graph.vertices@.contains_key(k) ==> cur.graph.vertices@[k] == o.graph.vertices@[k]
    &&& forall|x: usize| #![trigger minv.contains_key(x)] minv.contains_key(x) <==> n0 <= x < n0 + i
    &&& forall|x: usize| #![trigger minv[x]] #![trigger minv.contains_key(x)] minv.contains_key(x) ==>
            bm.contains_key(minv[x]) && bm[minv[x]] == x && minv[x] == vs[x - n0].index
    &&& forall|k: usize| #![trigger bm[k]] #![trigger bm.contains_key(k)] bm.contains_key(k) ==>
            other.graph.vertices@.contains_key(k) && minv.contains_key(bm[k]) && minv[bm[k]] == k
            && cur.graph.vertices@[bm[k]] == reindexed_block(other.graph.vertices@[k], bm[k])
    &&& forall|j: int| 0 <= j < i ==> bm.contains_key((#[trigger] vs[j]).index)
}

pub proof fn lemma_import_blocks_init(cur: ControlFlowGraph, other: ControlFlowGraph, vs: Seq<&Block>)
    requires cur.cfg_wf(),
    ensures import_blocks_inv(cur, cur, other, Map::<usize, usize>::empty(), Map::<usize, usize>::empty(), vs, 0),
{
}

/// one iteration: the block vs[i], re-indexed to n0 + i, has been inserted
pub proof fn lemma_import_blocks_step(pre: ControlFlowGraph, post: ControlFlowGraph, o: ControlFlowGraph, other: ControlFlowGraph,
                                      bm: Map<usize, usize>, minv: Map<usize, usize>, vs: Seq<&Block>, i: int)
    requires
        import_blocks_inv(pre, o, other, bm, minv, vs, i), i < vs.len(),
        other.graph.lists_vertices(vs, |k: usize| true),
        o.cfg_wf(),
        o.next_index + vs.len() <= usize::MAX,
        post.next_index == pre.next_index + 1,
        post.graph.graph_wf(),
        post.graph.edges == pre.graph.edges,
        post.graph.vertices@.dom() == pre.graph.vertices@.dom().insert(pre.next_index),
        post.graph.vertices@[pre.next_index] == reindexed_block(*vs[i], pre.next_index),
        forall|k: usize| k != pre.next_index && pre.graph.vertices@.contains_key(k) ==> #[trigger] post.graph.vertices@[k] == pre.graph.vertices@[k],
    ensures
        !bm.contains_key(vs[i].index),
        import_blocks_inv(post, o, other, bm.insert(vs[i].index, pre.next_index), minv.insert(pre.next_index, vs[i].index), vs, i + 1),
{
    let n0 = o.next_index;
    let nk = pre.next_index;
    let ok = vs[i].index;
    let bm2 = bm.insert(ok, nk);
    let minv2 = minv.insert(nk, ok);
    // vs[i] is the stored block of `other` with index ok
    assert(other.graph.vertices@.contains_key(vs[i].index_spec()) && *vs[i] == other.graph.vertices@[vs[i].index_spec()]);
    // ok is a new key of bm: otherwise it was listed at an earlier position
    if bm.contains_key(ok) {
        let x = bm[ok];
        assert(minv.contains_key(x) && minv[x] == ok);
        let j = x - n0;
        assert(vs[j].index == ok);
        assert(vs[j].index_spec() != vs[i].index_spec());
    }
    assert(!minv.contains_key(nk));
    assert forall|k: usize| #![trigger post.graph.vertices@.contains_key(k)]
        post.graph.vertices@.contains_key(k) <==> (o.graph.vertices@.contains_key(k) || n0 <= k < n0 + (i + 1)) by {
        assert(post.graph.vertices@.dom().contains(k) <==> (pre.graph.vertices@.dom().contains(k) || k == nk));
        assert(pre.graph.vertices@.contains_key(k) <==> (o.graph.vertices@.contains_key(k) || n0 <= k < n0 + i));
    }
    assert forall|k: usize| #![trigger o.graph.vertices@[k]] o.graph.vertices@.contains_key(k) implies post.graph.vertices@[k] == o.graph.vertices@[k] by {
        assert(pre.graph.vertices@.contains_key(k));
        assert(k != nk);
    }
    assert forall|x: usize| #![trigger minv2[x]] minv2.contains_key(x) implies
        bm2.contains_key(minv2[x]) && bm2[minv2[x]] == x && minv2[x] == vs[x - n0].index by {
        if x != nk {
            assert(minv.contains_key(x));
            assert(minv[x] != ok);
        }
    }
    assert forall|k: usize| #![trigger bm2[k]] bm2.contains_key(k) implies
        other.graph.vertices@.contains_key(k) && minv2.contains_key(bm2[k]) && minv2[bm2[k]] == k
        && post.graph.vertices@[bm2[k]] == reindexed_block(other.graph.vertices@[k], bm2[k]) by {
        if k != ok {
            assert(bm.contains_key(k));
            assert(minv.contains_key(bm[k]));
            assert(bm[k] != nk);
            assert(pre.graph.vertices@.contains_key(bm[k]));
        }
    }
    assert forall|j: int| 0 <= j < i + 1 implies bm2.contains_key((#[trigger] vs[j]).index) by {}
}

/// after the last iteration bm / minv rename all of other's blocks
pub proof fn lemma_import_blocks_done(cur: ControlFlowGraph, o: ControlFlowGraph, other: ControlFlowGraph,
                                      bm: Map<usize, usize>, minv: Map<usize, usize>, vs: Seq<&Block>)
    requires
        import_blocks_inv(cur, o, other, bm, minv, vs, vs.len() as int),
        other.graph.lists_vertices(vs, |k: usize| true),
        vs.len() == other.graph.vertices@.len(),
    ensures
        renaming_pair(bm, minv, other, o.next_index),
        cur.blocks_imported(o, other, bm),
{
    assert forall|k: usize| #![trigger bm.contains_key(k)] other.graph.vertices@.contains_key(k) implies bm.contains_key(k) by {
        lemma_listed(other.graph, vs, k);
    }
    assert forall|k: usize| #![trigger bm.contains_key(k)] bm.contains_key(k) implies other.graph.vertices@.contains_key(k) by {
        assert(other.graph.vertices@.contains_key(k) && minv.contains_key(bm[k]));
    }
    assert forall|k: usize| #![trigger bm[k]] other.graph.vertices@.contains_key(k) implies
        cur.graph.vertices@.contains_key(bm[k]) && cur.graph.vertices@[bm[k]] == reindexed_block(other.graph.vertices@[k], bm[k]) by {
        assert(bm.contains_key(k));
        assert(minv.contains_key(bm[k]));
    }
}

/// state of the edge-import loop after `i` edges of the enumeration `es` of other's edges.
/// `done` = the (head, tail) pairs processed so far, `epos` their positions in `es`.
pub open spec fn import_edges_inv(cur: ControlFlowGraph, o: ControlFlowGraph, other: ControlFlowGraph,
                                  m: Map<usize, usize>, minv: Map<usize, usize>, es: Seq<&Edge>, i: int,
                                  done: Set<(usize, usize)>, epos: Map<(usize, usize), int>, v1: Map<usize, Block>) -> bool {
    &&& 0 <= i <= es.len()
    &&& cur.graph.graph_wf()
    &&& cur.graph.vertices@ == v1
    &&& forall|j: int| 0 <= j < i ==> done.contains(((#[trigger] es[j]).head, es[j].tail))
    &&& forall|e: (usize, usize)| #![trigger done.contains(e)] done.contains(e) ==>
            other.graph.edges@.contains_key(e) && epos.contains_key(e) && 0 <= epos[e] < i && (es[epos[e]].head, es[epos[e]].tail) == e
    &&& forall|e: (usize, usize)| #![trigger o.graph.edges@.contains_key(e)] o.graph.edges@.contains_key(e) ==>
            cur.graph.edges@.contains_key(e) && cur.graph.edges@[e] == o.graph.edges@[e]
    &&& forall|h: usize, t: usize| #![trigger done.contains((h, t))] done.contains((h, t)) ==>
            cur.graph.edges@.contains_key((m[h], m[t])) && cur.graph.edges@[(m[h], m[t])] == renamed_edge(other.graph.edges@[(h, t)], m)
    &&& forall|e: (usize, usize)| #![trigger cur.graph.edges@.contains_key(e)] cur.graph.edges@.contains_key(e) ==>
            o.graph.edges@.contains_key(e)
            || (minv.contains_key(e.0) && minv.contains_key(e.1) && done.contains((minv[e.0], minv[e.1])))
}

/// the ends of every edge of a well-formed graph are blocks
pub proof fn lemma_edge_ends(g: ControlFlowGraph, h: usize, t: usize)
    requires g.graph.graph_wf(), g.graph.edges@.contains_key((h, t)),
    ensures g.graph.vertices@.contains_key(h), g.graph.vertices@.contains_key(t),
{
    assert(g.graph.successors@.contains_key(h) && g.graph.successors@.contains_key(t));
    assert(g.graph.vertices@.dom().contains(h) && g.graph.vertices@.dom().contains(t));
}

/// before the insertion of the copy of es[i]: its renamed ends exist and the renamed edge is new
pub proof fn lemma_import_edges_fresh(cur: ControlFlowGraph, o: ControlFlowGraph, other: ControlFlowGraph,
                                      m: Map<usize, usize>, minv: Map<usize, usize>, es: Seq<&Edge>, i: int,
                                      done: Set<(usize, usize)>, epos: Map<(usize, usize), int>, v1: Map<usize, Block>)
    requires
        import_edges_inv(cur, o, other, m, minv, es, i, done, epos, v1), i < es.len(),
        other.graph.lists_edges(es, |k: (usize, usize)| true),
        other.graph.graph_wf(), o.cfg_wf(),
        renaming_pair(m, minv, other, o.next_index),
        cur.blocks_imported(o, other, m),
    ensures
        m.contains_key(es[i].head), m.contains_key(es[i].tail),
        other.graph.edges@.contains_key((es[i].head, es[i].tail)),
        *es[i] == other.graph.edges@[(es[i].head, es[i].tail)],
        cur.graph.vertices@.contains_key(m[es[i].head]), cur.graph.vertices@.contains_key(m[es[i].tail]),
        !cur.graph.edges@.contains_key((m[es[i].head], m[es[i].tail])),
        !done.contains((es[i].head, es[i].tail)),
{
    let h = es[i].head;
    let t = es[i].tail;
    assert(other.graph.edges@.contains_key((es[i].head_spec(), es[i].tail_spec())) && *es[i] == other.graph.edges@[(es[i].head_spec(), es[i].tail_spec())]);
    lemma_edge_ends(other, h, t);
    assert(m.contains_key(h) && m.contains_key(t));
    if done.contains((h, t)) {
        let j = epos[(h, t)];
        assert((es[j].head_spec(), es[j].tail_spec()) != (es[i].head_spec(), es[i].tail_spec()));
    }
    let e = (m[h], m[t]);
    if cur.graph.edges@.contains_key(e) {
        if o.graph.edges@.contains_key(e) {
            lemma_edge_ends(o, e.0, e.1);
            assert(minv.contains_key(m[h]));
        } else {
            assert(minv.contains_key(e.0) && minv.contains_key(e.1) && done.contains((minv[e.0], minv[e.1])));
            assert(minv[m[h]] == h && minv[m[t]] == t);
        }
    }
}

/// one iteration: the renamed copy of es[i] has been inserted
pub proof fn lemma_import_edges_step(pre: ControlFlowGraph, post: ControlFlowGraph, o: ControlFlowGraph, other: ControlFlowGraph,
                                     m: Map<usize, usize>, minv: Map<usize, usize>, es: Seq<&Edge>, i: int,
                                     done: Set<(usize, usize)>, epos: Map<(usize, usize), int>, v1: Map<usize, Block>)
    requires
        import_edges_inv(pre, o, other, m, minv, es, i, done, epos, v1), i < es.len(),
        renaming_pair(m, minv, other, o.next_index),
        m.contains_key(es[i].head), m.contains_key(es[i].tail),
        other.graph.edges@.contains_key((es[i].head, es[i].tail)),
        *es[i] == other.graph.edges@[(es[i].head, es[i].tail)],
        !pre.graph.edges@.contains_key((m[es[i].head], m[es[i].tail])),
        !done.contains((es[i].head, es[i].tail)),
        post.graph.graph_wf(),
        post.graph.vertices == pre.graph.vertices,
        post.graph.edges@.dom() == pre.graph.edges@.dom().insert((m[es[i].head], m[es[i].tail])),
        post.graph.edges@[(m[es[i].head], m[es[i].tail])] == renamed_edge(*es[i], m),
        forall|k: (usize, usize)| k != (m[es[i].head], m[es[i].tail]) && pre.graph.edges@.contains_key(k) ==> #[trigger] post.graph.edges@[k] == pre.graph.edges@[k],
    ensures
        import_edges_inv(post, o, other, m, minv, es, i + 1, done.insert((es[i].head, es[i].tail)), epos.insert((es[i].head, es[i].tail), i), v1),
{
    let h = es[i].head;
    let t = es[i].tail;
    let ne = (m[h], m[t]);
    let done2 = done.insert((h, t));
    let epos2 = epos.insert((h, t), i);
    assert(minv[m[h]] == h && minv[m[t]] == t && minv.contains_key(m[h]) && minv.contains_key(m[t]));
    assert forall|e: (usize, usize)| #![trigger done2.contains(e)] done2.contains(e) implies
        other.graph.edges@.contains_key(e) && epos2.contains_key(e) && 0 <= epos2[e] < i + 1 && (es[epos2[e]].head, es[epos2[e]].tail) == e by {
        if e != (h, t) { assert(done.contains(e)); }
    }
    assert forall|e: (usize, usize)| #![trigger o.graph.edges@.contains_key(e)] o.graph.edges@.contains_key(e) implies
        post.graph.edges@.contains_key(e) && post.graph.edges@[e] == o.graph.edges@[e] by {
        assert(pre.graph.edges@.contains_key(e));
        assert(post.graph.edges@.dom().contains(e));
    }
    assert forall|h2: usize, t2: usize| #![trigger done2.contains((h2, t2))] done2.contains((h2, t2)) implies
        post.graph.edges@.contains_key((m[h2], m[t2])) && post.graph.edges@[(m[h2], m[t2])] == renamed_edge(other.graph.edges@[(h2, t2)], m) by {
        if (h2, t2) != (h, t) {
            assert(done.contains((h2, t2)));
            assert(pre.graph.edges@.contains_key((m[h2], m[t2])));
            assert(post.graph.edges@.dom().contains((m[h2], m[t2])));
        } else {
            assert(post.graph.edges@.dom().contains(ne));
        }
    }
    assert forall|e: (usize, usize)| #![trigger post.graph.edges@.contains_key(e)] post.graph.edges@.contains_key(e) implies
        o.graph.edges@.contains_key(e)
        || (minv.contains_key(e.0) && minv.contains_key(e.1) && done2.contains((minv[e.0], minv[e.1]))) by {
        assert(post.graph.edges@.dom().contains(e));
        if e != ne {
            assert(pre.graph.edges@.contains_key(e));
            if !o.graph.edges@.contains_key(e) {
                assert(done.contains((minv[e.0], minv[e.1])));
            }
        }
    }
    assert forall|j: int| 0 <= j < i + 1 implies done2.contains(((#[trigger] es[j]).head, es[j].tail)) by {
        if j < i { assert(done.contains((es[j].head, es[j].tail))); }
    }
}

/// after the last iteration every edge of `other` has its copy
pub proof fn lemma_import_edges_done(cur: ControlFlowGraph, o: ControlFlowGraph, other: ControlFlowGraph,
                                     m: Map<usize, usize>, minv: Map<usize, usize>, es: Seq<&Edge>,
                                     done: Set<(usize, usize)>, epos: Map<(usize, usize), int>, v1: Map<usize, Block>)
    requires
        import_edges_inv(cur, o, other, m, minv, es, es.len() as int, done, epos, v1),
        other.graph.lists_edges(es, |k: (usize, usize)| true),
    ensures
        cur.edges_imported(o, other, m, minv, None),
{
    assert forall|h: usize, t: usize| #![trigger other.graph.edges@.contains_key((h, t))] other.graph.edges@.contains_key((h, t)) implies
        cur.graph.edges@.contains_key((m[h], m[t])) && cur.graph.edges@[(m[h], m[t])] == renamed_edge(other.graph.edges@[(h, t)], m) by {
        lemma_listed_edge(other.graph, es, (h, t));
        let j = choose|j: int| 0 <= j < es.len() && ((#[trigger] es[j]).head, es[j].tail) == (h, t);
        assert(done.contains((es[j].head, es[j].tail)));
        assert(done.contains((h, t)));
    }
    assert forall|e: (usize, usize)| #![trigger cur.graph.edges@.contains_key(e)] cur.graph.edges@.contains_key(e) implies
        o.graph.edges@.contains_key(e)
        || (minv.contains_key(e.0) && minv.contains_key(e.1) && other.graph.edges@.contains_key((minv[e.0], minv[e.1]))) by {
        if !o.graph.edges@.contains_key(e) {
            assert(done.contains((minv[e.0], minv[e.1])));
        }
    }
}

/// the imported graph is well formed (entry / exit are checked by the caller)
pub proof fn lemma_imported_wf(cur: ControlFlowGraph, o: ControlFlowGraph, other: ControlFlowGraph, m: Map<usize, usize>, minv: Map<usize, usize>)
    requires
        o.cfg_wf(), other.cfg_wf(), cur.graph.graph_wf(),
        renaming_pair(m, minv, other, o.next_index),
        cur.blocks_imported(o, other, m),
        cur.entry matches Some(e) ==> cur.graph.vertices@.contains_key(e),
        cur.exit matches Some(e) ==> cur.graph.vertices@.contains_key(e),
    ensures cur.cfg_wf(),
{
    assert forall|k: usize| #![trigger cur.graph.vertices@[k]] cur.graph.vertices@.contains_key(k) implies
        cur.graph.vertices@[k].block_wf() && cur.graph.vertices@[k].index == k by {
        if o.graph.vertices@.contains_key(k) {
            assert(cur.graph.vertices@[k] == o.graph.vertices@[k]);
        } else {
            assert(minv.contains_key(k));
            let ok = minv[k];
            assert(m.contains_key(ok) && m[ok] == k);
            assert(other.graph.vertices@.contains_key(ok));
            assert(cur.graph.vertices@[m[ok]] == reindexed_block(other.graph.vertices@[ok], m[ok]));
            assert(other.graph.vertices@[ok].block_wf());
        }
    }
}

/// the transition edge exit -> m[other.entry] is not an edge yet
pub proof fn lemma_transition_fresh(cur: ControlFlowGraph, o: ControlFlowGraph, other: ControlFlowGraph,
                                    m: Map<usize, usize>, minv: Map<usize, usize>, x: usize, t: usize)
    requires
        cur.edges_imported(o, other, m, minv, None), o.cfg_wf(),
        renaming_pair(m, minv, other, o.next_index),
        o.graph.vertices@.contains_key(x), minv.contains_key(t),
    ensures !cur.graph.edges@.contains_key((x, t)),
{
    if cur.graph.edges@.contains_key((x, t)) {
        if o.graph.edges@.contains_key((x, t)) {
            lemma_edge_ends(o, x, t);
        } else {
            assert(minv.contains_key(x));
        }
    }
}

/// the transition edge has been inserted
pub proof fn lemma_transition_step(pre: ControlFlowGraph, post: ControlFlowGraph, o: ControlFlowGraph, other: ControlFlowGraph,
                                   m: Map<usize, usize>, minv: Map<usize, usize>, e: Edge)
    requires
        pre.edges_imported(o, other, m, minv, None),
        post.graph.edges@.dom() == pre.graph.edges@.dom().insert((e.head, e.tail)),
        post.graph.edges@[(e.head, e.tail)] == e,
        !pre.graph.edges@.contains_key((e.head, e.tail)),
        forall|k: (usize, usize)| k != (e.head, e.tail) && pre.graph.edges@.contains_key(k) ==> #[trigger] post.graph.edges@[k] == pre.graph.edges@[k],
    ensures post.edges_imported(o, other, m, minv, Some(e)),
{
    let ne = (e.head, e.tail);
    assert forall|k: (usize, usize)| #![trigger o.graph.edges@.contains_key(k)] o.graph.edges@.contains_key(k) implies
        post.graph.edges@.contains_key(k) && post.graph.edges@[k] == o.graph.edges@[k] by {
        assert(pre.graph.edges@.contains_key(k));
        assert(post.graph.edges@.dom().contains(k));
    }
    assert forall|h: usize, t: usize| #![trigger other.graph.edges@.contains_key((h, t))] other.graph.edges@.contains_key((h, t)) implies
        post.graph.edges@.contains_key((m[h], m[t])) && post.graph.edges@[(m[h], m[t])] == renamed_edge(other.graph.edges@[(h, t)], m) by {
        assert(pre.graph.edges@.contains_key((m[h], m[t])));
        assert(post.graph.edges@.dom().contains((m[h], m[t])));
    }
    assert(post.graph.edges@.dom().contains(ne));
    assert forall|k: (usize, usize)| #![trigger post.graph.edges@.contains_key(k)] post.graph.edges@.contains_key(k) implies
        o.graph.edges@.contains_key(k)
        || (minv.contains_key(k.0) && minv.contains_key(k.1) && other.graph.edges@.contains_key((minv[k.0], minv[k.1])))
        || k == ne by {
        assert(post.graph.edges@.dom().contains(k));
        if k != ne { assert(pre.graph.edges@.contains_key(k)); }
    }
}
