// ---- units/C15/cfg_client.rs: a client of the contracts (template code, nothing extracted).
// Purpose: vacuity / usability guard - the contracts must be strong enough to predict, symbolically,
// what a concrete sequence of construction operations produces.
pub fn client_smoke_build()
{
    let mut g = ControlFlowGraph::new();
    let a = match g.new_block() {
        Ok(b) => { b.nop(); b.nop(); b.index() }
        Err(_) => { assert(false); 0 }
    };
    assert(a == 0);
    assert(g.cfg_wf());
    assert(g.graph.vertices@[0].instructions@.len() == 2);
    assert(g.graph.vertices@[0].instructions@[1].index == 1);
    let c = match g.new_block() {
        Ok(b) => { b.nop(); b.index() }
        Err(_) => { assert(false); 0 }
    };
    assert(c == 1);
    assert(g.cfg_wf());
    assert(g.has_block(0) && g.has_block(1) && !g.has_block(2));
    let r = g.unconditional_edge(a, c);
    assert(r is Ok);
    let r = g.unconditional_edge(a, c);
    assert(r is Err);
    let r = g.unconditional_edge(a, 7);
    assert(r == Err::<(), Error>(Error::GraphVertexNotFound(7)));
    assert(g.has_edge(0, 1) && !g.has_edge(1, 0));
    assert(g.graph.edges@[(0usize, 1usize)].condition is None);
    let r = g.set_entry(a);
    assert(r is Ok);
    let r = g.set_exit(5);
    assert(r is Err);
    assert(g.exit is None);
    let r = g.set_exit(c);
    assert(r is Ok);
    assert(g.entry == Some(0usize) && g.exit == Some(1usize));
    let s = g.successor_indices(0);
    assert(s is Ok);
    assert(s->Ok_0@.contains(1));
    assert(!s->Ok_0@.contains(0));
    match g.block_mut(0) {
        Ok(b) => {
            assert(b.instructions@[0].index == 0);   // witness for has_instruction(0)
            let r = b.remove_instruction(0);
            assert(r is Ok);
            let r = b.remove_instruction(0);
            assert(r is Err);
        }
        Err(_) => { assert(false); }
    }
    assert(g.cfg_wf());
    assert(g.graph.vertices@[0].instructions@.len() == 1);
    assert(g.graph.vertices@[0].instructions@[0].index == 1);
}

pub fn client_smoke_append()
{
    let mut g = ControlFlowGraph::new();
    let a = match g.new_block() { Ok(b) => { b.nop(); b.index() } Err(_) => { assert(false); 0 } };
    let r = g.set_entry(a);
    let r = g.set_exit(a);
    let mut h = ControlFlowGraph::new();
    let x = match h.new_block() { Ok(b) => { b.nop(); b.index() } Err(_) => { assert(false); 0 } };
    // entry / exit of h not set: append refuses and changes nothing
    let ghost g0 = g;
    proof { lemma_map_nonempty(g.graph.vertices@, 0); }
    let r = g.append(&h);
    assert(r is Err);
    assert(g == g0);
    let r = h.set_entry(x);
    let r = h.set_exit(x);
    proof { lemma_map_nonempty(h.graph.vertices@, 0); assert(h.graph.vertices@.dom() =~= set![0usize]); }
    let r = g.append(&h);
    assert(r is Ok);
    assert(g.cfg_wf());
    assert(g.next_index == 2);
    assert(g.entry == Some(0usize));
    // the copy of h's only block got index 1, the transition edge is 0 -> 1, exit moved to 1
    proof {
        let (m, minv) = choose|m: Map<usize, usize>, minv: Map<usize, usize>| #[trigger] g.appended_with(g0, h, m, minv);
        assert(m.contains_key(0));
        assert(minv.contains_key(m[0]));
        assert(m[0] == 1);
    }
    assert(g.exit == Some(1usize));
    assert(g.has_edge(0, 1));
    assert(g.has_block(1));
    assert(g.graph.vertices@[1].instructions@.len() == 1);
}
