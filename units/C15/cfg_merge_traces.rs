// ======================================================================================
// units/C15/cfg_merge_traces.rs - `merge` keeps the executions from the entry (only lemmas, nothing
// extracted; the definitions are in units/C15/cfg_merge.rs).
//
//   part A  walks and traces: unfolding lemmas
//   part B  the one-step simulation, both directions: if `post` is `pre` after the elementary step "merge s
//           into m" (merge_step_of) and (m, s) was mergeable in `pre`, then post.exec_equiv(pre)
//   part C  exec_equiv is reflexive and transitive (lifting over the loops of merge)
//   part D  the merge list: the pairs listed by the first inner loop are mergeable and pairwise disjoint, and
//           a step on one pair keeps every other pair mergeable
//   part E  the concrete effect of one iteration of the second inner loop of `merge` is merge_step_of
// ======================================================================================

// ---- part A ---------------------------------------------------------------------------------

pub proof fn lemma_guard_none(c: Option<Expression>)
    requires c is None,
    ensures guard_of(c) == Seq::<TraceItem>::empty(),
{
    reveal(guard_of);
}

/// code_of forgets the instruction indices (and comments): the code of `m.append(s)` is code(m) ++ code(s)
pub proof fn lemma_code_appended(new: Block, old: Block, other: Block)
    requires new.appended(old, other),
    ensures code_of(new) == code_of(old) + code_of(other),
{
    reveal(code_of);
    let a = code_of(new);
    let b = code_of(old) + code_of(other);
    assert(a.len() == b.len());
    assert forall|i: int| 0 <= i < a.len() implies a[i] == b[i] by {
        if i < old.instructions@.len() {
            assert(new.instructions@[i] == old.instructions@[i]);
        } else {
            let j = i - old.instructions@.len();
            assert(new.instructions@[old.instructions@.len() + j] == reindexed(other.instructions@[j], (old.next_instruction_index + j) as usize));
        }
    }
    assert(a =~= b);
}

impl ControlFlowGraph {
    pub proof fn lemma_walk_facts(&self, w: Seq<usize>)
        requires self.entry_walk(w),
        ensures
            w.len() >= 1, self.has_block(w.last()),
            w.len() == 1 ==> self.entry == Some(w[0]),
            w.len() > 1 ==> self.entry_walk(w.drop_last()) && self.has_edge(w[w.len() - 2], w.last()),
    {
        reveal(ControlFlowGraph::entry_walk);
    }

    pub proof fn lemma_walk_single(&self, w: Seq<usize>)
        requires w.len() == 1, self.entry == Some(w[0]), self.has_block(w[0]),
        ensures self.entry_walk(w), self.walk_prefix_trace(w) == Seq::<TraceItem>::empty(),
    {
        reveal(ControlFlowGraph::entry_walk);
        reveal(ControlFlowGraph::walk_prefix_trace);
    }

    pub proof fn lemma_prefix_unfold(&self, w: Seq<usize>)
        ensures
            w.len() <= 1 ==> self.walk_prefix_trace(w) == Seq::<TraceItem>::empty(),
            w.len() > 1 ==> self.walk_prefix_trace(w)
                == self.walk_prefix_trace(w.drop_last()) + self.code_at(w[w.len() - 2]) + self.guard_at(w[w.len() - 2], w.last()),
    {
        reveal(ControlFlowGraph::walk_prefix_trace);
    }

    /// extending a walk by one out-edge of its last block
    pub proof fn lemma_walk_push(&self, w: Seq<usize>, b: usize)
        requires self.entry_walk(w), self.has_edge(w.last(), b), self.has_block(b),
        ensures
            self.entry_walk(w.push(b)),
            w.push(b).last() == b,
            self.walk_prefix_trace(w.push(b)) == self.walk_prefix_trace(w) + self.code_at(w.last()) + self.guard_at(w.last(), b),
    {
        self.lemma_walk_facts(w);
        let x = w.push(b);
        assert(x.drop_last() =~= w);
        assert(x[x.len() - 2] == w.last());
        self.lemma_prefix_unfold(x);
        reveal(ControlFlowGraph::entry_walk);
    }
}

// ---- part B ---------------------------------------------------------------------------------

/// forward, walks: the image of a walk of `pre` drops every occurrence of s
pub proof fn lemma_merge_step_fwd_walk(pre: ControlFlowGraph, post: ControlFlowGraph, m: usize, s: usize, w: Seq<usize>) -> (w2: Seq<usize>)
    requires pre.mergeable(m, s), post.merge_step_of(pre, m, s), pre.entry_walk(w),
    ensures
        post.entry_walk(w2),
        w.last() == s ==> w2.last() == m && post.walk_prefix_trace(w2) + pre.code_at(m) == pre.walk_prefix_trace(w),
        w.last() != s ==> w2.last() == w.last() && post.walk_prefix_trace(w2) == pre.walk_prefix_trace(w),
    decreases w.len(),
{
    reveal(ControlFlowGraph::mergeable);
    reveal(ControlFlowGraph::merge_step_of);
    pre.lemma_walk_facts(w);
    if w.len() == 1 {
        assert(post.has_block(w[0]));
        post.lemma_walk_single(w);
        pre.lemma_prefix_unfold(w);
        w
    } else {
        let v = w.drop_last();
        let v2 = lemma_merge_step_fwd_walk(pre, post, m, s, v);
        let a = v.last();
        let b = w.last();
        assert(a == w[w.len() - 2]);
        pre.lemma_prefix_unfold(w);
        assert(pre.has_edge(a, b));
        if b == s {
            assert(a == m);
            lemma_guard_none(pre.graph.edges@[(m, s)].condition);
            assert(post.walk_prefix_trace(v2) + pre.code_at(m) =~= pre.walk_prefix_trace(v) + pre.code_at(m) + pre.guard_at(m, s));
            v2
        } else if a == s {
            assert(post.has_edge(m, b));
            assert(post.has_block(b));
            post.lemma_walk_push(v2, b);
            let x = post.walk_prefix_trace(v2);
            assert(x + (pre.code_at(m) + pre.code_at(s)) + pre.guard_at(s, b) =~= (x + pre.code_at(m)) + pre.code_at(s) + pre.guard_at(s, b));
            v2.push(b)
        } else {
            assert(a != m);
            assert(post.has_edge(a, b));
            assert(post.has_block(b));
            pre.lemma_walk_facts(v);
            assert(post.has_block(a));
            post.lemma_walk_push(v2, b);
            v2.push(b)
        }
    }
}

/// backward, walks: a walk of `post` is the image of the walk of `pre` that passes through s after every
/// non-final occurrence of m
pub proof fn lemma_merge_step_bwd_walk(pre: ControlFlowGraph, post: ControlFlowGraph, m: usize, s: usize, w2: Seq<usize>) -> (w: Seq<usize>)
    requires pre.mergeable(m, s), post.merge_step_of(pre, m, s), post.entry_walk(w2),
    ensures
        pre.entry_walk(w),
        w.last() == w2.last(),
        pre.walk_prefix_trace(w) == post.walk_prefix_trace(w2),
    decreases w2.len(),
{
    reveal(ControlFlowGraph::mergeable);
    reveal(ControlFlowGraph::merge_step_of);
    post.lemma_walk_facts(w2);
    if w2.len() == 1 {
        assert(post.has_block(w2[0]));
        pre.lemma_walk_single(w2);
        post.lemma_prefix_unfold(w2);
        w2
    } else {
        let v2 = w2.drop_last();
        let v = lemma_merge_step_bwd_walk(pre, post, m, s, v2);
        let a = v2.last();
        let b = w2.last();
        assert(a == w2[w2.len() - 2]);
        post.lemma_prefix_unfold(w2);
        assert(post.has_edge(a, b));
        assert(post.has_block(b));
        post.lemma_walk_facts(v2);
        assert(post.has_block(a));
        if a == m {
            assert(pre.has_edge(s, b));
            pre.lemma_walk_push(v, s);
            let vs = v.push(s);
            pre.lemma_walk_push(vs, b);
            lemma_guard_none(pre.graph.edges@[(m, s)].condition);
            let x = pre.walk_prefix_trace(v);
            assert(x + pre.code_at(m) + pre.guard_at(m, s) + pre.code_at(s) + pre.guard_at(s, b) =~= x + (pre.code_at(m) + pre.code_at(s)) + pre.guard_at(s, b));
            vs.push(b)
        } else {
            assert(pre.has_edge(a, b));
            pre.lemma_walk_push(v, b);
            v.push(b)
        }
    }
}

/// forward, runs
pub proof fn lemma_merge_step_fwd(pre: ControlFlowGraph, post: ControlFlowGraph, m: usize, s: usize)
    requires pre.mergeable(m, s), post.merge_step_of(pre, m, s),
    ensures pre.simulated_by(post, false),
{
    assert forall|w: Seq<usize>, n: int| #[trigger] pre.is_run(w, n) implies post.has_run(pre.run_trace(w, n), false) by {
        let w2 = lemma_merge_step_fwd_walk(pre, post, m, s, w);
        pre.lemma_walk_facts(w);
        post.lemma_walk_facts(w2);
        assert(post.code_at(m) == pre.code_at(m) + pre.code_at(s)
            && (w.last() != s && w.last() != m ==> post.code_at(w.last()) == pre.code_at(w.last()))) by {
            reveal(ControlFlowGraph::merge_step_of);
            reveal(ControlFlowGraph::mergeable);
        }
        let cm = pre.code_at(m);
        let cs = pre.code_at(s);
        if w.last() == s {
            let n2 = cm.len() + n;
            assert((cm + cs).take(n2) =~= cm + cs.take(n));
            assert(post.is_run(w2, n2));
            assert(post.run_trace(w2, n2) =~= pre.run_trace(w, n));
        } else if w.last() == m {
            assert((cm + cs).take(n) =~= cm.take(n));
            assert(post.is_run(w2, n));
            assert(post.run_trace(w2, n) =~= pre.run_trace(w, n));
        } else {
            assert(post.is_run(w2, n));
            assert(post.run_trace(w2, n) =~= pre.run_trace(w, n));
        }
    }
}

/// backward, runs (block ends to block ends)
pub proof fn lemma_merge_step_bwd(pre: ControlFlowGraph, post: ControlFlowGraph, m: usize, s: usize)
    requires pre.mergeable(m, s), post.merge_step_of(pre, m, s),
    ensures post.simulated_by(pre, true),
{
    assert forall|w2: Seq<usize>, n2: int| #[trigger] post.is_run(w2, n2) implies pre.has_run(post.run_trace(w2, n2), true && post.run_at_block_end(w2, n2)) by {
        let w = lemma_merge_step_bwd_walk(pre, post, m, s, w2);
        pre.lemma_walk_facts(w);
        post.lemma_walk_facts(w2);
        assert(post.code_at(m) == pre.code_at(m) + pre.code_at(s)
            && (w2.last() != m ==> post.code_at(w2.last()) == pre.code_at(w2.last()))
            && pre.has_edge(m, s) && pre.has_block(s) && pre.graph.edges@[(m, s)].condition is None) by {
            reveal(ControlFlowGraph::merge_step_of);
            reveal(ControlFlowGraph::mergeable);
        }
        let cm = pre.code_at(m);
        let cs = pre.code_at(s);
        if w2.last() == m {
            if n2 < cm.len() {
                assert((cm + cs).take(n2) =~= cm.take(n2));
                assert(pre.is_run(w, n2));
                assert(pre.run_trace(w, n2) =~= post.run_trace(w2, n2));
                assert(!post.run_at_block_end(w2, n2));
            } else {
                let n = n2 - cm.len();
                pre.lemma_walk_push(w, s);
                lemma_guard_none(pre.graph.edges@[(m, s)].condition);
                let ws = w.push(s);
                assert((cm + cs).take(n2) =~= cm + cs.take(n));
                assert(pre.is_run(ws, n));
                assert(pre.run_trace(ws, n) =~= post.run_trace(w2, n2));
                assert(post.run_at_block_end(w2, n2) ==> pre.run_at_block_end(ws, n));
            }
        } else {
            assert(pre.is_run(w, n2));
            assert(pre.run_trace(w, n2) =~= post.run_trace(w2, n2));
        }
    }
}

/// THE ONE-STEP THEOREM
pub proof fn lemma_merge_step_equiv(pre: ControlFlowGraph, post: ControlFlowGraph, m: usize, s: usize)
    requires pre.mergeable(m, s), post.merge_step_of(pre, m, s),
    ensures post.exec_equiv(pre),
{
    reveal(ControlFlowGraph::exec_equiv);
    lemma_merge_step_fwd(pre, post, m, s);
    lemma_merge_step_bwd(pre, post, m, s);
}

// ---- part C ---------------------------------------------------------------------------------

pub proof fn lemma_sim_refl(a: ControlFlowGraph, keep_ends: bool)
    ensures a.simulated_by(a, keep_ends),
{
    assert forall|w: Seq<usize>, n: int| #[trigger] a.is_run(w, n) implies a.has_run(a.run_trace(w, n), keep_ends && a.run_at_block_end(w, n)) by {
        assert(a.is_run(w, n) && a.run_trace(w, n) == a.run_trace(w, n));
    }
}

pub proof fn lemma_sim_trans(a: ControlFlowGraph, b: ControlFlowGraph, c: ControlFlowGraph, keep_ends: bool)
    requires a.simulated_by(b, keep_ends), b.simulated_by(c, keep_ends),
    ensures a.simulated_by(c, keep_ends),
{
    assert forall|w: Seq<usize>, n: int| #[trigger] a.is_run(w, n) implies c.has_run(a.run_trace(w, n), keep_ends && a.run_at_block_end(w, n)) by {
        let t = a.run_trace(w, n);
        let e = keep_ends && a.run_at_block_end(w, n);
        assert(b.has_run(t, e));
        let (w1, n1) = choose|w1: Seq<usize>, n1: int| #[trigger] b.is_run(w1, n1) && b.run_trace(w1, n1) == t && (e ==> b.run_at_block_end(w1, n1));
        assert(c.has_run(b.run_trace(w1, n1), keep_ends && b.run_at_block_end(w1, n1)));
        let e1 = keep_ends && b.run_at_block_end(w1, n1);
        let (w2, n2) = choose|w2: Seq<usize>, n2: int| #[trigger] c.is_run(w2, n2) && c.run_trace(w2, n2) == t && (e1 ==> c.run_at_block_end(w2, n2));
        assert(c.is_run(w2, n2) && c.run_trace(w2, n2) == t && (e ==> c.run_at_block_end(w2, n2)));
    }
}

pub proof fn lemma_exec_equiv_refl(a: ControlFlowGraph)
    ensures a.exec_equiv(a),
{
    reveal(ControlFlowGraph::exec_equiv);
    lemma_sim_refl(a, false);
    lemma_sim_refl(a, true);
}

/// c.exec_equiv(b) and b.exec_equiv(a) give c.exec_equiv(a)
pub proof fn lemma_exec_equiv_trans(c: ControlFlowGraph, b: ControlFlowGraph, a: ControlFlowGraph)
    requires c.exec_equiv(b), b.exec_equiv(a),
    ensures c.exec_equiv(a),
{
    reveal(ControlFlowGraph::exec_equiv);
    lemma_sim_trans(a, b, c, false);
    lemma_sim_trans(c, b, a, true);
}

// ---- part D ---------------------------------------------------------------------------------

/// a step on (m, s) keeps a disjoint pair mergeable
pub proof fn lemma_merge_step_keeps_mergeable(pre: ControlFlowGraph, post: ControlFlowGraph, m: usize, s: usize, m2: usize, s2: usize)
    requires
        pre.mergeable(m, s), post.merge_step_of(pre, m, s), pre.mergeable(m2, s2),
        pairs_disjoint((m, s), (m2, s2)),
    ensures post.mergeable(m2, s2),
{
    reveal(ControlFlowGraph::mergeable);
    reveal(ControlFlowGraph::merge_step_of);
    assert(post.has_block(m2) && post.has_block(s2));
    assert(post.has_edge(m2, s2));
    assert forall|t: usize| #[trigger] post.has_edge(m2, t) implies t == s2 by {
        assert(pre.has_edge(m2, t));
    }
    assert forall|p: usize| #[trigger] post.has_edge(p, s2) implies p == m2 by {
        if p == m && pre.has_edge(s, s2) {
            assert(s == m2);
        }
        assert(pre.has_edge(p, s2));
    }
}

pub proof fn lemma_mergeable_facts(g: ControlFlowGraph, m: usize, s: usize)
    requires g.mergeable(m, s),
    ensures
        m != s, g.has_block(m), g.has_block(s), g.has_edge(m, s), g.entry != Some(s), !g.has_edge(s, s),
        forall|t: usize| #[trigger] g.has_edge(m, t) ==> t == s,
{
    reveal(ControlFlowGraph::mergeable);
}

pub proof fn lemma_merge_list_empty(g: ControlFlowGraph)
    ensures merge_list_ok(g, Seq::<(usize, usize)>::empty(), 0), merge_list_covered(Seq::<(usize, usize)>::empty(), Set::<usize>::empty()),
{
    reveal(merge_list_ok);
}

/// the first inner loop lists one more pair
pub proof fn lemma_merge_list_push(g: ControlFlowGraph, mq: Seq<(usize, usize)>, bbm: Set<usize>, m: usize, s: usize)
    requires merge_list_ok(g, mq, 0), merge_list_covered(mq, bbm), !bbm.contains(m), !bbm.contains(s), m != s,
    ensures
        g.mergeable(m, s) ==> merge_list_ok(g, mq.push((m, s)), 0),
        merge_list_covered(mq.push((m, s)), bbm.insert(m).insert(s)),
{
    reveal(merge_list_ok);
    let nq = mq.push((m, s));
    assert forall|i: int| 0 <= i < nq.len() implies bbm.insert(m).insert(s).contains((#[trigger] nq[i]).0) && bbm.insert(m).insert(s).contains(nq[i].1) by {
        if i < mq.len() { assert(nq[i] == mq[i]); }
    }
    if g.mergeable(m, s) {
        assert forall|i: int| 0 <= i < nq.len() implies g.mergeable((#[trigger] nq[i]).0, nq[i].1) by {
            if i < mq.len() { assert(nq[i] == mq[i]); }
        }
        assert forall|i: int, j: int| 0 <= i < j < nq.len() implies pairs_disjoint(#[trigger] nq[i], #[trigger] nq[j]) by {
            assert(nq[i] == mq[i]);
            if j < mq.len() { assert(nq[j] == mq[j]); }
        }
    }
}

pub proof fn lemma_merge_list_head(g: ControlFlowGraph, mq: Seq<(usize, usize)>, i: int)
    requires merge_list_ok(g, mq, i), 0 <= i < mq.len(),
    ensures g.mergeable(mq[i].0, mq[i].1),
{
    reveal(merge_list_ok);
}

/// the second inner loop has performed the step on the pair at position i
pub proof fn lemma_merge_list_advance(pre: ControlFlowGraph, post: ControlFlowGraph, mq: Seq<(usize, usize)>, i: int)
    requires merge_list_ok(pre, mq, i), 0 <= i < mq.len(), post.merge_step_of(pre, mq[i].0, mq[i].1),
    ensures merge_list_ok(post, mq, i + 1),
{
    reveal(merge_list_ok);
    assert forall|j: int| i + 1 <= j < mq.len() implies post.mergeable((#[trigger] mq[j]).0, mq[j].1) by {
        assert(pairs_disjoint(mq[i], mq[j]));
        lemma_merge_step_keeps_mergeable(pre, post, mq[i].0, mq[i].1, mq[j].0, mq[j].1);
    }
}

/// what the first inner loop has checked when it lists (b, succ)
pub proof fn lemma_mergeable_intro(g: ControlFlowGraph, es_out: Seq<&Edge>, es_in: Seq<&Edge>, b: usize, succ: usize)
    requires
        g.cfg_wf(),
        g.graph.lists_edges(es_out, |k: (usize, usize)| k.0 == b),
        g.graph.lists_edges(es_in, |k: (usize, usize)| k.1 == succ),
        es_out.len() >= 1, es_out[0].tail == succ,
    ensures
        g.has_edge(b, succ),
        es_out.len() == 1 && es_in.len() == 1 && es_out[0].condition is None && g.has_block(b) && succ != b && g.entry != Some(succ)
            ==> g.mergeable(b, succ),
{
    reveal(ControlFlowGraph::mergeable);
    let sel_out = |k: (usize, usize)| k.0 == b;
    let sel_in = |k: (usize, usize)| k.1 == succ;
    let e0 = es_out[0];
    let k0 = (e0.head_spec(), e0.tail_spec());
    assert(sel_out(k0) && g.graph.edges@.contains_key(k0) && *e0 == g.graph.edges@[k0]);
    assert(k0 == (b, succ));
    lemma_edge_ends(g, b, succ);
    if es_out.len() == 1 && es_in.len() == 1 {
        assert forall|t: usize| #[trigger] g.has_edge(b, t) implies t == succ by {
            assert(sel_out((b, t)) && g.graph.edges@.contains_key((b, t)));
            let i = choose|i: int| 0 <= i < es_out.len() && ((#[trigger] es_out[i]).head_spec(), es_out[i].tail_spec()) == (b, t);
            assert(i == 0);
        }
        assert(sel_in((b, succ)) && g.graph.edges@.contains_key((b, succ)));
        let i0 = choose|i: int| 0 <= i < es_in.len() && ((#[trigger] es_in[i]).head_spec(), es_in[i].tail_spec()) == (b, succ);
        assert(i0 == 0);
        assert forall|p: usize| #[trigger] g.has_edge(p, succ) implies p == b by {
            assert(sel_in((p, succ)) && g.graph.edges@.contains_key((p, succ)));
            let i = choose|i: int| 0 <= i < es_in.len() && ((#[trigger] es_in[i]).head_spec(), es_in[i].tail_spec()) == (p, succ);
            assert(i == 0);
        }
    }
}

// ---- part E ---------------------------------------------------------------------------------

/// b is the tail of one of the first n listed edges
pub open spec fn tail_among(ne: Seq<Edge>, n: int, b: usize) -> bool {
    exists|j: int| 0 <= j < n && j < ne.len() && (#[trigger] ne[j]).tail == b
}

/// the edge that re-attaches the out-edge e of the merged block to block m
pub open spec fn reattached(e: Edge, m: usize) -> Edge {
    Edge { head: m, tail: e.tail, condition: e.condition, comment: None }
}

/// the vector built by the loop "all of successor's successors become merge_block's successors":
/// one edge m -> t with the condition of s -> t for every edge s -> t of mid, no tail twice
#[verifier::opaque]
pub open spec fn merge_new_edges(mid: ControlFlowGraph, ne: Seq<Edge>, m: usize, s: usize) -> bool {
    &&& forall|j: int| 0 <= j < ne.len() ==> (#[trigger] ne[j]).head == m && mid.has_edge(s, ne[j].tail)
            && ne[j].condition == mid.graph.edges@[(s, ne[j].tail)].condition
    &&& forall|i: int, j: int| 0 <= i < j < ne.len() ==> (#[trigger] ne[i]).tail != (#[trigger] ne[j]).tail
    &&& forall|t: usize| #[trigger] mid.has_edge(s, t) ==> tail_among(ne, ne.len() as int, t)
}

pub proof fn lemma_merge_new_edges(mid: ControlFlowGraph, eos: Seq<&Edge>, ne: Seq<Edge>, m: usize, s: usize)
    requires
        mid.cfg_wf(),
        mid.graph.lists_edges(eos, |k: (usize, usize)| k.0 == s),
        ne.len() == eos.len(),
        forall|j: int| 0 <= j < ne.len() ==> #[trigger] ne[j] == reattached(*eos[j], m),
    ensures merge_new_edges(mid, ne, m, s),
{
    reveal(merge_new_edges);
    let sel = |k: (usize, usize)| k.0 == s;
    assert forall|j: int| 0 <= j < ne.len() implies (#[trigger] ne[j]).head == m && mid.has_edge(s, ne[j].tail)
        && ne[j].condition == mid.graph.edges@[(s, ne[j].tail)].condition by {
        let k = (eos[j].head_spec(), eos[j].tail_spec());
        assert(sel(k) && mid.graph.edges@.contains_key(k) && *eos[j] == mid.graph.edges@[k]);
        assert(k == (s, ne[j].tail));
    }
    assert forall|i: int, j: int| 0 <= i < j < ne.len() implies (#[trigger] ne[i]).tail != (#[trigger] ne[j]).tail by {
        let ki = (eos[i].head_spec(), eos[i].tail_spec());
        let kj = (eos[j].head_spec(), eos[j].tail_spec());
        assert(sel(ki) && sel(kj));
        assert(ki != kj);
    }
    assert forall|t: usize| #[trigger] mid.has_edge(s, t) implies tail_among(ne, ne.len() as int, t) by {
        assert(sel((s, t)) && mid.graph.edges@.contains_key((s, t)));
        let i = choose|i: int| 0 <= i < eos.len() && ((#[trigger] eos[i]).head_spec(), eos[i].tail_spec()) == (s, t);
        assert(ne[i].tail == t);
    }
}

/// the state of the loop that inserts the re-attached edges, after n insertions: blocks untouched, every
/// edge of mid kept unchanged, the first n new edges present with their conditions, nothing else
#[verifier::opaque]
pub open spec fn merge_edges_inv(cur: ControlFlowGraph, mid: ControlFlowGraph, ne: Seq<Edge>, n: int, m: usize) -> bool {
    &&& cur.graph.vertices@ == mid.graph.vertices@
    &&& cur.same_scalars(mid)
    &&& forall|a: usize, b: usize| #[trigger] mid.has_edge(a, b) ==> cur.has_edge(a, b) && cur.graph.edges@[(a, b)] == mid.graph.edges@[(a, b)]
    &&& forall|a: usize, b: usize| #[trigger] cur.has_edge(a, b) ==> mid.has_edge(a, b) || (a == m && tail_among(ne, n, b))
    &&& forall|j: int| 0 <= j < n && j < ne.len() ==> cur.has_edge(m, (#[trigger] ne[j]).tail)
            && cur.graph.edges@[(m, ne[j].tail)].condition == ne[j].condition
}

pub proof fn lemma_merge_edges_init(mid: ControlFlowGraph, ne: Seq<Edge>, m: usize)
    ensures merge_edges_inv(mid, mid, ne, 0, m),
{
    reveal(merge_edges_inv);
}

/// before the insertion of ne[n]: the edge is new and its ends exist
pub proof fn lemma_merge_edges_fresh(cur: ControlFlowGraph, mid: ControlFlowGraph, ne: Seq<Edge>, n: int, m: usize, s: usize)
    requires
        mid.cfg_wf(), mid.has_block(m),
        merge_new_edges(mid, ne, m, s), merge_edges_inv(cur, mid, ne, n, m), 0 <= n < ne.len(),
    ensures
        ne[n].head == m,
        cur.has_block(m), cur.has_block(ne[n].tail),
        (forall|t: usize| #[trigger] mid.has_edge(m, t) ==> t == s) && !mid.has_edge(s, s) ==> !cur.has_edge(m, ne[n].tail),
{
    reveal(merge_new_edges);
    reveal(merge_edges_inv);
    lemma_edge_ends(mid, s, ne[n].tail);
    if (forall|t: usize| #[trigger] mid.has_edge(m, t) ==> t == s) && !mid.has_edge(s, s) {
        if cur.has_edge(m, ne[n].tail) {
            if mid.has_edge(m, ne[n].tail) {
                assert(ne[n].tail == s);
                assert(mid.has_edge(s, ne[n].tail));
            } else {
                assert(tail_among(ne, n, ne[n].tail));
                let j = choose|j: int| 0 <= j < n && j < ne.len() && (#[trigger] ne[j]).tail == ne[n].tail;
                assert(ne[j].tail != ne[n].tail);
            }
        }
    }
}

/// after the insertion of ne[n]
pub proof fn lemma_merge_edges_step(before: ControlFlowGraph, after: ControlFlowGraph, mid: ControlFlowGraph, ne: Seq<Edge>, n: int, m: usize, s: usize)
    requires
        merge_new_edges(mid, ne, m, s), merge_edges_inv(before, mid, ne, n, m), 0 <= n < ne.len(),
        !before.has_edge(m, ne[n].tail),
        after.same_scalars(before),
        after.graph.vertices == before.graph.vertices,
        after.graph.edges@.dom() == before.graph.edges@.dom().insert((m, ne[n].tail)),
        after.graph.edges@[(m, ne[n].tail)] == ne[n],
        forall|k: (usize, usize)| k != (m, ne[n].tail) && before.graph.edges@.contains_key(k) ==> #[trigger] after.graph.edges@[k] == before.graph.edges@[k],
    ensures merge_edges_inv(after, mid, ne, n + 1, m),
{
    reveal(merge_new_edges);
    reveal(merge_edges_inv);
    let kn = (m, ne[n].tail);
    assert forall|a: usize, b: usize| #[trigger] mid.has_edge(a, b) implies after.has_edge(a, b) && after.graph.edges@[(a, b)] == mid.graph.edges@[(a, b)] by {
        assert(before.has_edge(a, b));
        assert((a, b) != kn);
        assert(before.graph.edges@.dom().insert(kn).contains((a, b)));
        assert(after.graph.edges@[(a, b)] == before.graph.edges@[(a, b)]);
    }
    assert forall|a: usize, b: usize| #[trigger] after.has_edge(a, b) implies mid.has_edge(a, b) || (a == m && tail_among(ne, n + 1, b)) by {
        assert(before.graph.edges@.dom().insert(kn).contains((a, b)));
        if (a, b) == kn {
            assert(ne[n].tail == b);
            assert(tail_among(ne, n + 1, b));
        } else {
            assert(before.has_edge(a, b));
            if !mid.has_edge(a, b) {
                let j = choose|j: int| 0 <= j < n && j < ne.len() && (#[trigger] ne[j]).tail == b;
                assert(0 <= j < n + 1 && ne[j].tail == b);
                assert(tail_among(ne, n + 1, b));
            }
        }
    }
    assert forall|j: int| 0 <= j < n + 1 && j < ne.len() implies after.has_edge(m, (#[trigger] ne[j]).tail)
        && after.graph.edges@[(m, ne[j].tail)].condition == ne[j].condition by {
        let kj = (m, ne[j].tail);
        assert(before.graph.edges@.dom().insert(kn).contains(kj) <==> after.graph.edges@.contains_key(kj));
        if j < n {
            assert(before.has_edge(m, ne[j].tail));
            assert(kj != kn);
            assert(after.graph.edges@[kj] == before.graph.edges@[kj]);
        }
    }
}

/// THE CONCRETE STEP: one iteration of the second inner loop of merge is the elementary step.
///   pre  -> mid : block m has absorbed block s           (Block::append)
///   mid  -> ins : the re-attached edges are inserted      (merge_edges_inv at ne.len())
///   ins  -> fin : exit re-pointed, block s removed        (Graph::remove_vertex)
pub proof fn lemma_merge_step_done(pre: ControlFlowGraph, mid: ControlFlowGraph, ins: ControlFlowGraph, fin: ControlFlowGraph,
                                   ne: Seq<Edge>, m: usize, s: usize)
    requires
        pre.cfg_wf(), pre.mergeable(m, s),
        // pre -> mid
        mid.graph.vertices@ == pre.graph.vertices@.insert(m, mid.graph.vertices@[m]),
        mid.graph.edges == pre.graph.edges, mid.entry == pre.entry,
        // mid -> ins
        merge_new_edges(mid, ne, m, s),
        // ins -> fin
        fin.entry == ins.entry,
        fin.graph.vertices@ == ins.graph.vertices@.remove(s),
        forall|e: (usize, usize)| #![trigger fin.graph.edges@.contains_key(e)] #![trigger ins.graph.edges@.contains_key(e)]
            fin.graph.edges@.contains_key(e) <==> (ins.graph.edges@.contains_key(e) && e.0 != s && e.1 != s),
        forall|e: (usize, usize)| #![trigger fin.graph.edges@[e]] fin.graph.edges@.contains_key(e) ==> fin.graph.edges@[e] == ins.graph.edges@[e],
    ensures
        mid.graph.vertices@[m].appended(pre.graph.vertices@[m], pre.graph.vertices@[s]) && merge_edges_inv(ins, mid, ne, ne.len() as int, m)
            ==> fin.merge_step_of(pre, m, s),
{
    if mid.graph.vertices@[m].appended(pre.graph.vertices@[m], pre.graph.vertices@[s]) && merge_edges_inv(ins, mid, ne, ne.len() as int, m) {
        reveal(ControlFlowGraph::mergeable);
        reveal(merge_new_edges);
        reveal(merge_edges_inv);
        lemma_code_appended(mid.graph.vertices@[m], pre.graph.vertices@[m], pre.graph.vertices@[s]);
        assert forall|k: usize| #[trigger] fin.has_block(k) <==> (pre.has_block(k) && k != s) by {}
        assert forall|k: usize| #[trigger] fin.has_block(k) && k != m implies fin.code_at(k) == pre.code_at(k) by {
            assert(fin.graph.vertices@[k] == pre.graph.vertices@[k]);
        }
        assert(fin.graph.vertices@[m] == mid.graph.vertices@[m]);
        assert forall|a: usize, b: usize| #[trigger] fin.has_edge(a, b) <==> (a != s && b != s && (pre.has_edge(a, b) || (a == m && pre.has_edge(s, b)))) by {
            assert(fin.graph.edges@.contains_key((a, b)) <==> (ins.graph.edges@.contains_key((a, b)) && a != s && b != s));
            if ins.has_edge(a, b) && !mid.has_edge(a, b) {
                let j = choose|j: int| 0 <= j < ne.len() && j < ne.len() && (#[trigger] ne[j]).tail == b;
                assert(mid.has_edge(s, ne[j].tail));
            }
            if a == m && pre.has_edge(s, b) {
                assert(mid.has_edge(s, b));
                let j = choose|j: int| 0 <= j < ne.len() && j < ne.len() && (#[trigger] ne[j]).tail == b;
                assert(ins.has_edge(m, ne[j].tail));
            }
            if pre.has_edge(a, b) { assert(mid.has_edge(a, b)); }
        }
        assert forall|a: usize, b: usize| #[trigger] fin.has_edge(a, b) && a != m implies fin.graph.edges@[(a, b)].condition == pre.graph.edges@[(a, b)].condition by {
            assert(fin.graph.edges@.contains_key((a, b)));
            assert(ins.has_edge(a, b));
            assert(mid.has_edge(a, b));
        }
        assert forall|b: usize| #[trigger] fin.has_edge(m, b) implies fin.graph.edges@[(m, b)].condition == pre.graph.edges@[(s, b)].condition by {
            assert(fin.graph.edges@.contains_key((m, b)));
            assert(ins.has_edge(m, b));
            assert(b != s);
            assert(!mid.has_edge(m, b));
            let j = choose|j: int| 0 <= j < ne.len() && j < ne.len() && (#[trigger] ne[j]).tail == b;
            assert(ins.has_edge(m, ne[j].tail));
        }
        reveal(ControlFlowGraph::merge_step_of);
    }
}

// ---- part F: the relation is not vacuous ----------------------------------------------------

/// exec_equiv tells graphs apart: if `new` has no edges, the code of the entry block of `old` is an initial
/// piece of the code of the entry block of `new`
pub proof fn lemma_exec_equiv_discriminates(new: ControlFlowGraph, old: ControlFlowGraph, e: usize)
    requires
        new.exec_equiv(old), old.entry == Some(e), old.has_block(e),
        forall|a: usize, b: usize| !#[trigger] new.has_edge(a, b),
    ensures
        new.entry is Some,
        old.code_at(e) == new.code_at(new.entry->0).take(old.code_at(e).len() as int),
{
    reveal(ControlFlowGraph::exec_equiv);
    let w = seq![e];
    let n = old.code_at(e).len() as int;
    old.lemma_walk_single(w);
    assert(old.is_run(w, n));
    let t = old.run_trace(w, n);
    assert(new.has_run(t, false && old.run_at_block_end(w, n)));
    let (w2, n2) = choose|w2: Seq<usize>, n2: int| #[trigger] new.is_run(w2, n2) && new.run_trace(w2, n2) == t && (false ==> new.run_at_block_end(w2, n2));
    new.lemma_walk_facts(w2);
    if w2.len() > 1 {
        assert(new.has_edge(w2[w2.len() - 2], w2.last()));
    }
    new.lemma_prefix_unfold(w2);
    assert(t =~= old.code_at(e));
    assert(new.run_trace(w2, n2) =~= new.code_at(w2[0]).take(n2));
    assert(new.code_at(w2[0]).take(n2).len() == n2);
}
