// Unit C15 - control-flow-graph construction and editing keep graphs consistent.
// Generated file = this template + the real text of the items named in the `//@` holes.
#![feature(allocator_api)]
#![allow(unused_imports, unused_variables, dead_code, unused_mut, non_snake_case, unused_parens, unused_braces, deprecated)]
use vstd::prelude::*;
use vstd::arithmetic::power2::*;
use vstd::arithmetic::div_mod::*;
use vstd::arithmetic::mul::*;
use std::ops::*;
use std::cmp;
use std::cmp::Ordering;
use std::collections::{BTreeMap, BTreeSet, VecDeque};
use std::fmt;
use std::rc::Rc;

verus! {

//@ include spec/bv.rs
//@ include prelude/bigint.rs
//@ include prelude/error.rs
//@ include prelude/fxhash.rs
//@ include prelude/stdcoll.rs
//@ include prelude/rc_asref.rs
//@ include units/C11/error_from.rs
//@ include units/C15/error_from_string.rs

// falcon::RC (default build, feature "thread_safe" off): the real alias, extracted
//@ item lib/lib.rs :: type RC#0

pub mod graph {
use super::*;
use vstd::std_specs::iter::IteratorSpec;
use rustc_hash::{FxHashMap, FxHashSet};
broadcast use {rustc_hash::axiom_fx_builds_valid_hashers, stdcoll::axiom_btreemap_index_req, stdcoll::axiom_hashmap_index_req, stdcoll::axiom_usize_pair_obeys_key_model};
//@ mode contracts-only C11
//@ include units/C11/graph_core.rs
//@ mode full
proof fn vf_canary_graph() ensures false { /* padding: tools/verdict.py compares rustc byte offsets with Python character offsets; non-ASCII characters in shared files shift spans by a few bytes, this keeps the shifted span inside the canary ........................................................................ */ }
} // mod graph

pub mod il {
use super::*;
// il::ProgramLocation (lib/il/location.rs) is only a payload of falcon::Error here: opaque stand-in
#[verifier::external_body] pub struct ProgramLocation { _p: () }
//@ include units/C15/il_core.rs
use super::graph::{Vertex as GraphVertexTrait, Edge as GraphEdgeTrait}; // index_spec / head_spec / tail_spec in ghost code
//@ include units/C15/block_edit.rs
//@ include units/C15/cfg_import.rs
//@ include units/C15/cfg_edit.rs
//@ include units/C15/cfg_merge.rs
//@ include units/C15/cfg_merge_traces.rs
//@ include units/C15/cfg_budget.rs
//@ include units/C15/cfg_walks.rs
//@ include units/C15/cfg_client.rs
proof fn vf_canary_il() ensures false { /* padding: tools/verdict.py compares rustc byte offsets with Python character offsets; non-ASCII characters in shared files shift spans by a few bytes, this keeps the shifted span inside the canary ........................................................................ */ }
} // mod il

pub mod translator {
use super::*;
use super::il::*;
use vstd::std_specs::iter::IteratorSpec;
//@ include units/C15/blockify.rs
proof fn vf_canary_translator() ensures false { /* padding: see vf_canary_root ................................................................................................................................................................................................ */ }
} // mod translator

proof fn vf_canary_root() ensures false { /* padding: tools/verdict.py compares rustc byte offsets with Python character offsets; non-ASCII characters in shared files shift spans by a few bytes, this keeps the shifted span inside the canary ........................................................................ */ }

} // verus!

fn main() {}
