// ======================================================================================
// units/C15/blockify.rs - translator::BlockTranslationResult::blockify: the graph built from the
// per-instruction graphs (new block, set entry / exit, append each, merge) is well formed and its
// entry and exit name existing blocks.  Included inside `pub mod translator`.
// Resource bounds (stated): the block indices and the instruction counters of the result fit a usize.
// ======================================================================================
//@ source lib/translator/block_translation_result.rs
//@ item struct BlockTranslationResult

/// number of blocks of all per-instruction graphs
pub open spec fn total_blocks(s: Seq<(u64, ControlFlowGraph)>) -> nat
    decreases s.len(),
{
    if s.len() == 0 { 0 } else { total_blocks(s.drop_last()) + s.last().1.graph.vertices@.len() }
}

/// instruction budget (sum of the blocks' instruction counters) of all per-instruction graphs
pub open spec fn total_budget(s: Seq<(u64, ControlFlowGraph)>) -> nat
    decreases s.len(),
{
    if s.len() == 0 { 0 } else { total_budget(s.drop_last()) + s.last().1.instr_budget() }
}

pub proof fn lemma_totals_mono(s: Seq<(u64, ControlFlowGraph)>, j: int)
    requires 0 <= j <= s.len(),
    ensures total_blocks(s.take(j)) <= total_blocks(s), total_budget(s.take(j)) <= total_budget(s),
    decreases s.len() - j,
{
    if j < s.len() {
        lemma_totals_mono(s, j + 1);
        let t = s.take(j + 1);
        assert(t.drop_last() =~= s.take(j));
    } else {
        assert(s.take(j) =~= s);
    }
}

pub proof fn lemma_totals_step(s: Seq<(u64, ControlFlowGraph)>, j: int)
    requires 0 <= j < s.len(),
    ensures
        total_blocks(s.take(j + 1)) == total_blocks(s.take(j)) + s[j].1.graph.vertices@.len(),
        total_budget(s.take(j + 1)) == total_budget(s.take(j)) + s[j].1.instr_budget(),
{
    let t = s.take(j + 1);
    assert(t.drop_last() =~= s.take(j));
    assert(t.last() == s[j]);
}

/// the graph holding one fresh empty block 0 has budget 0
pub proof fn lemma_single_block_budget(g: ControlFlowGraph)
    requires g.next_index == 1, g.graph.vertices@.contains_key(0), g.graph.vertices@[0].next_instruction_index == 0,
    ensures g.instr_budget() == 0,
{
    reveal_with_fuel(budget_upto, 3);
}

impl BlockTranslationResult {
    /// every per-instruction graph is well formed and has entry and exit set (what a conformant translator emits)
    pub open spec fn parts_wf(&self) -> bool {
        forall|i: int| 0 <= i < self.instructions@.len() ==> (#[trigger] self.instructions@[i]).1.cfg_wf()
    }

//@ fn impl BlockTranslationResult :: fn blockify loops=1
//@ rewrite 1 `for (_, cfg) in &self.instructions {` => `for (_, cfg) in it: &self.instructions {` ## R-ghost-iter-name: names the ghost iterator of the for loop so that invariants can mention it; no executable change
//@ spec
    requires
        self.parts_wf(),
        1 + total_blocks(self.instructions@) <= usize::MAX,
        total_budget(self.instructions@) <= usize::MAX,
    ensures
        /*@wf*/ r matches Ok(g) ==> g.cfg_wf(),
        /*@entry*/ r matches Ok(g) ==> g.entry == Some(0usize) && g.has_block(0),
        /*@exit*/ r matches Ok(g) ==> (g.exit matches Some(x) && g.has_block(x)),
//@ before 0 `control_flow_graph.set_entry(block_index)?;`
    proof {
        lemma_single_block_budget(control_flow_graph);
        lemma_map_nonempty(control_flow_graph.graph.vertices@, 0);
    }
//@ loop 0
    invariant
        self.parts_wf(),
        1 + total_blocks(self.instructions@) <= usize::MAX,
        total_budget(self.instructions@) <= usize::MAX,
        it.seq().len() == self.instructions@.len(),
        forall|j: int| 0 <= j < it.seq().len() ==> *#[trigger] it.seq()[j] == self.instructions@[j],
        control_flow_graph.cfg_wf(),
        control_flow_graph.entry == Some(0usize), control_flow_graph.exit is Some,
        control_flow_graph.graph.vertices@.len() > 0,
        control_flow_graph.next_index == 1 + total_blocks(self.instructions@.take(it.index@)),
        control_flow_graph.instr_budget() == total_budget(self.instructions@.take(it.index@)),
//@ before 0 `control_flow_graph.append(cfg)?;`
    proof {
        lemma_totals_step(self.instructions@, it.index@);
        lemma_totals_mono(self.instructions@, it.index@ + 1);
        assert(*cfg == self.instructions@[it.index@].1);
    }
//@ before 0 `control_flow_graph.merge()?;`
    proof {
        assert(self.instructions@.take(self.instructions@.len() as int) =~= self.instructions@);
    }
//@ end
}
