#!/bin/bash
# units/C15/mutant_fixed.sh <file-relative-to-repo> <python-regex-from> <to>      (development aid)
# Like tools/mutant.sh, but the base tree is /repo/lib WITH proposed_fix_1.diff + proposed_fix_2.diff applied
# (the tree the C15 baseline was recorded against).  With no arguments: just checks the fixed tree.
set -e
here=$(cd "$(dirname "$0")" && pwd)
d=$(mktemp -d /tmp/c15mut.XXXX)
mkdir -p $d/repo $d/out
cp -r /repo/lib $d/repo/lib
(cd $d/repo && patch -s -p1 < $here/proposed_fix_1.diff && patch -s -p1 < $here/proposed_fix_2.diff)
if [ -n "$1" ]; then
python3 - "$d/repo/$1" "$2" "$3" <<'PY'
import sys,re
p,frm,to=sys.argv[1:4]
s=open(p).read()
n=len(re.findall(frm,s))
if n!=1:
    print("mutant pattern matched %d times"%n); sys.exit(3)
open(p,'w').write(re.sub(frm,to,s,count=1))
PY
fi
set +e
VERIF_REPO=$d/repo VERIF_OUT=$d/out /verif/check C15 2>&1 | grep -E "^(VIOLATION|OK|UNDECIDED|KNOWN)" | head -6 | cut -c1-260
rc=${PIPESTATUS[0]}
rm -rf $d
exit $rc
