// ---- il::Scalar, il::Expression, il::{const_, expr_const}, executor::eval -------------------
//@ source lib/il/scalar.rs
//@ item struct Scalar

// derive(Clone), derive(PartialEq) on Scalar / Expression / Constant: compiler-generated structural
// copy / structural equality (assumed, listed in the trusted base).
impl Clone for Scalar {
    #[verifier::external_body]
    fn clone(&self) -> (r: Scalar) ensures r == *self { unimplemented!() }
}
impl vstd::std_specs::cmp::PartialEqSpecImpl for Scalar {
    open spec fn obeys_eq_spec() -> bool { true }
    open spec fn eq_spec(&self, other: &Scalar) -> bool { *self == *other }
}
impl PartialEq for Scalar {
    #[verifier::external_body]
    fn eq(&self, other: &Scalar) -> (r: bool) ensures r == (*self == *other) { unimplemented!() }
}

impl Scalar {
//@ fn impl Scalar :: fn bits
//@ spec
    ensures r == self.bits,
//@ end

    // `&self.name` (String -> &str deref coercion); contract: same characters
    #[verifier::external_body]
    pub fn name(&self) -> (r: &str)
        ensures r@ == self.name@,
    {
        &self.name
    }
}

//@ source lib/il/expression.rs
//@ item enum Expression

impl Clone for Expression {
    #[verifier::external_body]
    fn clone(&self) -> (r: Expression) ensures r == *self { unimplemented!() }
}

// ---- specification of expressions -------------------------------------------------------------

/// result of evaluating an expression, as a mathematical object
pub enum EvalR {
    Val(nat, nat),        // (width, value)
    ErrSort,
    ErrDiv0,
    ErrScalar(Seq<char>), // name of the scalar that has no value
}

pub open spec fn expr_bits(e: Expression) -> nat
    decreases e,
{
    match e {
        Expression::Scalar(s) => s.bits as nat,
        Expression::Constant(c) => c.bits as nat,
        Expression::Add(l, _) | Expression::Sub(l, _) | Expression::Mul(l, _) | Expression::Divu(l, _)
        | Expression::Modu(l, _) | Expression::Divs(l, _) | Expression::Mods(l, _) | Expression::And(l, _)
        | Expression::Or(l, _) | Expression::Xor(l, _) | Expression::Shl(l, _) | Expression::Shr(l, _)
        | Expression::AShr(l, _) => expr_bits(*l),
        Expression::Cmpeq(_, _) | Expression::Cmpneq(_, _) | Expression::Cmplts(_, _) | Expression::Cmpltu(_, _) => 1,
        Expression::Zext(b, _) | Expression::Sext(b, _) | Expression::Trun(b, _) => b as nat,
        Expression::Ite(_, t, _) => expr_bits(*t),
    }
}

/// every constant leaf satisfies the Constant invariant and every explicit width is in 1..=MAX_BITS
/// (what the operators need in order not to allocate without bound); says nothing about sorts.
pub open spec fn expr_sane(e: Expression) -> bool
    decreases e,
{
    match e {
        Expression::Scalar(s) => 1 <= s.bits && s.bits as nat <= MAX_BITS(),
        Expression::Constant(c) => c.wf(),
        Expression::Add(l, r) | Expression::Sub(l, r) | Expression::Mul(l, r) | Expression::Divu(l, r)
        | Expression::Modu(l, r) | Expression::Divs(l, r) | Expression::Mods(l, r) | Expression::And(l, r)
        | Expression::Or(l, r) | Expression::Xor(l, r) | Expression::Shl(l, r) | Expression::Shr(l, r)
        | Expression::AShr(l, r) | Expression::Cmpeq(l, r) | Expression::Cmpneq(l, r) | Expression::Cmplts(l, r)
        | Expression::Cmpltu(l, r) => expr_sane(*l) && expr_sane(*r),
        Expression::Zext(b, x) | Expression::Sext(b, x) | Expression::Trun(b, x) => 1 <= b && b as nat <= MAX_BITS() && expr_sane(*x),
        Expression::Ite(c, t, f) => expr_sane(*c) && expr_sane(*t) && expr_sane(*f),
    }
}

/// well-sorted: the width rules the constructors enforce
pub open spec fn expr_wf(e: Expression) -> bool
    decreases e,
{
    match e {
        Expression::Scalar(s) => 1 <= s.bits && s.bits as nat <= MAX_BITS(),
        Expression::Constant(c) => c.wf(),
        Expression::Add(l, r) | Expression::Sub(l, r) | Expression::Mul(l, r) | Expression::Divu(l, r)
        | Expression::Modu(l, r) | Expression::Divs(l, r) | Expression::Mods(l, r) | Expression::And(l, r)
        | Expression::Or(l, r) | Expression::Xor(l, r) | Expression::Shl(l, r) | Expression::Shr(l, r)
        | Expression::AShr(l, r) | Expression::Cmpeq(l, r) | Expression::Cmpneq(l, r) | Expression::Cmplts(l, r)
        | Expression::Cmpltu(l, r) => expr_wf(*l) && expr_wf(*r) && expr_bits(*l) == expr_bits(*r),
        Expression::Zext(b, x) | Expression::Sext(b, x) => expr_wf(*x) && expr_bits(*x) < b && b as nat <= MAX_BITS(),
        Expression::Trun(b, x) => expr_wf(*x) && 1 <= b && (b as nat) < expr_bits(*x),
        Expression::Ite(c, t, f) => expr_wf(*c) && expr_wf(*t) && expr_wf(*f) && expr_bits(*c) == 1 && expr_bits(*t) == expr_bits(*f),
    }
}

pub enum BinOp { Add, Sub, Mul, Divu, Modu, Divs, Mods, And, Or, Xor, Shl, Shr, AShr, Cmpeq, Cmpneq, Cmplts, Cmpltu }

/// meaning of a binary operator on two evaluated operands (left to right, sort check first, then divisor check)
pub open spec fn bin_val(op: BinOp, wl: nat, vl: nat, wr: nat, vr: nat) -> EvalR {
    if wl != wr { EvalR::ErrSort } else {
        let w = wl;
        match op {
            BinOp::Add => EvalR::Val(w, bv_add(w, vl, vr)),
            BinOp::Sub => EvalR::Val(w, bv_sub(w, vl, vr)),
            BinOp::Mul => EvalR::Val(w, bv_mul(w, vl, vr)),
            BinOp::Divu => if vr == 0 { EvalR::ErrDiv0 } else { EvalR::Val(w, bv_divu(w, vl, vr)) },
            BinOp::Modu => if vr == 0 { EvalR::ErrDiv0 } else { EvalR::Val(w, bv_modu(w, vl, vr)) },
            BinOp::Divs => if vr == 0 { EvalR::ErrDiv0 } else { EvalR::Val(w, bv_divs(w, vl, vr)) },
            BinOp::Mods => if vr == 0 { EvalR::ErrDiv0 } else { EvalR::Val(w, bv_mods(w, vl, vr)) },
            BinOp::And => EvalR::Val(w, bv_and(w, vl, vr)),
            BinOp::Or => EvalR::Val(w, bv_or(w, vl, vr)),
            BinOp::Xor => EvalR::Val(w, bv_xor(w, vl, vr)),
            BinOp::Shl => EvalR::Val(w, bv_shl(w, vl, vr)),
            BinOp::Shr => EvalR::Val(w, bv_shr(w, vl, vr)),
            BinOp::AShr => EvalR::Val(w, bv_ashr(w, vl, vr)),
            BinOp::Cmpeq => EvalR::Val(1, bv_cmpeq(vl, vr)),
            BinOp::Cmpneq => EvalR::Val(1, bv_cmpneq(vl, vr)),
            BinOp::Cmplts => EvalR::Val(1, bv_cmplts(w, vl, vr)),
            BinOp::Cmpltu => EvalR::Val(1, bv_cmpltu(vl, vr)),
        }
    }
}

pub open spec fn bin_spec(op: BinOp, l: EvalR, r: EvalR) -> EvalR {
    match l {
        EvalR::Val(wl, vl) => match r {
            EvalR::Val(wr, vr) => bin_val(op, wl, vl, wr, vr),
            _ => r,
        },
        _ => l,
    }
}

pub open spec fn zext_spec(b: nat, x: EvalR) -> EvalR {
    match x { EvalR::Val(w, v) => if b <= w { EvalR::ErrSort } else { EvalR::Val(b, bv_zext(v)) }, _ => x }
}
pub open spec fn sext_spec(b: nat, x: EvalR) -> EvalR {
    match x { EvalR::Val(w, v) => if b <= w { EvalR::ErrSort } else { EvalR::Val(b, bv_sext(w, b, v)) }, _ => x }
}
pub open spec fn trun_spec(b: nat, x: EvalR) -> EvalR {
    match x { EvalR::Val(w, v) => if b >= w { EvalR::ErrSort } else { EvalR::Val(b, bv_trun(b, v)) }, _ => x }
}

pub type Env = spec_fn(Scalar) -> Option<(nat, nat)>;

pub open spec fn empty_env() -> Env { |s: Scalar| None::<(nat, nat)> }

/// the meaning of an expression under an environment for its scalars
pub open spec fn eval_spec(e: Expression, env: Env) -> EvalR
    decreases e,
{
    match e {
        Expression::Scalar(s) => match env(s) { Some((w, v)) => EvalR::Val(w, v), None => EvalR::ErrScalar(s.name@) },
        Expression::Constant(c) => EvalR::Val(c.bits as nat, c.value@),
        Expression::Add(l, r) => bin_spec(BinOp::Add, eval_spec(*l, env), eval_spec(*r, env)),
        Expression::Sub(l, r) => bin_spec(BinOp::Sub, eval_spec(*l, env), eval_spec(*r, env)),
        Expression::Mul(l, r) => bin_spec(BinOp::Mul, eval_spec(*l, env), eval_spec(*r, env)),
        Expression::Divu(l, r) => bin_spec(BinOp::Divu, eval_spec(*l, env), eval_spec(*r, env)),
        Expression::Modu(l, r) => bin_spec(BinOp::Modu, eval_spec(*l, env), eval_spec(*r, env)),
        Expression::Divs(l, r) => bin_spec(BinOp::Divs, eval_spec(*l, env), eval_spec(*r, env)),
        Expression::Mods(l, r) => bin_spec(BinOp::Mods, eval_spec(*l, env), eval_spec(*r, env)),
        Expression::And(l, r) => bin_spec(BinOp::And, eval_spec(*l, env), eval_spec(*r, env)),
        Expression::Or(l, r) => bin_spec(BinOp::Or, eval_spec(*l, env), eval_spec(*r, env)),
        Expression::Xor(l, r) => bin_spec(BinOp::Xor, eval_spec(*l, env), eval_spec(*r, env)),
        Expression::Shl(l, r) => bin_spec(BinOp::Shl, eval_spec(*l, env), eval_spec(*r, env)),
        Expression::Shr(l, r) => bin_spec(BinOp::Shr, eval_spec(*l, env), eval_spec(*r, env)),
        Expression::AShr(l, r) => bin_spec(BinOp::AShr, eval_spec(*l, env), eval_spec(*r, env)),
        Expression::Cmpeq(l, r) => bin_spec(BinOp::Cmpeq, eval_spec(*l, env), eval_spec(*r, env)),
        Expression::Cmpneq(l, r) => bin_spec(BinOp::Cmpneq, eval_spec(*l, env), eval_spec(*r, env)),
        Expression::Cmplts(l, r) => bin_spec(BinOp::Cmplts, eval_spec(*l, env), eval_spec(*r, env)),
        Expression::Cmpltu(l, r) => bin_spec(BinOp::Cmpltu, eval_spec(*l, env), eval_spec(*r, env)),
        Expression::Zext(b, x) => zext_spec(b as nat, eval_spec(*x, env)),
        Expression::Sext(b, x) => sext_spec(b as nat, eval_spec(*x, env)),
        Expression::Trun(b, x) => trun_spec(b as nat, eval_spec(*x, env)),
        Expression::Ite(c, t, f) => match eval_spec(*c, env) {
            EvalR::Val(_, vc) => if vc == 1 { eval_spec(*t, env) } else { eval_spec(*f, env) },
            ec => ec,
        },
    }
}

/// the executable result `r` says exactly what the mathematical result `s` says
pub open spec fn eval_agrees(r: Result<Constant, Error>, s: EvalR) -> bool {
    match s {
        EvalR::Val(w, v) => is_const(r, w, v),
        EvalR::ErrSort => is_sort_err(r),
        EvalR::ErrDiv0 => is_div0_err(r),
        EvalR::ErrScalar(n) => r matches Err(e) && e matches Error::ExecutorScalar(name) && name@ == n,
    }
}

/// on well-sorted expressions evaluation never yields a sort error and the value has the expression's width
pub proof fn lemma_eval_wf(e: Expression, env: Env)
    requires expr_wf(e), forall|s: Scalar| (#[trigger] env(s)) matches Some((w, v)) ==> w == s.bits as nat,
    ensures !(eval_spec(e, env) is ErrSort), eval_spec(e, env) matches EvalR::Val(w, v) ==> w == expr_bits(e),
    decreases e,
{
    match e {
        Expression::Scalar(s) => {}
        Expression::Constant(c) => {}
        Expression::Add(l, r) | Expression::Sub(l, r) | Expression::Mul(l, r) | Expression::Divu(l, r)
        | Expression::Modu(l, r) | Expression::Divs(l, r) | Expression::Mods(l, r) | Expression::And(l, r)
        | Expression::Or(l, r) | Expression::Xor(l, r) | Expression::Shl(l, r) | Expression::Shr(l, r)
        | Expression::AShr(l, r) | Expression::Cmpeq(l, r) | Expression::Cmpneq(l, r) | Expression::Cmplts(l, r)
        | Expression::Cmpltu(l, r) => { lemma_eval_wf(*l, env); lemma_eval_wf(*r, env); }
        Expression::Zext(b, x) | Expression::Sext(b, x) | Expression::Trun(b, x) => { lemma_eval_wf(*x, env); }
        Expression::Ite(c, t, f) => { lemma_eval_wf(*c, env); lemma_eval_wf(*t, env); lemma_eval_wf(*f, env); }
    }
}

pub open spec fn ctor2(r: Result<Expression, Error>, lhs: Expression, rhs: Expression, built: Expression) -> bool {
    &&& expr_bits(lhs) != expr_bits(rhs) ==> is_sort_err(r)
    &&& expr_bits(lhs) == expr_bits(rhs) ==> r == Ok::<Expression, Error>(built)
}

impl Expression {

//@ fn impl Expression :: fn bits
//@ spec
    ensures r as nat == expr_bits(*self),
    decreases *self,
//@ end

//@ fn impl Expression :: fn ensure_sort
//@ spec
    ensures
        /*@err*/ expr_bits(*lhs) != expr_bits(*rhs) ==> is_sort_err(r),
        /*@ok*/ expr_bits(*lhs) == expr_bits(*rhs) ==> r is Ok,
//@ end

//@ fn impl Expression :: fn scalar
//@ spec
    ensures r == Expression::Scalar(scalar),
//@ end

//@ fn impl Expression :: fn constant
//@ spec
    ensures r == Expression::Constant(constant),
//@ end

//@ fn impl Expression :: fn add
//@ spec
    ensures /*@ctor*/ ctor2(r, lhs, rhs, Expression::Add(Box::new(lhs), Box::new(rhs))),
//@ end
//@ fn impl Expression :: fn sub
//@ spec
    ensures /*@ctor*/ ctor2(r, lhs, rhs, Expression::Sub(Box::new(lhs), Box::new(rhs))),
//@ end
//@ fn impl Expression :: fn mul
//@ spec
    ensures /*@ctor*/ ctor2(r, lhs, rhs, Expression::Mul(Box::new(lhs), Box::new(rhs))),
//@ end
//@ fn impl Expression :: fn divu
//@ spec
    ensures /*@ctor*/ ctor2(r, lhs, rhs, Expression::Divu(Box::new(lhs), Box::new(rhs))),
//@ end
//@ fn impl Expression :: fn modu
//@ spec
    ensures /*@ctor*/ ctor2(r, lhs, rhs, Expression::Modu(Box::new(lhs), Box::new(rhs))),
//@ end
//@ fn impl Expression :: fn divs
//@ spec
    ensures /*@ctor*/ ctor2(r, lhs, rhs, Expression::Divs(Box::new(lhs), Box::new(rhs))),
//@ end
//@ fn impl Expression :: fn mods
//@ spec
    ensures /*@ctor*/ ctor2(r, lhs, rhs, Expression::Mods(Box::new(lhs), Box::new(rhs))),
//@ end
//@ fn impl Expression :: fn and
//@ spec
    ensures /*@ctor*/ ctor2(r, lhs, rhs, Expression::And(Box::new(lhs), Box::new(rhs))),
//@ end
//@ fn impl Expression :: fn or
//@ spec
    ensures /*@ctor*/ ctor2(r, lhs, rhs, Expression::Or(Box::new(lhs), Box::new(rhs))),
//@ end
//@ fn impl Expression :: fn xor
//@ spec
    ensures /*@ctor*/ ctor2(r, lhs, rhs, Expression::Xor(Box::new(lhs), Box::new(rhs))),
//@ end
//@ fn impl Expression :: fn shl
//@ spec
    ensures /*@ctor*/ ctor2(r, lhs, rhs, Expression::Shl(Box::new(lhs), Box::new(rhs))),
//@ end
//@ fn impl Expression :: fn shr
//@ spec
    ensures /*@ctor*/ ctor2(r, lhs, rhs, Expression::Shr(Box::new(lhs), Box::new(rhs))),
//@ end
//@ fn impl Expression :: fn ashr
//@ spec
    ensures /*@ctor*/ ctor2(r, lhs, rhs, Expression::AShr(Box::new(lhs), Box::new(rhs))),
//@ end
//@ fn impl Expression :: fn cmpeq
//@ spec
    ensures /*@ctor*/ ctor2(r, lhs, rhs, Expression::Cmpeq(Box::new(lhs), Box::new(rhs))),
//@ end
//@ fn impl Expression :: fn cmpneq
//@ spec
    ensures /*@ctor*/ ctor2(r, lhs, rhs, Expression::Cmpneq(Box::new(lhs), Box::new(rhs))),
//@ end
//@ fn impl Expression :: fn cmpltu
//@ spec
    ensures /*@ctor*/ ctor2(r, lhs, rhs, Expression::Cmpltu(Box::new(lhs), Box::new(rhs))),
//@ end
//@ fn impl Expression :: fn cmplts
//@ spec
    ensures /*@ctor*/ ctor2(r, lhs, rhs, Expression::Cmplts(Box::new(lhs), Box::new(rhs))),
//@ end

//@ fn impl Expression :: fn zext
//@ spec
    ensures
        /*@err*/ (expr_bits(src) >= bits || expr_bits(src) == 0) ==> is_sort_err(r),
        /*@ok*/ (0 < expr_bits(src) < bits) ==> r == Ok::<Expression, Error>(Expression::Zext(bits, Box::new(src))),
//@ end
//@ fn impl Expression :: fn sext
//@ spec
    ensures
        /*@err*/ (expr_bits(src) >= bits || expr_bits(src) == 0) ==> is_sort_err(r),
        /*@ok*/ (0 < expr_bits(src) < bits) ==> r == Ok::<Expression, Error>(Expression::Sext(bits, Box::new(src))),
//@ end
//@ fn impl Expression :: fn trun
//@ spec
    ensures
        /*@err*/ (expr_bits(src) <= bits || expr_bits(src) == 0) ==> is_sort_err(r),
        /*@ok*/ (bits < expr_bits(src)) ==> r == Ok::<Expression, Error>(Expression::Trun(bits, Box::new(src))),
//@ end
//@ fn impl Expression :: fn ite
//@ spec
    ensures
        /*@err*/ (expr_bits(cond) != 1 || expr_bits(then) != expr_bits(else_)) ==> is_sort_err(r),
        /*@ok*/ (expr_bits(cond) == 1 && expr_bits(then) == expr_bits(else_)) ==> r == Ok::<Expression, Error>(Expression::Ite(Box::new(cond), Box::new(then), Box::new(else_))),
//@ end

} // impl Expression

//@ source lib/il/mod.rs
//@ fn fn const_
//@ spec
    requires 1 <= bits, bits as nat <= MAX_BITS(),
    ensures r.wf(), r.bits == bits, r.value@ == (value as nat) % pow2(bits as nat),
//@ end
//@ fn fn expr_const
//@ spec
    requires 1 <= bits, bits as nat <= MAX_BITS(),
    ensures r matches Expression::Constant(c) && c.wf() && c.bits == bits && c.value@ == (value as nat) % pow2(bits as nat),
//@ end

// ---- structural queries used by the analyses -----------------------------------------------------
pub open spec fn expr_all_constants(e: Expression) -> bool
    decreases e,
{
    match e {
        Expression::Scalar(s) => false,
        Expression::Constant(c) => true,
        Expression::Add(l, r) | Expression::Sub(l, r) | Expression::Mul(l, r) | Expression::Divu(l, r)
        | Expression::Modu(l, r) | Expression::Divs(l, r) | Expression::Mods(l, r) | Expression::And(l, r)
        | Expression::Or(l, r) | Expression::Xor(l, r) | Expression::Shl(l, r) | Expression::Shr(l, r)
        | Expression::AShr(l, r) | Expression::Cmpeq(l, r) | Expression::Cmpneq(l, r) | Expression::Cmplts(l, r)
        | Expression::Cmpltu(l, r) => expr_all_constants(*l) && expr_all_constants(*r),
        Expression::Zext(b, x) | Expression::Sext(b, x) | Expression::Trun(b, x) => expr_all_constants(*x),
        Expression::Ite(c, t, f) => expr_all_constants(*c) && expr_all_constants(*t) && expr_all_constants(*f),
    }
}

/// the scalars of an expression, left to right, with repetition
pub open spec fn expr_scalars(e: Expression) -> Seq<Scalar>
    decreases e,
{
    match e {
        Expression::Scalar(s) => seq![s],
        Expression::Constant(c) => Seq::<Scalar>::empty(),
        Expression::Add(l, r) | Expression::Sub(l, r) | Expression::Mul(l, r) | Expression::Divu(l, r)
        | Expression::Modu(l, r) | Expression::Divs(l, r) | Expression::Mods(l, r) | Expression::And(l, r)
        | Expression::Or(l, r) | Expression::Xor(l, r) | Expression::Shl(l, r) | Expression::Shr(l, r)
        | Expression::AShr(l, r) | Expression::Cmpeq(l, r) | Expression::Cmpneq(l, r) | Expression::Cmplts(l, r)
        | Expression::Cmpltu(l, r) => expr_scalars(*l) + expr_scalars(*r),
        Expression::Zext(b, x) | Expression::Sext(b, x) | Expression::Trun(b, x) => expr_scalars(*x),
        Expression::Ite(c, t, f) => expr_scalars(*c) + expr_scalars(*t) + expr_scalars(*f),
    }
}

/// an expression without scalars evaluates the same under every environment
pub proof fn lemma_all_constants_env(e: Expression, env1: Env, env2: Env)
    requires expr_all_constants(e),
    ensures eval_spec(e, env1) == eval_spec(e, env2),
    decreases e,
{
    match e {
        Expression::Scalar(s) => {}
        Expression::Constant(c) => {}
        Expression::Add(l, r) | Expression::Sub(l, r) | Expression::Mul(l, r) | Expression::Divu(l, r)
        | Expression::Modu(l, r) | Expression::Divs(l, r) | Expression::Mods(l, r) | Expression::And(l, r)
        | Expression::Or(l, r) | Expression::Xor(l, r) | Expression::Shl(l, r) | Expression::Shr(l, r)
        | Expression::AShr(l, r) | Expression::Cmpeq(l, r) | Expression::Cmpneq(l, r) | Expression::Cmplts(l, r)
        | Expression::Cmpltu(l, r) => { lemma_all_constants_env(*l, env1, env2); lemma_all_constants_env(*r, env1, env2); }
        Expression::Zext(b, x) | Expression::Sext(b, x) | Expression::Trun(b, x) => { lemma_all_constants_env(*x, env1, env2); }
        Expression::Ite(c, t, f) => { lemma_all_constants_env(*c, env1, env2); lemma_all_constants_env(*t, env1, env2); lemma_all_constants_env(*f, env1, env2); }
    }
}

impl Expression {

//@ source lib/il/expression.rs
//@ fn impl Expression :: fn all_constants
//@ spec
    ensures /*@spec*/ r == expr_all_constants(*self),
    decreases *self,
//@ end

//@ fn impl Expression :: fn get_scalar
//@ spec
    ensures /*@spec*/ r == (match *self { Expression::Scalar(s) => Some(&s), _ => None::<&Scalar> }),
//@ end

//@ fn impl Expression :: fn get_constant
//@ spec
    ensures /*@spec*/ r == (match *self { Expression::Constant(c) => Some(&c), _ => None::<&Constant> }),
//@ end

//@ fn impl Expression :: fn scalars
//@ spec
    ensures
        /*@len*/ r@.len() == expr_scalars(*self).len(),
        /*@elems*/ forall|i: int| 0 <= i < r@.len() ==> *(#[trigger] r@[i]) == expr_scalars(*self)[i],
    decreases *self,
//@ end

} // impl Expression
