// ---- derived builders: Expression::sra, Expression::rotl --------------------------------------

/// environments that give every scalar a value of its own width
pub open spec fn env_sorted(env: Env) -> bool {
    forall|s: Scalar| (#[trigger] env(s)) matches Some((w, v)) ==> w == s.bits as nat && v < pow2(w)
}

pub proof fn lemma_eval_wf_val(e: Expression, env: Env)
    requires expr_wf(e), env_sorted(env),
    ensures eval_spec(e, env) matches EvalR::Val(w, v) ==> w == expr_bits(e) && v < pow2(w) && 1 <= w <= MAX_BITS(),
            !(eval_spec(e, env) is ErrSort),
    decreases e,
{
    lemma2_to64();
    match e {
        Expression::Scalar(s) => {}
        Expression::Constant(c) => {}
        Expression::Add(l, r) | Expression::Sub(l, r) | Expression::Mul(l, r) | Expression::Divu(l, r)
        | Expression::Modu(l, r) | Expression::Divs(l, r) | Expression::Mods(l, r) | Expression::And(l, r)
        | Expression::Or(l, r) | Expression::Xor(l, r) | Expression::Shl(l, r) | Expression::Shr(l, r)
        | Expression::AShr(l, r) | Expression::Cmpeq(l, r) | Expression::Cmpneq(l, r) | Expression::Cmplts(l, r)
        | Expression::Cmpltu(l, r) => {
            lemma_eval_wf_val(*l, env); lemma_eval_wf_val(*r, env);
            if let EvalR::Val(w, a) = eval_spec(*l, env) {
                if let EvalR::Val(w2, b) = eval_spec(*r, env) {
                    lemma_binop_bound(w, a, b);
                }
            }
        }
        Expression::Zext(b, x) | Expression::Sext(b, x) | Expression::Trun(b, x) => {
            lemma_eval_wf_val(*x, env);
            if let EvalR::Val(w, a) = eval_spec(*x, env) {
                lemma_extop_bound(w, b as nat, a);
            }
        }
        Expression::Ite(c, t, f) => { lemma_eval_wf_val(*c, env); lemma_eval_wf_val(*t, env); lemma_eval_wf_val(*f, env); }
    }
}

pub proof fn lemma_extop_bound(w: nat, b: nat, a: nat)
    requires a < pow2(w), w >= 1,
    ensures
        w < b ==> bv_zext(a) < pow2(b) && bv_sext(w, b, a) < pow2(b),
        bv_trun(b, a) < pow2(b),
{
    reveal(bv_zext); reveal(bv_sext); reveal(bv_trun);
    lemma_mod_pow2_bound(a, b);
    lemma_enc_bound(b, sval(w, a));
    if w < b { lemma_pow2_strictly_increases(w, b); }
}

/// every binary operator yields a value below 2^w (or below 2 for comparisons)
pub proof fn lemma_binop_bound(w: nat, a: nat, b: nat)
    requires a < pow2(w), b < pow2(w), w >= 1,
    ensures
        bv_add(w, a, b) < pow2(w), bv_sub(w, a, b) < pow2(w), bv_mul(w, a, b) < pow2(w),
        b != 0 ==> bv_divu(w, a, b) < pow2(w) && bv_modu(w, a, b) < pow2(w) && bv_divs(w, a, b) < pow2(w) && bv_mods(w, a, b) < pow2(w),
        bv_and(w, a, b) < pow2(w), bv_or(w, a, b) < pow2(w), bv_xor(w, a, b) < pow2(w),
        bv_shl(w, a, b) < pow2(w), bv_shr(w, a, b) < pow2(w), bv_ashr(w, a, b) < pow2(w),
        bv_cmpeq(a, b) < 2, bv_cmpneq(a, b) < 2, bv_cmpltu(a, b) < 2, bv_cmplts(w, a, b) < 2,
{
    reveal(bv_add); reveal(bv_sub); reveal(bv_mul); reveal(bv_divu); reveal(bv_modu); reveal(bv_divs); reveal(bv_mods);
    reveal(bv_and); reveal(bv_or); reveal(bv_xor); reveal(bv_shl); reveal(bv_shr); reveal(bv_ashr);
    reveal(bv_cmpeq); reveal(bv_cmpneq); reveal(bv_cmpltu); reveal(bv_cmplts);
    lemma_pow2_pos(w);
    lemma_mod_pow2_bound(a + b, w);
    lemma_enc_bound(w, a as int - b as int);
    lemma_mod_pow2_bound(a * b, w);
    if b != 0 {
        lemma_div_is_ordered_by_denominator(a as int, 1, b as int);
        lemma_div_basics(a as int);
        lemma_div_pos_is_pos(a as int, b as int);
        lemma_mod_bound(a as int, b as int);
        lemma_enc_bound(w, trunc_div(sval(w, a), sval(w, b)));
        lemma_enc_bound(w, trunc_rem(sval(w, a), sval(w, b)));
    }
    lemma_and_le(a, b);
    lemma_or_bound(a, b, w);
    lemma_xor_bound(a, b, w);
    lemma_mod_pow2_bound(a * pow2(b), w);
    lemma_shr_facts(w, a, b);
    lemma_enc_bound(w, sval(w, a) / (pow2(b) as int));
}

pub proof fn lemma_ones64(w: nat)
    requires 1 <= w <= 64,
    ensures (0xffff_ffff_ffff_ffffu64 as nat) % pow2(w) == pow2(w) - 1,
{
    lemma2_to64();
    lemma_pow2_pos(w);
    let k = (64 - w) as nat;
    lemma_pow2_pos(k);
    lemma_pow2_adds(w, k);
    assert(pow2(64) == pow2(w) * pow2(k));
    // 2^64 - 1 == 2^w * (2^k - 1) + (2^w - 1)
    assert((0xffff_ffff_ffff_ffffu64 as nat) as int == (pow2(k) as int - 1) * pow2(w) as int + (pow2(w) as int - 1)) by (nonlinear_arith)
        requires pow2(64) == pow2(w) * pow2(k), pow2(64) == 0x1_0000_0000_0000_0000;
    lemma_fundamental_div_mod_converse((0xffff_ffff_ffff_ffffu64 as nat) as int, pow2(w) as int, pow2(k) as int - 1, pow2(w) as int - 1);
}

pub proof fn lemma_lt_pow2(w: nat)
    ensures w < pow2(w),
    decreases w,
{
    lemma2_to64();
    if w > 0 { lemma_lt_pow2((w - 1) as nat); lemma_pow2_step((w - 1) as nat); }
}

/// the value-level fact behind `sra`: for a negative a,  ~((~a) >> s) is the arithmetic shift
pub proof fn lemma_sra_neg(w: nat, a: nat, s: nat)
    requires w >= 1, a < pow2(w), s < pow2(w), sval(w, a) < 0,
    ensures
        bv_xor(w, a, (pow2(w) - 1) as nat) == pow2(w) - 1 - a,
        bv_shr(w, (pow2(w) - 1 - a) as nat, s) < pow2(w),
        bv_xor(w, bv_shr(w, (pow2(w) - 1 - a) as nat, s), (pow2(w) - 1) as nat) == bv_ashr(w, a, s),
{
    reveal(bv_xor); reveal(bv_shr); reveal(bv_ashr);
    lemma_pow2_pos(w);
    lemma_xor_mask(a, w);
    let na = (pow2(w) - 1 - a) as nat;
    lemma_shr_facts(w, na, s);
    let x = bv_shr(w, na, s);
    lemma_xor_mask(x, w);
    if s < w {
        let t = pow2((w - s) as nat);
        lemma_pow2_pos(s);
        lemma_pow2_pos((w - s) as nat);
        lemma_pow2_adds(s, (w - s) as nat);
        assert(pow2(w) == pow2(s) * t);
        let d = pow2(s) as int;
        lemma_fundamental_div_mod(a as int, d);
        lemma_mod_bound(a as int, d);
        let q = a as int / d;
        let rem = a as int % d;
        // (a - 2^w) / 2^s == q - t
        let xx = a as int - pow2(w) as int;
        assert(xx == (q - t as int) * d + rem) by (nonlinear_arith)
            requires xx == a as int - pow2(w) as int, pow2(w) == pow2(s) * t, a as int == d * q + rem, d == pow2(s) as int;
        lemma_fundamental_div_mod_converse(xx, d, q - t as int, rem);
        // na / 2^s == t - q - 1
        assert(na as int == (t as int - q - 1) * d + (d - 1 - rem)) by (nonlinear_arith)
            requires na as int == pow2(w) as int - 1 - a as int, pow2(w) == pow2(s) * t, a as int == d * q + rem, d == pow2(s) as int;
        lemma_fundamental_div_mod_converse(na as int, d, t as int - q - 1, d - 1 - rem);
        // q < t and t <= 2^w
        lemma_div_pos_is_pos(a as int, d);
        assert(q < t as int) by (nonlinear_arith)
            requires a as int == d * q + rem, 0 <= rem, (a as int) < pow2(w) as int, pow2(w) == pow2(s) * t, d == pow2(s) as int, d > 0;
        lemma_pow2_mono((w - s) as nat, w);
        lemma_enc_neg(w, q - t as int);
    }
}

pub proof fn lemma_sra_pos(w: nat, a: nat, s: nat)
    requires w >= 1, a < pow2(w), sval(w, a) >= 0,
    ensures bv_shr(w, a, s) == bv_ashr(w, a, s),
{
    reveal(bv_shr); reveal(bv_ashr);
    if s < w {
        lemma_shr_facts(w, a, s);
        lemma_enc_small(w, (a / pow2(s)) as int);
        lemma_pow2_pos(s);
    }
}

pub open spec fn sra_form(lhs: Expression, rhs: Expression, zero: Constant, ones: Constant) -> Expression {
    Expression::Ite(
        Box::new(Expression::Cmplts(Box::new(lhs), Box::new(Expression::Constant(zero)))),
        Box::new(Expression::Xor(
            Box::new(Expression::Shr(Box::new(Expression::Xor(Box::new(lhs), Box::new(Expression::Constant(ones)))), Box::new(rhs))),
            Box::new(Expression::Constant(ones)))),
        Box::new(Expression::Shr(Box::new(lhs), Box::new(rhs))))
}

pub proof fn lemma_sra_eval(lhs: Expression, rhs: Expression, zero: Constant, ones: Constant, env: Env)
    requires
        expr_wf(lhs), expr_wf(rhs), expr_bits(lhs) == expr_bits(rhs), env_sorted(env),
        zero.wf(), zero.bits as nat == expr_bits(lhs), zero.value@ == 0,
        ones.wf(), ones.bits as nat == expr_bits(lhs), ones.value@ == pow2(expr_bits(lhs)) - 1,
    ensures
        expr_wf(sra_form(lhs, rhs, zero, ones)),
        expr_bits(sra_form(lhs, rhs, zero, ones)) == expr_bits(lhs),
        eval_spec(sra_form(lhs, rhs, zero, ones), env) == eval_spec(Expression::AShr(Box::new(lhs), Box::new(rhs)), env),
{
    let w = expr_bits(lhs);
    // name the sub-terms so that each spec function is unfolded one level at a time
    let cz = Expression::Constant(zero);
    let co = Expression::Constant(ones);
    let cond = Expression::Cmplts(Box::new(lhs), Box::new(cz));
    let x1 = Expression::Xor(Box::new(lhs), Box::new(co));
    let sh = Expression::Shr(Box::new(x1), Box::new(rhs));
    let x2 = Expression::Xor(Box::new(sh), Box::new(co));
    let els = Expression::Shr(Box::new(lhs), Box::new(rhs));
    let whole = Expression::Ite(Box::new(cond), Box::new(x2), Box::new(els));
    assert(whole == sra_form(lhs, rhs, zero, ones));
    assert(expr_wf(cz) && expr_bits(cz) == w);
    assert(expr_wf(co) && expr_bits(co) == w);
    assert(expr_wf(cond) && expr_bits(cond) == 1);
    assert(expr_wf(x1) && expr_bits(x1) == w);
    assert(expr_wf(sh) && expr_bits(sh) == w);
    assert(expr_wf(x2) && expr_bits(x2) == w);
    assert(expr_wf(els) && expr_bits(els) == w);
    assert(expr_wf(whole) && expr_bits(whole) == w);
    lemma_eval_wf_val(lhs, env);
    lemma_eval_wf_val(rhs, env);
    let el = eval_spec(lhs, env);
    let er = eval_spec(rhs, env);
    let target = eval_spec(Expression::AShr(Box::new(lhs), Box::new(rhs)), env);
    assert(target == bin_spec(BinOp::AShr, el, er));
    assert(eval_spec(cz, env) == EvalR::Val(w, 0));
    assert(eval_spec(co, env) == EvalR::Val(w, (pow2(w) - 1) as nat));
    assert(eval_spec(cond, env) == bin_spec(BinOp::Cmplts, el, EvalR::Val(w, 0)));
    assert(eval_spec(x1, env) == bin_spec(BinOp::Xor, el, EvalR::Val(w, (pow2(w) - 1) as nat)));
    assert(eval_spec(sh, env) == bin_spec(BinOp::Shr, eval_spec(x1, env), er));
    assert(eval_spec(x2, env) == bin_spec(BinOp::Xor, eval_spec(sh, env), EvalR::Val(w, (pow2(w) - 1) as nat)));
    assert(eval_spec(els, env) == bin_spec(BinOp::Shr, el, er));
    if let EvalR::Val(wl, a) = el {
        reveal(bv_cmplts);
        lemma_pow2_pos((w - 1) as nat);
        assert(sval(w, 0) == 0);
        if sval(w, a) < 0 {
            if let EvalR::Val(wr, s) = er {
                lemma_sra_neg(w, a, s);
            }
        } else {
            if let EvalR::Val(wr, s) = er {
                lemma_sra_pos(w, a, s);
            }
        }
    }
}

/// textbook left rotation by k <= w: the low (w-k) bits move up by k, the high k bits move to the bottom
pub open spec fn rotl_spec(w: nat, a: nat, k: nat) -> nat
    recommends k <= w
{
    (a % pow2((w - k) as nat)) * pow2(k) + a / pow2((w - k) as nat)
}

pub open spec fn rotl_form(e: Expression, s: Expression, wc: Constant) -> Expression {
    Expression::Or(
        Box::new(Expression::Shl(Box::new(e), Box::new(s))),
        Box::new(Expression::Shr(Box::new(e), Box::new(Expression::Sub(Box::new(Expression::Constant(wc)), Box::new(s))))))
}

/// meaning of rotl on evaluated operands: errors propagate left to right; amounts above the width are outside
/// the builder's domain (marked here by ErrSort, which a well-sorted evaluation never produces)
pub open spec fn rotl_eval(ee: EvalR, es: EvalR) -> EvalR {
    match ee {
        EvalR::Val(w, a) => match es {
            EvalR::Val(w2, k) => if k <= w { EvalR::Val(w, rotl_spec(w, a, k)) } else { EvalR::ErrSort },
            _ => es,
        },
        _ => ee,
    }
}

pub proof fn lemma_expr_wf_bits(e: Expression)
    requires expr_wf(e),
    ensures 1 <= expr_bits(e) <= MAX_BITS(),
    decreases e,
{
    match e {
        Expression::Scalar(s) => {}
        Expression::Constant(c) => {}
        Expression::Add(l, r) | Expression::Sub(l, r) | Expression::Mul(l, r) | Expression::Divu(l, r)
        | Expression::Modu(l, r) | Expression::Divs(l, r) | Expression::Mods(l, r) | Expression::And(l, r)
        | Expression::Or(l, r) | Expression::Xor(l, r) | Expression::Shl(l, r) | Expression::Shr(l, r)
        | Expression::AShr(l, r) => { lemma_expr_wf_bits(*l); }
        Expression::Cmpeq(l, r) | Expression::Cmpneq(l, r) | Expression::Cmplts(l, r) | Expression::Cmpltu(l, r) => {}
        Expression::Zext(b, x) | Expression::Sext(b, x) => { lemma_expr_wf_bits(*x); }
        Expression::Trun(b, x) => { lemma_expr_wf_bits(*x); }
        Expression::Ite(c, t, f) => { lemma_expr_wf_bits(*t); }
    }
}

pub proof fn lemma_rotl_val(w: nat, a: nat, k: nat)
    requires w >= 1, a < pow2(w), k <= w, k < pow2(w),
    ensures
        bv_sub(w, w, k) == w - k,
        bv_or(w, bv_shl(w, a, k), bv_shr(w, a, (w - k) as nat)) == rotl_spec(w, a, k),
{
    lemma_lt_pow2(w);
    assert(bv_sub(w, w, k) == w - k) by {
        reveal(bv_sub);
        lemma_enc_small(w, w as int - k as int);
    }
    let j = (w - k) as nat;
    lemma_pow2_pos(k);
    lemma_pow2_pos(j);
    lemma_pow2_pos(w);
    lemma2_to64();
    if k == w {
        assert(bv_shl(w, a, k) == 0) by { reveal(bv_shl); }
        assert(bv_shr(w, a, 0) == a) by { reveal(bv_shr); assert(pow2(0) == 1); assert(a / 1 == a); }
        assert(bv_or(w, 0, a) == a) by { reveal(bv_or); }
        assert(a % 1 == 0);
        assert(rotl_spec(w, a, k) == a) by { assert(pow2(0) == 1); assert((a % 1) * pow2(k) == 0) by (nonlinear_arith) requires a % 1 == 0; }
    } else if k == 0 {
        assert(bv_shl(w, a, 0) == a) by { reveal(bv_shl); assert(pow2(0) == 1); assert(a * 1 == a); lemma_small_mod(a, pow2(w)); }
        assert(bv_shr(w, a, w) == 0) by { reveal(bv_shr); }
        assert(bv_or(w, a, 0) == a) by { reveal(bv_or); }
        assert(rotl_spec(w, a, 0) == a) by { lemma_small_mod(a, pow2(w)); lemma_small_div(a, pow2(w)); assert(pow2(0) == 1); }
    } else {
        lemma_rotl_mid(w, a, k);
    }
}

pub proof fn lemma_rotl_mid(w: nat, a: nat, k: nat)
    requires w >= 1, a < pow2(w), 0 < k < w,
    ensures bv_or(w, bv_shl(w, a, k), bv_shr(w, a, (w - k) as nat)) == rotl_spec(w, a, k),
{
    let j = (w - k) as nat;
    lemma_pow2_pos(k);
    lemma_pow2_pos(j);
    lemma_pow2_pos(w);
    lemma_pow2_adds(k, j);
    let pk = pow2(k) as int;
    let pj = pow2(j) as int;
    assert(pow2(w) as int == pk * pj);
    let hi = a / pow2(j);
    let lo = a % pow2(j);
    // hi < 2^k
    lemma_fundamental_div_mod(a as int, pj);
    lemma_mod_bound(a as int, pj);
    lemma_div_by_multiple_is_strongly_ordered(a as int, pow2(w) as int, pk, pj);
    lemma_div_multiples_vanish(pk, pj);
    assert(hi < pow2(k));
    // (a * 2^k) % 2^w == lo * 2^k
    lemma_truncate_middle(a as int, pk, pj);
    assert(a * pow2(k) == pk * a as int) by (nonlinear_arith) requires pk == pow2(k) as int;
    assert(lo * pow2(k) == pk * lo as int) by (nonlinear_arith) requires pk == pow2(k) as int;
    assert(((a * pow2(k)) as int) % (pow2(w) as int) == (lo * pow2(k)) as int);
    assert(bv_shl(w, a, k) == lo * pow2(k)) by { reveal(bv_shl); }
    assert(bv_shr(w, a, j) == hi) by { reveal(bv_shr); }
    lemma_or_disjoint(lo, k, hi);
    assert(bv_or(w, lo * pow2(k), hi) == lo * pow2(k) + hi) by { reveal(bv_or); }
}

pub proof fn lemma_rotl_eval(e: Expression, s: Expression, wc: Constant, env: Env)
    requires
        expr_wf(e), expr_wf(s), expr_bits(e) == expr_bits(s), env_sorted(env),
        wc.wf(), wc.bits as nat == expr_bits(e), wc.value@ == expr_bits(e),
    ensures
        expr_wf(rotl_form(e, s, wc)),
        expr_bits(rotl_form(e, s, wc)) == expr_bits(e),
        eval_spec(rotl_form(e, s, wc), env) == rotl_eval(eval_spec(e, env), eval_spec(s, env)) || rotl_eval(eval_spec(e, env), eval_spec(s, env)) is ErrSort,
{
    reveal_with_fuel(expr_wf, 5);
    reveal_with_fuel(expr_bits, 5);
    reveal_with_fuel(eval_spec, 5);
    lemma_eval_wf_val(e, env);
    lemma_eval_wf_val(s, env);
    if let EvalR::Val(w, a) = eval_spec(e, env) {
        if let EvalR::Val(w2, k) = eval_spec(s, env) {
            if k <= w { lemma_rotl_val(w, a, k); }
        }
    }
}

impl vstd::std_specs::convert::FromSpecImpl<Constant> for Expression {
    open spec fn obeys_from_spec() -> bool { true }
    open spec fn from_spec(c: Constant) -> Expression { Expression::Constant(c) }
}
//@ source lib/il/expression.rs
impl From<Constant> for Expression {
//@ fn impl From<Constant> for Expression :: fn from nopub
//@ spec
    ensures r == Expression::Constant(constant),
//@ end
}

impl Expression {

//@ fn impl Expression :: fn sra
//@ spec
    requires expr_wf(lhs), expr_wf(rhs),
    ensures
        /*@err*/ expr_bits(lhs) != expr_bits(rhs) ==> is_sort_err(r),
        /*@ok*/ expr_bits(lhs) == expr_bits(rhs) ==> (r matches Ok(x) && expr_wf(x) && expr_bits(x) == expr_bits(lhs)
            && forall|env: Env| env_sorted(env) ==> #[trigger] eval_spec(x, env) == eval_spec(Expression::AShr(Box::new(lhs), Box::new(rhs)), env)),
//@ enter
    proof {
        reveal(bv_sub);
        lemma_expr_wf_bits(lhs);
        let w = expr_bits(lhs);
        lemma_pow2_pos(w);
        if 1 <= w <= 64 { lemma_ones64(w); }
        lemma_small_mod(0, pow2(w));
        lemma_enc_neg(w, -1);
        lemma_pow2_step((w - 1) as nat); lemma_pow2_pos((w - 1) as nat); lemma_small_mod(1, pow2(w));
    }
//@ before 0 `Expression::ite(`
    proof {
        broadcast use axiom_biguint_of;
        let zero = Constant { value: biguint_of(0), bits: expr_bits(lhs) as usize };
        let onesc = ones->Constant_0;
        assert(zero.wf());
        lemma_sra_eval(lhs, rhs, zero, onesc, empty_env());
        assert forall|env: Env| env_sorted(env) implies #[trigger] eval_spec(sra_form(lhs, rhs, zero, onesc), env)
            == eval_spec(Expression::AShr(Box::new(lhs), Box::new(rhs)), env) by {
            lemma_sra_eval(lhs, rhs, zero, onesc, env);
        }
    }
//@ end

//@ fn impl Expression :: fn rotl
//@ spec
    requires expr_wf(e), expr_wf(s),
    ensures
        /*@err*/ expr_bits(e) != expr_bits(s) ==> is_sort_err(r),
        /*@ok*/ expr_bits(e) == expr_bits(s) ==> (r matches Ok(x) && expr_wf(x) && expr_bits(x) == expr_bits(e)
            && forall|env: Env| env_sorted(env) ==> (
                ((#[trigger] eval_spec(x, env)) == rotl_eval(eval_spec(e, env), eval_spec(s, env)) || rotl_eval(eval_spec(e, env), eval_spec(s, env)) is ErrSort))),
//@ enter
    proof {
        lemma_expr_wf_bits(e);
        let w = expr_bits(e);
        lemma_lt_pow2(w);
        lemma_small_mod(w, pow2(w));
    }
//@ before 0 `Expression::or(`
    proof {
        broadcast use axiom_biguint_of;
        let wc = Constant { value: biguint_of(expr_bits(e)), bits: expr_bits(e) as usize };
        if expr_bits(e) == expr_bits(s) {
            assert(wc.wf());
            lemma_rotl_eval(e, s, wc, empty_env());
            assert forall|env: Env| env_sorted(env) implies
                ((#[trigger] eval_spec(rotl_form(e, s, wc), env)) == rotl_eval(eval_spec(e, env), eval_spec(s, env)) || rotl_eval(eval_spec(e, env), eval_spec(s, env)) is ErrSort) by {
                lemma_rotl_eval(e, s, wc, env);
            }
        }
    }
//@ end

} // impl Expression
