// Unit C04 — IL expression evaluation is exact fixed-width bit-vector arithmetic.
// Generated file = this template + the real text of the functions named in the `//@` holes.
#![allow(unused_imports, unused_variables, dead_code, unused_mut, non_snake_case, unused_parens, unused_braces)]
use vstd::prelude::*;
use vstd::arithmetic::power2::*;
use vstd::arithmetic::div_mod::*;
use vstd::arithmetic::mul::*;
use std::ops::*;
use std::cmp::Ordering;

verus! {

//@ include spec/bv.rs
//@ include prelude/bigint.rs
//@ include prelude/error.rs

pub mod il {
use super::*;
broadcast use {axiom_biguint_ext, axiom_bigint_ext};
#[verifier::external_body] pub struct ProgramLocation { _p: () }

//@ include units/C04/constant.rs
//@ include units/C04/expression.rs
//@ include units/C04/builders.rs
//@ include units/C04/subst.rs

proof fn vf_canary_il() ensures false {}
} // mod il

pub mod executor {
use super::*;
use super::il::*;
//@ include units/C04/eval.rs
} // mod executor
proof fn vf_canary_root() ensures false {}

} // verus!

fn main() {}
