//@ source lib/executor/eval.rs
//@ fn fn eval
//@ spec
    requires expr_sane(*expr),
    ensures /*@spec*/ eval_agrees(r, eval_spec(*expr, empty_env())),
    decreases *expr,
//@ end
