// ---- scalar substitution: Expression::{map_to_expression, replace_scalar} ----------------------
//@ source lib/il/expression.rs
//@ item impl Expression :: fn map_to_expression :: ~struct Map

impl vstd::std_specs::convert::FromSpecImpl<Scalar> for Expression {
    open spec fn obeys_from_spec() -> bool { true }
    open spec fn from_spec(s: Scalar) -> Expression { Expression::Scalar(s) }
}
impl From<Scalar> for Expression {
//@ fn impl From<Scalar> for Expression :: fn from nopub
//@ spec
    ensures r == Expression::Scalar(scalar),
//@ end
}

pub open spec fn mk_bin(op: BinOp, l: Expression, r: Expression) -> Expression {
    match op {
        BinOp::Add => Expression::Add(Box::new(l), Box::new(r)),
        BinOp::Sub => Expression::Sub(Box::new(l), Box::new(r)),
        BinOp::Mul => Expression::Mul(Box::new(l), Box::new(r)),
        BinOp::Divu => Expression::Divu(Box::new(l), Box::new(r)),
        BinOp::Modu => Expression::Modu(Box::new(l), Box::new(r)),
        BinOp::Divs => Expression::Divs(Box::new(l), Box::new(r)),
        BinOp::Mods => Expression::Mods(Box::new(l), Box::new(r)),
        BinOp::And => Expression::And(Box::new(l), Box::new(r)),
        BinOp::Or => Expression::Or(Box::new(l), Box::new(r)),
        BinOp::Xor => Expression::Xor(Box::new(l), Box::new(r)),
        BinOp::Shl => Expression::Shl(Box::new(l), Box::new(r)),
        BinOp::Shr => Expression::Shr(Box::new(l), Box::new(r)),
        BinOp::AShr => Expression::AShr(Box::new(l), Box::new(r)),
        BinOp::Cmpeq => Expression::Cmpeq(Box::new(l), Box::new(r)),
        BinOp::Cmpneq => Expression::Cmpneq(Box::new(l), Box::new(r)),
        BinOp::Cmplts => Expression::Cmplts(Box::new(l), Box::new(r)),
        BinOp::Cmpltu => Expression::Cmpltu(Box::new(l), Box::new(r)),
    }
}

/// the sort-checking constructors as mathematical partial functions (None = sort error)
pub open spec fn lift_bin(op: BinOp, ml: Option<Expression>, mr: Option<Expression>) -> Option<Expression> {
    match ml {
        None => None,
        Some(l) => match mr {
            None => None,
            Some(r) => if expr_bits(l) == expr_bits(r) { Some(mk_bin(op, l, r)) } else { None },
        },
    }
}
pub open spec fn lift_zext(b: usize, mx: Option<Expression>) -> Option<Expression> {
    match mx { None => None, Some(x) => if expr_bits(x) >= b || expr_bits(x) == 0 { None } else { Some(Expression::Zext(b, Box::new(x))) } }
}
pub open spec fn lift_sext(b: usize, mx: Option<Expression>) -> Option<Expression> {
    match mx { None => None, Some(x) => if expr_bits(x) >= b || expr_bits(x) == 0 { None } else { Some(Expression::Sext(b, Box::new(x))) } }
}
pub open spec fn lift_trun(b: usize, mx: Option<Expression>) -> Option<Expression> {
    match mx { None => None, Some(x) => if expr_bits(x) <= b || expr_bits(x) == 0 { None } else { Some(Expression::Trun(b, Box::new(x))) } }
}
pub open spec fn lift_ite(mc: Option<Expression>, mt: Option<Expression>, mf: Option<Expression>) -> Option<Expression> {
    match mc { None => None, Some(c) => match mt { None => None, Some(t) => match mf { None => None, Some(f) =>
        if expr_bits(c) != 1 || expr_bits(t) != expr_bits(f) { None } else { Some(Expression::Ite(Box::new(c), Box::new(t), Box::new(f))) } } } }
}

pub type ExprMap = spec_fn(Expression) -> Option<Expression>;

/// top-down rewriting: where g answers, take its answer; elsewhere rebuild the node from rewritten children
pub open spec fn map_spec(g: ExprMap, e: Expression) -> Option<Expression>
    decreases e,
{
    match g(e) {
        Some(x) => Some(x),
        None => match e {
            Expression::Scalar(s) => Some(e),
            Expression::Constant(c) => Some(e),
            Expression::Add(l, r) => lift_bin(BinOp::Add, map_spec(g, *l), map_spec(g, *r)),
            Expression::Sub(l, r) => lift_bin(BinOp::Sub, map_spec(g, *l), map_spec(g, *r)),
            Expression::Mul(l, r) => lift_bin(BinOp::Mul, map_spec(g, *l), map_spec(g, *r)),
            Expression::Divu(l, r) => lift_bin(BinOp::Divu, map_spec(g, *l), map_spec(g, *r)),
            Expression::Modu(l, r) => lift_bin(BinOp::Modu, map_spec(g, *l), map_spec(g, *r)),
            Expression::Divs(l, r) => lift_bin(BinOp::Divs, map_spec(g, *l), map_spec(g, *r)),
            Expression::Mods(l, r) => lift_bin(BinOp::Mods, map_spec(g, *l), map_spec(g, *r)),
            Expression::And(l, r) => lift_bin(BinOp::And, map_spec(g, *l), map_spec(g, *r)),
            Expression::Or(l, r) => lift_bin(BinOp::Or, map_spec(g, *l), map_spec(g, *r)),
            Expression::Xor(l, r) => lift_bin(BinOp::Xor, map_spec(g, *l), map_spec(g, *r)),
            Expression::Shl(l, r) => lift_bin(BinOp::Shl, map_spec(g, *l), map_spec(g, *r)),
            Expression::Shr(l, r) => lift_bin(BinOp::Shr, map_spec(g, *l), map_spec(g, *r)),
            Expression::AShr(l, r) => lift_bin(BinOp::AShr, map_spec(g, *l), map_spec(g, *r)),
            Expression::Cmpeq(l, r) => lift_bin(BinOp::Cmpeq, map_spec(g, *l), map_spec(g, *r)),
            Expression::Cmpneq(l, r) => lift_bin(BinOp::Cmpneq, map_spec(g, *l), map_spec(g, *r)),
            Expression::Cmplts(l, r) => lift_bin(BinOp::Cmplts, map_spec(g, *l), map_spec(g, *r)),
            Expression::Cmpltu(l, r) => lift_bin(BinOp::Cmpltu, map_spec(g, *l), map_spec(g, *r)),
            Expression::Zext(b, x) => lift_zext(b, map_spec(g, *x)),
            Expression::Sext(b, x) => lift_sext(b, map_spec(g, *x)),
            Expression::Trun(b, x) => lift_trun(b, map_spec(g, *x)),
            Expression::Ite(c, t, f) => lift_ite(map_spec(g, *c), map_spec(g, *t), map_spec(g, *f)),
        },
    }
}

/// the executable closure f computes the mathematical function g
pub open spec fn closure_is<F: Fn(&Expression) -> Option<Expression>>(f: F, g: ExprMap) -> bool {
    &&& forall|e: &Expression| #[trigger] f.requires((e,))
    &&& forall|e: &Expression, o: Option<Expression>| #[trigger] f.ensures((e,), o) ==> o == g(*e)
}

pub open spec fn map_result(r: Result<Expression, Error>, m: Option<Expression>) -> bool {
    match m { Some(x) => r == Ok::<Expression, Error>(x), None => is_sort_err(r) }
}

impl<F> Map<F>
where
    F: Fn(&Expression) -> Option<Expression>,
{
//@ fn impl Expression :: fn map_to_expression :: ~impl<F> Map<F> :: fn map
//@ spec
    requires forall|e: &Expression| #[trigger] self.f.requires((e,)),
    ensures /*@spec*/ forall|g: ExprMap| #![trigger closure_is(self.f, g)] #![trigger map_spec(g, *expression)] closure_is(self.f, g) ==> map_result(r, map_spec(g, *expression)),
    decreases *expression,
//@ end
}

/// substitution of `v` for the scalar `s`
pub open spec fn repl_g(s: Scalar, v: Expression) -> ExprMap {
    |e: Expression| if e == Expression::Scalar(s) { Some(v) } else { None::<Expression> }
}
pub open spec fn replace_spec(e: Expression, s: Scalar, v: Expression) -> Option<Expression> {
    map_spec(repl_g(s, v), e)
}

pub open spec fn env_upd(env: Env, s: Scalar, w: nat, val: nat) -> Env {
    |x: Scalar| if x == s { Some((w, val)) } else { env(x) }
}

/// "scalar substitution agrees with these meanings": evaluating e[s := v] equals evaluating e with s bound to v's value
pub proof fn lemma_subst_eval(e: Expression, s: Scalar, v: Expression, env: Env, w: nat, val: nat)
    requires
        replace_spec(e, s, v) is Some,
        eval_spec(v, env) == EvalR::Val(w, val),
    ensures
        eval_spec(replace_spec(e, s, v).unwrap(), env) == eval_spec(e, env_upd(env, s, w, val)),
    decreases e,
{
    let g = repl_g(s, v);
    let env2 = env_upd(env, s, w, val);
    if g(e) is Some {
    } else {
        match e {
            Expression::Scalar(x) => {}
            Expression::Constant(c) => {}
            Expression::Add(l, r) | Expression::Sub(l, r) | Expression::Mul(l, r) | Expression::Divu(l, r)
            | Expression::Modu(l, r) | Expression::Divs(l, r) | Expression::Mods(l, r) | Expression::And(l, r)
            | Expression::Or(l, r) | Expression::Xor(l, r) | Expression::Shl(l, r) | Expression::Shr(l, r)
            | Expression::AShr(l, r) | Expression::Cmpeq(l, r) | Expression::Cmpneq(l, r) | Expression::Cmplts(l, r)
            | Expression::Cmpltu(l, r) => { lemma_subst_eval(*l, s, v, env, w, val); lemma_subst_eval(*r, s, v, env, w, val); }
            Expression::Zext(b, x) | Expression::Sext(b, x) | Expression::Trun(b, x) => { lemma_subst_eval(*x, s, v, env, w, val); }
            Expression::Ite(c, t, f) => { lemma_subst_eval(*c, s, v, env, w, val); lemma_subst_eval(*t, s, v, env, w, val); lemma_subst_eval(*f, s, v, env, w, val); }
        }
    }
}

impl Expression {

//@ fn impl Expression :: fn map_to_expression
//@ hoist ~struct Map
//@ hoist ~impl<F> Map<F>
//@ spec
    requires forall|e: &Expression| #[trigger] f.requires((e,)),
    ensures /*@spec*/ forall|g: ExprMap| #![trigger closure_is(f, g)] #![trigger map_spec(g, *self)] closure_is(f, g) ==> map_result(r, map_spec(g, *self)),
//@ end

//@ fn impl Expression :: fn replace_scalar
//@ spec
    ensures /*@spec*/ map_result(r, replace_spec(*self, *scalar, *expression)),
//@ closure 0 |expr: &Expression| -> (o: Option<Expression>)
    ensures o == repl_g(*scalar, *expression)(*expr),
//@ end

} // impl Expression
