// ---- il::Constant ---------------------------------------------------------------------------
//@ source lib/il/constant.rs
//@ item struct Constant

// derive(Clone) re-supplied explicitly (structural copy)
impl Clone for Constant {
    fn clone(&self) -> (r: Constant)
        ensures r == *self,
    {
        Constant { value: self.value.clone(), bits: self.bits }
    }
}

pub open spec fn MAX_BITS() -> nat { 0x10000 }

impl Constant {
    /// data invariant of il::Constant: width between 1 and MAX_BITS, value below 2^width
    pub open spec fn wf(&self) -> bool {
        1 <= self.bits && self.bits as nat <= MAX_BITS() && self.value@ < pow2(self.bits as nat)
    }
}

pub open spec fn is_sort_err<T>(r: Result<T, Error>) -> bool { r matches Err(e) && e is Sort }
pub open spec fn is_div0_err<T>(r: Result<T, Error>) -> bool { r matches Err(e) && e is DivideByZero }
pub open spec fn is_const(r: Result<Constant, Error>, w: nat, v: nat) -> bool {
    r matches Ok(c) && c.wf() && c.bits as nat == w && c.value@ == v
}

pub proof fn lemma_mask(bits: nat)
    ensures (1 * pow2(bits) - 1) as nat == (pow2(bits) - 1) as nat, pow2(bits) >= 1,
{
    lemma_pow2_pos(bits);
}

pub proof fn lemma_mod_pow2_bound(x: nat, n: nat)
    ensures x % pow2(n) < pow2(n),
{
    lemma_pow2_pos(n);
    lemma_mod_bound(x as int, pow2(n) as int);
}

pub proof fn lemma_enc_bound(w: nat, x: int)
    ensures enc(w, x) < pow2(w),
{
    lemma_pow2_pos(w);
    lemma_mod_bound(x, pow2(w) as int);
}

pub proof fn lemma_enc_small(w: nat, x: int)
    requires 0 <= x < pow2(w),
    ensures enc(w, x) == x as nat,
{
    lemma_small_mod(x as nat, pow2(w));
}

pub proof fn lemma_enc_neg(w: nat, x: int)
    requires -(pow2(w) as int) <= x < 0,
    ensures enc(w, x) == (x + pow2(w)) as nat,
{
    lemma_pow2_pos(w);
    lemma_mod_add_multiples_vanish(x, pow2(w) as int);
    lemma_small_mod((x + pow2(w)) as nat, pow2(w));
}

pub proof fn lemma_sval_range(w: nat, a: nat)
    requires w >= 1, a < pow2(w),
    ensures -(pow2((w - 1) as nat) as int) <= sval(w, a) < pow2((w - 1) as nat), pow2(w) == 2 * pow2((w - 1) as nat),
            sval(w, a) < 0 <==> a >= pow2((w - 1) as nat),
{
    lemma_pow2_step((w - 1) as nat);
}

pub proof fn lemma_shr_facts(w: nat, a: nat, s: nat)
    requires a < pow2(w),
    ensures
        a / pow2(s) < pow2(w),
        (a / pow2(s)) % pow2(w) == a / pow2(s),
        s >= w ==> a / pow2(s) == 0,
{
    lemma_pow2_pos(s);
    lemma_div_is_ordered_by_denominator(a as int, 1, pow2(s) as int);
    lemma_div_basics(a as int);
    lemma_div_pos_is_pos(a as int, pow2(s) as int);
    lemma_small_mod(a / pow2(s), pow2(w));
    if s >= w {
        lemma_pow2_mono(w, s);
        lemma_small_div(a, pow2(s));
    }
}

/// facts for Constant::ashr; s is the clamped amount min(amount, w)
pub proof fn lemma_ashr_facts(w: nat, a: nat, amount: nat, s: nat)
    requires w >= 1, a < pow2(w), s == (if amount <= w { amount } else { w }),
    ensures
        a / pow2((w - 1) as nat) == 0 || a / pow2((w - 1) as nat) == 1,
        a / pow2((w - 1) as nat) == 0 <==> sval(w, a) >= 0,
        a / pow2(s) < pow2((w - s) as nat),
        sval(w, a) >= 0 ==> (a / pow2(s)) % pow2(w) == bv_ashr(w, a, amount),
        sval(w, a) < 0 ==> (((pow2(w) - 1) as nat) * pow2((w - s) as nat) + a / pow2(s)) % pow2(w) == bv_ashr(w, a, amount),
{
    reveal(bv_ashr);
    let h = pow2((w - 1) as nat);
    let q = a / pow2(s);
    let t = pow2((w - s) as nat);
    lemma_pow2_step((w - 1) as nat);
    lemma_pow2_pos(s);
    lemma_pow2_pos(w);
    lemma_pow2_pos((w - s) as nat);
    lemma_pow2_adds(s, (w - s) as nat);
    assert(pow2(w) == pow2(s) * t);
    if a >= h {
        lemma_fundamental_div_mod_converse(a as int, h as int, 1, a as int - h as int);
    } else {
        lemma_small_div(a, h);
    }
    // q < t
    assert(pow2(w) as int == t as int * pow2(s) as int) by (nonlinear_arith) requires pow2(w) == pow2(s) * t;
    lemma_div_by_multiple_is_strongly_ordered(a as int, pow2(w) as int, t as int, pow2(s) as int);
    lemma_div_multiples_vanish(t as int, pow2(s) as int);
    assert(q < t);
    lemma_shr_facts(w, a, s);
    if sval(w, a) >= 0 {
        if amount >= w {
            assert(s == w);
            lemma_small_div(a, pow2(w));
        } else {
            lemma_enc_small(w, q as int);
        }
    } else {
        // floor((a - 2^w) / 2^s) == q - t
        let x = a as int - pow2(w) as int;
        lemma_fundamental_div_mod(a as int, pow2(s) as int);
        let rem = a as int % pow2(s) as int;
        lemma_mod_bound(a as int, pow2(s) as int);
        assert(x == (q as int - t as int) * pow2(s) as int + rem) by (nonlinear_arith)
            requires x == a as int - pow2(w) as int, pow2(w) == pow2(s) * t, a as int == pow2(s) as int * (a as int / pow2(s) as int) + rem, q as int == a as int / pow2(s) as int;
        lemma_fundamental_div_mod_converse(x, pow2(s) as int, q as int - t as int, rem);
        assert(x / pow2(s) as int == q as int - t as int);
        // ((2^w - 1) * t + q) mod 2^w == (q - t) mod 2^w
        let big = ((pow2(w) - 1) as nat) * t + q;
        assert(big as int == pow2(w) as int * t as int + (q as int - t as int)) by (nonlinear_arith)
            requires big == ((pow2(w) - 1) as nat) * t + q, pow2(w) >= 1;
        lemma_mod_multiples_vanish(t as int, q as int - t as int, pow2(w) as int);
        assert(big % pow2(w) == enc(w, q as int - t as int));
        if amount >= w {
            assert(s == w);
            lemma_small_div(a, pow2(w));
            lemma2_to64();
            assert(t == 1);
            lemma_enc_neg(w, -1);
        }
    }
}

pub proof fn lemma_sext_facts(w: nat, w2: nat, a: nat)
    requires w >= 1, a < pow2(w),
    ensures
        a / pow2((w - 1) as nat) == 0 || a / pow2((w - 1) as nat) == 1,
        a / pow2((w - 1) as nat) == 1 <==> sval(w, a) < 0,
        w < w2 && sval(w, a) >= 0 ==> a % pow2(w2) == bv_sext(w, w2, a),
        w < w2 && sval(w, a) < 0 ==> (((pow2(w2) - 1) as nat) * pow2(w) + a) % pow2(w2) == bv_sext(w, w2, a),
{
    reveal(bv_sext);
    let h = pow2((w - 1) as nat);
    lemma_pow2_step((w - 1) as nat);
    lemma_pow2_pos(w);
    lemma_pow2_pos(w2);
    if a >= h {
        lemma_fundamental_div_mod_converse(a as int, h as int, 1, a as int - h as int);
    } else {
        lemma_small_div(a, h);
    }
    if w < w2 {
        lemma_pow2_strictly_increases(w, w2);
        if sval(w, a) >= 0 {
            lemma_small_mod(a, pow2(w2));
        } else {
            let big = ((pow2(w2) - 1) as nat) * pow2(w) + a;
            assert(big as int == pow2(w2) as int * pow2(w) as int + (a as int - pow2(w) as int)) by (nonlinear_arith)
                requires big == ((pow2(w2) - 1) as nat) * pow2(w) + a, pow2(w2) >= 1;
            lemma_mod_multiples_vanish(pow2(w) as int, a as int - pow2(w) as int, pow2(w2) as int);
        }
    }
}

pub proof fn lemma_trunc_div_bounds(a: int, b: int)
    requires b != 0,
    ensures
        a >= 0 ==> 0 <= trunc_div(a, b) <= a || -a <= trunc_div(a, b) <= 0,
        a < 0 ==> 0 <= trunc_div(a, b) <= -a || a <= trunc_div(a, b) <= 0,
        b > 0 ==> -b < trunc_rem(a, b) < b,
        b < 0 ==> b < trunc_rem(a, b) < -b,
{
    let aa = if a >= 0 { a } else { -a };
    let bb = if b > 0 { b } else { -b };
    lemma_div_pos_is_pos(aa, bb);
    lemma_div_is_ordered_by_denominator(aa, 1, bb);
    lemma_div_basics(aa);
    lemma_fundamental_div_mod(aa, bb);
    lemma_mod_bound(aa, bb);
    assert(bb * (aa / bb) == (aa / bb) * bb) by (nonlinear_arith);
    let q = aa / bb;
    if a >= 0 && b > 0 {
    } else if a < 0 && b > 0 {
        assert(b * (-q) == -(bb * q)) by (nonlinear_arith) requires b == bb;
    } else if a >= 0 && b < 0 {
        assert(b * (-q) == bb * q) by (nonlinear_arith) requires b == -bb;
    } else {
        assert(b * q == -(bb * q)) by (nonlinear_arith) requires b == -bb;
    }
}

/// facts for divs / mods: both results fit the width and the negative-result encoding is 2^w + r
pub proof fn lemma_sdiv_facts(w: nat, a: nat, b: nat)
    requires w >= 1, a < pow2(w), b < pow2(w), b != 0,
    ensures
        sval(w, b) != 0,
        pow2(w) >= 2,
        ({ let q = trunc_div(sval(w, a), sval(w, b));
           &&& -(pow2(w) as int) < q < pow2(w)
           &&& q >= 0 ==> (q as nat) % pow2(w) == bv_divs(w, a, b)
           &&& q < 0 ==> (-(q - 1) - 1) as nat == (-q) as nat && ((-q) as nat) < pow2(w)
                 && nat_xor((-q) as nat, (pow2(w) - 1) as nat) == pow2(w) - 1 + q
                 && ((pow2(w) + q) as nat) % pow2(w) == bv_divs(w, a, b) }),
        ({ let m = trunc_rem(sval(w, a), sval(w, b));
           &&& -(pow2(w) as int) < m < pow2(w)
           &&& m >= 0 ==> (m as nat) % pow2(w) == bv_mods(w, a, b)
           &&& m < 0 ==> (-(m - 1) - 1) as nat == (-m) as nat && ((-m) as nat) < pow2(w)
                 && nat_xor((-m) as nat, (pow2(w) - 1) as nat) == pow2(w) - 1 + m
                 && ((pow2(w) + m) as nat) % pow2(w) == bv_mods(w, a, b) }),
{
    reveal(bv_divs); reveal(bv_mods);
    lemma_sval_range(w, a);
    lemma_sval_range(w, b);
    lemma_pow2_pos((w - 1) as nat);
    let sa = sval(w, a);
    let sb = sval(w, b);
    lemma_trunc_div_bounds(sa, sb);
    let q = trunc_div(sa, sb);
    let m = trunc_rem(sa, sb);
    if q < 0 {
        lemma_xor_mask((-q) as nat, w);
        lemma_mod_add_multiples_vanish(q, pow2(w) as int);
    }
    if m < 0 {
        lemma_xor_mask((-m) as nat, w);
        lemma_mod_add_multiples_vanish(m, pow2(w) as int);
    }
}

impl Constant {

//@ fn impl Constant :: fn new
//@ spec
    requires 1 <= bits, bits as nat <= MAX_BITS(),
    ensures r.wf(), r.bits == bits, r.value@ == (value as nat) % pow2(bits as nat),
//@ end

//@ fn impl Constant :: fn new_big
//@ spec
    requires 1 <= bits, bits as nat <= MAX_BITS(),
    ensures r.wf(), r.bits == bits, r.value@ == value@ % pow2(bits as nat),
//@ end

//@ fn impl Constant :: fn new_zero
//@ spec
    requires 1 <= bits, bits as nat <= MAX_BITS(),
    ensures r.wf(), r.bits == bits, r.value@ == 0,
//@ before 0 `Constant {`
    proof { lemma_pow2_pos(bits as nat); }
//@ end

//@ fn impl Constant :: fn trim_value
//@ spec
    requires bits as nat <= MAX_BITS(),
    ensures r@ == value@ % pow2(bits as nat), r@ < pow2(bits as nat),
//@ before 0 `let mask = mask -`
    proof { lemma_pow2_pos(bits as nat); }
//@ before 0 `value & mask`
    proof {
        lemma_mask(bits as nat);
        lemma_and_mask(value@, bits as nat);
        lemma_mod_pow2_bound(value@, bits as nat);
    }
//@ end

//@ fn impl Constant :: fn to_bigint
//@ spec
    requires self.wf(),
    ensures r@ == sval(self.bits as nat, self.value@),
//@ before 0 `let sign_bit`
    proof {
        lemma_pow2_step((self.bits - 1) as nat);
        let h = pow2((self.bits - 1) as nat);
        let a = self.value@;
        // a / h is 0 or 1
        if a >= h {
            lemma_fundamental_div_mod_converse(a as int, h as int, 1, a as int - h as int);
        } else {
            lemma_small_div(a, h);
        }
    }
//@ before 0 `let v = self.value.clone() ^ mask`
    proof {
        lemma_mask(self.bits as nat);
        lemma_xor_mask(self.value@, self.bits as nat);
    }
//@ end

//@ fn impl Constant :: fn value_u64
//@ spec
    ensures self.value@ <= u64::MAX ==> r == Some(self.value@ as u64), self.value@ > u64::MAX ==> r is None,
//@ end

//@ fn impl Constant :: fn value
//@ spec
    ensures *r == self.value,
//@ end

//@ fn impl Constant :: fn bits
//@ spec
    ensures r == self.bits,
//@ end

//@ fn impl Constant :: fn is_zero
//@ spec
    ensures r == (self.value@ == 0),
//@ end

//@ fn impl Constant :: fn is_one
//@ spec
    ensures r == (self.value@ == 1),
//@ end

//@ fn impl Constant :: fn add
//@ spec
    requires self.wf(), rhs.wf(),
    ensures
        /*@sort*/ self.bits != rhs.bits ==> is_sort_err(r),
        /*@value*/ self.bits == rhs.bits ==> is_const(r, self.bits as nat, bv_add(self.bits as nat, self.value@, rhs.value@)),
//@ enter
    proof { reveal(bv_add); }
//@ end

//@ fn impl Constant :: fn sub
//@ spec
    requires self.wf(), rhs.wf(),
    ensures
        /*@sort*/ self.bits != rhs.bits ==> is_sort_err(r),
        /*@value*/ self.bits == rhs.bits ==> is_const(r, self.bits as nat, bv_sub(self.bits as nat, self.value@, rhs.value@)),
//@ enter
    proof { reveal(bv_sub); }
//@ before 0 `let lhs = lhs |`
    proof {
        let w = self.bits as nat;
        lemma_or_comm(self.value@, 1 * pow2(w));
        lemma_or_disjoint(1, w, self.value@);
        lemma_mod_add_multiples_vanish(self.value@ as int - rhs.value@ as int, pow2(w) as int);
    }
//@ end

//@ fn impl Constant :: fn mul
//@ spec
    requires self.wf(), rhs.wf(),
    ensures
        /*@sort*/ self.bits != rhs.bits ==> is_sort_err(r),
        /*@value*/ self.bits == rhs.bits ==> is_const(r, self.bits as nat, bv_mul(self.bits as nat, self.value@, rhs.value@)),
//@ enter
    proof { reveal(bv_mul); }
//@ end

//@ fn impl Constant :: fn divu
//@ spec
    requires self.wf(), rhs.wf(),
    ensures
        /*@sort*/ self.bits != rhs.bits ==> is_sort_err(r),
        /*@div0*/ self.bits == rhs.bits && rhs.value@ == 0 ==> is_div0_err(r),
        /*@value*/ self.bits == rhs.bits && rhs.value@ != 0 ==> is_const(r, self.bits as nat, bv_divu(self.bits as nat, self.value@, rhs.value@)),
//@ enter
    proof { reveal(bv_divu); }
//@ before 0 `Ok(Constant::new_big(`
    proof {
        lemma_div_is_ordered_by_denominator(self.value@ as int, 1, rhs.value@ as int);
        lemma_div_basics(self.value@ as int);
        lemma_div_pos_is_pos(self.value@ as int, rhs.value@ as int);
        lemma_small_mod(self.value@ / rhs.value@, pow2(self.bits as nat));
    }
//@ end

//@ fn impl Constant :: fn modu
//@ spec
    requires self.wf(), rhs.wf(),
    ensures
        /*@sort*/ self.bits != rhs.bits ==> is_sort_err(r),
        /*@div0*/ self.bits == rhs.bits && rhs.value@ == 0 ==> is_div0_err(r),
        /*@value*/ self.bits == rhs.bits && rhs.value@ != 0 ==> is_const(r, self.bits as nat, bv_modu(self.bits as nat, self.value@, rhs.value@)),
//@ enter
    proof { reveal(bv_modu); }
//@ before 0 `Ok(Constant::new_big(`
    proof {
        lemma_mod_bound(self.value@ as int, rhs.value@ as int);
        lemma_small_mod(self.value@ % rhs.value@, pow2(self.bits as nat));
    }
//@ end

//@ fn impl Constant :: fn and
//@ spec
    requires self.wf(), rhs.wf(),
    ensures
        /*@sort*/ self.bits != rhs.bits ==> is_sort_err(r),
        /*@value*/ self.bits == rhs.bits ==> is_const(r, self.bits as nat, bv_and(self.bits as nat, self.value@, rhs.value@)),
//@ enter
    proof { reveal(bv_and); }
//@ before 0 `Ok(Constant::new_big(`
    proof {
        lemma_and_le(self.value@, rhs.value@);
        lemma_small_mod(nat_and(self.value@, rhs.value@), pow2(self.bits as nat));
    }
//@ end

//@ fn impl Constant :: fn or
//@ spec
    requires self.wf(), rhs.wf(),
    ensures
        /*@sort*/ self.bits != rhs.bits ==> is_sort_err(r),
        /*@value*/ self.bits == rhs.bits ==> is_const(r, self.bits as nat, bv_or(self.bits as nat, self.value@, rhs.value@)),
//@ enter
    proof { reveal(bv_or); }
//@ before 0 `Ok(Constant::new_big(`
    proof {
        lemma_or_bound(self.value@, rhs.value@, self.bits as nat);
        lemma_small_mod(nat_or(self.value@, rhs.value@), pow2(self.bits as nat));
    }
//@ end

//@ fn impl Constant :: fn xor
//@ spec
    requires self.wf(), rhs.wf(),
    ensures
        /*@sort*/ self.bits != rhs.bits ==> is_sort_err(r),
        /*@value*/ self.bits == rhs.bits ==> is_const(r, self.bits as nat, bv_xor(self.bits as nat, self.value@, rhs.value@)),
//@ enter
    proof { reveal(bv_xor); }
//@ before 0 `Ok(Constant::new_big(`
    proof {
        lemma_xor_bound(self.value@, rhs.value@, self.bits as nat);
        lemma_small_mod(nat_xor(self.value@, rhs.value@), pow2(self.bits as nat));
    }
//@ end

//@ fn impl Constant :: fn cmpeq
//@ spec
    requires self.wf(), rhs.wf(),
    ensures
        /*@sort*/ self.bits != rhs.bits ==> is_sort_err(r),
        /*@value*/ self.bits == rhs.bits ==> is_const(r, 1, bv_cmpeq(self.value@, rhs.value@)),
//@ enter
    proof { reveal(bv_cmpeq); }
//@ before 0 `if self.bits() != rhs.bits()`
    proof { lemma2_to64(); }
//@ end

//@ fn impl Constant :: fn cmpneq
//@ spec
    requires self.wf(), rhs.wf(),
    ensures
        /*@sort*/ self.bits != rhs.bits ==> is_sort_err(r),
        /*@value*/ self.bits == rhs.bits ==> is_const(r, 1, bv_cmpneq(self.value@, rhs.value@)),
//@ enter
    proof { reveal(bv_cmpneq); }
//@ before 0 `if self.bits() != rhs.bits()`
    proof { lemma2_to64(); }
//@ end

//@ fn impl Constant :: fn cmpltu
//@ spec
    requires self.wf(), rhs.wf(),
    ensures
        /*@sort*/ self.bits != rhs.bits ==> is_sort_err(r),
        /*@value*/ self.bits == rhs.bits ==> is_const(r, 1, bv_cmpltu(self.value@, rhs.value@)),
//@ enter
    proof { reveal(bv_cmpltu); }
//@ before 0 `if self.bits() != rhs.bits()`
    proof { lemma2_to64(); }
//@ end

//@ fn impl Constant :: fn cmplts
//@ spec
    requires self.wf(), rhs.wf(),
    ensures
        /*@sort*/ self.bits != rhs.bits ==> is_sort_err(r),
        /*@value*/ self.bits == rhs.bits ==> is_const(r, 1, bv_cmplts(self.bits as nat, self.value@, rhs.value@)),
//@ enter
    proof { reveal(bv_cmplts); }
//@ before 0 `if self.bits() != rhs.bits()`
    proof { lemma2_to64(); }
//@ end

//@ fn impl Constant :: fn trun
//@ spec
    requires self.wf(), 1 <= bits,
    ensures
        /*@sort*/ bits >= self.bits ==> is_sort_err(r),
        /*@value*/ bits < self.bits ==> is_const(r, bits as nat, bv_trun(bits as nat, self.value@)),
//@ enter
    proof { reveal(bv_trun); }
//@ end

//@ fn impl Constant :: fn zext
//@ spec
    requires self.wf(), bits as nat <= MAX_BITS(),
    ensures
        /*@sort*/ bits <= self.bits ==> is_sort_err(r),
        /*@value*/ self.bits < bits ==> is_const(r, bits as nat, bv_zext(self.value@)),
//@ enter
    proof { reveal(bv_zext); }
//@ before 0 `Ok(Constant::new_big(`
    proof {
        lemma_pow2_strictly_increases(self.bits as nat, bits as nat);
        lemma_small_mod(self.value@, pow2(bits as nat));
    }
//@ end

//@ fn impl Constant :: fn shl
//@ spec
    requires self.wf(), rhs.wf(),
    ensures
        /*@sort*/ self.bits != rhs.bits ==> is_sort_err(r),
        /*@value*/ self.bits == rhs.bits ==> is_const(r, self.bits as nat, bv_shl(self.bits as nat, self.value@, rhs.value@)),
//@ enter
    proof { reveal(bv_shl); }
//@ closure 0 |bits: usize| -> (r0: BigUint)
    requires self.wf(),
    ensures r0@ == (if bits >= self.bits { 0nat } else { self.value@ * pow2(bits as nat) }),
//@ closure 1 || -> (r1: BigUint)
    ensures r1@ == 0,
//@ before 0 `Ok(Constant::new_big(r, self.bits))`
    proof {
        lemma_pow2_pos(self.bits as nat);
        lemma_small_mod(0, pow2(self.bits as nat));
    }
//@ end

//@ fn impl Constant :: fn shr
//@ spec
    requires self.wf(), rhs.wf(),
    ensures
        /*@sort*/ self.bits != rhs.bits ==> is_sort_err(r),
        /*@value*/ self.bits == rhs.bits ==> is_const(r, self.bits as nat, bv_shr(self.bits as nat, self.value@, rhs.value@)),
//@ enter
    proof { reveal(bv_shr); }
//@ closure 0 |bits: usize| -> (r0: BigUint)
    ensures r0@ == self.value@ / pow2(bits as nat),
//@ closure 1 || -> (r1: BigUint)
    ensures r1@ == 0,
//@ before 0 `Ok(Constant::new_big(r, self.bits))`
    proof {
        lemma_shr_facts(self.bits as nat, self.value@, rhs.value@);
        lemma_pow2_pos(self.bits as nat);
        lemma_small_mod(0, pow2(self.bits as nat));
    }
//@ end

//@ fn impl Constant :: fn ashr
//@ spec
    requires self.wf(), rhs.wf(),
    ensures
        /*@sort*/ self.bits != rhs.bits ==> is_sort_err(r),
        /*@value*/ self.bits == rhs.bits ==> is_const(r, self.bits as nat, bv_ashr(self.bits as nat, self.value@, rhs.value@)),
//@ enter
    proof { reveal(bv_ashr); }
//@ before 0 `let value = self.value.clone() >> bits`
    proof {
        lemma_ashr_facts(self.bits as nat, self.value@, rhs.value@, bits as nat);
        lemma_pow2_pos(self.bits as nat);
    }
//@ before 0 `fill | value`
    proof {
        lemma_mask(self.bits as nat);
        lemma_or_disjoint((pow2(self.bits as nat) - 1) as nat, (self.bits - bits) as nat, value@);
    }
//@ end

//@ fn impl Constant :: fn sext
//@ spec
    requires self.wf(), bits as nat <= MAX_BITS(),
    ensures
        /*@sort*/ bits <= self.bits ==> is_sort_err(r),
        /*@value*/ self.bits < bits ==> is_const(r, bits as nat, bv_sext(self.bits as nat, bits as nat, self.value@)),
//@ enter
    proof { reveal(bv_sext); }
//@ before 0 `let sign_bit`
    proof {
        lemma_sext_facts(self.bits as nat, bits as nat, self.value@);
    }
//@ before 0 `let mask = mask - BigUint`
    proof { lemma_pow2_pos(bits as nat); }
//@ before 0 `self.value.clone() | mask`
    proof {
        lemma_mask(bits as nat);
        lemma_or_comm(self.value@, mask@);
        lemma_or_disjoint((pow2(bits as nat) - 1) as nat, self.bits as nat, self.value@);
    }
//@ end

//@ fn impl Constant :: fn divs
//@ spec
    requires self.wf(), rhs.wf(),
    ensures
        /*@sort*/ self.bits != rhs.bits ==> is_sort_err(r),
        /*@div0*/ self.bits == rhs.bits && rhs.value@ == 0 ==> is_div0_err(r),
        /*@value*/ self.bits == rhs.bits && rhs.value@ != 0 ==> is_const(r, self.bits as nat, bv_divs(self.bits as nat, self.value@, rhs.value@)),
//@ enter
    proof { reveal(bv_divs); }
//@ before 0 `let r = lhs / rhs`
    proof {
        lemma_sdiv_facts(self.bits as nat, self.value@, (*old_rhs).value@);
    }
//@ before 0 `let lhs = self.to_bigint()`
    let ghost old_rhs = rhs;
//@ before 0 `let mask = mask - BigInt`
    proof { lemma_pow2_pos(self.bits as nat); }
//@ end

//@ fn impl Constant :: fn mods
//@ spec
    requires self.wf(), rhs.wf(),
    ensures
        /*@sort*/ self.bits != rhs.bits ==> is_sort_err(r),
        /*@div0*/ self.bits == rhs.bits && rhs.value@ == 0 ==> is_div0_err(r),
        /*@value*/ self.bits == rhs.bits && rhs.value@ != 0 ==> is_const(r, self.bits as nat, bv_mods(self.bits as nat, self.value@, rhs.value@)),
//@ enter
    proof { reveal(bv_mods); }
//@ before 0 `let lhs = self.to_bigint()`
    let ghost old_rhs = rhs;
//@ before 0 `let r = lhs % rhs`
    proof {
        lemma_sdiv_facts(self.bits as nat, self.value@, (*old_rhs).value@);
    }
//@ before 0 `let mask = mask - BigInt`
    proof { lemma_pow2_pos(self.bits as nat); }
//@ end

} // impl Constant
