// ---- units/C05/ppc_extra.rs (hand-written clients): the PowerPC condition-register helpers keep a block well formed.
// cmpwi / cmplwi (no generated client: unit C02's /*@shape*/ clause for them names the three 1-bit destination flags and
// /*@lt*/ /*@gt*/ /*@eq*/ give the VALUES of the three sources, but `expr_wf(source)` is only stated by the helpers' own
// contract `cr_assigned`, used here).

/// the effect `cr_assigned` (three 1-bit flags := three well-formed 1-bit expressions) keeps a block well formed
pub proof fn lemma_cr_assigned_il_wf(b0: Block, b1: Block, cr: Seq<char>)
    requires b0.block_il_wf(), cr_assigned(b0, b1, cr),
    ensures b1.block_il_wf(),
{
    let n = b0.instructions@.len() as int;
    assert forall|i: int| 0 <= i < b1.instructions@.len() implies op_wf((#[trigger] b1.instructions@[i]).operation) by {
        if i < n {
            assert(b1.instructions@.subrange(0, n)[i] == b1.instructions@[i]);
        } else {
            assert(expr_wf(assign_src(b1.instructions@[i].operation)));
            assert(assign_dst(b1.instructions@[i].operation).bits == 1);
        }
    }
}

pub fn c05_client_set_condition_register_signed(block: &mut Block, condition_register: Scalar, lhs: Expression, rhs: Expression) -> (r: Result<(), Error>)
    requires expr_wf(lhs), expr_wf(rhs), old(block).block_wf(), old(block).block_il_wf(), old(block).next_instruction_index < usize::MAX - 3,
    ensures final(block).block_il_wf(), final(block).block_wf(),
{
    let ghost b0 = *block;
    let ghost name = condition_register.name@;
    let r = set_condition_register_signed(block, condition_register, lhs, rhs);
    proof { if r is Ok { lemma_cr_assigned_il_wf(b0, *block, name); } }
    r
}

pub fn c05_client_set_condition_register_unsigned(block: &mut Block, condition_register: Scalar, lhs: Expression, rhs: Expression) -> (r: Result<(), Error>)
    requires expr_wf(lhs), expr_wf(rhs), old(block).block_wf(), old(block).block_il_wf(), old(block).next_instruction_index < usize::MAX - 3,
    ensures final(block).block_il_wf(), final(block).block_wf(),
{
    let ghost b0 = *block;
    let ghost name = condition_register.name@;
    let r = set_condition_register_unsigned(block, condition_register, lhs, rhs);
    proof { if r is Ok { lemma_cr_assigned_il_wf(b0, *block, name); } }
    r
}
