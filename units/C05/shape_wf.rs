// ======================================================================================
// units/C05/shape_wf.rs - unit C02's SHAPE predicates (units/C02/il_shape.rs: one_block, lifted_assign, k_blocks, blk_len,
// edges_are, entry_exit, edge_cond) imply the property's well-formedness predicate.  Included inside `pub mod il`.
// Generic lemmas over the shape vocabulary; the per-builder clients are in builders_mips.rs / builders_ppc.rs.
// ======================================================================================

/// one new block (entry = exit) whose instructions are all well formed, on top of well-formed contents
pub proof fn lemma_one_block_il_wf(o: ControlFlowGraph, n: ControlFlowGraph, cnt: int)
    requires one_block(o, n, cnt), o.contents_il_wf(), forall|i: int| 0 <= i < cnt ==> op_wf(#[trigger] new_op(o, n, i)),
    ensures n.graph_il_wf(),
{
    let b = o.next_index;
    assert(n.graph.vertices@[b].block_il_wf()) by {
        assert forall|i: int| 0 <= i < n.graph.vertices@[b].instructions@.len() implies op_wf((#[trigger] n.graph.vertices@[b].instructions@[i]).operation) by {
            assert(n.graph.vertices@[b].instructions@[i].operation == new_op(o, n, i));
        }
    }
    assert forall|k: usize| #![trigger n.graph.vertices@[k]] n.has_block(k) implies (o.has_block(k) && n.graph.vertices@[k] == o.graph.vertices@[k]) || n.graph.vertices@[k].block_il_wf() by {
        assert(o.graph.vertices@.insert(b, n.graph.vertices@[b]).contains_key(k));
    }
    lemma_contents_il_wf_ext(o, n);
    lemma_reaches_self(n, b);
}

/// the whole effect of a one-instruction register write
pub proof fn lemma_lifted_assign_il_wf(o: ControlFlowGraph, n: ControlFlowGraph, dst: Scalar)
    requires lifted_assign(o, n, dst), o.contents_il_wf(),
    ensures n.graph_il_wf(),
{
    assert forall|i: int| 0 <= i < 1 implies op_wf(#[trigger] new_op(o, n, i)) by {}
    lemma_one_block_il_wf(o, n, 1);
}

/// new block `i` (counted from the first new block)
pub open spec fn new_blk(o: ControlFlowGraph, n: ControlFlowGraph, i: int) -> Block { n.graph.vertices@[(o.next_index + i) as usize] }
/// every pair names two of the k new blocks
pub open spec fn pairs_in(pairs: Seq<(int, int)>, k: int) -> bool { forall|p: int| 0 <= p < pairs.len() ==> 0 <= (#[trigger] pairs[p]).0 < k && 0 <= pairs[p].1 < k }
/// the guard of the new edge pairs[p]
pub open spec fn pair_cond(o: ControlFlowGraph, n: ControlFlowGraph, pairs: Seq<(int, int)>, p: int) -> Option<Expression> { edge_cond(o, n, pairs[p].0, pairs[p].1) }

/// k new blocks, the listed new edges: contents well formed if the new blocks and the new edges' guards are
pub proof fn lemma_k_blocks_contents(o: ControlFlowGraph, n: ControlFlowGraph, k: int, pairs: Seq<(int, int)>)
    requires
        k_blocks(o, n, k), edges_are(o, n, pairs), pairs_in(pairs, k), o.contents_il_wf(), o.next_index + k <= usize::MAX,
        forall|i: int| 0 <= i < k ==> (#[trigger] new_blk(o, n, i)).block_il_wf(),
        forall|p: int| 0 <= p < pairs.len() ==> (#[trigger] pair_cond(o, n, pairs, p) matches Some(c) ==> expr_wf(c) && expr_bits(c) == 1),
    ensures n.contents_il_wf(),
{
    let b = o.next_index as int;
    assert forall|j: usize| #![trigger n.graph.vertices@[j]] n.has_block(j) implies (o.has_block(j) && n.graph.vertices@[j] == o.graph.vertices@[j]) || n.graph.vertices@[j].block_il_wf() by {
        if !o.has_block(j) {
            assert(b <= j < b + k);
            assert(new_blk(o, n, j - b).block_il_wf());
        }
    }
    assert forall|e: (usize, usize)| #![trigger n.graph.edges@[e]] n.graph.edges@.contains_key(e) implies (o.graph.edges@.contains_key(e) && n.graph.edges@[e] == o.graph.edges@[e]) || edge_wf(n.graph.edges@[e]) by {
        if !o.graph.edges@.contains_key(e) {
            let p = choose|p: int| 0 <= p < pairs.len() && e.0 == b + (#[trigger] pairs[p]).0 && e.1 == b + pairs[p].1;
            assert(pair_cond(o, n, pairs, p) == n.graph.edges@[e].condition);
        }
    }
    lemma_contents_il_wf_ext(o, n);
}

/// an old edge never starts at a new block (edges of a cfg_wf graph join existing blocks), so the out-edges of a new
/// block are among the listed pairs
pub proof fn lemma_new_block_out_edges(o: ControlFlowGraph, n: ControlFlowGraph, k: int, pairs: Seq<(int, int)>, h: int, t: usize)
    requires k_blocks(o, n, k), edges_are(o, n, pairs), o.cfg_wf(), 0 <= h < k, n.has_edge((o.next_index + h) as usize, t), o.next_index + k <= usize::MAX,
    ensures exists|p: int| 0 <= p < pairs.len() && (#[trigger] pairs[p]).0 == h && t == o.next_index + pairs[p].1,
{
    let b = o.next_index as int;
    let e = ((b + h) as usize, t);
    assert(n.graph.edges@.contains_key(e));
    if o.graph.edges@.contains_key(e) {
        assert(o.graph.successors@.contains_key(e.0));
        assert(o.graph.vertices@.dom().contains(e.0));
        assert(o.has_block((b + h) as usize));
        assert(n.has_block((b + h) as usize));
        assert(false);
    }
    let p = choose|p: int| 0 <= p < pairs.len() && e.0 == b + (#[trigger] pairs[p]).0 && e.1 == b + pairs[p].1;
    assert(pairs[p].0 == h);
}

/// a new block with exactly two out-edges whose guards are, in every environment of the class, one true and one false
pub proof fn lemma_two_way_partition(o: ControlFlowGraph, n: ControlFlowGraph, k: int, pairs: Seq<(int, int)>, h: int, t1: int, t2: int, envs: spec_fn(Env) -> bool)
    requires
        k_blocks(o, n, k), edges_are(o, n, pairs), o.cfg_wf(), o.next_index + k <= usize::MAX, 0 <= h < k, 0 <= t1 < k, 0 <= t2 < k, t1 != t2,
        forall|p: int| 0 <= p < pairs.len() && (#[trigger] pairs[p]).0 == h ==> pairs[p].1 == t1 || pairs[p].1 == t2,
        has_new_edge(o, n, h, t1), has_new_edge(o, n, h, t2),
        edge_cond(o, n, h, t1) is Some, edge_cond(o, n, h, t2) is Some,
        forall|env: Env| envs(env) && eval_spec(edge_cond(o, n, h, t1)->Some_0, env) is Val && eval_spec(edge_cond(o, n, h, t2)->Some_0, env) is Val
            ==> #[trigger] two_way_values(edge_cond(o, n, h, t1)->Some_0, edge_cond(o, n, h, t2)->Some_0, env),
    ensures guards_partition_on(n, (o.next_index + h) as usize, envs),
{
    let b = o.next_index as int;
    let hh = (b + h) as usize;
    assert forall|env: Env| #![trigger guards_evaluate(n, hh, env)] envs(env) && guards_evaluate(n, hh, env) implies exactly_one_enabled(n, hh, env) by {
        let c1 = edge_cond(o, n, h, t1)->Some_0;
        let c2 = edge_cond(o, n, h, t2)->Some_0;
        assert(n.has_edge(hh, (b + t1) as usize) && n.has_edge(hh, (b + t2) as usize));
        assert(guard_evaluates(n.graph.edges@[(hh, (b + t1) as usize)].condition, env));
        assert(guard_evaluates(n.graph.edges@[(hh, (b + t2) as usize)].condition, env));
        assert(two_way_values(c1, c2, env));
        let first = eval_spec(c1, env) == EvalR::Val(1, 1);
        let t = if first { (b + t1) as usize } else { (b + t2) as usize };
        assert(edge_enabled(n, hh, t, env));
        assert forall|x: usize| #[trigger] edge_enabled(n, hh, x, env) implies x == t by {
            lemma_new_block_out_edges(o, n, k, pairs, h, x);
        }
    }
}

/// ... and then every guard of that block evaluates to a 1-bit value in every environment of the class in which both evaluate
pub proof fn lemma_two_way_value_1bit(o: ControlFlowGraph, n: ControlFlowGraph, k: int, pairs: Seq<(int, int)>, h: int, t1: int, t2: int, envs: spec_fn(Env) -> bool)
    requires
        k_blocks(o, n, k), edges_are(o, n, pairs), o.cfg_wf(), o.next_index + k <= usize::MAX, 0 <= h < k, 0 <= t1 < k, 0 <= t2 < k, t1 != t2,
        forall|p: int| 0 <= p < pairs.len() && (#[trigger] pairs[p]).0 == h ==> pairs[p].1 == t1 || pairs[p].1 == t2,
        edge_cond(o, n, h, t1) is Some, edge_cond(o, n, h, t2) is Some,
        forall|env: Env| envs(env) ==> #[trigger] two_way_values(edge_cond(o, n, h, t1)->Some_0, edge_cond(o, n, h, t2)->Some_0, env),
    ensures guards_value_1bit(n, (o.next_index + h) as usize, envs),
{
    let b = o.next_index as int;
    let hh = (b + h) as usize;
    assert forall|env: Env, t: usize| #![trigger envs(env), n.has_edge(hh, t)] envs(env) && n.has_edge(hh, t) implies
        (n.graph.edges@[(hh, t)].condition matches Some(c) ==> (eval_spec(c, env) == EvalR::Val(1, 0) || eval_spec(c, env) == EvalR::Val(1, 1))) by {
        lemma_new_block_out_edges(o, n, k, pairs, h, t);
        assert(two_way_values(edge_cond(o, n, h, t1)->Some_0, edge_cond(o, n, h, t2)->Some_0, env));
    }
}

/// k new well-formed blocks: everything of graph_il_wf_modulo_guards but entry / exit / reachability
pub proof fn lemma_k_blocks_modulo_guards(o: ControlFlowGraph, n: ControlFlowGraph, k: int, pairs: Seq<(int, int)>)
    requires
        k_blocks(o, n, k), o.contents_il_wf(), o.next_index + k <= usize::MAX,
        forall|i: int| 0 <= i < k ==> (#[trigger] new_blk(o, n, i)).block_il_wf(),
    ensures forall|j: usize| #![trigger n.graph.vertices@[j]] n.has_block(j) ==> n.graph.vertices@[j].block_il_wf(),
{
    let b = o.next_index as int;
    assert forall|j: usize| #![trigger n.graph.vertices@[j]] n.has_block(j) implies n.graph.vertices@[j].block_il_wf() by {
        if !o.has_block(j) {
            assert(b <= j < b + k);
            assert(new_blk(o, n, j - b).block_il_wf());
        } else {
            assert(n.graph.vertices@[j] == o.graph.vertices@[j]);
        }
    }
}

/// a new block with exactly one out-edge, which is unguarded
pub proof fn lemma_one_way_partition(o: ControlFlowGraph, n: ControlFlowGraph, k: int, pairs: Seq<(int, int)>, h: int, t1: int, envs: spec_fn(Env) -> bool)
    requires
        k_blocks(o, n, k), edges_are(o, n, pairs), o.cfg_wf(), o.next_index + k <= usize::MAX, 0 <= h < k, 0 <= t1 < k,
        forall|p: int| 0 <= p < pairs.len() && (#[trigger] pairs[p]).0 == h ==> pairs[p].1 == t1,
        has_new_edge(o, n, h, t1), edge_cond(o, n, h, t1) is None,
    ensures guards_partition_on(n, (o.next_index + h) as usize, envs),
{
    let b = o.next_index as int;
    let hh = (b + h) as usize;
    assert forall|env: Env| #![trigger guards_evaluate(n, hh, env)] envs(env) && guards_evaluate(n, hh, env) implies exactly_one_enabled(n, hh, env) by {
        let t = (b + t1) as usize;
        assert(edge_enabled(n, hh, t, env));
        assert forall|x: usize| #[trigger] edge_enabled(n, hh, x, env) implies x == t by {
            lemma_new_block_out_edges(o, n, k, pairs, h, x);
        }
    }
}

/// the empty graph: ControlFlowGraph::new() (what every translate_block hands to a builder)
pub open spec fn fresh(g: ControlFlowGraph) -> bool {
    g.cfg_wf() && g.graph.vertices@ == Map::<usize, Block>::empty() && g.graph.edges@ == Map::<(usize, usize), Edge>::empty() && g.next_index == 0
}
pub proof fn lemma_fresh_contents(g: ControlFlowGraph)
    requires fresh(g),
    ensures g.contents_il_wf(),
{}
