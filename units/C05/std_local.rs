// ======================================================================================
// units/C05/std_local.rs - std operations used by lib/translator/mod.rs :: unhandled_intrinsic that vstd (0.2026.09.13)
// has no specification for.  Every item is an ASSUMED contract (listed in the evidence) and is the documented behaviour
// of the Rust standard library.
// ======================================================================================
pub mod c05_std {
    use vstd::prelude::*;

    // `<[T]>::get(a..b)` (SliceIndex<[T]> for Range<usize>): "Returns a reference to a subslice depending on the type of
    // index ... None if out of bounds": Some(elements a..b) iff a <= b <= len.  Used through ONE logged rewrite
    // `X.get(0..4)` => `slice_get_range(&X, 0, 4)` (the body calls the real function).
    #[verifier::external_body]
    pub fn slice_get_range<T>(v: &Vec<T>, a: usize, b: usize) -> (r: Option<&[T]>)
        ensures
            (a <= b && b <= v@.len()) ==> (r matches Some(s) && s@ == v@.subrange(a as int, b as int)),
            !(a <= b && b <= v@.len()) ==> r is None,
    {
        v.get(a..b)
    }

    // `<[T]>::to_vec`: "Copies self into a new Vec" - element i is `self[i].clone()`; stated for element types whose
    // clone is a copy (true of u8).  Same text as units/C19/std_local.rs.
    pub assume_specification<T: Clone> [ <[T]>::to_vec ] (s: &[T]) -> (r: Vec<T>)
        ensures (forall|a: T, b: T| #[trigger] cloned(a, b) ==> a == b) ==> r@ == s@;

    // `x.to_le_bytes().to_vec()` for x: u32.  std: "Return the memory representation of this integer as a byte array in
    // little-endian byte order" (four bytes), copied into a Vec.  Only the LENGTH is stated (the bytes end up in an
    // Intrinsic's byte field, which no verified code inspects).  Used through ONE logged rewrite
    // `bytes.to_le_bytes().to_vec()` => `u32_le_vec(bytes)` (the body calls the real functions; Verus cannot name the
    // array type `[u8; size_of::<u32>()]` of to_le_bytes in an assume_specification).
    #[verifier::external_body]
    pub fn u32_le_vec(x: u32) -> (r: Vec<u8>)
        ensures r@.len() == 4,
    {
        x.to_le_bytes().to_vec()
    }
}
