// ======================================================================================
// units/C05/il_api.rs - the IL construction API the lifters use PRESERVES the property's well-formedness predicate.
// Included inside `pub mod il` after il_wf.rs.
//
// The functions are unit C15's subjects (exact effect contracts, imported above).  Here their REAL text is extracted a
// second time, under a second name (`name=<fn>_il`, the technique unit C02 uses for Scalar::new), and verified against
// the C05 contract: "given a well-formed block / graph and an operand of the width the operation requires, the result
// is well formed".  The C15 contract is restated (the same clauses) so that a client sees both.
//
// WHAT THE CODE DOES NOT ENFORCE (relevant to the property, stated as lemmas below): none of Block::assign / load /
// store / branch checks a width and ControlFlowGraph::conditional_edge accepts a guard of ANY width - the width rules
// are preconditions on the CALLER (the lifters); a caller that violates them gets an ill-formed block / graph back
// together with `Ok` (lemma_pushed_op_not_wf, lemma_edge_added_not_wf).
// ======================================================================================

// ---- Intrinsic::new (not among unit C15's functions) ------------------------------------------------------------------------
impl Intrinsic {
//@ source lib/il/intrinsic.rs
//@ fn impl Intrinsic :: fn new
//@ rewrite 1 `mnemonic.into()` => `into_string(mnemonic)` ## R-into: the same conversion through the stand-in of prelude/strmap.rs carrying the assumed contract of Into<String> (keeps the characters)
//@ rewrite 1 `instruction_str.into()` => `into_string(instruction_str)` ## R-into: as above
//@ spec
    ensures
        /*@fields*/ r.arguments == arguments && r.written_expressions == written_expressions && r.read_expressions == read_expressions && r.bytes == bytes,
        /*@names*/ r.mnemonic@ == into_string_chars(mnemonic) && r.instruction_str@ == into_string_chars(instruction_str),
//@ end
}

// ---- Block ---------------------------------------------------------------------------------------------------------------
impl Block {
//@ source lib/il/block.rs
//@ fn impl Block :: fn assign name=assign_il
//@ spec
    requires old(self).block_wf(), old(self).next_instruction_index < usize::MAX, old(self).block_il_wf(),
        expr_wf(src), dst.bits as nat == expr_bits(src),
    ensures
        /*@il_wf*/ final(self).block_il_wf(),
        /*@wf*/ final(self).block_wf(),
        /*@effect*/ final(self).pushed_op(*old(self), Operation::Assign { dst, src }),
//@ before 0 `}`
    proof {
        Block::lemma_push_fresh_wf(*old(self), *self, self.instructions@.last());
        lemma_pushed_op_il_wf(*old(self), *self, Operation::Assign { dst, src });
    }
//@ end

//@ fn impl Block :: fn load name=load_il
//@ spec
    requires old(self).block_wf(), old(self).next_instruction_index < usize::MAX, old(self).block_il_wf(),
        expr_wf(address), expr_bits(address) <= 64, dst.bits > 0, dst.bits % 8 == 0, dst.bits as nat <= MAX_BITS(),
    ensures
        /*@il_wf*/ final(self).block_il_wf(),
        /*@wf*/ final(self).block_wf(),
        /*@effect*/ final(self).pushed_op(*old(self), Operation::Load { dst, index: address }),
//@ before 0 `}`
    proof {
        Block::lemma_push_fresh_wf(*old(self), *self, self.instructions@.last());
        lemma_pushed_op_il_wf(*old(self), *self, Operation::Load { dst, index: address });
    }
//@ end

//@ fn impl Block :: fn store name=store_il
//@ spec
    requires old(self).block_wf(), old(self).next_instruction_index < usize::MAX, old(self).block_il_wf(),
        expr_wf(address), expr_bits(address) <= 64, expr_wf(src), expr_bits(src) % 8 == 0,
    ensures
        /*@il_wf*/ final(self).block_il_wf(),
        /*@wf*/ final(self).block_wf(),
        /*@effect*/ final(self).pushed_op(*old(self), Operation::Store { index: address, src }),
//@ end

//@ fn impl Block :: fn branch name=branch_il
//@ spec
    requires old(self).block_wf(), old(self).next_instruction_index < usize::MAX, old(self).block_il_wf(),
        expr_wf(dst), expr_bits(dst) <= 64,
    ensures
        /*@il_wf*/ final(self).block_il_wf(),
        /*@wf*/ final(self).block_wf(),
        /*@effect*/ final(self).pushed_op(*old(self), Operation::Branch { target: dst }),
//@ before 0 `}`
    proof {
        Block::lemma_push_fresh_wf(*old(self), *self, self.instructions@.last());
        lemma_pushed_op_il_wf(*old(self), *self, Operation::Branch { target: dst });
    }
//@ end

//@ fn impl Block :: fn intrinsic name=intrinsic_il
//@ spec
    requires old(self).block_wf(), old(self).next_instruction_index < usize::MAX, old(self).block_il_wf(),
        intrinsic_wf(intrinsic),
    ensures
        /*@il_wf*/ final(self).block_il_wf(),
        /*@wf*/ final(self).block_wf(),
        /*@effect*/ final(self).pushed_op(*old(self), Operation::Intrinsic { intrinsic }),
//@ before 0 `}`
    proof {
        Block::lemma_push_fresh_wf(*old(self), *self, self.instructions@.last());
        lemma_pushed_op_il_wf(*old(self), *self, Operation::Intrinsic { intrinsic });
    }
//@ end

//@ fn impl Block :: fn nop name=nop_il
//@ spec
    requires old(self).block_wf(), old(self).next_instruction_index < usize::MAX, old(self).block_il_wf(),
    ensures
        /*@il_wf*/ final(self).block_il_wf(),
        /*@wf*/ final(self).block_wf(),
        /*@effect*/ final(self).pushed_op(*old(self), Operation::Nop { placeholder: None }),
//@ before 0 `}`
    proof {
        Block::lemma_push_fresh_wf(*old(self), *self, self.instructions@.last());
        lemma_pushed_op_il_wf(*old(self), *self, Operation::Nop { placeholder: None });
    }
//@ end
}

// ---- spec-level consequences of C15's exact effect contracts -----------------------------------------------------------------
/// a graph change that keeps every old block and edge, adds blocks that are well formed and edges that are well formed,
/// keeps the contents well formed
pub proof fn lemma_contents_il_wf_ext(o: ControlFlowGraph, n: ControlFlowGraph)
    requires
        o.contents_il_wf(), n.cfg_wf(),
        forall|k: usize| #![trigger n.graph.vertices@[k]] n.has_block(k) ==> (o.has_block(k) && n.graph.vertices@[k] == o.graph.vertices@[k]) || n.graph.vertices@[k].block_il_wf(),
        forall|e: (usize, usize)| #![trigger n.graph.edges@[e]] n.graph.edges@.contains_key(e) ==> (o.graph.edges@.contains_key(e) && n.graph.edges@[e] == o.graph.edges@[e]) || edge_wf(n.graph.edges@[e]),
    ensures n.contents_il_wf(),
{}

/// the effect `edge_added` with a well-formed edge keeps the contents well formed, and every walk
pub proof fn lemma_edge_added_il_wf(o: ControlFlowGraph, n: ControlFlowGraph, e: Edge)
    requires o.contents_il_wf(), n.cfg_wf(), n.edge_added(o, e), edge_wf(e),
    ensures
        n.contents_il_wf(),
        forall|a: usize, b: usize| reaches(o, a, b) ==> #[trigger] reaches(n, a, b),
{
    assert forall|k: (usize, usize)| #![trigger n.graph.edges@[k]] n.graph.edges@.contains_key(k) implies
        (o.graph.edges@.contains_key(k) && n.graph.edges@[k] == o.graph.edges@[k]) || edge_wf(n.graph.edges@[k]) by {
        if k != (e.head, e.tail) { assert(o.graph.edges@.dom().insert((e.head, e.tail)).contains(k)); }
    }
    lemma_contents_il_wf_ext(o, n);
    assert forall|a: usize, b: usize| reaches(o, a, b) implies #[trigger] reaches(n, a, b) by {
        assert forall|h: usize, t: usize| o.has_edge(h, t) implies #[trigger] n.has_edge(h, t) by {
            assert(o.graph.edges@.dom().insert((e.head, e.tail)).contains((h, t)));
        }
        lemma_reaches_mono(o, n, a, b);
    }
}
/// ... and with an ill-formed guard it does not: conditional_edge does not check the guard's width
pub proof fn lemma_edge_added_not_wf(o: ControlFlowGraph, n: ControlFlowGraph, e: Edge)
    requires n.edge_added(o, e), !edge_wf(e),
    ensures !n.contents_il_wf(),
{
    assert(n.graph.edges@.dom().contains((e.head, e.tail)));
    assert(n.graph.edges@[(e.head, e.tail)] == e);
}

// ---- ControlFlowGraph -----------------------------------------------------------------------------------------------------
impl ControlFlowGraph {
//@ source lib/il/control_flow_graph.rs
// new_block hands out `&mut Block` of the freshly inserted, empty block: whether the graph is well formed afterwards
// depends on what the caller stores (same shape as unit C15's /*@wf*/ clause)
//@ fn impl ControlFlowGraph :: fn new_block name=new_block_il
//@ spec
    requires old(self).contents_il_wf(), old(self).next_index < usize::MAX,
    ensures
        /*@ok*/ r is Ok,
        /*@block*/ r matches Ok(b) ==> b.index == old(self).next_index && b.next_instruction_index == 0
            && b.instructions@ == Seq::<Instruction>::empty() && b.phi_nodes@ == Seq::<PhiNode>::empty() && b.block_il_wf(),
        /*@vertices*/ r matches Ok(b) ==> !old(self).has_block(old(self).next_index)
            && final(self).graph.vertices@ == old(self).graph.vertices@.insert(old(self).next_index, *final(b)),
        /*@edges*/ final(self).graph.edges == old(self).graph.edges,
        /*@counter*/ final(self).next_index == old(self).next_index + 1,
        /*@frame*/ final(self).next_temp_index == old(self).next_temp_index && final(self).entry == old(self).entry
            && final(self).exit == old(self).exit && final(self).ssa_form == old(self).ssa_form,
        /*@il_wf*/ r matches Ok(b) ==> (final(b).index == old(self).next_index && final(b).block_wf() && final(b).block_il_wf() ==> final(self).contents_il_wf()),
        /*@graph_il_wf*/ r matches Ok(b) ==> (final(b).index == old(self).next_index && final(b).block_wf() && final(b).block_il_wf() && old(self).graph_il_wf() ==> final(self).graph_il_wf()),
//@ enter
    broadcast use lemma_reaches_in_mono;
//@ end

//@ fn impl ControlFlowGraph :: fn unconditional_edge name=unconditional_edge_il
//@ spec
    requires old(self).contents_il_wf(),
    ensures
        /*@il_wf*/ final(self).contents_il_wf(),
        /*@graph_il_wf*/ old(self).graph_il_wf() ==> final(self).graph_il_wf(),
        /*@effect*/ final(self).edge_insert_spec(*old(self), Edge { head, tail, condition: None, comment: None }, r),
//@ enter
    broadcast use lemma_reaches_in_mono;
//@ end

//@ fn impl ControlFlowGraph :: fn conditional_edge name=conditional_edge_il
//@ spec
    requires old(self).contents_il_wf(), expr_wf(condition), expr_bits(condition) == 1,
    ensures
        /*@il_wf*/ final(self).contents_il_wf(),
        /*@graph_il_wf*/ old(self).graph_il_wf() ==> final(self).graph_il_wf(),
        /*@effect*/ final(self).edge_insert_spec(*old(self), Edge { head, tail, condition: Some(condition), comment: None }, r),
//@ enter
    broadcast use lemma_reaches_in_mono;
//@ end

//@ fn impl ControlFlowGraph :: fn set_entry name=set_entry_il
//@ spec
    requires old(self).contents_il_wf(),
    ensures
        /*@il_wf*/ final(self).contents_il_wf(),
        /*@ok*/ old(self).has_block(entry) ==> r is Ok && final(self).entry == Some(entry),
        /*@missing*/ !old(self).has_block(entry) ==> (r matches Err(e) && e is Custom) && final(self).entry == old(self).entry,
        /*@frame*/ final(self).graph == old(self).graph && final(self).next_index == old(self).next_index && final(self).next_temp_index == old(self).next_temp_index
            && final(self).exit == old(self).exit && final(self).ssa_form == old(self).ssa_form,
        /*@graph_il_wf*/ r is Ok && old(self).exit is Some && reaches(*old(self), entry, old(self).exit->0) ==> final(self).graph_il_wf(),
//@ end

//@ fn impl ControlFlowGraph :: fn set_exit name=set_exit_il
//@ spec
    requires old(self).contents_il_wf(),
    ensures
        /*@il_wf*/ final(self).contents_il_wf(),
        /*@ok*/ old(self).has_block(exit) ==> r is Ok && final(self).exit == Some(exit),
        /*@missing*/ !old(self).has_block(exit) ==> (r matches Err(e) && e is Custom) && final(self).exit == old(self).exit,
        /*@frame*/ final(self).graph == old(self).graph && final(self).next_index == old(self).next_index && final(self).next_temp_index == old(self).next_temp_index
            && final(self).entry == old(self).entry && final(self).ssa_form == old(self).ssa_form,
        /*@graph_il_wf*/ r is Ok && old(self).entry is Some && reaches(*old(self), old(self).entry->0, exit) ==> final(self).graph_il_wf(),
//@ end
}

// ---- ControlFlowGraph::insert / ::append: consequences of unit C15's exact effect contracts (insert_spec / append_spec,
// proved there on the real text; the functions are imported, not re-verified) -------------------------------------------------
/// blocks and edges after importing `other` under the renaming m / minv are those of `o`, copies of those of `other`
/// (same instructions, same guards) and possibly one unguarded transition edge
pub proof fn lemma_imported_il_wf(n: ControlFlowGraph, o: ControlFlowGraph, other: ControlFlowGraph, m: Map<usize, usize>, minv: Map<usize, usize>, extra: Option<Edge>)
    requires
        n.cfg_wf(), o.contents_il_wf(), other.contents_il_wf(),
        renaming_pair(m, minv, other, o.next_index), n.blocks_imported(o, other, m), n.edges_imported(o, other, m, minv, extra),
        extra matches Some(x) ==> x.condition is None,
    ensures n.contents_il_wf(),
{
    assert forall|k: usize| #![trigger n.graph.vertices@[k]] n.has_block(k) implies n.graph.vertices@[k].block_il_wf() by {
        assert(n.graph.vertices@.contains_key(k));
        if o.graph.vertices@.contains_key(k) {
            assert(n.graph.vertices@[k] == o.graph.vertices@[k]);
            assert(o.has_block(k));
        } else {
            assert(o.next_index <= k < n.next_index);
            assert(minv.contains_key(k));
            let j = minv[k];
            assert(m.contains_key(j) && m[j] == k);
            assert(other.graph.vertices@.contains_key(j));
            assert(n.graph.vertices@[m[j]] == reindexed_block(other.graph.vertices@[j], m[j]));
            assert(other.has_block(j));
            assert(other.graph.vertices@[j].block_il_wf());
        }
    }
    assert forall|e: (usize, usize)| #![trigger n.graph.edges@[e]] n.graph.edges@.contains_key(e) implies edge_wf(n.graph.edges@[e]) by {
        if o.graph.edges@.contains_key(e) {
            assert(n.graph.edges@[e] == o.graph.edges@[e]);
        } else if minv.contains_key(e.0) && minv.contains_key(e.1) && other.graph.edges@.contains_key((minv[e.0], minv[e.1])) {
            let (h, t) = (minv[e.0], minv[e.1]);
            assert(m[h] == e.0 && m[t] == e.1);
            assert(n.graph.edges@[(m[h], m[t])] == renamed_edge(other.graph.edges@[(h, t)], m));
            assert(edge_wf(other.graph.edges@[(h, t)]));
        } else {
            assert(extra matches Some(x) && e == (x.head, x.tail));
        }
    }
}

/// a walk of `other` becomes, block by block, a walk of the graph that imported it
pub proof fn lemma_imported_reaches(n: ControlFlowGraph, o: ControlFlowGraph, other: ControlFlowGraph, m: Map<usize, usize>, minv: Map<usize, usize>, extra: Option<Edge>, a: usize, b: usize)
    requires
        other.cfg_wf(), renaming_pair(m, minv, other, o.next_index), n.blocks_imported(o, other, m), n.edges_imported(o, other, m, minv, extra),
        reaches(other, a, b),
    ensures reaches(n, m[a], m[b]),
{
    let (vs, es) = (other.graph.vertices@.dom(), other.graph.edges@.dom());
    let p = choose|p: Seq<usize>| #[trigger] path_in(vs, es, p) && p[0] == a && p.last() == b;
    let q = Seq::new(p.len(), |i: int| m[p[i]]);
    let (vs2, es2) = (n.graph.vertices@.dom(), n.graph.edges@.dom());
    assert forall|i: int| 0 <= i < q.len() implies vs2.contains(#[trigger] q[i]) by {
        assert(vs.contains(p[i]));
        assert(other.graph.vertices@.contains_key(p[i]));
    }
    assert forall|i: int| 0 <= i < q.len() - 1 implies #[trigger] step_in(es2, q, i) by {
        assert(step_in(es, p, i));
        assert(vs.contains(p[i]) && vs.contains(p[i + 1]));
        assert(other.graph.edges@.contains_key((p[i], p[i + 1])));
        assert(q[i] == m[p[i]] && q[i + 1] == m[p[i + 1]]);
    }
    assert(path_in(vs2, es2, q) && q[0] == m[a] && q.last() == m[b]);
}

/// two walks joined by an edge
pub proof fn lemma_reaches_join(g: ControlFlowGraph, a: usize, b: usize, c: usize, d: usize)
    requires reaches(g, a, b), g.has_edge(b, c), reaches(g, c, d),
    ensures reaches(g, a, d),
{
    let (vs, es) = (g.graph.vertices@.dom(), g.graph.edges@.dom());
    let p = choose|p: Seq<usize>| #[trigger] path_in(vs, es, p) && p[0] == a && p.last() == b;
    let q = choose|q: Seq<usize>| #[trigger] path_in(vs, es, q) && q[0] == c && q.last() == d;
    let w = p + q;
    assert forall|i: int| 0 <= i < w.len() implies vs.contains(#[trigger] w[i]) by {
        if i < p.len() { assert(w[i] == p[i]); } else { assert(w[i] == q[i - p.len()]); }
    }
    assert forall|i: int| 0 <= i < w.len() - 1 implies #[trigger] step_in(es, w, i) by {
        if i < p.len() - 1 { assert(step_in(es, p, i)); assert(w[i] == p[i] && w[i + 1] == p[i + 1]); }
        else if i == p.len() - 1 { assert(w[i] == p.last() && w[i + 1] == q[0]); assert(g.graph.edges@.contains_key((b, c))); }
        else { let j = i - p.len(); assert(step_in(es, q, j)); assert(w[i] == q[j] && w[i + 1] == q[j + 1]); }
    }
    assert(path_in(vs, es, w) && w[0] == a && w.last() == d);
}

/// ControlFlowGraph::insert (effect `insert_spec`): contents stay well formed; the copy of other's exit is reachable from
/// the copy of other's entry (entry / exit of the receiving graph are None by insert's contract, so graph_il_wf is for
/// the caller to re-establish with set_entry / set_exit)
pub proof fn lemma_insert_il_wf(o: ControlFlowGraph, other: ControlFlowGraph, n: ControlFlowGraph, r: Result<(usize, usize), Error>)
    requires n.insert_spec(o, other, r), n.cfg_wf(), o.contents_il_wf(), other.contents_il_wf(),
    ensures
        n.contents_il_wf(),
        r is Ok && other.graph_il_wf() ==> reaches(n, r->Ok_0.0, r->Ok_0.1),
{
    if r is Ok {
        let (m, minv) = choose|m: Map<usize, usize>, minv: Map<usize, usize>| #[trigger] n.inserted_with(o, other, m, minv) && r->Ok_0 == (m[other.entry->0], m[other.exit->0]);
        lemma_imported_il_wf(n, o, other, m, minv, None);
        if other.graph_il_wf() {
            lemma_imported_reaches(n, o, other, m, minv, None, other.entry->0, other.exit->0);
        }
    }
}

/// ControlFlowGraph::append (effect `append_spec`): appending a well-formed per-instruction graph to a well-formed (or
/// empty) graph yields a well-formed graph - what BlockTranslationResult::blockify relies on
pub proof fn lemma_append_il_wf(o: ControlFlowGraph, other: ControlFlowGraph, n: ControlFlowGraph, r: Result<(), Error>)
    requires
        n.append_spec(o, other, r), n.cfg_wf(), other.graph_il_wf(),
        o.graph_il_wf() || (o.contents_il_wf() && o.graph.vertices@.len() == 0),
    ensures
        n.contents_il_wf(),
        r is Ok ==> n.graph_il_wf(),
{
    if r is Ok {
        let o_empty = o.graph.vertices@.len() == 0;
        let (m, minv) = choose|m: Map<usize, usize>, minv: Map<usize, usize>| #[trigger] n.appended_with(o, other, m, minv);
        let extra = if o_empty { None } else { Some(Edge { head: o.exit->0, tail: m[other.entry->0], condition: None, comment: None }) };
        lemma_imported_il_wf(n, o, other, m, minv, extra);
        lemma_imported_reaches(n, o, other, m, minv, extra, other.entry->0, other.exit->0);
        if !o_empty {
            assert(o.graph_il_wf()) by {
                if !o.graph_il_wf() { assert(o.graph.vertices@.len() == 0); }
            }
            assert forall|k: usize| o.has_block(k) implies #[trigger] n.has_block(k) by { assert(o.graph.vertices@.contains_key(k)); assert(n.graph.vertices@.contains_key(k)); }
            assert forall|h: usize, t: usize| o.has_edge(h, t) implies #[trigger] n.has_edge(h, t) by { assert(o.graph.edges@.contains_key((h, t))); }
            lemma_reaches_mono(o, n, o.entry->0, o.exit->0);
            assert(n.has_edge(o.exit->0, m[other.entry->0]));
            lemma_reaches_join(n, o.entry->0, o.exit->0, m[other.entry->0], m[other.exit->0]);
        }
    } else {
        assert(n == o);
    }
}

// ---- clients of the imported contracts of insert / append (template code): the lemmas above applied to the real calls ----------
impl ControlFlowGraph {
    /// appending a well-formed per-instruction graph to a well-formed (or still empty) graph keeps it well formed
    pub fn c05_client_append(&mut self, other: &ControlFlowGraph) -> (r: Result<(), Error>)
        requires
            old(self).graph_il_wf() || (old(self).contents_il_wf() && old(self).graph.vertices@.len() == 0),
            other.graph_il_wf(), old(self).next_index + other.graph.vertices@.len() <= usize::MAX,
        ensures
            final(self).contents_il_wf(),
            r is Ok ==> final(self).graph_il_wf(),
    {
        let ghost o = *self;
        let r = self.append(other);
        proof { lemma_append_il_wf(o, *other, *self, r); }
        r
    }

    /// inserting a well-formed graph keeps the contents well formed; the copy of its exit is reachable from the copy of its entry
    pub fn c05_client_insert(&mut self, other: &ControlFlowGraph) -> (r: Result<(usize, usize), Error>)
        requires old(self).contents_il_wf(), other.graph_il_wf(), old(self).next_index + other.graph.vertices@.len() <= usize::MAX,
        ensures
            final(self).contents_il_wf(),
            r matches Ok(p) ==> reaches(*final(self), p.0, p.1),
    {
        let ghost o = *self;
        let r = self.insert(other);
        proof { lemma_insert_il_wf(o, *other, *self, r); }
        r
    }
}
