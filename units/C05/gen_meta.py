#!/usr/bin/env python3
"""Writes units/C05/meta.json (texts + the mechanically enumerated list `bounded.functions`).  Run: python3 units/C05/gen_meta.py (cwd = /verif).
The check reads meta.json, never this script."""
import json, os, sys
HERE = os.path.dirname(os.path.abspath(__file__))
sys.path.insert(0, os.path.join(HERE, "..", "..", "tools"))
import rsx
REPO = os.environ.get("VERIF_REPO", "/repo")

def top_fns(f):
    src = open(os.path.join(REPO, f)).read()
    return [it.name for it in rsx.find_items(src) if it.kw == "fn"]

functions = [
    "lib/translator/x86/translator.rs :: fn translate_block",
    "lib/translator/x86/translator.rs :: fn ensure_block_instruction",
    "lib/translator/x86/mod.rs :: impl Translator for X86 :: fn translate_block",
    "lib/translator/x86/mod.rs :: impl Translator for Amd64 :: fn translate_block",
    "lib/translator/mips/mod.rs :: fn translate_block",
    "lib/translator/mips/mod.rs :: impl Translator for Mips :: fn translate_block",
    "lib/translator/mips/mod.rs :: impl Translator for Mipsel :: fn translate_block",
    "lib/translator/mips/mod.rs :: fn nop_graph",
    "lib/translator/mips/mod.rs :: fn prologue_graph",
    "lib/translator/mips/mod.rs :: fn conditional_graph",
    "lib/translator/ppc/mod.rs :: fn translate_block",
    "lib/translator/ppc/mod.rs :: impl Translator for Ppc :: fn translate_block",
    "lib/translator/ppc/mod.rs :: fn nop",
    "lib/translator/aarch64/mod.rs :: fn translate_block",
    "lib/translator/aarch64/mod.rs :: impl Translator for AArch64 :: fn translate_block",
    "lib/translator/aarch64/mod.rs :: impl Translator for AArch64Eb :: fn translate_block",
    "lib/translator/mod.rs :: fn unhandled_intrinsic",
    "lib/il/control_flow_graph.rs :: impl ControlFlowGraph :: fn set_address",
    # the x86 semantic functions, operand access and register access: whole impl blocks
    "lib/translator/x86/semantics.rs :: impl<'s> Semantics<'s>",
    "lib/translator/x86/mode.rs :: impl Mode",
    "lib/translator/x86/x86register.rs :: impl X86Register",
    "lib/translator/x86/x86register.rs :: fn get_register",
    "lib/translator/aarch64/register.rs :: impl AArch64Register",
    "lib/translator/aarch64/register.rs :: fn get_register",
    "lib/translator/mips/semantics.rs :: impl MipsRegister",
    "lib/translator/ppc/semantics.rs :: impl PpcRegister",
]
for f in ["lib/translator/aarch64/semantics.rs", "lib/translator/mips/semantics.rs", "lib/translator/ppc/semantics.rs"]:
    for n in top_fns(f):
        functions.append("%s :: fn %s" % (f, n))

T = json.load(open(os.path.join(HERE, "meta_texts.json")))
meta = {
    "property": "C05",
    "claimed": True,
    "ready": False,
    "rlimit_quick": 30,
    "rlimit_thorough": 120,
    "witness": "c05_witness",
    "design_ref": "DESIGN.md §5 C05 (partial unit)",
    "watch_files": ["lib/translator/mips/semantics.rs", "lib/translator/ppc/semantics.rs", "lib/il/block.rs", "lib/il/control_flow_graph.rs", "lib/il/intrinsic.rs",
                    "lib/translator/block_translation_result.rs", "lib/translator/options.rs"],
    "witness_bound": T["witness_bound"],
    "assumptions": T["assumptions"],
    "trusted_notes": T["trusted_notes"],
    "undecided_subclaims": T["undecided_subclaims"],
    "level_text": T["level_text"],
    "level_note": T["level_note"],
    "bounded": {"statement": T["bounded_statement"], "bound": T["witness_bound"], "functions": functions},
}
assert meta["level_text"].startswith("PARTIAL.")
json.dump(meta, open(os.path.join(HERE, "meta.json"), "w"), indent=1, ensure_ascii=False)
print("meta.json written:", len(functions), "bounded functions")
