// ======================================================================================
// units/C05/generic.rs - the decoder-free translator-side functions.  Included inside `pub mod translator`.
//   lib/translator/mod.rs            :: fn unhandled_intrinsic      (what every capstone lifter emits for an unsupported
//                                                                     instruction under the policy unsupported_are_intrinsics)
//   lib/translator/ppc/mod.rs        :: fn nop                       (PPC b / bc: a one-nop graph)
//   lib/translator/x86/translator.rs :: fn ensure_block_instruction  (block-terminating x86 instructions get >= 1 instruction)
//   BlockTranslationResult / Options accessors: units/C06/btr.rs, units/C06/options.rs (re-verified here, same contracts)
// NOT here (reason in meta.json): lib/translator/mips/mod.rs :: nop_graph / conditional_graph / prologue_graph and the
// nested conditional_direct_branch - all four go through ControlFlowGraph::set_address, which iterates `Vec<&mut Block>`
// (outside the verifiable dialect; unit C15 lists it as not under contract).
//
// HOW THE POLICY IS CONSULTED (read off the five call sites; the call sites themselves sit in translate_block next to the
// decoder calls and are bounded-checked only):
//   x86 / amd64, mips / mipsel: `_ => if options.unsupported_are_intrinsics() { unhandled_intrinsic(&mut g, &instruction) } else { return Err(..) }`
//   ppc:     `if options.unsupported_are_intrinsics() { unhandled_intrinsic(..)?; }` and then `return Err(..)` in BOTH cases
//            (the policy has no effect on the result: every unsupported PPC instruction is an error);
//   aarch64: its own semantics::unhandled_intrinsic (bad64 instruction; same shape) for unsupported instructions, and
//            semantics::undefined_intrinsic for undecodable words - but the decoder error is returned right after (`result?`),
//            so an undecodable word is an error under both policies.
// unhandled_intrinsic itself never looks at the options: whatever the policy, IF it is called it leaves a one-block graph
// with entry = exit holding one intrinsic without expressions (well formed).
// ======================================================================================
use crate::c05_std::*;

/// ASSUMED decoder contract for unhandled_intrinsic: falcon_capstone's `Instr::new` copies the WHOLE fixed-size array
/// `cs_insn.bytes: [u8; 16]` into `Instr.bytes` (falcon_capstone-0.5.3/src/capstone.rs: `for i in 0..instr.bytes.len()`),
/// so at least 4 bytes are present whatever the instruction's size.  Checked only by the bounded witness (1-byte x86
/// instructions under the intrinsics policy).
pub open spec fn instr_has_bytes(i: capstone::Instr) -> bool { i.bytes@.len() >= 4 }

/// `n` is `o` plus ONE new block (index o.next_index) that is entry and exit and holds exactly one Intrinsic
/// instruction without argument / read / written expressions; no edge added, every old block untouched
pub open spec fn one_intrinsic_block(o: ControlFlowGraph, n: ControlFlowGraph) -> bool {
    let b = o.next_index;
    &&& n.next_index == b + 1 && n.next_temp_index == o.next_temp_index && n.ssa_form == o.ssa_form
    &&& n.entry == Some(b) && n.exit == Some(b)
    &&& n.graph.edges == o.graph.edges
    &&& !o.has_block(b) && n.has_block(b)
    &&& n.graph.vertices@ == o.graph.vertices@.insert(b, n.graph.vertices@[b])
    &&& n.graph.vertices@[b].index == b && n.graph.vertices@[b].phi_nodes@.len() == 0
    &&& n.graph.vertices@[b].instructions@.len() == 1
    &&& n.graph.vertices@[b].instructions@[0].operation matches Operation::Intrinsic { intrinsic } && intrinsic.arguments@.len() == 0
        && intrinsic.written_expressions is None && intrinsic.read_expressions is None
}

//@ source lib/translator/mod.rs
//@ fn fn unhandled_intrinsic
//@ rewrite 1 `instruction.bytes.get(0..4)` => `slice_get_range(&instruction.bytes, 0, 4)` ## R-slice-get: the same call through the stand-in of units/C05/std_local.rs carrying the assumed contract of `<[T]>::get(Range)` (Some(subslice) iff in bounds)
//@ spec
    requires old(control_flow_graph).contents_il_wf(), old(control_flow_graph).next_index < usize::MAX, instr_has_bytes(*instruction),
    ensures
        /*@ok*/ r is Ok,
        /*@shape*/ one_intrinsic_block(*old(control_flow_graph), *final(control_flow_graph)),
        /*@il_wf*/ final(control_flow_graph).graph_il_wf(),
//@ before 0 `control_flow_graph.set_entry(`
    proof {
        let b = old(control_flow_graph).next_index;
        assert(control_flow_graph.graph.vertices@[b].block_il_wf());
        lemma_contents_il_wf_ext(*old(control_flow_graph), *control_flow_graph);
        lemma_reaches_self(*control_flow_graph, b);
    }
//@ end

//@ source lib/translator/ppc/mod.rs
//@ fn fn nop name=ppc_nop
//@ spec
    requires old(control_flow_graph).contents_il_wf(), old(control_flow_graph).next_index < usize::MAX,
    ensures
        /*@ok*/ r is Ok,
        /*@shape*/ one_block(*old(control_flow_graph), *final(control_flow_graph), 1) && new_op(*old(control_flow_graph), *final(control_flow_graph), 0) == (Operation::Nop { placeholder: None }),
        /*@il_wf*/ final(control_flow_graph).graph_il_wf(),
//@ before 0 `control_flow_graph.set_entry(`
    proof {
        let b = old(control_flow_graph).next_index;
        assert(control_flow_graph.graph.vertices@[b].block_il_wf());
        lemma_contents_il_wf_ext(*old(control_flow_graph), *control_flow_graph);
        lemma_reaches_self(*control_flow_graph, b);
    }
//@ end

//@ source lib/translator/x86/translator.rs
//@ fn fn ensure_block_instruction
//@ spec
    requires
        old(control_flow_graph).graph_il_wf(),
        old(control_flow_graph).graph.vertices@[old(control_flow_graph).entry->0].next_instruction_index < usize::MAX,
    ensures
        /*@ok*/ r is Ok,
        /*@il_wf*/ final(control_flow_graph).graph_il_wf(),
        /*@nonempty*/ final(control_flow_graph).graph.vertices@[final(control_flow_graph).entry->0].instructions@.len() >= 1,
        /*@frame*/ final(control_flow_graph).entry == old(control_flow_graph).entry && final(control_flow_graph).exit == old(control_flow_graph).exit
            && final(control_flow_graph).graph.edges == old(control_flow_graph).graph.edges
            && final(control_flow_graph).graph.vertices@.dom() == old(control_flow_graph).graph.vertices@.dom()
            && (forall|k: usize| k != old(control_flow_graph).entry->0 && old(control_flow_graph).has_block(k) ==> #[trigger] final(control_flow_graph).graph.vertices@[k] == old(control_flow_graph).graph.vertices@[k]),
        /*@unchanged*/ old(control_flow_graph).graph.vertices@[old(control_flow_graph).entry->0].instructions@.len() > 0 ==> *final(control_flow_graph) == *old(control_flow_graph),
//@ before 0 `Ok(())`
    proof {
        let e = old(control_flow_graph).entry->0;
        if old(control_flow_graph).graph.vertices@[e].instructions@.len() == 0 {
            assert(control_flow_graph.graph.vertices@[e].block_il_wf()) by {
                lemma_pushed_op_il_wf(old(control_flow_graph).graph.vertices@[e], control_flow_graph.graph.vertices@[e], Operation::Nop { placeholder: None });
            }
            lemma_contents_il_wf_ext(*old(control_flow_graph), *control_flow_graph);
            assert(control_flow_graph.graph.vertices@.dom() =~= old(control_flow_graph).graph.vertices@.dom());
        }
    }
//@ end

//@ source lib/translator/aarch64/semantics.rs
//@ fn fn undefined_intrinsic
//@ rewrite 1 `bytes.to_le_bytes().to_vec()` => `u32_le_vec(bytes)` ## R-le-bytes: the same two std calls through the stand-in of units/C05/std_local.rs (assumed: four bytes)
//@ spec
    requires old(control_flow_graph).contents_il_wf(), old(control_flow_graph).next_index < usize::MAX,
    ensures
        /*@shape*/ one_intrinsic_block(*old(control_flow_graph), *final(control_flow_graph)),
        /*@il_wf*/ final(control_flow_graph).graph_il_wf(),
//@ before 0 `control_flow_graph.set_entry(`
    proof {
        let b = old(control_flow_graph).next_index;
        assert(control_flow_graph.graph.vertices@[b].block_il_wf());
        lemma_contents_il_wf_ext(*old(control_flow_graph), *control_flow_graph);
        lemma_reaches_self(*control_flow_graph, b);
    }
//@ end
