// Unit C05 (PARTIAL) - "lifting any bytes is total and yields well-formed, deterministic IL".
// Decoding is capstone / bad64 C code behind FFI, so totality over all byte strings cannot be a contract on
// translate_block.  What IS under contract here (real text, extracted on every run):
//   * the well-formedness predicate of the property (il_wf.rs) over the real il types;
//   * the IL construction API the lifters use preserves it (il_api.rs: Block::{assign, load, store, branch, intrinsic,
//     nop}, ControlFlowGraph::{new_block, unconditional_edge, conditional_edge, set_entry, set_exit, insert, append});
//   * the decoder-free translator-side helpers (generic.rs);
//   * for the 74 MIPS / PPC builders unit C02 proves exact graph shapes for: the graph each leaves on a fresh per-instruction
//     graph is graph_il_wf and its conditional blocks partition (builders_wf.rs; C02's contracts imported, bodies not re-verified).
// Everything else (the seven translate_block functions, x86 / aarch64 semantics) is bounded-checked only
// (witness/src/bin/c05_witness.rs).  See meta.json.
#![feature(allocator_api)]
#![allow(unused_imports, unused_variables, dead_code, unused_mut, non_snake_case, non_camel_case_types, unused_parens, unused_braces, deprecated)]
use vstd::prelude::*;
use vstd::arithmetic::power2::*;
use vstd::arithmetic::div_mod::*;
use vstd::arithmetic::mul::*;
use std::ops::*;
use std::cmp;
use std::cmp::Ordering;
use std::collections::{BTreeMap, BTreeSet, VecDeque};
use std::fmt;
use std::rc::Rc;

verus! {

//@ include spec/bv.rs
//@ include prelude/bigint.rs
//@ include prelude/error.rs
//@ include prelude/fxhash.rs
//@ include prelude/stdcoll.rs
//@ include prelude/rc_asref.rs
//@ include prelude/strmap.rs
//@ include prelude/capstone_mips_ppc.rs
//@ include units/C05/std_local.rs
//@ mode contracts-only C02
//@ include units/C02/arith.rs
//@ mode contracts-only C11
//@ include units/C11/error_from.rs
//@ mode contracts-only C15
//@ include units/C15/error_from_string.rs
//@ mode full

// falcon::RC (default build, feature "thread_safe" off): the real alias, extracted
//@ item lib/lib.rs :: type RC#0

pub mod graph {
use super::*;
use vstd::std_specs::iter::IteratorSpec;
use rustc_hash::{FxHashMap, FxHashSet};
broadcast use {rustc_hash::axiom_fx_builds_valid_hashers, stdcoll::axiom_btreemap_index_req, stdcoll::axiom_hashmap_index_req, stdcoll::axiom_usize_pair_obeys_key_model};
//@ mode contracts-only C11
//@ include units/C11/graph_core.rs
//@ mode full
proof fn vf_canary_graph() ensures false { /* padding: tools/verdict.py compares rustc byte offsets with Python character offsets; non-ASCII characters in shared files shift spans by a few bytes, this keeps the shifted span inside the canary ........................................................................ */ }
} // mod graph

pub mod il {
use super::*;
use super::strmap::*;
use vstd::std_specs::iter::IteratorSpec;
// il::ProgramLocation (lib/il/location.rs) is only a payload of falcon::Error here: opaque stand-in
#[verifier::external_body] pub struct ProgramLocation { _p: () }
//@ mode contracts-only C15
//@ include units/C15/il_core.rs
use super::graph::{Vertex as GraphVertexTrait, Edge as GraphEdgeTrait};
//@ include units/C15/block_edit.rs
//@ include units/C15/cfg_import.rs
//@ include units/C15/cfg_edit.rs
//@ include units/C15/cfg_merge.rs
//@ include units/C15/cfg_budget.rs
//@ mode contracts-only C04
//@ include units/C04/builders.rs
//@ mode contracts-only C02
//@ include units/C02/il_glue.rs
//@ include units/C02/il_shape.rs
//@ mode full
//@ include units/C05/il_wf.rs
//@ include units/C05/il_api.rs
//@ include units/C05/shape_wf.rs
proof fn vf_canary_il() ensures false { /* padding: tools/verdict.py compares rustc byte offsets with Python character offsets; non-ASCII characters in shared files shift spans by a few bytes, this keeps the shifted span inside the canary ........................................................................ */ }
} // mod il

pub mod translator {
use crate::*;
use crate::il;
use crate::il::*;
use crate::strmap::*;
use crate::capstone_mp::capstone;
use vstd::std_specs::iter::IteratorSpec;
//@ mode contracts-only C15
//@ include units/C15/blockify.rs
//@ mode full
//@ include units/C06/options.rs
//@ include units/C06/btr.rs
//@ include units/C05/generic.rs
proof fn vf_canary_translator() ensures false { /* padding: see vf_canary_root ................................................................................................................................................................................................ */ }

pub mod mips {
pub mod semantics {
use crate::*;
use crate::il::*;
use crate::il::Expression as Expr;
use crate::strmap::*;
use crate::capstone_mp::capstone;
use crate::capstone_mp::capstone_sys::mips_reg;
use crate::capstone_mp::capstone_sys::{cs_mips, cs_mips_op, mips_op_mem, mips_op_type};
use vstd::std_specs::iter::IteratorSpec;
use crate::c02_arith::*;
//@ mode contracts-only C02
//@ include units/C02/mips_regs.rs
//@ include units/C02/mips_spec.rs
//@ include units/C02/mips_sem.rs
//@ mode full
//@ include units/C05/builders_mips.rs
proof fn vf_canary_mips() ensures false { /* padding: tools/verdict.py compares rustc byte offsets with Python character offsets; non-ASCII characters in shared files shift spans by a few bytes, this keeps the shifted span inside the canary ........................................................................ */ }
} // mod semantics
} // mod mips
pub mod ppc {
pub mod semantics {
use crate::*;
use crate::il::*;
use crate::il::Expression as Expr;
use crate::strmap::*;
use crate::capstone_mp::capstone;
use crate::capstone_mp::capstone_sys::ppc_reg;
use crate::capstone_mp::capstone_sys::{cs_ppc, cs_ppc_op, ppc_op_mem, ppc_op_type};
use vstd::std_specs::iter::IteratorSpec;
use crate::c02_arith::*;
//@ mode contracts-only C02
//@ include units/C02/ppc_regs.rs
//@ include units/C02/ppc_spec.rs
//@ include units/C02/ppc_sem.rs
//@ mode full
//@ include units/C05/builders_ppc.rs
//@ include units/C05/ppc_extra.rs
proof fn vf_canary_ppc() ensures false { /* padding: tools/verdict.py compares rustc byte offsets with Python character offsets; non-ASCII characters in shared files shift spans by a few bytes, this keeps the shifted span inside the canary ........................................................................ */ }
} // mod semantics
} // mod ppc
} // mod translator

proof fn vf_canary_root() ensures false { /* padding: tools/verdict.py compares rustc byte offsets with Python character offsets; non-ASCII characters in shared files shift spans by a few bytes, this keeps the shifted span inside the canary ........................................................................ */ }

} // verus!

fn main() {}
