// ======================================================================================
// units/C05/il_wf.rs - the well-formedness predicate property C05 states, over the REAL il types (extracted by unit
// C15) and unit C04's expression vocabulary (expr_wf = "every expression obeys the width rules", eval_spec).
// Included inside `pub mod il`.  Only spec functions and lemmas; the extracted functions are in il_api.rs.
//
//   op_wf(op)          every assignment, load, store, branch target has the width its operation requires
//   block_il_wf(b)     every instruction of the block is op_wf
//   edge_wf(e)         guard absent or a well-formed 1-bit expression
//   contents_il_wf(g)  C15's cfg_wf + every block / edge wf
//   graph_il_wf(g)     contents_il_wf + entry and exit set + exit reachable from entry through existing blocks
//   guards_partition   in every environment in which the guards of a block evaluate exactly one out-edge is enabled
//
// Width rules of the operations are those the IL's consumer documents (lib/executor/state.rs :: execute,
// lib/memory/paged.rs :: load / store): an Assign stores a value of the destination's width; the address of a Load /
// Store and a Branch target must fit 64 bits (`value_u64`, otherwise Error::TooManyAddressBits); memory transfers are
// whole bytes (`bits % 8 == 0`, `bits > 0`).
// ======================================================================================

// ---- operations ---------------------------------------------------------------------------------------------------------
pub open spec fn exprs_wf(s: Seq<Expression>) -> bool { forall|i: int| 0 <= i < s.len() ==> expr_wf(#[trigger] s[i]) }

pub open spec fn intrinsic_wf(i: Intrinsic) -> bool {
    &&& exprs_wf(i.arguments@)
    &&& (i.written_expressions matches Some(w) ==> exprs_wf(w@))
    &&& (i.read_expressions matches Some(r) ==> exprs_wf(r@))
}

pub open spec fn op_wf(op: Operation) -> bool {
    match op {
        Operation::Assign { dst, src } => expr_wf(src) && dst.bits as nat == expr_bits(src),
        Operation::Load { dst, index } => expr_wf(index) && expr_bits(index) <= 64 && dst.bits > 0 && dst.bits % 8 == 0 && dst.bits as nat <= MAX_BITS(),
        Operation::Store { index, src } => expr_wf(index) && expr_bits(index) <= 64 && expr_wf(src) && expr_bits(src) % 8 == 0,
        Operation::Branch { target } => expr_wf(target) && expr_bits(target) <= 64,
        Operation::Intrinsic { intrinsic } => intrinsic_wf(intrinsic),
        // a Nop does nothing whatever operation it keeps as a placeholder (lib/executor/state.rs: `Nop { .. } => fall through`);
        // the lifters only build `Nop { placeholder: None }`
        Operation::Nop { placeholder } => true,
    }
}

impl Block {
    pub open spec fn block_il_wf(&self) -> bool {
        forall|i: int| 0 <= i < self.instructions@.len() ==> op_wf((#[trigger] self.instructions@[i]).operation)
    }
}

pub open spec fn edge_wf(e: Edge) -> bool {
    e.condition matches Some(c) ==> expr_wf(c) && expr_bits(c) == 1
}

// ---- graphs -------------------------------------------------------------------------------------------------------------
/// `p` is a walk over the vertex set `vs` and the edge set `es`: every vertex exists, consecutive vertices are joined
pub open spec fn path_in(vs: Set<usize>, es: Set<(usize, usize)>, p: Seq<usize>) -> bool {
    &&& p.len() >= 1
    &&& forall|i: int| 0 <= i < p.len() ==> vs.contains(#[trigger] p[i])
    &&& forall|i: int| 0 <= i < p.len() - 1 ==> #[trigger] step_in(es, p, i)
}
/// positions i, i + 1 of the walk are joined by an edge (named so that the quantifier above has a trigger that does not
/// produce new instances of itself)
pub open spec fn step_in(es: Set<(usize, usize)>, p: Seq<usize>, i: int) -> bool { es.contains((p[i], p[i + 1])) }
pub open spec fn reaches_in(vs: Set<usize>, es: Set<(usize, usize)>, a: usize, b: usize) -> bool {
    exists|p: Seq<usize>| #[trigger] path_in(vs, es, p) && p[0] == a && p.last() == b
}
/// `b` is reachable from `a` through existing blocks (depends on WHICH blocks and edges exist only)
pub open spec fn reaches(g: ControlFlowGraph, a: usize, b: usize) -> bool {
    reaches_in(g.graph.vertices@.dom(), g.graph.edges@.dom(), a, b)
}

impl ControlFlowGraph {
    /// C15's data invariant + every block and every edge well formed
    pub open spec fn contents_il_wf(&self) -> bool {
        &&& self.cfg_wf()
        &&& forall|k: usize| #![trigger self.graph.vertices@[k]] self.has_block(k) ==> self.graph.vertices@[k].block_il_wf()
        &&& forall|e: (usize, usize)| #![trigger self.graph.edges@[e]] self.graph.edges@.contains_key(e) ==> edge_wf(self.graph.edges@[e])
    }
    /// the property's "well-formed per-instruction graph"
    pub open spec fn graph_il_wf(&self) -> bool {
        &&& self.contents_il_wf()
        &&& self.entry is Some && self.exit is Some
        &&& reaches(*self, self.entry->0, self.exit->0)
    }
}
pub open spec fn graph_il_wf(g: ControlFlowGraph) -> bool { g.graph_il_wf() }

impl ControlFlowGraph {
    /// graph_il_wf WITHOUT the syntactic clause on edge guards.  Used ONLY for the six MIPS builders (slt, slti, sltu,
    /// sltiu, movn, movz) whose imported contract (unit C02) states the VALUE of each guard in every register-file state
    /// but not `expr_wf(guard)`; there the guards are covered by `guards_value_1bit` instead (see meta.json: this is a
    /// stated gap of the imported postconditions, not a weakening of the property's predicate, which stays graph_il_wf).
    pub open spec fn graph_il_wf_modulo_guards(&self) -> bool {
        &&& self.cfg_wf()
        &&& forall|k: usize| #![trigger self.graph.vertices@[k]] self.has_block(k) ==> self.graph.vertices@[k].block_il_wf()
        &&& self.entry is Some && self.exit is Some
        &&& reaches(*self, self.entry->0, self.exit->0)
    }
}

// ---- guards -------------------------------------------------------------------------------------------------------------
pub open spec fn guard_enabled(c: Option<Expression>, env: Env) -> bool {
    match c { None => true, Some(c) => eval_spec(c, env) == EvalR::Val(1, 1) }
}
pub open spec fn guard_evaluates(c: Option<Expression>, env: Env) -> bool {
    match c { None => true, Some(c) => eval_spec(c, env) is Val }
}
/// the out-edge h -> t exists and its guard holds in `env`
pub open spec fn edge_enabled(g: ControlFlowGraph, h: usize, t: usize, env: Env) -> bool {
    g.has_edge(h, t) && guard_enabled(g.graph.edges@[(h, t)].condition, env)
}
/// every guard on an out-edge of h evaluates (no undefined scalar, no division by zero)
pub open spec fn guards_evaluate(g: ControlFlowGraph, h: usize, env: Env) -> bool {
    forall|t: usize| #![trigger g.has_edge(h, t)] g.has_edge(h, t) ==> guard_evaluates(g.graph.edges@[(h, t)].condition, env)
}
pub open spec fn exactly_one_enabled(g: ControlFlowGraph, h: usize, env: Env) -> bool {
    exists|t: usize| #[trigger] edge_enabled(g, h, t, env) && forall|t2: usize| #[trigger] edge_enabled(g, h, t2, env) ==> t2 == t
}
/// for every environment of the class `envs` in which the guards of block h evaluate, exactly one out-edge is enabled
pub open spec fn guards_partition_on(g: ControlFlowGraph, h: usize, envs: spec_fn(Env) -> bool) -> bool {
    forall|env: Env| #![trigger guards_evaluate(g, h, env)] envs(env) && guards_evaluate(g, h, env) ==> exactly_one_enabled(g, h, env)
}
/// the property's clause: every environment that gives each scalar a value of its own width
pub open spec fn guards_partition(g: ControlFlowGraph, h: usize) -> bool { guards_partition_on(g, h, |env: Env| env_sorted(env)) }

/// semantic counterpart of edge_wf for a class of environments: every guard on an out-edge of h evaluates to a 1-bit value
pub open spec fn guards_value_1bit(g: ControlFlowGraph, h: usize, envs: spec_fn(Env) -> bool) -> bool {
    forall|env: Env, t: usize| #![trigger envs(env), g.has_edge(h, t)] envs(env) && g.has_edge(h, t) ==>
        (g.graph.edges@[(h, t)].condition matches Some(c) ==> (eval_spec(c, env) == EvalR::Val(1, 0) || eval_spec(c, env) == EvalR::Val(1, 1)))
}
/// one of the two guards is 1, the other 0
pub open spec fn two_way_values(c1: Expression, c2: Expression, env: Env) -> bool {
    (eval_spec(c1, env) == EvalR::Val(1, 1) && eval_spec(c2, env) == EvalR::Val(1, 0)) || (eval_spec(c1, env) == EvalR::Val(1, 0) && eval_spec(c2, env) == EvalR::Val(1, 1))
}

/// the same for the successor list of a lifted block: exactly one entry is enabled
pub open spec fn succ_enabled(s: Seq<(u64, Option<Expression>)>, i: int, env: Env) -> bool { 0 <= i < s.len() && guard_enabled(s[i].1, env) }
pub open spec fn succ_evaluate(s: Seq<(u64, Option<Expression>)>, env: Env) -> bool { forall|i: int| 0 <= i < s.len() ==> guard_evaluates((#[trigger] s[i]).1, env) }
pub open spec fn succ_exactly_one(s: Seq<(u64, Option<Expression>)>, env: Env) -> bool {
    exists|i: int| #[trigger] succ_enabled(s, i, env) && forall|j: int| #[trigger] succ_enabled(s, j, env) ==> j == i
}
pub open spec fn succ_wf(s: Seq<(u64, Option<Expression>)>) -> bool {
    forall|i: int| 0 <= i < s.len() ==> ((#[trigger] s[i]).1 matches Some(c) ==> expr_wf(c) && expr_bits(c) == 1)
}
pub open spec fn succ_partition(s: Seq<(u64, Option<Expression>)>) -> bool {
    forall|env: Env| #![trigger succ_evaluate(s, env)] env_sorted(env) && succ_evaluate(s, env) ==> succ_exactly_one(s, env)
}

// ---- lemmas: operations and blocks ----------------------------------------------------------------------------------------
/// appending a well-formed operation keeps the block well formed (Block::{assign, load, store, branch, intrinsic, nop}
/// all have the exact effect `pushed_op`, proved on their real text by unit C15)
pub proof fn lemma_pushed_op_il_wf(old: Block, new: Block, op: Operation)
    requires old.block_il_wf(), new.pushed_op(old, op), op_wf(op),
    ensures new.block_il_wf(),
{
    assert forall|i: int| 0 <= i < new.instructions@.len() implies op_wf((#[trigger] new.instructions@[i]).operation) by {
        if i < old.instructions@.len() { assert(new.instructions@[i] == old.instructions@[i]); }
    }
}
/// ... and an ill-formed one breaks it (the predicate is not vacuous)
pub proof fn lemma_pushed_op_not_wf(old: Block, new: Block, op: Operation)
    requires new.pushed_op(old, op), !op_wf(op),
    ensures !new.block_il_wf(),
{
    let i = old.instructions@.len() as int;
    assert(new.instructions@[i] == mk_instruction(old.next_instruction_index, op));
}

/// the empty block is well formed
pub proof fn lemma_empty_block_il_wf(b: Block)
    requires b.instructions@.len() == 0,
    ensures b.block_il_wf(),
{}

// ---- lemmas: negated guards ------------------------------------------------------------------------------------------------
/// a well-formed 1-bit expression evaluates to 0 or 1 (or not at all) and `c == 0:1` to the opposite
pub proof fn lemma_negated_guard(c: Expression, c2: Expression, env: Env)
    requires expr_wf(c), expr_bits(c) == 1, is_negation(c2, c), env_sorted(env),
    ensures
        expr_wf(c2), expr_bits(c2) == 1,
        (eval_spec(c, env) is Val) == (eval_spec(c2, env) is Val),
        eval_spec(c, env) is Val ==> (eval_spec(c, env) == EvalR::Val(1, 1)) != (eval_spec(c2, env) == EvalR::Val(1, 1)),
        eval_spec(c, env) is Val ==> (eval_spec(c, env) == EvalR::Val(1, 1) || eval_spec(c, env) == EvalR::Val(1, 0)),
        eval_spec(c, env) is Val ==> two_way_values(c, c2, env),
{
    lemma_eval_wf_val(c, env);
    lemma2_to64();
    let z = rhs_of(c2);
    lemma_const1(z, 0, env);
    assert(eval_spec(c2, env) == bin_spec(BinOp::Cmpeq, eval_spec(c, env), eval_spec(z, env)));
    match eval_spec(c, env) {
        EvalR::Val(w, v) => {
            assert(w == 1 && v < 2) by { assert(pow2(1) == 2); }
            reveal(bv_cmpeq);
        }
        _ => {}
    }
}

/// successor lists of the shape [(a, c), (b, !c)] and [(a, !c), (b, c)] (x86 Jcc / loop, MIPS conditional branches) are
/// exclusive and exhaustive
pub proof fn lemma_succ_pair_partition(s: Seq<(u64, Option<Expression>)>, c: Expression, c2: Expression)
    requires
        s.len() == 2, expr_wf(c), expr_bits(c) == 1, is_negation(c2, c),
        (s[0].1 == Some(c) && s[1].1 == Some(c2)) || (s[0].1 == Some(c2) && s[1].1 == Some(c)),
    ensures succ_wf(s), succ_partition(s),
{
    assert forall|env: Env| env_sorted(env) && #[trigger] succ_evaluate(s, env) implies succ_exactly_one(s, env) by {
        lemma_negated_guard(c, c2, env);
        assert(guard_evaluates(s[0].1, env));
        let first = guard_enabled(s[0].1, env);
        let i = if first { 0int } else { 1int };
        assert(succ_enabled(s, i, env));
        assert forall|j: int| #[trigger] succ_enabled(s, j, env) implies j == i by {}
    }
    assert forall|i: int| 0 <= i < s.len() implies ((#[trigger] s[i]).1 matches Some(x) ==> expr_wf(x) && expr_bits(x) == 1) by {
        lemma_negated_guard(c, c2, |q: Scalar| None::<(nat, nat)>);
    }
}
/// a single unguarded successor is trivially exclusive and exhaustive; two unguarded ones are not
pub proof fn lemma_succ_single(s: Seq<(u64, Option<Expression>)>)
    requires s.len() == 1, s[0].1 is None,
    ensures succ_wf(s), succ_partition(s),
{
    assert forall|env: Env| env_sorted(env) && #[trigger] succ_evaluate(s, env) implies succ_exactly_one(s, env) by {
        assert(succ_enabled(s, 0, env));
    }
}
pub proof fn lemma_succ_two_unguarded_not_partition(s: Seq<(u64, Option<Expression>)>)
    requires s.len() >= 2, s[0].1 is None, s[1].1 is None,
    ensures !succ_partition(s) || exists|env: Env| env_sorted(env) && !#[trigger] succ_evaluate(s, env),
{
    let env = |q: Scalar| None::<(nat, nat)>;
    if succ_evaluate(s, env) {
        assert(env_sorted(env));
        if succ_partition(s) {
            assert(succ_exactly_one(s, env));
            assert(succ_enabled(s, 0, env) && succ_enabled(s, 1, env));
            assert(false);
        }
    }
}

// ---- lemmas: reachability ------------------------------------------------------------------------------------------------------
pub proof fn lemma_reaches_self(g: ControlFlowGraph, a: usize)
    requires g.has_block(a),
    ensures reaches(g, a, a),
{
    let p = seq![a];
    assert(path_in(g.graph.vertices@.dom(), g.graph.edges@.dom(), p));
}
pub proof fn lemma_reaches_step(g: ControlFlowGraph, a: usize, b: usize, c: usize)
    requires reaches(g, a, b), g.has_edge(b, c), g.has_block(c),
    ensures reaches(g, a, c),
{
    let (vs, es) = (g.graph.vertices@.dom(), g.graph.edges@.dom());
    let p = choose|p: Seq<usize>| #[trigger] path_in(vs, es, p) && p[0] == a && p.last() == b;
    let q = p.push(c);
    assert forall|i: int| 0 <= i < q.len() implies vs.contains(#[trigger] q[i]) by { if i < p.len() { assert(q[i] == p[i]); } }
    assert forall|i: int| 0 <= i < q.len() - 1 implies #[trigger] step_in(es, q, i) by {
        if i < p.len() - 1 { assert(step_in(es, p, i)); assert(q[i] == p[i] && q[i + 1] == p[i + 1]); } else { assert(q[i] == p.last() && q[i + 1] == c); assert(g.graph.edges@.contains_key((b, c))); }
    }
    assert(path_in(vs, es, q) && q[0] == a && q.last() == c);
}
/// reachability survives every change that keeps all blocks and all edges (new_block, *_edge; set_entry / set_exit do
/// not touch the graph at all)
pub broadcast proof fn lemma_reaches_in_mono(vs: Set<usize>, es: Set<(usize, usize)>, vs2: Set<usize>, es2: Set<(usize, usize)>, a: usize, b: usize)
    requires vs.subset_of(vs2), es.subset_of(es2), #[trigger] reaches_in(vs, es, a, b),
    ensures #[trigger] reaches_in(vs2, es2, a, b),
{
    let p = choose|p: Seq<usize>| #[trigger] path_in(vs, es, p) && p[0] == a && p.last() == b;
    assert forall|i: int| 0 <= i < p.len() - 1 implies #[trigger] step_in(es2, p, i) by { assert(step_in(es, p, i)); }
    assert(path_in(vs2, es2, p));
}
pub proof fn lemma_reaches_mono(g: ControlFlowGraph, n: ControlFlowGraph, a: usize, b: usize)
    requires
        reaches(g, a, b),
        forall|k: usize| g.has_block(k) ==> #[trigger] n.has_block(k),
        forall|h: usize, t: usize| g.has_edge(h, t) ==> #[trigger] n.has_edge(h, t),
    ensures reaches(n, a, b),
{
    assert forall|e: (usize, usize)| g.graph.edges@.dom().contains(e) implies n.graph.edges@.dom().contains(e) by { assert(g.has_edge(e.0, e.1)); assert(n.has_edge(e.0, e.1)); }
    assert forall|k: usize| g.graph.vertices@.dom().contains(k) implies n.graph.vertices@.dom().contains(k) by { assert(g.has_block(k)); assert(n.has_block(k)); }
    lemma_reaches_in_mono(g.graph.vertices@.dom(), g.graph.edges@.dom(), n.graph.vertices@.dom(), n.graph.edges@.dom(), a, b);
}
