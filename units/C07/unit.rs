// Unit C07 — the concrete executor implements the IL operational semantics exactly.
// Generated file = this template + the real text of the functions named in the `//@` holes.
//
// Layout: the IL (il::*), the program locations and the paged memory are IMPORTED under contract
// (`//@ mode contracts-only <unit>`: C04 expressions / eval, C11 graph, C15 il core, C18 locations,
// C16 backing memory, C08 paged memory); what is PROVED here is lib/executor/{state,successor,driver,mod}.rs
// (+ il::Program::add_function / il::Function::set_index, which the driver's lifting arm calls).
#![feature(allocator_api)]
#![allow(unused_imports, unused_variables, dead_code, unused_mut, non_snake_case, unused_parens, unused_braces, deprecated)]
use vstd::prelude::*;
use vstd::arithmetic::power2::*;
use vstd::arithmetic::div_mod::*;
use vstd::arithmetic::mul::*;
use std::ops::*;
use std::cmp;
use std::cmp::Ordering;
use std::collections::{BTreeMap, BTreeSet, VecDeque};
use std::fmt;
use std::rc::Rc;

verus! {

//@ include spec/bv.rs
//@ include prelude/bigint.rs
//@ include prelude/error.rs
//@ include prelude/fxhash.rs
//@ include prelude/stdcoll.rs
//@ include prelude/rc_asref.rs
//@ include prelude/location_hash.rs
//@ include prelude/fmt_option.rs
//@ include prelude/btree_range.rs
//@ include prelude/rc_cow.rs
//@ include prelude/strmap.rs

// falcon::RC (default build, feature "thread_safe" off): the real alias, extracted
//@ item lib/lib.rs :: type RC#0

// falcon::Error conversions (`"..".into()`, `format!(..).into()`, `chain`), Debug for Error: imported from C08
//@ mode contracts-only C08
//@ include units/C08/error_glue.rs
//@ mode full

pub mod graph {
use super::*;
use vstd::std_specs::iter::IteratorSpec;
use rustc_hash::{FxHashMap, FxHashSet};
broadcast use {rustc_hash::axiom_fx_builds_valid_hashers, stdcoll::axiom_btreemap_index_req, stdcoll::axiom_hashmap_index_req, stdcoll::axiom_usize_pair_obeys_key_model};
//@ mode contracts-only C11
//@ include units/C11/graph_core.rs
//@ mode full
proof fn vf_canary_graph() ensures false {}
} // mod graph

pub mod il {
use super::*;
use vstd::std_specs::iter::IteratorSpec;
//@ mode contracts-only C15
//@ include units/C15/il_core.rs
//@ mode contracts-only C18
//@ include units/C18/loc_core.rs
//@ mode contracts-only C08
//@ include units/C08/il_glue.rs
//@ mode full
// C04's substitution vocabulary (map_spec, ...) lives in a sub-module: units/C04/subst.rs hoists the crate's nested
// `struct Map<F>` to module level, which would shadow vstd's `Map` used by the C15 / C18 specifications.
pub mod subst {
use super::*;
//@ mode contracts-only C04
//@ include units/C04/subst.rs
//@ mode full
}
pub use self::subst::{ExprMap, map_spec, map_result, closure_is, lift_bin, lift_zext, lift_sext, lift_trun, lift_ite, mk_bin, repl_g, replace_spec, env_upd, lemma_subst_eval};
//@ include units/C07/il_extra.rs
proof fn vf_canary_il() ensures false {}
} // mod il

pub mod architecture {
use super::*;
//@ item lib/architecture.rs :: enum Endian

// derive(Clone), derive(PartialEq) of Endian (a field-less enum): structural copy / equality
impl Clone for Endian {
    #[verifier::external_body]
    fn clone(&self) -> (r: Endian) ensures r == *self { unimplemented!() }
}
impl vstd::std_specs::cmp::PartialEqSpecImpl for Endian {
    open spec fn obeys_eq_spec() -> bool { true }
    open spec fn eq_spec(&self, other: &Endian) -> bool { *self == *other }
}
impl PartialEq for Endian {
    #[verifier::external_body]
    fn eq(&self, other: &Endian) -> (r: bool) ensures r == (*self == *other) { unimplemented!() }
}

//@ include units/C07/architecture.rs
} // mod architecture

pub mod translator {
use super::*;
use crate::memory::MemoryPermissions;
//@ include units/C07/translation_memory.rs
} // mod translator

pub mod memory {
use super::*;

// Stand-in for the type the `bitflags!` macro (bitflags 1.x, third party) generates in
// lib/memory/mod.rs:   `pub struct MemoryPermissions { bits: u32 }`  deriving Copy, Clone, PartialEq, Eq, ...
// (same stand-in as units C16 / C08; the executor only copies values of this type)
#[derive(Clone, Copy)]
pub struct MemoryPermissions { pub bits: u32 }

// ---- memory::backing::Memory: contracts imported from unit C16 ----------------------------------
pub mod backing {
use vstd::prelude::*;
use vstd::arithmetic::power2::*;
use vstd::arithmetic::div_mod::*;
use vstd::arithmetic::mul::*;
use crate::*;
use crate::il::{MAX_BITS, EvalR, Env, BinOp, eval_spec, empty_env, expr_bits, expr_sane, eval_agrees, is_const, is_sort_err, is_div0_err, ctor2, bin_spec, bin_val};
use crate::architecture::Endian;
use crate::executor;
use crate::il;
use crate::memory::MemoryPermissions;
use crate::translator::TranslationMemory;
use crate::Error;
use std::collections::BTreeMap;
use std::ops::Bound::Included;
#[allow(unused_imports)]
use std::ops::Bound::{Excluded, Unbounded};

//@ mode contracts-only C16
//@ include units/C16/bytes_spec.rs
//@ include units/C16/backing.rs
//@ mode contracts-only C08
//@ include units/C08/backing_glue.rs
//@ mode full

proof fn vf_canary_backing() ensures false {}
} // mod backing

pub mod value {
use vstd::prelude::*;
use vstd::arithmetic::power2::*;
use vstd::arithmetic::div_mod::*;
use vstd::arithmetic::mul::*;
use crate::*;
use crate::il::{MAX_BITS, EvalR, Env, BinOp, eval_spec, empty_env, expr_bits, expr_sane, eval_agrees, is_const, is_sort_err, is_div0_err, ctor2, bin_spec, bin_val};
use vstd::std_specs::cmp::PartialEqSpec;
use vstd::std_specs::fmt::DebugSpec;
use crate::executor::eval;
use crate::il;
use crate::Error;
use std::fmt::Debug;

//@ mode contracts-only C08
//@ include units/C08/bytes.rs
//@ include units/C08/value.rs
//@ mode full

proof fn vf_canary_value() ensures false {}
} // mod value

pub use self::value::Value;

pub mod paged {
use vstd::prelude::*;
use crate::*;
use crate::il::{MAX_BITS, is_sort_err};
use crate::memory::value::*;
use crate::memory::backing::{vw, SecMap};
use vstd::std_specs::cmp::PartialEqSpec;
use vstd::std_specs::fmt::DebugSpec;
use crate::architecture::Endian;
use crate::il;
use crate::Error;
use crate::RC;
use std::collections::HashMap;

use crate::memory::backing;
use crate::memory::value::Value;
use crate::memory::MemoryPermissions;

//@ mode contracts-only C08
//@ include units/C08/paged_spec.rs
//@ include units/C08/paged.rs
//@ include units/C08/paged_load.rs
//@ include units/C08/paged_store.rs
//@ mode full

proof fn vf_canary_paged() ensures false {}
} // mod paged
} // mod memory

pub mod executor {
use super::*;
use super::il::*;
use super::strmap::*;
use vstd::map::Map;
use crate::il;
use crate::memory;
use crate::memory::value::*;
use crate::memory::paged::*;
use crate::memory::backing::{vw, SecMap, le_value};
use crate::memory::MemoryPermissions;
use crate::architecture::{Endian, Architecture};
use crate::translator;
use crate::RC;
broadcast use strmap::axiom_string_key_obeys_cmp_spec;
//@ mode contracts-only C04
//@ include units/C04/eval.rs
//@ mode full

// executor::Memory: the real alias (lib/executor/mod.rs), extracted
//@ item lib/executor/mod.rs :: type Memory

//@ include units/C07/state_expr.rs
//@ include units/C07/exec_memory.rs
//@ include units/C07/state_exec.rs
//@ include units/C07/driver.rs

proof fn vf_canary_executor() ensures false {}
} // mod executor

proof fn vf_canary_root() ensures false {}

} // verus!

fn main() {}
