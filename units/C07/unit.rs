// Unit C07 — the concrete executor implements the IL operational semantics exactly.
#![feature(allocator_api)]
#![allow(unused_imports, unused_variables, dead_code, unused_mut, non_snake_case, unused_parens, unused_braces, deprecated)]
use vstd::prelude::*;
use vstd::arithmetic::power2::*;
use vstd::arithmetic::div_mod::*;
use vstd::arithmetic::mul::*;
use std::ops::*;
use std::cmp::Ordering;
use std::collections::BTreeMap;

verus! {

//@ include spec/bv.rs
//@ include prelude/bigint.rs
//@ include prelude/error.rs
//@ include prelude/strmap.rs

pub mod il {
use super::*;
#[verifier::external_body] pub struct ProgramLocation { _p: () }
//@ mode contracts-only C04
//@ include units/C04/constant.rs
//@ include units/C04/expression.rs
//@ include units/C04/builders.rs
//@ include units/C04/subst.rs
//@ mode full
proof fn vf_canary_il() ensures false {}
} // mod il

pub mod executor {
use super::*;
use super::il::*;
use super::strmap::*;
use vstd::map::Map;
broadcast use strmap::axiom_string_key_obeys_cmp_spec;
//@ mode contracts-only C04
//@ include units/C04/eval.rs
//@ mode full

//@ include units/C07/state_expr.rs

proof fn vf_canary_executor() ensures false {}
} // mod executor

} // verus!

fn main() {}
