// ======================================================================================
// units/C07/state_exec.rs — the small-step meaning of an IL operation (`op_spec`, written from the
// property text) and lib/executor/{successor.rs, state.rs: new / memory / memory_mut / execute,
// impl From<Successor> for State} under contract.
// ======================================================================================

// ---- the abstract machine state ----------------------------------------------------------------------

/// the scalar store as a mathematical object: name -> (width, value)
pub type AStore = IMap<Seq<char>, (nat, nat)>;

pub open spec fn astore(st: IMap<Seq<char>, Constant>) -> AStore {
    IMap::new(|n: Seq<char>| st.contains_key(n), |n: Seq<char>| (st[n].bits as nat, st[n].value@))
}

/// the environment an abstract store gives to expressions: scalars are looked up BY NAME ONLY
pub open spec fn aenv(a: AStore) -> Env {
    |x: Scalar| if a.contains_key(x.name@) { Some(a[x.name@]) } else { None::<(nat, nat)> }
}

/// sigma: all scalars and all of memory (unit C08's views)
pub struct Sigma {
    pub scalars: AStore,
    pub mem: MemView,
}

pub open spec fn sigma_of(s: State) -> Sigma {
    Sigma { scalars: astore(store_of(s)), mem: mem_view(s.memory) }
}

pub proof fn lemma_env(st: IMap<Seq<char>, Constant>)
    ensures store_env(st) == aenv(astore(st)),
{
    assert(store_env(st) =~= aenv(astore(st)));
}

pub proof fn lemma_astore_insert(st: IMap<Seq<char>, Constant>, k: Seq<char>, c: Constant)
    ensures astore(st.insert(k, c)) == astore(st).insert(k, (c.bits as nat, c.value@)),
{
    assert(astore(st.insert(k, c)) =~= astore(st).insert(k, (c.bits as nat, c.value@)));
}

/// every scalar of e that has a value in the abstract store has a value of the scalar's declared width
/// (`typed_in` of units/C07/state_expr.rs, on the abstract store)
pub open spec fn atyped_in(a: AStore, e: Expression) -> bool
    decreases e,
{
    match e {
        Expression::Scalar(s) => a.contains_key(s.name@) ==> a[s.name@].0 == s.bits as nat,
        Expression::Constant(c) => true,
        Expression::Add(l, r) | Expression::Sub(l, r) | Expression::Mul(l, r) | Expression::Divu(l, r)
        | Expression::Modu(l, r) | Expression::Divs(l, r) | Expression::Mods(l, r) | Expression::And(l, r)
        | Expression::Or(l, r) | Expression::Xor(l, r) | Expression::Shl(l, r) | Expression::Shr(l, r)
        | Expression::AShr(l, r) | Expression::Cmpeq(l, r) | Expression::Cmpneq(l, r) | Expression::Cmplts(l, r)
        | Expression::Cmpltu(l, r) => atyped_in(a, *l) && atyped_in(a, *r),
        Expression::Zext(b, x) | Expression::Sext(b, x) | Expression::Trun(b, x) => atyped_in(a, *x),
        Expression::Ite(c, t, f) => atyped_in(a, *c) && atyped_in(a, *t) && atyped_in(a, *f),
    }
}

pub proof fn lemma_atyped(st: IMap<Seq<char>, Constant>, e: Expression)
    ensures typed_in(st, e) == atyped_in(astore(st), e),
    decreases e,
{
    match e {
        Expression::Scalar(s) => {}
        Expression::Constant(c) => {}
        Expression::Add(l, r) | Expression::Sub(l, r) | Expression::Mul(l, r) | Expression::Divu(l, r)
        | Expression::Modu(l, r) | Expression::Divs(l, r) | Expression::Mods(l, r) | Expression::And(l, r)
        | Expression::Or(l, r) | Expression::Xor(l, r) | Expression::Shl(l, r) | Expression::Shr(l, r)
        | Expression::AShr(l, r) | Expression::Cmpeq(l, r) | Expression::Cmpneq(l, r) | Expression::Cmplts(l, r)
        | Expression::Cmpltu(l, r) => { lemma_atyped(st, *l); lemma_atyped(st, *r); }
        Expression::Zext(b, x) | Expression::Sext(b, x) | Expression::Trun(b, x) => { lemma_atyped(st, *x); }
        Expression::Ite(c, t, f) => { lemma_atyped(st, *c); lemma_atyped(st, *t); lemma_atyped(st, *f); }
    }
}

// ---- op_spec: what one operation does to sigma (from the property statement) --------------------------

/// where control goes after an operation
pub enum Flow {
    FallThrough,
    Branch(u64),
}

/// why an operation cannot be executed
pub enum Fault {
    /// a scalar without a value is read
    Scalar(Seq<char>),
    /// a divisor evaluates to zero
    DivZero,
    /// operand widths do not fit (ill-sorted expression; excluded by `op_wf` + `op_typed`)
    Sort,
    /// an address does not fit 64 bits
    AddressBits,
    /// a byte of a loaded range is not mapped
    Unmapped,
    /// an intrinsic (an instruction without IL semantics) is met
    Intrinsic,
    /// the width of a stored / loaded value is not a positive multiple of 8
    Width,
}

pub enum OpResult {
    Next(Sigma, Flow),
    Fault(Fault),
}

pub open spec fn eval_fault(r: EvalR) -> Fault {
    match r {
        EvalR::ErrScalar(n) => Fault::Scalar(n),
        EvalR::ErrDiv0 => Fault::DivZero,
        _ => Fault::Sort,
    }
}

/// Assign { dst, src }: dst's NAME is bound to the value of src; every other scalar and all of memory unchanged
pub open spec fn assign_spec(dst: Scalar, src: Expression, s: Sigma) -> OpResult {
    match eval_spec(src, aenv(s.scalars)) {
        EvalR::Val(w, v) => OpResult::Next(Sigma { scalars: s.scalars.insert(dst.name@, (w, v)), mem: s.mem }, Flow::FallThrough),
        e => OpResult::Fault(eval_fault(e)),
    }
}

/// Store { index, src }: the bytes [a, a + bits(src)/8) become the bytes of the value of src in the memory's
/// endianness, a = the value of index; every other byte, all permissions and all scalars unchanged.
/// (Operands are evaluated value first, address second - this fixes which fault is reported when both fail.)
pub open spec fn store_spec(index: Expression, src: Expression, s: Sigma) -> OpResult {
    match eval_spec(src, aenv(s.scalars)) {
        EvalR::Val(ws, vs) => match eval_spec(index, aenv(s.scalars)) {
            EvalR::Val(wi, a) =>
                if a > u64::MAX { OpResult::Fault(Fault::AddressBits) }
                else if ws % 8 != 0 || ws == 0 { OpResult::Fault(Fault::Width) }
                else { OpResult::Next(Sigma { scalars: s.scalars, mem: view_store(s.mem, a, ws, vs) }, Flow::FallThrough) },
            e => OpResult::Fault(eval_fault(e)),
        },
        e => OpResult::Fault(eval_fault(e)),
    }
}

/// Load { dst, index }: dst's name is bound to the dst.bits-wide value assembled from the bytes
/// [a, a + dst.bits/8) in the memory's endianness, a = the value of index; Unmapped iff some byte is absent
pub open spec fn load_spec(dst: Scalar, index: Expression, s: Sigma) -> OpResult {
    match eval_spec(index, aenv(s.scalars)) {
        EvalR::Val(wi, a) =>
            if a > u64::MAX { OpResult::Fault(Fault::AddressBits) }
            else if dst.bits % 8 != 0 || dst.bits == 0 { OpResult::Fault(Fault::Width) }
            else if !view_present(s.mem, a, dst.bits as nat / 8) { OpResult::Fault(Fault::Unmapped) }
            else {
                let v = assemble(s.mem.endian, view_bytes(s.mem, a, dst.bits as nat / 8));
                OpResult::Next(Sigma { scalars: s.scalars.insert(dst.name@, (dst.bits as nat, v)), mem: s.mem }, Flow::FallThrough)
            },
        e => OpResult::Fault(eval_fault(e)),
    }
}

/// Branch { target }: the state is unchanged; control goes to the value of target
pub open spec fn branch_spec(target: Expression, s: Sigma) -> OpResult {
    match eval_spec(target, aenv(s.scalars)) {
        EvalR::Val(w, a) => if a > u64::MAX { OpResult::Fault(Fault::AddressBits) } else { OpResult::Next(s, Flow::Branch(a as u64)) },
        e => OpResult::Fault(eval_fault(e)),
    }
}

pub open spec fn op_spec(op: Operation, s: Sigma) -> OpResult {
    match op {
        Operation::Assign { dst, src } => assign_spec(dst, src, s),
        Operation::Store { index, src } => store_spec(index, src, s),
        Operation::Load { dst, index } => load_spec(dst, index, s),
        Operation::Branch { target } => branch_spec(target, s),
        Operation::Intrinsic { intrinsic } => OpResult::Fault(Fault::Intrinsic),
        Operation::Nop { placeholder } => OpResult::Next(s, Flow::FallThrough),
    }
}

// ---- well-formedness vocabulary of operations -----------------------------------------------------------

pub open spec fn scalar_sane(s: Scalar) -> bool { 1 <= s.bits && s.bits as nat <= MAX_BITS() }

/// constant leaves are well-formed constants, explicit widths are in 1..=MAX_BITS (what evaluation needs in
/// order not to allocate without bound; unit C04's `expr_sane`)
pub open spec fn op_sane(op: Operation) -> bool {
    match op {
        Operation::Assign { dst, src } => scalar_sane(dst) && expr_sane(src),
        Operation::Store { index, src } => expr_sane(index) && expr_sane(src),
        Operation::Load { dst, index } => scalar_sane(dst) && expr_sane(index),
        Operation::Branch { target } => expr_sane(target),
        Operation::Intrinsic { intrinsic } => true,
        Operation::Nop { placeholder } => true,
    }
}

/// the operand expressions are well-sorted (the width rules the il constructors enforce)
pub open spec fn op_wf(op: Operation) -> bool {
    match op {
        Operation::Assign { dst, src } => expr_wf(src),
        Operation::Store { index, src } => expr_wf(index) && expr_wf(src),
        Operation::Load { dst, index } => expr_wf(index),
        Operation::Branch { target } => expr_wf(target),
        Operation::Intrinsic { intrinsic } => true,
        Operation::Nop { placeholder } => true,
    }
}

/// every scalar an operand reads that has a value has a value of the scalar's declared width
pub open spec fn op_typed(st: IMap<Seq<char>, Constant>, op: Operation) -> bool {
    match op {
        Operation::Assign { dst, src } => typed_in(st, src),
        Operation::Store { index, src } => typed_in(st, index) && typed_in(st, src),
        Operation::Load { dst, index } => typed_in(st, index),
        Operation::Branch { target } => typed_in(st, target),
        Operation::Intrinsic { intrinsic } => true,
        Operation::Nop { placeholder } => true,
    }
}

pub open spec fn op_atyped(a: AStore, op: Operation) -> bool {
    match op {
        Operation::Assign { dst, src } => atyped_in(a, src),
        Operation::Store { index, src } => atyped_in(a, index) && atyped_in(a, src),
        Operation::Load { dst, index } => atyped_in(a, index),
        Operation::Branch { target } => atyped_in(a, target),
        Operation::Intrinsic { intrinsic } => true,
        Operation::Nop { placeholder } => true,
    }
}

pub proof fn lemma_op_atyped(st: IMap<Seq<char>, Constant>, op: Operation)
    ensures op_typed(st, op) == op_atyped(astore(st), op),
{
    match op {
        Operation::Assign { dst, src } => { lemma_atyped(st, src); }
        Operation::Store { index, src } => { lemma_atyped(st, index); lemma_atyped(st, src); }
        Operation::Load { dst, index } => { lemma_atyped(st, index); }
        Operation::Branch { target } => { lemma_atyped(st, target); }
        Operation::Intrinsic { intrinsic } => {}
        Operation::Nop { placeholder } => {}
    }
}

/// no address wrap (unit C08's precondition of `store`): a store that would happen ends at or before 2^64 - 1
pub open spec fn store_fits(op: Operation, s: Sigma) -> bool {
    op matches Operation::Store { index, src } ==> (
        eval_spec(src, aenv(s.scalars)) matches EvalR::Val(ws, vs) ==> (
            eval_spec(index, aenv(s.scalars)) matches EvalR::Val(wi, a) ==> a + ws / 8 <= u64::MAX))
}

// ---- lib/executor/successor.rs ----------------------------------------------------------------------------
//@ source lib/executor/successor.rs
//@ item enum SuccessorType
//@ itemx struct Successor
//@ rewrite 1 `pub(crate) state` => `pub state` ## R-vis: field visibility widened (the automatic rule only adds `pub` to private fields); needed because Verus treats a datatype with a crate-visible field as opaque in `pub open spec fn`s; no executable change
//@ end

// derive(Clone) of SuccessorType { FallThrough, Branch(u64), Intrinsic(il::Intrinsic) }: structural copy (assumed, as in units C04 / C15)
impl Clone for SuccessorType {
    #[verifier::external_body]
    fn clone(&self) -> (r: SuccessorType) ensures r == *self { unimplemented!() }
}

pub open spec fn flow_of(t: SuccessorType) -> Option<Flow> {
    match t {
        SuccessorType::FallThrough => Some(Flow::FallThrough),
        SuccessorType::Branch(a) => Some(Flow::Branch(a)),
        SuccessorType::Intrinsic(i) => None,
    }
}

impl Successor {
//@ fn impl Successor :: fn new
//@ spec
    ensures /*@fields*/ r.state == state && r.type_ == type_,
//@ end
//@ fn impl Successor :: fn type_
//@ spec
    ensures /*@field*/ *r == self.type_,
//@ end
//@ fn impl Successor :: fn state
//@ spec
    ensures /*@field*/ *r == self.state,
//@ end
}

// ---- how an executable result relates to the meaning ------------------------------------------------------

/// the Error variant that reports a fault.  `Width` is reported by the paged memory (unit C08), whose
/// contract says `Err` without naming the variant (it is Error::Custom).
pub open spec fn err_is(e: Error, k: Fault) -> bool {
    match k {
        Fault::Scalar(n) => e matches Error::ExecutorScalar(name) && name@ == n,
        Fault::DivZero => e is DivideByZero,
        Fault::Sort => e is Sort,
        Fault::AddressBits => e is TooManyAddressBits,
        Fault::Unmapped => e is ExecutorInvalidAddress,
        Fault::Intrinsic => e is UnhandledIntrinsic,
        Fault::Width => true,
    }
}

/// `r` is exactly what the meaning says: the successor's WHOLE state (every scalar, every byte, every
/// permission) and its type, or an error of the right kind
pub open spec fn exec_agrees(r: Result<Successor, Error>, m: OpResult) -> bool {
    match m {
        OpResult::Next(s1, fl) => r matches Ok(succ) && sigma_of(succ.state) == s1 && flow_of(succ.type_) == Some(fl),
        OpResult::Fault(k) => r matches Err(e) && err_is(e, k),
    }
}

// ---- lib/executor/state.rs ----------------------------------------------------------------------------------

// Display for il::Intrinsic (lib/il/intrinsic.rs: hex bytes + instruction text): needed only as the trait bound of
// `format!("{}", intrinsic)`; opaque, NO contract (the text is never inspected by verified code)
impl vstd::std_specs::fmt::DisplaySpecImpl for il::Intrinsic {
    open spec fn fmt_req(&self, f: &std::fmt::Formatter<'_>) -> bool { true }
}
impl std::fmt::Display for il::Intrinsic {
    #[verifier::external_body]
    fn fmt(&self, f: &mut std::fmt::Formatter<'_>) -> std::fmt::Result { unimplemented!() }
}

impl vstd::std_specs::convert::FromSpecImpl<Successor> for State {
    open spec fn obeys_from_spec() -> bool { true }
    open spec fn from_spec(s: Successor) -> State { s.state }
}
impl From<Successor> for State {
//@ source lib/executor/state.rs
//@ fn impl From<Successor> for State :: fn from nopub
//@ spec
    ensures /*@state*/ r == successor.state,
//@ end
}

impl State {

//@ fn impl State :: fn new
//@ spec
    ensures
        /*@memory*/ r.memory == memory,
        /*@empty*/ forall|n: Seq<char>| !(#[trigger] store_of(r).contains_key(n)),
//@ end

//@ fn impl State :: fn memory
//@ spec
    ensures /*@field*/ *r == self.memory,
//@ end

//@ fn impl State :: fn memory_mut
//@ spec
    ensures
        /*@field*/ *r == old(self).memory,
        /*@write*/ final(self).memory == *final(r),
        /*@frame*/ final(self).scalars == old(self).scalars,
//@ end

//@ fn impl State :: fn execute
//@ rewrite * `self` => `vf_self` ## R-mut-self: `fn f(mut self, ..) { BODY }` is by definition `fn f(self, ..) { let mut vf_self = self; BODY[self := vf_self] }` (Verus: "does not yet support mut self"); part 1 of 3: the body's `self` is renamed
//@ rewrite 1 `(mut vf_self,` => `(self,` ## R-mut-self: part 2 of 3: the parameter is the plain `self`
//@ rewrite 1 `{ match *operation {` => `{ let mut vf_self = self; match *operation {` ## R-mut-self: part 3 of 3: the mutable local the body works on
//@ rewrite 1 `format!("{}", intrinsic)` => `format!("{}", *intrinsic)` ## R-display-deref: `impl Display for &T` forwards to `T::fmt`, so formatting `intrinsic: &Intrinsic` and `*intrinsic` produce the same text (vstd models formatting of a value, not of a reference to a user type)
//@ spec
    requires
        store_wf(store_of(self)),
        self.memory.wf(),
        op_sane(*operation),
        store_fits(*operation, sigma_of(self)),
    ensures
        /*@exact*/ (op_wf(*operation) && op_typed(store_of(self), *operation)) ==> exec_agrees(r, op_spec(*operation, sigma_of(self))),
        /*@no_guess*/ r matches Ok(succ) ==> (flow_of(succ.type_) matches Some(fl) && op_spec(*operation, sigma_of(self)) == OpResult::Next(sigma_of(succ.state), fl)),
        /*@inv*/ r matches Ok(succ) ==> store_wf(store_of(succ.state)) && succ.state.memory.wf(),
//@ enter
    broadcast use {strmap::axiom_into_string_str, vstd::std_specs::fmt::axiom_fmt_req_all_display};
    proof { lemma_env(store_of(self)); }
    let ghost st0 = store_of(self);
    let ghost m0 = self.memory;
//@ before 0 `Ok(Successor::new(vf_self, SuccessorType::FallThrough))`
    proof {
        // Assign
        lemma_astore_insert(st0, dst.name@, src);
    }
//@ before 0 `vf_self.memory .store(`
    let ghost g_src = src;
//@ before 1 `Ok(Successor::new(vf_self, SuccessorType::FallThrough))`
    proof {
        // Store
        if g_src.bits % 8 == 0 && g_src.bits != 0 {
            lemma_store_view(m0, vf_self.memory, index.value@ as u64, g_src);
        }
    }
//@ before 0 `match value {`
    proof {
        // Load
        lemma_view_present(m0, index.value@ as u64, dst.bits as nat / 8);
        if value is Some {
            lemma_load_view(m0, index.value@ as u64, value->Some_0);
            lemma_astore_insert(st0, dst.name@, value->Some_0);
        }
    }
//@ end

} // impl State
