// ---- units/C07/architecture.rs: `architecture::Architecture`, RESTATED with the one method the executor uses.
// lib/architecture/mod.rs declares
//     pub trait Architecture: Debug + Send + Sync { fn name(..); fn endian(..); fn translator(&self) -> Box<dyn Translator>;
//                                                   fn calling_convention(..); fn stack_pointer(..); fn word_size(..); fn box_clone(..) }
// `Driver` only stores an `RC<dyn Architecture>` and calls `translator()` on it (in the arm that lifts a new
// function); the call itself is behind the stand-in `lift_function` (units/C07/driver.rs), so the trait needs
// no contract here.
pub trait Architecture {
    fn translator(&self) -> Box<dyn crate::translator::Translator>;
}
