// ---- executor::State: the scalar store and expression evaluation against it ------------------
// (the memory component is an opaque stand-in in this file; execute() for Store/Load is in state_exec.rs)
#[verifier::external_body]
pub struct Memory { _p: () }

//@ source lib/executor/state.rs
//@ item struct State

/// the scalar store by name
pub open spec fn store_of(s: State) -> vstd::map::Map<Seq<char>, Constant> { by_name(s.scalars@) }

/// the environment a state gives to expressions: scalars are looked up BY NAME ONLY
pub open spec fn store_env(st: vstd::map::Map<Seq<char>, Constant>) -> Env {
    |x: Scalar| if st.contains_key(x.name@) { Some((st[x.name@].bits as nat, st[x.name@].value@)) } else { None::<(nat, nat)> }
}

/// symbolization replaces every scalar that has a value by that constant
pub open spec fn sym_g(st: vstd::map::Map<Seq<char>, Constant>) -> ExprMap {
    |e: Expression| match e {
        Expression::Scalar(s) => if st.contains_key(s.name@) { Some(Expression::Constant(st[s.name@])) } else { None::<Expression> },
        _ => None::<Expression>,
    }
}

/// every stored constant satisfies the Constant invariant
pub open spec fn store_wf(st: vstd::map::Map<Seq<char>, Constant>) -> bool {
    forall|n: Seq<char>| st.contains_key(n) ==> (#[trigger] st[n]).wf()
}

impl State {

//@ fn impl State :: fn get_scalar
//@ rewrite 1 `self.scalars.get(name)` => `btree_get_str(&self.scalars, name)` ## R-strget: the same lookup through a stand-in carrying the assumed contract of BTreeMap<String,_>::get::<str>
//@ spec
    ensures
        /*@some*/ store_of(*self).contains_key(name@) ==> r == Some(&store_of(*self)[name@]),
        /*@none*/ !store_of(*self).contains_key(name@) ==> r is None,
//@ end

//@ fn impl State :: fn set_scalar
//@ rewrite 1 `name.into()` => `into_string(name)` ## R-into: the same conversion through a stand-in carrying the assumed contract of Into<String>
//@ spec
    ensures
        /*@store*/ store_of(*final(self)) == store_of(*old(self)).insert(into_string_chars(name), value),
        /*@frame*/ final(self).memory == old(self).memory,
//@ after 0 `self.scalars.insert(into_string(name), value);`
    proof { lemma_by_name_insert(old(self).scalars@, choose|k: String| k@ == into_string_chars(name) && final(self).scalars@ == old(self).scalars@.insert(k, value), value); }
//@ end

//@ fn impl State :: fn symbolize_expression
//@ rewrite 1 `self.scalars.get(scalar.name())` => `btree_get_str(&self.scalars, scalar.name())` ## R-strget: the same lookup through a stand-in carrying the assumed contract of BTreeMap<String,_>::get::<str>
//@ spec
    ensures /*@spec*/ map_result(r, map_spec(sym_g(store_of(*self)), *expression)),
    decreases *expression,
//@ end

} // impl State
