// ---- executor::State: the scalar store and expression evaluation against it ------------------
// (the memory component is the real `executor::Memory = memory::paged::Memory<il::Constant>`, under unit C08's
//  contracts; execute() is in units/C07/state_exec.rs)

//@ source lib/executor/state.rs
//@ item struct State

/// the scalar store by name
pub open spec fn store_of(s: State) -> IMap<Seq<char>, Constant> { by_name(s.scalars@) }

/// the environment a state gives to expressions: scalars are looked up BY NAME ONLY
pub open spec fn store_env(st: IMap<Seq<char>, Constant>) -> Env {
    |x: Scalar| if st.contains_key(x.name@) { Some((st[x.name@].bits as nat, st[x.name@].value@)) } else { None::<(nat, nat)> }
}

/// symbolization replaces every scalar that has a value by that constant
pub open spec fn sym_g(st: IMap<Seq<char>, Constant>) -> ExprMap {
    |e: Expression| match e {
        Expression::Scalar(s) => if st.contains_key(s.name@) { Some(Expression::Constant(st[s.name@])) } else { None::<Expression> },
        _ => None::<Expression>,
    }
}

/// every stored constant satisfies the Constant invariant
pub open spec fn store_wf(st: IMap<Seq<char>, Constant>) -> bool {
    forall|n: Seq<char>| st.contains_key(n) ==> (#[trigger] st[n]).wf()
}

impl State {

//@ fn impl State :: fn get_scalar
//@ rewrite 1 `self.scalars.get(name)` => `btree_get_str(&self.scalars, name)` ## R-strget: the same lookup through a stand-in carrying the assumed contract of BTreeMap<String,_>::get::<str>
//@ spec
    ensures
        /*@some*/ store_of(*self).contains_key(name@) ==> r == Some(&store_of(*self)[name@]),
        /*@none*/ !store_of(*self).contains_key(name@) ==> r is None,
//@ end

//@ fn impl State :: fn set_scalar
//@ rewrite 1 `self.scalars.insert(name.into(), value);` => `let vf_key: String = into_string(name); self.scalars.insert(vf_key, value);` ## R-into-let: the same conversion through a stand-in carrying the assumed contract of Into<String>, bound to a local first
//@ spec
    ensures
        /*@store*/ store_of(*final(self)) == store_of(*old(self)).insert(into_string_chars(name), value),
        /*@frame*/ final(self).memory == old(self).memory,
//@ before 0 `self.scalars.insert(vf_key, value);`
    let ghost gk = vf_key;
//@ after 0 `self.scalars.insert(vf_key, value);`
    proof { assert(self.scalars@ == old(self).scalars@.insert(gk, value)); lemma_by_name_insert(old(self).scalars@, gk, value); }
//@ end

//@ fn impl State :: fn symbolize_expression
//@ rewrite 1 `self.scalars.get(scalar.name())` => `btree_get_str(&self.scalars, scalar.name())` ## R-strget: the same lookup through a stand-in carrying the assumed contract of BTreeMap<String,_>::get::<str>
//@ spec
    ensures /*@spec*/ map_result(r, map_spec(sym_g(store_of(*self)), *expression)),
    decreases *expression,
//@ end

} // impl State

// ---- evaluation against the store ---------------------------------------------------------------

/// every scalar of e that has a value in the store has a value of the scalar's declared width
pub open spec fn typed_in(st: IMap<Seq<char>, Constant>, e: Expression) -> bool
    decreases e,
{
    match e {
        Expression::Scalar(s) => st.contains_key(s.name@) ==> st[s.name@].bits == s.bits,
        Expression::Constant(c) => true,
        Expression::Add(l, r) | Expression::Sub(l, r) | Expression::Mul(l, r) | Expression::Divu(l, r)
        | Expression::Modu(l, r) | Expression::Divs(l, r) | Expression::Mods(l, r) | Expression::And(l, r)
        | Expression::Or(l, r) | Expression::Xor(l, r) | Expression::Shl(l, r) | Expression::Shr(l, r)
        | Expression::AShr(l, r) | Expression::Cmpeq(l, r) | Expression::Cmpneq(l, r) | Expression::Cmplts(l, r)
        | Expression::Cmpltu(l, r) => typed_in(st, *l) && typed_in(st, *r),
        Expression::Zext(b, x) | Expression::Sext(b, x) | Expression::Trun(b, x) => typed_in(st, *x),
        Expression::Ite(c, t, f) => typed_in(st, *c) && typed_in(st, *t) && typed_in(st, *f),
    }
}

/// symbolization keeps expressions sane, and its result evaluates (without any environment) to exactly
/// what the original evaluates to under the store
pub proof fn lemma_sym_eval(st: IMap<Seq<char>, Constant>, e: Expression)
    requires store_wf(st), expr_sane(e), map_spec(sym_g(st), e) is Some,
    ensures
        expr_sane(map_spec(sym_g(st), e).unwrap()),
        eval_spec(map_spec(sym_g(st), e).unwrap(), empty_env()) == eval_spec(e, store_env(st)),
    decreases e,
{
    let g = sym_g(st);
    if g(e) is Some {
    } else {
        match e {
            Expression::Scalar(x) => {}
            Expression::Constant(c) => {}
            Expression::Add(l, r) | Expression::Sub(l, r) | Expression::Mul(l, r) | Expression::Divu(l, r)
            | Expression::Modu(l, r) | Expression::Divs(l, r) | Expression::Mods(l, r) | Expression::And(l, r)
            | Expression::Or(l, r) | Expression::Xor(l, r) | Expression::Shl(l, r) | Expression::Shr(l, r)
            | Expression::AShr(l, r) | Expression::Cmpeq(l, r) | Expression::Cmpneq(l, r) | Expression::Cmplts(l, r)
            | Expression::Cmpltu(l, r) => { lemma_sym_eval(st, *l); lemma_sym_eval(st, *r); }
            Expression::Zext(b, x) | Expression::Sext(b, x) | Expression::Trun(b, x) => { lemma_sym_eval(st, *x); }
            Expression::Ite(c, t, f) => { lemma_sym_eval(st, *c); lemma_sym_eval(st, *t); lemma_sym_eval(st, *f); }
        }
    }
}

/// widths of well-sorted expressions are in 1..=MAX_BITS (same statement as unit C04's lemma of that name in
/// units/C04/builders.rs, which is not included in this unit; proved here)
pub proof fn lemma_expr_wf_bits(e: Expression)
    requires expr_wf(e),
    ensures 1 <= expr_bits(e) <= MAX_BITS(),
    decreases e,
{
    match e {
        Expression::Scalar(s) => {}
        Expression::Constant(c) => {}
        Expression::Add(l, r) | Expression::Sub(l, r) | Expression::Mul(l, r) | Expression::Divu(l, r)
        | Expression::Modu(l, r) | Expression::Divs(l, r) | Expression::Mods(l, r) | Expression::And(l, r)
        | Expression::Or(l, r) | Expression::Xor(l, r) | Expression::Shl(l, r) | Expression::Shr(l, r)
        | Expression::AShr(l, r) => { lemma_expr_wf_bits(*l); }
        Expression::Cmpeq(l, r) | Expression::Cmpneq(l, r) | Expression::Cmplts(l, r) | Expression::Cmpltu(l, r) => {}
        Expression::Zext(b, x) | Expression::Sext(b, x) => { lemma_expr_wf_bits(*x); }
        Expression::Trun(b, x) => { lemma_expr_wf_bits(*x); }
        Expression::Ite(c, t, f) => { lemma_expr_wf_bits(*t); }
    }
}

/// on well-sorted expressions whose bound scalars have their declared widths, symbolization cannot fail
pub proof fn lemma_sym_total(st: IMap<Seq<char>, Constant>, e: Expression)
    requires store_wf(st), expr_wf(e), typed_in(st, e),
    ensures
        map_spec(sym_g(st), e) matches Some(e2) && expr_wf(e2) && expr_bits(e2) == expr_bits(e),
    decreases e,
{
    let g = sym_g(st);
    if g(e) is Some {
    } else {
        match e {
            Expression::Scalar(x) => {}
            Expression::Constant(c) => {}
            Expression::Add(l, r) | Expression::Sub(l, r) | Expression::Mul(l, r) | Expression::Divu(l, r)
            | Expression::Modu(l, r) | Expression::Divs(l, r) | Expression::Mods(l, r) | Expression::And(l, r)
            | Expression::Or(l, r) | Expression::Xor(l, r) | Expression::Shl(l, r) | Expression::Shr(l, r)
            | Expression::AShr(l, r) | Expression::Cmpeq(l, r) | Expression::Cmpneq(l, r) | Expression::Cmplts(l, r)
            | Expression::Cmpltu(l, r) => { lemma_sym_total(st, *l); lemma_sym_total(st, *r); }
            Expression::Zext(b, x) | Expression::Sext(b, x) | Expression::Trun(b, x) => { lemma_sym_total(st, *x); lemma_expr_wf_bits(*x); }
            Expression::Ite(c, t, f) => { lemma_sym_total(st, *c); lemma_sym_total(st, *t); lemma_sym_total(st, *f); }
        }
    }
}

pub proof fn lemma_wf_sane(e: Expression)
    requires expr_wf(e),
    ensures expr_sane(e),
    decreases e,
{
    match e {
        Expression::Scalar(x) => {}
        Expression::Constant(c) => {}
        Expression::Add(l, r) | Expression::Sub(l, r) | Expression::Mul(l, r) | Expression::Divu(l, r)
        | Expression::Modu(l, r) | Expression::Divs(l, r) | Expression::Mods(l, r) | Expression::And(l, r)
        | Expression::Or(l, r) | Expression::Xor(l, r) | Expression::Shl(l, r) | Expression::Shr(l, r)
        | Expression::AShr(l, r) | Expression::Cmpeq(l, r) | Expression::Cmpneq(l, r) | Expression::Cmplts(l, r)
        | Expression::Cmpltu(l, r) => { lemma_wf_sane(*l); lemma_wf_sane(*r); }
        Expression::Zext(b, x) | Expression::Sext(b, x) => { lemma_wf_sane(*x); lemma_expr_wf_bits(*x); }
        Expression::Trun(b, x) => { lemma_wf_sane(*x); lemma_expr_wf_bits(*x); }
        Expression::Ite(c, t, f) => { lemma_wf_sane(*c); lemma_wf_sane(*t); lemma_wf_sane(*f); }
    }
}

impl State {

//@ fn impl State :: fn symbolize_and_eval
//@ spec
    requires store_wf(store_of(*self)), expr_sane(*expression),
    ensures
        /*@no_guess*/ r matches Ok(c) ==> (c.wf() && eval_spec(*expression, store_env(store_of(*self))) == EvalR::Val(c.bits as nat, c.value@)),
        /*@exact*/ (expr_wf(*expression) && typed_in(store_of(*self), *expression)) ==> eval_agrees(r, eval_spec(*expression, store_env(store_of(*self)))),
//@ enter
    proof {
        if map_spec(sym_g(store_of(*self)), *expression) is Some { lemma_sym_eval(store_of(*self), *expression); }
        if expr_wf(*expression) && typed_in(store_of(*self), *expression) { lemma_sym_total(store_of(*self), *expression); }
    }
//@ end

} // impl State
