// ======================================================================================
// units/C07/exec_memory.rs — the executor's memory (`executor::Memory = memory::paged::Memory<il::Constant>`,
// under unit C08's contracts) seen as ONE mathematical value `MemView`, the byte-level meaning of a
// load / store of an IL value, and `impl translator::TranslationMemory for Memory` (lib/executor/mod.rs).
// ======================================================================================

/// what is observable of an executor memory — exactly unit C08's views: the endianness, the memory's own
/// bytes (address -> byte; absent = never stored), the bytes of the optional backing underneath, and the
/// permissions reported per address
pub struct MemView {
    pub endian: Endian,
    pub own: IMap<u64, u8>,
    pub back: IMap<int, u8>,
    pub perm: IMap<u64, MemoryPermissions>,
}

pub open spec fn back_of(bk: Option<SecMap>) -> IMap<int, u8> {
    IMap::new(|x: int| bk_at(bk, x) is Some, |x: int| bk_at(bk, x).unwrap())
}

pub open spec fn perm_of(m: Memory) -> IMap<u64, MemoryPermissions> {
    IMap::new(|x: u64| m.perm(x) is Some, |x: u64| m.perm(x).unwrap())
}

pub open spec fn mem_view(m: Memory) -> MemView {
    MemView { endian: m.endian, own: m.own_map(), back: back_of(m.bk()), perm: perm_of(m) }
}

/// the layered content at x: the own byte, else the backing's (addresses are mathematical integers)
pub open spec fn view_byte(v: MemView, x: int) -> Option<u8> {
    if 0 <= x <= u64::MAX {
        if v.own.contains_key(x as u64) { Some(v.own[x as u64]) }
        else if v.back.contains_key(x) { Some(v.back[x]) }
        else { None }
    } else {
        None
    }
}

/// every byte of [a, a + n) is mapped
pub open spec fn view_present(v: MemView, a: nat, n: nat) -> bool {
    forall|i: int| 0 <= i < n ==> (#[trigger] view_byte(v, a + i)) is Some
}

/// the bytes of [a, a + n) in address order (meaningful when all of them are mapped)
pub open spec fn view_bytes(v: MemView, a: nat, n: nat) -> Seq<u8> {
    Seq::new(n, |i: int| view_byte(v, a + i).unwrap())
}

/// the number a byte string (in address order) denotes in endianness e: little endian = byte i has weight
/// 256^i (unit C16's `le_value`), big endian = the same after reversing the string
pub open spec fn assemble(e: Endian, bytes: Seq<u8>) -> nat {
    match e {
        Endian::Little => le_value(bytes),
        Endian::Big => le_value(bytes.reverse()),
    }
}

/// byte number i, in ADDRESS order, of the w-bit value v written in endianness e  (`nat_byte(v, j)` is
/// `(v / 256^j) % 256`, units/C08/bytes.rs)
pub open spec fn abyte(e: Endian, w: nat, v: nat, i: int) -> u8 {
    match e {
        Endian::Little => nat_byte(v, i as nat),
        Endian::Big => nat_byte(v, (w / 8 - 1 - i) as nat),
    }
}

/// a byte map overridden on [a, a + w/8) by the bytes of the w-bit value v in endianness e; EVERY other
/// address keeps what it had (or stays absent)
pub open spec fn store_bytes(m: IMap<u64, u8>, a: nat, e: Endian, w: nat, v: nat) -> IMap<u64, u8> {
    IMap::new(
        |x: u64| (a <= x < a + w / 8) || m.contains_key(x),
        |x: u64| if a <= x < a + w / 8 { abyte(e, w, v, x - a) } else { m[x] },
    )
}

pub open spec fn view_store(v: MemView, a: nat, w: nat, val: nat) -> MemView {
    MemView { endian: v.endian, own: store_bytes(v.own, a, v.endian, w, val), back: v.back, perm: v.perm }
}

// ---- the views of a paged memory --------------------------------------------------------------------

/// the layered byte of the view is C08's `full`
pub proof fn lemma_view_byte(m: Memory, x: int)
    ensures view_byte(mem_view(m), x) == m.full(x),
{
}

pub proof fn lemma_view_present(m: Memory, a: u64, n: nat)
    ensures view_present(mem_view(m), a as nat, n) == all_present(m.endian, m.cells(), m.bk(), a, n),
{
    if view_present(mem_view(m), a as nat, n) {
        assert forall|i: int| 0 <= i < n implies (#[trigger] full_at(m.endian, m.cells(), m.bk(), a + i)) is Some by {
            lemma_view_byte(m, a + i);
            assert(view_byte(mem_view(m), a as nat + i) is Some);
        }
    }
    if all_present(m.endian, m.cells(), m.bk(), a, n) {
        assert forall|i: int| 0 <= i < n implies (#[trigger] view_byte(mem_view(m), a as nat + i)) is Some by {
            lemma_view_byte(m, a + i);
            assert(full_at(m.endian, m.cells(), m.bk(), a + i) is Some);
        }
    }
}

/// two memories with the same endianness, own bytes, backing and permissions have the same view
pub proof fn lemma_mem_view_eq(m0: Memory, m1: Memory)
    requires
        m1.endian == m0.endian, m1.backing == m0.backing, m1.own_map() == m0.own_map(),
        forall|x: u64| (#[trigger] m1.perm(x)) == m0.perm(x),
    ensures mem_view(m1) == mem_view(m0),
{
    assert(perm_of(m1) =~= perm_of(m0));
}

/// C08's `store` postcondition, read on the view: the own bytes are overridden on the range, nothing else changes
pub proof fn lemma_store_view(m0: Memory, m1: Memory, a: u64, c: il::Constant)
    requires
        c.wf(), c.bits % 8 == 0,
        m1.endian == m0.endian, m1.backing == m0.backing,
        m1.own_map() == override_bytes(m0.own_map(), a, m0.endian, c),
        forall|x: u64| (#[trigger] m1.perm(x)) == m0.perm(x),
    ensures mem_view(m1) == view_store(mem_view(m0), a as nat, c.bits as nat, c.value@),
{
    let e = m0.endian;
    let w = c.bits as nat;
    let n = w / 8;
    let o1 = override_bytes(m0.own_map(), a, e, c);
    let o2 = store_bytes(m0.own_map(), a as nat, e, w, c.value@);
    assert(vlen(c) == n);
    assert(c.le_bytes().len() == n);
    assert forall|x: u64| #![trigger o1.contains_key(x)] o1.contains_key(x) == o2.contains_key(x) && (o1.contains_key(x) ==> o1[x] == o2[x]) by {
        if a <= x < a + n {
            let i = x - a;
            assert(c.le_bytes()[i] == nat_byte(c.value@, i as nat));
            assert(c.le_bytes()[n - 1 - i] == nat_byte(c.value@, (n - 1 - i) as nat));
        }
    }
    assert(o1 =~= o2);
    assert(perm_of(m1) =~= perm_of(m0));
}

/// reversing a byte string twice / indexing a reversed string (vstd has no broadcast for it in scope)
pub proof fn lemma_reverse_index(s: Seq<u8>, i: int)
    requires 0 <= i < s.len(),
    ensures s.reverse().len() == s.len(), s.reverse()[i] == s[s.len() - 1 - i],
{
}

/// C08's `load` postcondition, read on the view: the loaded constant is the number the bytes of the range
/// denote in the memory's endianness
pub proof fn lemma_load_view(m: Memory, a: u64, c: il::Constant)
    requires
        c.wf(), c.bits % 8 == 0,
        reads(m.endian, m.cells(), m.bk(), a, c),
    ensures
        view_present(mem_view(m), a as nat, c.bits as nat / 8),
        assemble(m.endian, view_bytes(mem_view(m), a as nat, c.bits as nat / 8)) == c.value@,
{
    let e = m.endian;
    let n = c.bits as nat / 8;
    let v = mem_view(m);
    let bs = view_bytes(v, a as nat, n);
    let lb = nat_le_bytes(c.value@, n);
    assert(vlen(c) == n);
    assert(c.le_bytes() == lb);
    assert forall|i: int| 0 <= i < n implies #[trigger] view_byte(v, a as nat + i) == Some(vbyte(e, c, i)) by {
        lemma_view_byte(m, a + i);
        assert(full_at(e, m.cells(), m.bk(), a + i) == Some(vbyte(e, c, i)));
    }
    assert(8 * n == c.bits as nat);
    lemma_le_bytes_value(c.value@, n);
    match e {
        Endian::Little => {
            assert(bs =~= lb);
        }
        Endian::Big => {
            assert forall|i: int| 0 <= i < n implies #[trigger] bs.reverse()[i] == lb[i] by {
                lemma_reverse_index(bs, i);
                assert(view_byte(v, a as nat + (n - 1 - i)) == Some(vbyte(e, c, n - 1 - i)));
            }
            assert(bs.reverse() =~= lb);
        }
    }
}

/// what `get_u8` reads: the one byte of an 8-bit constant that `load(address, 8)` yields
pub proof fn lemma_get_u8(m: Memory, address: u64, c: il::Constant)
    requires c.wf(), c.bits == 8, reads(m.endian, m.cells(), m.bk(), address, c),
    ensures c.value@ < 256, m.full(address as int) == Some(c.value@ as u8),
{
    lemma2_to64();
    assert(vlen(c) == 1);
    assert(full_at(m.endian, m.cells(), m.bk(), address + 0) == Some(vbyte(m.endian, c, 0)));
    assert(c.le_bytes() == nat_le_bytes(c.value@, 1));
    assert(nat_le_bytes(c.value@, 1)[0] == nat_byte(c.value@, 0));
    lemma_nat_byte_small(c.value@ as u8);
}

// ---- impl TranslationMemory for Memory (lib/executor/mod.rs) ---------------------------------------------
impl translator::TranslationMemory for Memory {
    open spec fn tm_wf(&self) -> bool { self.wf() }

    // bytes and permissions of a paged memory are mapped independently: the two views are overridden and
    // `tm_read` (the joint view of memories that map them together) is not used
    open spec fn tm_read(&self, address: u64) -> Option<(u8, MemoryPermissions)> { None }

    open spec fn tm_byte(&self, address: u64) -> Option<u8> { self.full(address as int) }

    open spec fn tm_perm(&self, address: u64) -> Option<MemoryPermissions> { self.perm(address) }

//@ source lib/executor/mod.rs
//@ fn impl translator::TranslationMemory for Memory :: fn get_u8 nopub
//@ closure 0 |constant: il::Constant| -> (b: u8)
    requires constant.value@ < 256,
    ensures b == constant.value@ as u8,
//@ enter
    proof {
        assert(self.pre_load(address, 1)) by { assert(cells_cov_on(self.cells(), address as int, address + 1)); }
        assert(all_present(self.endian, self.cells(), self.bk(), address, 1) == (self.full(address as int) is Some)) by {
            if self.full(address as int) is Some {
                assert forall|i: int| 0 <= i < 1 implies (#[trigger] full_at(self.endian, self.cells(), self.bk(), address + i)) is Some by {}
            } else {
                assert(full_at(self.endian, self.cells(), self.bk(), address + 0) is None);
            }
        }
        assert forall|c: il::Constant| c.wf() && c.bits == 8 && #[trigger] reads(self.endian, self.cells(), self.bk(), address, c)
            implies c.value@ < 256 && self.full(address as int) == Some(c.value@ as u8) by {
            lemma_get_u8(*self, address, c);
        }
    }
//@ end

//@ fn impl translator::TranslationMemory for Memory :: fn permissions nopub
//@ end
}
