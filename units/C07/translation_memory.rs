// ---- units/C07/translation_memory.rs: translator::TranslationMemory and translator::Translator -------
// lib/translator/mod.rs declares
//     pub trait TranslationMemory {
//         fn permissions(&self, address: u64) -> Option<MemoryPermissions>;
//         fn get_u8(&self, address: u64) -> Option<u8>;
//         fn get_bytes(&self, address: u64, length: usize) -> Vec<u8> { ..default.. }
//     }
// The two REQUIRED methods are restated with the contract an implementor has to meet (Verus does not
// allow an impl to add a precondition the trait does not declare).  This is unit C16's restatement
// (units/C16/translation_memory.rs: data invariant `tm_wf`, content `tm_read`), GENERALISED so that the paged
// memory can implement it: a memory has a BYTE view `tm_byte` and a PERMISSION view `tm_perm`, and the two
// methods are exactly those two views.  For a memory whose bytes and permissions are mapped together
// (backing::Memory, unit C16) both views are the projections of `tm_read` - that is the default, and with
// it the clauses below are literally C16's.  A paged memory can hold a byte without permissions and
// permissions without a byte, so it overrides the two views (units/C07/exec_memory.rs).
pub trait TranslationMemory {
    spec fn tm_wf(&self) -> bool;

    spec fn tm_read(&self, address: u64) -> Option<(u8, MemoryPermissions)>;

    open spec fn tm_byte(&self, address: u64) -> Option<u8> {
        match self.tm_read(address) { Some(bp) => Some(bp.0), None => None::<u8> }
    }

    open spec fn tm_perm(&self, address: u64) -> Option<MemoryPermissions> {
        match self.tm_read(address) { Some(bp) => Some(bp.1), None => None::<MemoryPermissions> }
    }

    fn permissions(&self, address: u64) -> (r: Option<MemoryPermissions>)
        requires self.tm_wf(),
        ensures r == self.tm_perm(address);

    fn get_u8(&self, address: u64) -> (r: Option<u8>)
        requires self.tm_wf(),
        ensures r == self.tm_byte(address);
}

// lib/translator/mod.rs:  pub trait Translator { fn translate_block(..); fn translate_function(&self, memory: &dyn
// TranslationMemory, function_address: u64) -> Result<Function, Error>; fn translate_function_extended(..) }
// RESTATED with the one method the executor calls; the lifters behind it are FFI (capstone) and are not
// verified: NO contract.
pub trait Translator {
    fn translate_function(&self, memory: &dyn TranslationMemory, function_address: u64) -> Result<crate::il::Function, crate::Error>;
}
