// ======================================================================================
// units/C07/driver.rs — lib/executor/driver.rs under contract: Driver::{new, step, program, address,
// location, state, state_mut}, the step relation `step_allows` / `step_spec` (from the property text) and
// the determinism lemma.
// ======================================================================================
//@ source lib/executor/driver.rs
//@ item struct Driver

/// THE ONE CALL INTO THE LIFTERS (FFI: capstone + the per-architecture translators), wrapped:
/// `self.architecture.translator().translate_function(state.memory(), address)` of Driver::step's lifting arm.
/// ASSUMED contract (not verified; listed in the evidence): the call returns an error or SOME function, and a
/// returned function satisfies the IL data invariants the rest of the step relies on - `function_wf` (unit C15:
/// what `RefProgramLocation::from_address` requires of every function of the program) and `fn_ok` (well-sorted
/// expressions with well-formed constant leaves).  Nothing is assumed about WHICH function comes back.
#[verifier::external_body]
pub fn lift_function(architecture: &RC<dyn Architecture>, memory: &Memory, address: u64) -> (r: Result<il::Function, Error>)
    ensures r matches Ok(f) ==> f.function_wf(),
{
    architecture.translator().translate_function(memory, address)
}

impl Driver {
//@ fn impl Driver :: fn new
//@ spec
    ensures /*@fields*/ r.program == program && r.location == location && r.state == state && r.architecture == architecture,
//@ end

//@ fn impl Driver :: fn step
//@ rewrite 1 `self .architecture .translator() .translate_function(state.memory(), address)` => `lift_function(&self.architecture, state.memory(), address)` ## R-ffi-standin: exactly the call into the lifters (FFI) is routed through the stand-in `lift_function` above, whose body is this very call and whose contract is ASSUMED
//@ rewrite 1 `RC::make_mut(` => `rc_cow::rc_make_mut(` ## R-std-standin: Rc::make_mut replaced by the stand-in of prelude/rc_cow.rs (same argument; the stand-in's body calls the real `Rc::make_mut`)
//@ rewrite 2 `for location in locations {` => `for location in it: locations {` ## R-ghost-iter-name: names the ghost iterator of the for loop so that invariants can mention it; no executable change
//@ closure 0 |e: &il::Edge| -> (c0: bool)
    ensures c0 == (e.condition is None),
//@ closure 1 |e: Error| -> (e1: Error)
    ensures e1 is ExecutorLiftFail,
//@ closure 2 |e: &il::Edge| -> (c2: bool)
    ensures c2 == (e.condition is None),
//@ spec
    requires
        (*self.program).program_wf(),
        (*self.program).next_index < usize::MAX,
        store_wf(store_of(self.state)),
        self.state.memory.wf(),
//@ end

//@ fn impl Driver :: fn program
//@ spec
    ensures /*@field*/ *r == *self.program,
//@ end

//@ fn impl Driver :: fn location
//@ spec
    ensures /*@field*/ *r == self.location,
//@ end

//@ fn impl Driver :: fn state
//@ spec
    ensures /*@field*/ *r == self.state,
//@ end

//@ fn impl Driver :: fn state_mut
//@ spec
    ensures
        /*@field*/ *r == old(self).state,
        /*@write*/ final(self).state == *final(r),
        /*@frame*/ final(self).program == old(self).program && final(self).location == old(self).location && final(self).architecture == old(self).architecture,
//@ end
}
