// ======================================================================================
// units/C07/driver.rs — lib/executor/driver.rs under contract: Driver::{new, step, program, address,
// location, state, state_mut}, the step relation `step_allows` / `step_spec` (written from the property
// text) and the determinism lemma.
// ======================================================================================
//@ source lib/executor/driver.rs
//@ item struct Driver

// ---- what the executor needs of a program ---------------------------------------------------------------

/// every operation of the block is `op_sane` (well-formed constant leaves, widths in 1..=MAX_BITS)
pub open spec fn block_ok(b: il::Block) -> bool {
    forall|q: int| 0 <= q < b.instructions@.len() ==> op_sane((#[trigger] b.instructions@[q]).operation)
}

pub open spec fn edge_ok(e: il::Edge) -> bool {
    e.condition matches Some(c) ==> expr_sane(c)
}

pub open spec fn fn_ok(f: il::Function) -> bool {
    &&& forall|b: usize| #![trigger f.control_flow_graph.graph.vertices@[b]]
            f.control_flow_graph.has_block(b) ==> block_ok(f.control_flow_graph.blocks_view()[b])
    &&& forall|h: usize, t: usize| #![trigger f.control_flow_graph.graph.edges@[(h, t)]]
            f.control_flow_graph.has_edge(h, t) ==> edge_ok(f.control_flow_graph.edges_view()[(h, t)])
}

pub open spec fn prog_ok(p: il::Program) -> bool {
    forall|k: usize| #![trigger p.functions@[k]] p.functions@.contains_key(k) ==> fn_ok(*p.functions@[k])
}

/// the function a program location names, when the program has it
pub open spec fn loc_fn(p: il::Program, l: il::ProgramLocation) -> Option<il::Function> {
    match l.function_index {
        Some(k) => if p.functions@.contains_key(k) { Some(*p.functions@[k]) } else { None },
        None => None,
    }
}

/// the location applies to the program (`ProgramLocation::apply` succeeds, unit C18)
pub open spec fn loc_applies(p: il::Program, l: il::ProgramLocation) -> bool {
    loc_fn(p, l) matches Some(f) && fl_applies(f, l.function_location)
}

/// a location that applies denotes a location OF its function (the one case this excludes: `EmptyBlock(b)` for a
/// block that has instructions, which `apply` accepts - unit C18)
pub open spec fn loc_ok(p: il::Program, l: il::ProgramLocation) -> bool {
    loc_applies(p, l) ==> loc_valid(loc_fn(p, l)->Some_0, fl_loc(l.function_location))
}

/// the program location of (abstract) location `l2` of function `f`
pub open spec fn ploc(f: il::Function, l2: Loc) -> il::ProgramLocation {
    il::ProgramLocation { function_index: f.index, function_location: loc_fl(l2) }
}

/// the program an `RC` handle holds
pub open spec fn pval(rc: RC<il::Program>) -> il::Program { *rc }

/// the owned form of a borrowed location (what `ProgramLocation::from` yields, unit C18)
pub open spec fn own_loc(x: il::RefProgramLocation) -> il::ProgramLocation {
    il::ProgramLocation { function_index: x.function.index, function_location: loc_fl(loc_of(x.function_location)) }
}

/// `op` is the operation of the instruction with index `i` in block `b` of `f`
pub open spec fn op_at(f: il::Function, b: usize, i: usize, op: Operation) -> bool {
    let blk = f.control_flow_graph.blocks_view()[b];
    exists|q: int| #[trigger] instr_at(blk, q, i) && blk.instructions@[q].operation == op
}

/// the instruction with index `i` in block `b` of `f` has address `a`
pub open spec fn has_addr(f: il::Function, b: usize, i: usize, a: u64) -> bool {
    let blk = f.control_flow_graph.blocks_view()[b];
    exists|q: int| #[trigger] instr_at(blk, q, i) && blk.instructions@[q].address == Some(a)
}

/// `r` is the address field of the instruction with index `i` in block `b` of `f`
pub open spec fn addr_at(f: il::Function, b: usize, i: usize, r: Option<u64>) -> bool {
    let blk = f.control_flow_graph.blocks_view()[b];
    exists|q: int| #[trigger] instr_at(blk, q, i) && blk.instructions@[q].address == r
}

pub proof fn lemma_addr_at(f: il::Function, b: &il::Block, ins: &il::Instruction)
    requires rfl_points_in(f, il::RefFunctionLocation::Instruction(b, ins)),
    ensures addr_at(f, b.index, ins.index, ins.address),
{
    let q = choose|q: int| 0 <= q < b.instructions@.len() && #[trigger] b.instructions@[q] == *ins;
    assert(instr_at(f.control_flow_graph.graph.vertices@[b.index], q, ins.index));
}

/// data invariant of a driver: what `step` needs and re-establishes
pub open spec fn driver_wf(d: Driver) -> bool {
    &&& (*d.program).program_wf()
    &&& prog_ok(*d.program)
    &&& loc_ok(*d.program, d.location)
    &&& store_wf(store_of(d.state))
    &&& d.state.memory.wf()
}

/// no address wrap (unit C08's precondition of `store`) for the operation the driver is about to execute
pub open spec fn step_fits(p: il::Program, l: il::ProgramLocation, s: Sigma) -> bool {
    (loc_fn(p, l) is Some && l.function_location is Instruction) ==>
        forall|op: Operation| #[trigger] op_at(loc_fn(p, l)->Some_0, l.function_location->Instruction_0, l.function_location->Instruction_1, op)
            ==> store_fits(op, s)
}

// ---- the step relation, from the property statement ----------------------------------------------------------

/// what a step yields, as a mathematical value: the (possibly extended) program, the new location and the
/// WHOLE new state; or an error
pub enum StepRes {
    Next(il::Program, il::ProgramLocation, Sigma),
    Fail(Error),
}

pub open spec fn step_res(r: Result<Driver, Error>) -> StepRes {
    match r {
        Ok(d) => StepRes::Next(*d.program, d.location, sigma_of(d.state)),
        Err(e) => StepRes::Fail(e),
    }
}

/// the guard of the edge (h, t) of f (None = unconditional)
pub open spec fn cond_of(f: il::Function, h: usize, t: usize) -> Option<Expression> {
    f.control_flow_graph.edges_view()[(h, t)].condition
}

/// "the guard evaluates to one"
#[verifier::opaque]
pub open spec fn guard_one(c: Expression, s: Sigma) -> bool {
    eval_spec(c, aenv(s.scalars)) matches EvalR::Val(w, v) && v == 1
}

/// the guard evaluates, to something other than one
#[verifier::opaque]
pub open spec fn guard_not_one(c: Expression, s: Sigma) -> bool {
    eval_spec(c, aenv(s.scalars)) matches EvalR::Val(w, v) && v != 1
}

/// successor `l2` of `l` may be taken in state `s1`: the next instruction of the block, an unconditional edge, or
/// an edge whose guard evaluates to one
pub open spec fn takes(f: il::Function, l: Loc, s1: Sigma, l2: Loc) -> bool {
    succ(f, l, l2) && (l2 matches Loc::Edge(h, t) ==> (cond_of(f, h, t) matches Some(c) ==> guard_one(c, s1)))
}

/// successor `l2` is an edge whose guard evaluates to something other than one
pub open spec fn blocked(f: il::Function, s1: Sigma, l2: Loc) -> bool {
    l2 matches Loc::Edge(h, t) && cond_of(f, h, t) matches Some(c) && guard_not_one(c, s1)
}

/// "no guard holds": every successor is blocked (in particular: there is none)
pub open spec fn none_taken(f: il::Function, l: Loc, s1: Sigma) -> bool {
    forall|l2: Loc| #[trigger] succ(f, l, l2) ==> blocked(f, s1, l2)
}

/// the guard of successor edge `l2` cannot be evaluated and `e` says why (an ill-sorted / ill-typed guard may be
/// reported with any error)
pub open spec fn guard_fault(f: il::Function, s1: Sigma, l2: Loc, e: Error) -> bool {
    l2 matches Loc::Edge(h, t) && cond_of(f, h, t) matches Some(c) && (
        !(expr_wf(c) && atyped_in(s1.scalars, c))
        || (!(eval_spec(c, aenv(s1.scalars)) is Val) && err_is(e, eval_fault(eval_spec(c, aenv(s1.scalars))))))
}

pub open spec fn guard_fails(f: il::Function, l: Loc, s1: Sigma, e: Error) -> bool {
    exists|l2: Loc| #[trigger] succ(f, l, l2) && guard_fault(f, s1, l2, e)
}

/// `l` has several successors and one of them is an edge WITHOUT a condition: the guards of such a program
/// cannot be mutually exclusive; the executor reports an error
pub open spec fn missing_cond(f: il::Function, l: Loc) -> bool {
    exists|l2: Loc, l3: Loc| #![trigger succ(f, l, l2), succ(f, l, l3)]
        succ(f, l, l2) && succ(f, l, l3) && l2 != l3 && uncond_edge(f, l2)
}

/// `l2` is an edge without condition
pub open spec fn uncond_edge(f: il::Function, l2: Loc) -> bool {
    l2 matches Loc::Edge(h, t) && cond_of(f, h, t) is None
}

/// moving on from location `l` of `f` in state `s1` (after the operation, if any): to a successor that may be
/// taken, with the state unchanged; an error exactly when no guard holds / a guard cannot be evaluated / the
/// block is ill-formed
pub open spec fn select_allows(p: il::Program, f: il::Function, l: Loc, s1: Sigma, res: StepRes) -> bool {
    match res {
        StepRes::Next(p1, l1, s2) => p1 == p && s2 == s1 && exists|l2: Loc| #[trigger] takes(f, l, s1, l2) && l1 == ploc(f, l2),
        StepRes::Fail(e) =>
            (e is ExecutorNoValidLocation && none_taken(f, l, s1))
            || guard_fails(f, l, s1, e)
            // ill-formed block: ANY error (the code reports Error::Custom("Failed to get edge condition") in the
            // Instruction arm and Error::ExecutorNoEdgeCondition in the EmptyBlock arm; Verus does not model the
            // `&str -> Error` conversion done by `?`, so the variant is not part of the contract)
            || missing_cond(f, l),
    }
}

/// `l1` denotes an instruction with address `a` in a function the program holds
pub open spec fn addr_loc(p: il::Program, a: u64, l1: il::ProgramLocation) -> bool {
    l1.function_index is Some && l1.function_location is Instruction && ({
        let k = l1.function_index->Some_0;
        let b = l1.function_location->Instruction_0;
        let i = l1.function_location->Instruction_1;
        p.functions@.contains_key(k) && instr_valid(*p.functions@[k], b, i) && has_addr(*p.functions@[k], b, i, a)
    })
}

pub open spec fn extended(p: il::Program, p1: il::Program) -> bool {
    exists|f: il::Function| #[trigger] program_extended(p, f, p1)
}

/// an indirect branch to address `a` in state `s1`: the state is unchanged and the new location is an instruction
/// with that address - in the program as it is, or, when the program has no such instruction, in the program
/// extended by ONE newly lifted function (existing functions untouched; the lifter itself is assumed)
pub open spec fn branch_allows(p: il::Program, a: u64, s1: Sigma, res: StepRes) -> bool {
    match res {
        StepRes::Next(p1, l1, s2) => s2 == s1 && addr_loc(p1, a, l1) && (p1 == p || (program_no_addr(p, a) && extended(p, p1))),
        // lifting failed (Error::ExecutorLiftFail), or the lifted function has no instruction with that address
        // (Error::Custom; the variant is not part of the contract, see select_allows)
        StepRes::Fail(e) => program_no_addr(p, a),
    }
}

/// the instruction `l` of `f` carrying operation `op`: run `op_spec`, then move on
pub open spec fn instr_allows(p: il::Program, f: il::Function, l: Loc, op: Operation, s: Sigma, res: StepRes) -> bool {
    // errors on ill-sorted / ill-typed operands are not specified further (a result is never guessed, though)
    (res is Fail && !(op_wf(op) && op_atyped(s.scalars, op)))
    || match op_spec(op, s) {
        OpResult::Fault(k) => res matches StepRes::Fail(e) && err_is(e, k),
        OpResult::Next(s1, Flow::FallThrough) => select_allows(p, f, l, s1, res),
        OpResult::Next(s1, Flow::Branch(a)) => branch_allows(p, a, s1, res),
    }
}

pub open spec fn instr_case(p: il::Program, f: il::Function, b: usize, i: usize, s: Sigma, res: StepRes) -> bool {
    exists|op: Operation| #[trigger] op_at(f, b, i, op) && instr_allows(p, f, Loc::Instruction(b, i), op, s, res)
}

/// an edge is followed by its unique forward location (the start of its tail block); nothing else changes
pub open spec fn edge_case(p: il::Program, f: il::Function, h: usize, t: usize, s: Sigma, res: StepRes) -> bool {
    res matches StepRes::Next(p1, l1, s2) && p1 == p && s2 == s
    && exists|l2: Loc| #[trigger] succ(f, Loc::Edge(h, t), l2) && l1 == ploc(f, l2)
}

/// one step of the executor at location `l` of program `p` in state `s`
#[verifier::opaque]
pub open spec fn step_allows(p: il::Program, l: il::ProgramLocation, s: Sigma, res: StepRes) -> bool {
    match loc_fn(p, l) {
        None => res matches StepRes::Fail(e) && e is ProgramLocationApplication,
        Some(f) =>
            if !fl_applies(f, l.function_location) {
                res matches StepRes::Fail(e) && e is FunctionLocationApplication
            } else {
                match l.function_location {
                    il::FunctionLocation::Instruction(b, i) => instr_case(p, f, b, i, s, res),
                    il::FunctionLocation::Edge(h, t) => edge_case(p, f, h, t, s, res),
                    il::FunctionLocation::EmptyBlock(b) => select_allows(p, f, Loc::EmptyBlock(b), s, res),
                }
            },
    }
}

/// the set of possible results of one step
pub open spec fn step_spec(p: il::Program, l: il::ProgramLocation, s: Sigma) -> ISet<StepRes> {
    ISet::new(|res: StepRes| step_allows(p, l, s, res))
}

// ---- lemmas used by `step` ----------------------------------------------------------------------------------------

pub proof fn lemma_fl_loc_inv(l2: Loc)
    ensures fl_loc(loc_fl(l2)) == l2,
{
}

/// the borrowed location obtained by applying the driver's location
pub proof fn lemma_applied(p: il::Program, l: il::ProgramLocation, x: il::RefProgramLocation)
    requires
        p.program_wf(), prog_ok(p), loc_ok(p, l),
        l.function_index matches Some(k) && p.functions@.contains_key(k) && *x.function == *p.functions@[k],
        fl_applies(*x.function, l.function_location),
        (*x.function).function_wf() ==> loc_of(x.function_location) == fl_loc(l.function_location) && rfl_points_in(*x.function, x.function_location),
        (*x.function).function_wf() && loc_valid(*x.function, fl_loc(l.function_location)) ==> x.rpl_wf(),
    ensures
        loc_fn(p, l) == Some(*x.function),
        x.function.index == l.function_index,
        (*x.function).function_wf(), fn_ok(*x.function), x.rpl_wf(),
        l.function_location == loc_fl(x.loc()),
        p.holds_function(*x.function),
{
    let k = l.function_index->Some_0;
    assert((*p.functions@[k]).function_wf() && (*p.functions@[k]).index == Some(k));
    assert(fn_ok(*p.functions@[k]));
    p.lemma_holds_function(k);
    match l.function_location {
        il::FunctionLocation::Instruction(b, i) => {}
        il::FunctionLocation::Edge(h, t) => {}
        il::FunctionLocation::EmptyBlock(b) => {}
    }
}

/// the instruction location `Instruction(b, ins)` of `f`
pub proof fn lemma_instr_facts(f: il::Function, b: &il::Block, ins: &il::Instruction)
    requires fn_ok(f), rfl_in(f, il::RefFunctionLocation::Instruction(b, ins)),
    ensures op_sane(ins.operation), op_at(f, b.index, ins.index, ins.operation),
{
    let q = choose|q: int| 0 <= q < b.instructions@.len() && #[trigger] b.instructions@[q] == *ins;
    let blk = f.control_flow_graph.graph.vertices@[b.index];
    assert(block_ok(blk));
    assert(op_sane(blk.instructions@[q].operation));
    assert(instr_at(blk, q, ins.index));
}

/// an edge location `Edge(e)` of `f`
pub proof fn lemma_edge_facts(f: il::Function, e: &il::Edge)
    requires fn_ok(f), rfl_in(f, il::RefFunctionLocation::Edge(e)),
    ensures edge_ok(*e), cond_of(f, e.head, e.tail) == e.condition, e.condition matches Some(c) ==> expr_sane(c),
{
    assert(edge_ok(f.control_flow_graph.graph.edges@[(e.head, e.tail)]));
}

/// a successor that is not an edge (the next instruction of the block) is the only successor
pub proof fn lemma_non_edge_succ_unique(f: il::Function, l: Loc, l2: Loc)
    requires f.function_wf(), !(l is Edge), succ(f, l, l2), !(l2 is Edge),
    ensures forall|l3: Loc| #[trigger] succ(f, l, l3) ==> l3 == l2,
{
    match l {
        Loc::Instruction(b, i) => {
            let blk = f.control_flow_graph.blocks_view()[b];
            let q = choose|q: int| #[trigger] instr_at(blk, q, i) && (
                if q + 1 < blk.instructions@.len() { l2 == Loc::Instruction(b, blk.instructions@[q + 1].index) } else { is_out_edge(f, b, l2) });
            lemma_succ_instr_at(f, b, q, i);
        }
        _ => {}
    }
}

/// a listed successor `v[j]` of `x`: it is a successor, a location of `f`, and its program location is `ploc`
pub proof fn lemma_listed(p: il::Program, f: il::Function, l: Loc, v: Seq<il::RefProgramLocation>, j: int)
    requires
        lists_rpls(v, f, |l2: Loc| succ(f, l, l2)), 0 <= j < v.len(),
        p.program_wf(), p.holds_function(f),
    ensures
        succ(f, l, v[j].loc()), rfl_in(f, v[j].function_location), *v[j].function == f,
        own_loc(v[j]) == ploc(f, v[j].loc()),
        loc_valid(f, v[j].loc()),
        loc_ok(p, ploc(f, v[j].loc())),
{
    assert((|l2: Loc| succ(f, l, l2))(loc_of(v[j].function_location)));
    lemma_rfl_in_valid(f, v[j].function_location);
    reveal(il::Program::holds_function);
    let k = choose|k: usize| #![trigger p.functions@.contains_key(k)] p.functions@.contains_key(k) && *p.functions@[k] == f;
    assert((*p.functions@[k]).index == Some(k));
    lemma_fl_loc_inv(v[j].loc());
}

/// the forward list of an edge location is not empty (the start of the tail block)
pub proof fn lemma_edge_forward(f: il::Function, e: &il::Edge, v: Seq<il::RefProgramLocation>)
    requires rfl_in(f, il::RefFunctionLocation::Edge(e)), lists_rpls(v, f, |l2: Loc| succ(f, Loc::Edge(e.head, e.tail), l2)),
    ensures v.len() >= 1,
{
    let t = e.tail;
    let lc = Loc::Edge(e.head, e.tail);
    let blk = f.control_flow_graph.blocks_view()[t];
    let l_start = if blk.instructions@.len() == 0 { Loc::EmptyBlock(t) } else { Loc::Instruction(t, blk.instructions@[0].index) };
    lemma_rfl_in_valid(f, il::RefFunctionLocation::Edge(e));
    assert(is_block_start(f, t, l_start));
    assert((|l2: Loc| succ(f, lc, l2))(l_start));
}

/// when the listed successors are all blocked, no guard holds
pub proof fn lemma_none_taken(f: il::Function, l: Loc, s1: Sigma, v: Seq<il::RefProgramLocation>)
    requires
        lists_rpls(v, f, |l2: Loc| succ(f, l, l2)),
        forall|j: int| 0 <= j < v.len() ==> blocked(f, s1, (#[trigger] v[j]).loc()),
    ensures none_taken(f, l, s1),
{
    assert forall|l2: Loc| #[trigger] succ(f, l, l2) implies blocked(f, s1, l2) by {
        assert((|l2: Loc| succ(f, l, l2))(l2));
        let j = choose|j: int| 0 <= j < v.len() && loc_of((#[trigger] v[j]).function_location) == l2;
        assert(blocked(f, s1, v[j].loc()));
    }
}

/// in the guard loop every listed successor is an edge: a non-edge successor is the only one, and then the
/// single-successor fast path was taken
pub proof fn lemma_loop_edge(f: il::Function, l: Loc, v: Seq<il::RefProgramLocation>, j: int)
    requires
        f.function_wf(), !(l is Edge), lists_rpls(v, f, |l2: Loc| succ(f, l, l2)), 0 <= j < v.len(),
        !(v[j].loc() is Edge),
    ensures v.len() == 1,
{
    assert((|l2: Loc| succ(f, l, l2))(loc_of(v[j].function_location)));
    lemma_non_edge_succ_unique(f, l, v[j].loc());
    if v.len() >= 2 {
        let m = if j == 0 { 1int } else { 0int };
        assert((|l2: Loc| succ(f, l, l2))(loc_of(v[m].function_location)));
        assert(v[m].loc() == v[j].loc());
        if m < j { assert(loc_of(v[m].function_location) != loc_of(v[j].function_location)); }
        else { assert(loc_of(v[j].function_location) != loc_of(v[m].function_location)); }
    }
}

/// an unconditional edge met in the guard loop: there are several successors
pub proof fn lemma_missing_cond(f: il::Function, l: Loc, v: Seq<il::RefProgramLocation>, j: int)
    requires
        lists_rpls(v, f, |l2: Loc| succ(f, l, l2)), 0 <= j < v.len(), v.len() >= 2,
        uncond_edge(f, v[j].loc()),
    ensures missing_cond(f, l),
{
    let m = if j == 0 { 1int } else { 0int };
    assert((|l2: Loc| succ(f, l, l2))(loc_of(v[j].function_location)));
    assert((|l2: Loc| succ(f, l, l2))(loc_of(v[m].function_location)));
    if m < j { assert(loc_of(v[m].function_location) != loc_of(v[j].function_location)); }
    else { assert(loc_of(v[j].function_location) != loc_of(v[m].function_location)); }
    assert(succ(f, l, v[j].loc()) && succ(f, l, v[m].loc()) && v[j].loc() != v[m].loc());
}

/// the guard `c` of successor edge `l2` cannot be evaluated: whatever error `symbolize_and_eval` reports for it
/// (under that function's contract) is a guard failure of the step relation
pub proof fn lemma_guard_fail(f: il::Function, l: Loc, s1: Sigma, l2: Loc, st1: IMap<Seq<char>, Constant>, c: Expression)
    requires
        succ(f, l, l2), l2 matches Loc::Edge(h, t) && cond_of(f, h, t) == Some(c),
        s1.scalars == astore(st1),
    ensures
        forall|e: Error| (!(expr_wf(c) && typed_in(st1, c)) || eval_agrees(Err::<Constant, Error>(e), eval_spec(c, store_env(st1))))
            ==> #[trigger] guard_fails(f, l, s1, e),
{
    lemma_env(st1);
    lemma_atyped(st1, c);
    assert forall|e: Error| (!(expr_wf(c) && typed_in(st1, c)) || eval_agrees(Err::<Constant, Error>(e), eval_spec(c, store_env(st1))))
        implies #[trigger] guard_fails(f, l, s1, e) by {
        assert(guard_fault(f, s1, l2, e));
    }
}

/// the location `from_address` found, as an owned location
pub proof fn lemma_addr_loc(p: il::Program, a: u64, x: il::RefProgramLocation)
    requires p.program_wf(), p.holds_function(*x.function), x.rpl_wf(), rfl_has_addr(x.function_location, a),
    ensures
        addr_loc(p, a, own_loc(x)),
        loc_ok(p, own_loc(x)),
{
    reveal(il::Program::holds_function);
    let k = choose|k: usize| #![trigger p.functions@.contains_key(k)] p.functions@.contains_key(k) && *p.functions@[k] == *x.function;
    assert((*p.functions@[k]).index == Some(k));
    lemma_rfl_in_valid(*x.function, x.function_location);
    match x.function_location {
        il::RefFunctionLocation::Instruction(b, ins) => {
            let q = choose|q: int| 0 <= q < b.instructions@.len() && #[trigger] b.instructions@[q] == *ins;
            let blk = (*x.function).control_flow_graph.graph.vertices@[b.index];
            assert(instr_at(blk, q, ins.index));
        }
        _ => {}
    }
}

/// a program extended by a function that is `fn_ok` stays `prog_ok`
pub proof fn lemma_prog_ok_extended(p: il::Program, f: il::Function, p1: il::Program)
    requires prog_ok(p), fn_ok(f), program_extended(p, f, p1),
    ensures prog_ok(p1),
{
    let k = p.next_index;
    assert forall|j: usize| #![trigger p1.functions@[j]] p1.functions@.contains_key(j) implies fn_ok(*p1.functions@[j]) by {
        if j == k {
            assert((*p1.functions@[k]).control_flow_graph == f.control_flow_graph);
        } else {
            assert(p.functions@.contains_key(j));
            assert(p1.functions@[j] == p.functions@[j]);
            assert(fn_ok(*p.functions@[j]));
        }
    }
}

// ---- introduction lemmas for the (opaque) step relation: one per way a step can end ---------------------------

/// the driver's location does not apply to the program
pub proof fn lemma_allows_bad_location(p: il::Program, l: il::ProgramLocation, s: Sigma)
    ensures
        forall|e: Error| (loc_fn(p, l) is None && e is ProgramLocationApplication) ==> #[trigger] step_allows(p, l, s, StepRes::Fail(e)),
        forall|e: Error| (loc_fn(p, l) is Some && !fl_applies(loc_fn(p, l)->Some_0, l.function_location) && e is FunctionLocationApplication)
            ==> #[trigger] step_allows(p, l, s, StepRes::Fail(e)),
{
    reveal(step_allows);
}

/// `l` is the instruction `Instruction(b, i)` of `f` and carries `op`
pub open spec fn at_instr(p: il::Program, l: il::ProgramLocation, f: il::Function, b: usize, i: usize, op: Operation) -> bool {
    loc_fn(p, l) == Some(f) && fl_applies(f, l.function_location) && l.function_location == il::FunctionLocation::Instruction(b, i) && op_at(f, b, i, op)
}

/// the operation faults (or is ill-sorted / ill-typed and reports some error)
pub proof fn lemma_allows_op_fail(p: il::Program, l: il::ProgramLocation, s: Sigma, f: il::Function, b: usize, i: usize, op: Operation)
    requires at_instr(p, l, f, b, i, op),
    ensures
        forall|e: Error| (!(op_wf(op) && op_atyped(s.scalars, op)) || (op_spec(op, s) matches OpResult::Fault(k) && err_is(e, k)))
            ==> #[trigger] step_allows(p, l, s, StepRes::Fail(e)),
{
    reveal(step_allows);
}

/// where successor selection happens: after an operation that falls through, or at an empty block
pub open spec fn sel_ctx(p: il::Program, l: il::ProgramLocation, s: Sigma, f: il::Function, lc: Loc, s1: Sigma) -> bool {
    loc_fn(p, l) == Some(f) && fl_applies(f, l.function_location) && l.function_location == loc_fl(lc) && match lc {
        Loc::Instruction(b, i) => sel_ctx_instr(f, b, i, s, s1),
        Loc::Edge(h, t) => false,
        Loc::EmptyBlock(b) => s1 == s,
    }
}

pub open spec fn sel_ctx_instr(f: il::Function, b: usize, i: usize, s: Sigma, s1: Sigma) -> bool {
    exists|op: Operation| #[trigger] op_at(f, b, i, op) && op_spec(op, s) == OpResult::Next(s1, Flow::FallThrough)
}

pub proof fn lemma_allows_select(p: il::Program, l: il::ProgramLocation, s: Sigma, f: il::Function, lc: Loc, s1: Sigma)
    requires sel_ctx(p, l, s, f, lc, s1),
    ensures
        forall|l2: Loc| #[trigger] takes(f, lc, s1, l2) ==> step_allows(p, l, s, StepRes::Next(p, ploc(f, l2), s1)),
        forall|e: Error| ((e is ExecutorNoValidLocation && none_taken(f, lc, s1)) || guard_fails(f, lc, s1, e) || missing_cond(f, lc))
            ==> #[trigger] step_allows(p, l, s, StepRes::Fail(e)),
{
    reveal(step_allows);
    assert forall|res: StepRes| select_allows(p, f, lc, s1, res) implies #[trigger] step_allows(p, l, s, res) by {
        match lc {
            Loc::Instruction(b, i) => {
                let op = choose|op: Operation| #[trigger] op_at(f, b, i, op) && op_spec(op, s) == OpResult::Next(s1, Flow::FallThrough);
                assert(instr_allows(p, f, lc, op, s, res));
            }
            _ => {}
        }
    }
    assert forall|l2: Loc| #[trigger] takes(f, lc, s1, l2) implies step_allows(p, l, s, StepRes::Next(p, ploc(f, l2), s1)) by {
        assert(select_allows(p, f, lc, s1, StepRes::Next(p, ploc(f, l2), s1)));
    }
    assert forall|e: Error| ((e is ExecutorNoValidLocation && none_taken(f, lc, s1)) || guard_fails(f, lc, s1, e) || missing_cond(f, lc))
        implies #[trigger] step_allows(p, l, s, StepRes::Fail(e)) by {
        assert(select_allows(p, f, lc, s1, StepRes::Fail(e)));
    }
}

/// the operation is an indirect branch to `a`
pub proof fn lemma_allows_branch(p: il::Program, l: il::ProgramLocation, s: Sigma, f: il::Function, b: usize, i: usize, op: Operation, s1: Sigma, a: u64)
    requires at_instr(p, l, f, b, i, op), op_spec(op, s) == OpResult::Next(s1, Flow::Branch(a)),
    ensures
        forall|p1: il::Program, l1: il::ProgramLocation| (addr_loc(p1, a, l1) && (p1 == p || (program_no_addr(p, a) && extended(p, p1))))
            ==> #[trigger] step_allows(p, l, s, StepRes::Next(p1, l1, s1)),
        forall|e: Error| program_no_addr(p, a) ==> #[trigger] step_allows(p, l, s, StepRes::Fail(e)),
{
    reveal(step_allows);
    assert forall|res: StepRes| branch_allows(p, a, s1, res) implies #[trigger] step_allows(p, l, s, res) by {
        assert(instr_allows(p, f, Loc::Instruction(b, i), op, s, res));
    }
    assert forall|p1: il::Program, l1: il::ProgramLocation| (addr_loc(p1, a, l1) && (p1 == p || (program_no_addr(p, a) && extended(p, p1))))
        implies #[trigger] step_allows(p, l, s, StepRes::Next(p1, l1, s1)) by {
        assert(branch_allows(p, a, s1, StepRes::Next(p1, l1, s1)));
    }
    assert forall|e: Error| program_no_addr(p, a) implies #[trigger] step_allows(p, l, s, StepRes::Fail(e)) by {
        assert(branch_allows(p, a, s1, StepRes::Fail(e)));
    }
}

/// the driver sits on an edge
pub proof fn lemma_allows_edge(p: il::Program, l: il::ProgramLocation, s: Sigma, f: il::Function, h: usize, t: usize)
    requires loc_fn(p, l) == Some(f), fl_applies(f, l.function_location), l.function_location == il::FunctionLocation::Edge(h, t),
    ensures forall|l2: Loc| #[trigger] succ(f, Loc::Edge(h, t), l2) ==> step_allows(p, l, s, StepRes::Next(p, ploc(f, l2), s)),
{
    reveal(step_allows);
    assert forall|l2: Loc| #[trigger] succ(f, Loc::Edge(h, t), l2) implies step_allows(p, l, s, StepRes::Next(p, ploc(f, l2), s)) by {
        assert(edge_case(p, f, h, t, s, StepRes::Next(p, ploc(f, l2), s)));
    }
}

/// THE ONE CALL INTO THE LIFTERS (FFI: capstone + the per-architecture translators), wrapped:
/// `self.architecture.translator().translate_function(state.memory(), address)` of Driver::step's lifting arm.
/// ASSUMED contract (not verified; listed in the evidence): the call returns an error or SOME function, and a
/// returned function satisfies the IL data invariants the rest of the step relies on - `function_wf` (unit C15:
/// what `RefProgramLocation::from_address` requires of every function of the program) and `fn_ok` (constant
/// leaves are well-formed constants, widths are in 1..=65536).  Nothing is assumed about WHICH function comes back.
#[verifier::external_body]
pub fn lift_function(architecture: &RC<dyn Architecture>, memory: &Memory, address: u64) -> (r: Result<il::Function, Error>)
    ensures r matches Ok(f) ==> f.function_wf() && fn_ok(f),
{
    architecture.translator().translate_function(memory, address)
}

impl Driver {
//@ fn impl Driver :: fn new
//@ spec
    ensures /*@fields*/ r.program == program && r.location == location && r.state == state && r.architecture == architecture,
//@ end

//@ fn impl Driver :: fn step
//@ attr #[verifier::loop_isolation(false)]
//@ attr #[verifier::spinoff_prover]
//@ rewrite 1 `self .architecture .translator() .translate_function(state.memory(), address)` => `lift_function(&self.architecture, state.memory(), address)` ## R-ffi-standin: exactly the call into the lifters (FFI) is routed through the stand-in `lift_function` above, whose body is this very call and whose contract is ASSUMED
//@ rewrite 1 `RC::make_mut(` => `rc_cow::rc_make_mut(` ## R-std-standin: Rc::make_mut replaced by the stand-in of prelude/rc_cow.rs (same argument; the stand-in's body calls the real `Rc::make_mut`)
//@ rewrite 2 `for location in locations {` => `for location in it: locations {` ## R-ghost-iter-name: names the ghost iterator of the for loop so that invariants can mention it; no executable change
//@ closure 0 |e: Error| -> (e1: Error)
    ensures e1 is ExecutorLiftFail,
//@ spec
    requires
        driver_wf(self),
        (*self.program).next_index < usize::MAX,
        step_fits(*self.program, self.location, sigma_of(self.state)),
    ensures
        /*@bad_location*/ !loc_applies(*self.program, self.location) ==> step_allows(*self.program, self.location, sigma_of(self.state), step_res(r)),
        /*@instruction*/ (loc_applies(*self.program, self.location) && self.location.function_location is Instruction)
            ==> step_allows(*self.program, self.location, sigma_of(self.state), step_res(r)),
        /*@edge*/ (loc_applies(*self.program, self.location) && self.location.function_location is Edge)
            ==> step_allows(*self.program, self.location, sigma_of(self.state), step_res(r)),
        /*@empty_block*/ (loc_applies(*self.program, self.location) && self.location.function_location is EmptyBlock)
            ==> step_allows(*self.program, self.location, sigma_of(self.state), step_res(r)),
        /*@inv*/ r matches Ok(d) ==> driver_wf(d),
//@ enter
    // the function's own context sees the data invariants and the location vocabulary only as atoms: every
    // fact it needs about them is produced by a lemma call (keeps failing queries fast)
    hide(lists_rpls); hide(il::Program::program_wf); hide(il::ControlFlowGraph::cfg_wf); hide(il::Block::block_wf);
    hide(fn_ok); hide(prog_ok); hide(block_ok); hide(edge_ok); hide(succ); hide(loc_valid); hide(rfl_in); hide(rfl_points_in);
    hide(store_wf); hide(op_spec); hide(op_sane); hide(op_wf); hide(op_typed); hide(op_atyped); hide(err_is);
    hide(none_taken); hide(guard_fails); hide(missing_cond); hide(addr_loc); hide(program_extended); hide(program_no_addr);
    hide(typed_in); hide(atyped_in); hide(store_fits); hide(mem_view); hide(astore);
    broadcast use rc_cow::axiom_rc_cloned;
    let ghost p0 = pval(self.program);
    let ghost l0 = self.location;
    let ghost st0 = store_of(self.state);
    let ghost s0 = sigma_of(self.state);
    proof { lemma_env(st0); lemma_allows_bad_location(p0, l0, s0); }
//@ before 0 `match *location.function_location() {`
    let ghost f = *location.function;
    let ghost lc = location.loc();
    proof {
        lemma_applied(p0, l0, location);
        lemma_fl_loc_inv(lc);
    }
//@ before 0 `let successor = self.state.execute(`
    let ghost op = instruction.operation;
    proof {
        lemma_instr_facts(f, location.function_location->Instruction_0, instruction);
        lemma_op_atyped(st0, op);
        lemma_allows_op_fail(p0, l0, s0, f, lc->Instruction_0, lc->Instruction_1, op);
    }
//@ before 0 `match successor.type_().clone() {`
    let ghost st1 = store_of(successor.state);
    let ghost s1 = sigma_of(successor.state);
    proof {
        lemma_env(st1);
        match successor.type_ {
            SuccessorType::FallThrough => { lemma_allows_select(p0, l0, s0, f, lc, s1); }
            SuccessorType::Branch(a) => { lemma_allows_branch(p0, l0, s0, f, lc->Instruction_0, lc->Instruction_1, op, s1, a); }
            SuccessorType::Intrinsic(_) => {}
        }
    }
//@ after 0 `let locations = location.forward()?;`
    let ghost v = locations@;
//@ before 0 `Ok(Driver::new( self.program.clone(), locations[0].clone().into(), successor.into(),`
    let ghost tk = takes(f, lc, s1, v[0].loc());
    proof {
        lemma_listed(p0, f, lc, v, 0);
        if v[0].function_location is Edge { lemma_edge_facts(f, v[0].function_location->Edge_0); }
    }
//@ loop 0
    invariant
        /*@seq*/ it.seq() == v,
        /*@blocked*/ forall|j: int| 0 <= j < it.index@ ==> blocked(f, s1, (#[trigger] v[j]).loc()),
//@ before 0 `if let il::RefFunctionLocation::Edge(edge) = *location.function_location() {`
    proof {
        lemma_listed(p0, f, lc, v, it.index@);
        if !(location.loc() is Edge) { lemma_loop_edge(f, lc, v, it.index@); }
    }
//@ before 0 `if successor .state() .symbolize_and_eval(`
    let ghost tk = takes(f, lc, s1, location.loc());
    proof {
        reveal(guard_one); reveal(guard_not_one);
        lemma_edge_facts(f, edge);
        if edge.condition is None {
            lemma_missing_cond(f, lc, v, it.index@);
        } else {
            lemma_guard_fail(f, lc, s1, location.loc(), st1, edge.condition->Some_0);
        }
    }
//@ before 0 `Err(Error::ExecutorNoValidLocation)`
    proof { lemma_none_taken(f, lc, s1, v); }
//@ before 0 `match il::RefProgramLocation::from_address(&self.program, address) {`
    proof {
        assert forall|x: il::RefProgramLocation| p0.holds_function(*x.function) && x.rpl_wf() && #[trigger] rfl_has_addr(x.function_location, address)
            implies addr_loc(p0, address, own_loc(x)) && loc_ok(p0, own_loc(x)) by {
            lemma_addr_loc(p0, address, x);
        }
    }
//@ before 0 `rc_cow::rc_make_mut(&mut program).add_function(function);`
    let ghost gf = function;
//@ before 0 `let location: il::ProgramLocation =`
    let ghost p1 = pval(program);
    proof {
        assert(program_extended(p0, gf, p1));
        lemma_prog_ok_extended(p0, gf, p1);
        assert forall|x: il::RefProgramLocation| p1.holds_function(*x.function) && x.rpl_wf() && #[trigger] rfl_has_addr(x.function_location, address)
            implies addr_loc(p1, address, own_loc(x)) && loc_ok(p1, own_loc(x)) by {
            lemma_addr_loc(p1, address, x);
        }
    }
//@ after 1 `let locations = location.forward()?;`
    let ghost v = locations@;
    proof {
        lemma_edge_forward(f, location.function_location->Edge_0, v);
        lemma_listed(p0, f, lc, v, 0);
        lemma_allows_edge(p0, l0, s0, f, lc->Edge_0, lc->Edge_1);
    }
//@ after 2 `let locations = location.forward()?;`
    let ghost v = locations@;
    proof { lemma_allows_select(p0, l0, s0, f, lc, s0); }
//@ before 1 `return Ok(Driver::new(`
    let ghost tk = takes(f, lc, s0, v[0].loc());
    proof {
        lemma_listed(p0, f, lc, v, 0);
        if v[0].function_location is Edge { lemma_edge_facts(f, v[0].function_location->Edge_0); }
    }
//@ loop 1
    invariant
        /*@seq*/ it.seq() == v,
        /*@blocked*/ forall|j: int| 0 <= j < it.index@ ==> blocked(f, s0, (#[trigger] v[j]).loc()),
//@ before 1 `if let il::RefFunctionLocation::Edge(edge) = *location.function_location() {`
    proof {
        lemma_listed(p0, f, lc, v, it.index@);
        if !(location.loc() is Edge) { lemma_loop_edge(f, lc, v, it.index@); }
    }
//@ before 0 `if self .state .symbolize_and_eval(`
    let ghost tk = takes(f, lc, s0, location.loc());
    proof {
        reveal(guard_one); reveal(guard_not_one);
        lemma_edge_facts(f, edge);
        if edge.condition is None {
            lemma_missing_cond(f, lc, v, it.index@);
        } else {
            lemma_guard_fail(f, lc, s0, location.loc(), st0, edge.condition->Some_0);
        }
    }
//@ before 1 `Err(Error::ExecutorNoValidLocation)`
    proof { lemma_none_taken(f, lc, s0, v); }
//@ end

//@ fn impl Driver :: fn program
//@ spec
    ensures /*@field*/ *r == *self.program,
//@ end

// OBSERVATION: `address()` uses `expect`: it PANICS when the driver's location does not apply to its program
// (stated as the precondition; `step` never produces such a driver from a well-formed one, see step.ensures.inv)
//@ fn impl Driver :: fn address
//@ spec
    requires
        (*self.program).program_wf(),
        loc_applies(*self.program, self.location),
    ensures
        /*@instruction*/ self.location.function_location matches il::FunctionLocation::Instruction(b, i) ==>
            addr_at(loc_fn(*self.program, self.location)->Some_0, b, i, r),
        /*@other*/ !(self.location.function_location is Instruction) ==> r is None,
//@ enter
    proof {
        let k = self.location.function_index->Some_0;
        let f = *self.program.functions@[k];
        assert(f.function_wf());
        assert forall|bk: &il::Block, ins: &il::Instruction| #[trigger] rfl_points_in(f, il::RefFunctionLocation::Instruction(bk, ins))
            implies addr_at(f, bk.index, ins.index, ins.address) by {
            lemma_addr_at(f, bk, ins);
        }
    }
//@ end

//@ fn impl Driver :: fn location
//@ spec
    ensures /*@field*/ *r == self.location,
//@ end

//@ fn impl Driver :: fn state
//@ spec
    ensures /*@field*/ *r == self.state,
//@ end

//@ fn impl Driver :: fn state_mut
//@ spec
    ensures
        /*@field*/ *r == old(self).state,
        /*@write*/ final(self).state == *final(r),
        /*@frame*/ final(self).program == old(self).program && final(self).location == old(self).location && final(self).architecture == old(self).architecture,
//@ end
}

// ---- determinism -------------------------------------------------------------------------------------------------

/// the guard of successor `l2` (if it is an edge with a guard) is well-sorted, well-typed and evaluates to a value
pub open spec fn guard_evaluates(f: il::Function, s1: Sigma, l2: Loc) -> bool {
    l2 matches Loc::Edge(h, t) ==> (cond_of(f, h, t) matches Some(c) ==>
        expr_wf(c) && atyped_in(s1.scalars, c) && eval_spec(c, aenv(s1.scalars)) is Val)
}

/// "the guards are mutually exclusive and exhaustive" at location `l` in state `s1`: every guard evaluates, an
/// unconditional edge is the only successor, and exactly one successor may be taken
pub open spec fn guards_decide(f: il::Function, l: Loc, s1: Sigma) -> bool {
    &&& forall|l2: Loc| #[trigger] succ(f, l, l2) ==> guard_evaluates(f, s1, l2)
    &&& !missing_cond(f, l)
    &&& forall|l2: Loc, l3: Loc| #[trigger] takes(f, l, s1, l2) && #[trigger] takes(f, l, s1, l3) ==> l2 == l3
    &&& exists|l2: Loc| #[trigger] takes(f, l, s1, l2)
}

/// the program has exactly one instruction with address `a`
pub open spec fn branch_decides(p: il::Program, a: u64) -> bool {
    &&& exists|l1: il::ProgramLocation| #[trigger] addr_loc(p, a, l1)
    &&& forall|l1: il::ProgramLocation, l2: il::ProgramLocation| #[trigger] addr_loc(p, a, l1) && #[trigger] addr_loc(p, a, l2) ==> l1 == l2
}

pub open spec fn op_decides(p: il::Program, f: il::Function, l: Loc, op: Operation, s: Sigma) -> bool {
    op_wf(op) && op_atyped(s.scalars, op) && match op_spec(op, s) {
        OpResult::Fault(k) => true,
        OpResult::Next(s1, Flow::FallThrough) => guards_decide(f, l, s1),
        OpResult::Next(s1, Flow::Branch(a)) => branch_decides(p, a),
    }
}

pub open spec fn instr_decides(p: il::Program, f: il::Function, b: usize, i: usize, s: Sigma) -> bool {
    forall|op: Operation| #[trigger] op_at(f, b, i, op) ==> op_decides(p, f, Loc::Instruction(b, i), op, s)
}

/// the hypothesis of determinism: operands are well-sorted and well-typed, guards are mutually exclusive and
/// exhaustive in the state the operation leaves, an indirect branch goes to a unique existing instruction
pub open spec fn step_decides(p: il::Program, l: il::ProgramLocation, s: Sigma) -> bool {
    loc_applies(p, l) ==> ({
        let f = loc_fn(p, l)->Some_0;
        f.function_wf() && match l.function_location {
            il::FunctionLocation::Instruction(b, i) => instr_decides(p, f, b, i, s),
            il::FunctionLocation::Edge(h, t) => true,
            il::FunctionLocation::EmptyBlock(b) => guards_decide(f, Loc::EmptyBlock(b), s),
        }
    })
}

/// two results say the same: the same program, location and WHOLE state, or both an error
pub open spec fn res_agree(r1: StepRes, r2: StepRes) -> bool {
    match r1 {
        StepRes::Next(p1, l1, s1) => r2 == r1,
        StepRes::Fail(e1) => r2 is Fail,
    }
}

pub proof fn lemma_op_unique(f: il::Function, b: usize, i: usize, op1: Operation, op2: Operation)
    requires f.function_wf(), f.control_flow_graph.has_block(b), op_at(f, b, i, op1), op_at(f, b, i, op2),
    ensures op1 == op2,
{
    let blk = f.control_flow_graph.graph.vertices@[b];
    assert(blk.block_wf());
    let q1 = choose|q: int| #[trigger] instr_at(blk, q, i) && blk.instructions@[q].operation == op1;
    let q2 = choose|q: int| #[trigger] instr_at(blk, q, i) && blk.instructions@[q].operation == op2;
    if q1 < q2 { assert(blk.instructions@[q1].index != blk.instructions@[q2].index); }
    if q2 < q1 { assert(blk.instructions@[q2].index != blk.instructions@[q1].index); }
}

/// successor selection is deterministic when the guards decide
pub proof fn lemma_select_deterministic(p: il::Program, f: il::Function, l: Loc, s1: Sigma, r1: StepRes, r2: StepRes)
    requires guards_decide(f, l, s1), select_allows(p, f, l, s1, r1), select_allows(p, f, l, s1, r2),
    ensures r1 is Next, r1 == r2,
{
    reveal(guard_one); reveal(guard_not_one);
    let w = choose|l2: Loc| #[trigger] takes(f, l, s1, l2);
    assert(succ(f, l, w) && guard_evaluates(f, s1, w));
    assert forall|e: Error| !select_allows(p, f, l, s1, StepRes::Fail(e)) by {
        if e is ExecutorNoValidLocation && none_taken(f, l, s1) {
            assert(blocked(f, s1, w));
        }
        if guard_fails(f, l, s1, e) {
            let l2 = choose|l2: Loc| #[trigger] succ(f, l, l2) && guard_fault(f, s1, l2, e);
            assert(guard_evaluates(f, s1, l2));
        }
    }
    match r1 {
        StepRes::Next(p1, l1, s2) => {
            let a = choose|l2: Loc| #[trigger] takes(f, l, s1, l2) && l1 == ploc(f, l2);
            match r2 {
                StepRes::Next(p2, l2_, s3) => {
                    let b = choose|l2: Loc| #[trigger] takes(f, l, s1, l2) && l2_ == ploc(f, l2);
                    assert(a == b);
                }
                StepRes::Fail(e) => {}
            }
        }
        StepRes::Fail(e) => {}
    }
}

/// ON PROGRAMS WHOSE GUARDS ARE MUTUALLY EXCLUSIVE AND EXHAUSTIVE THE STEP IS DETERMINISTIC: any two results the
/// relation allows are the same program, the same location and the same whole state (or both are errors)
pub proof fn lemma_step_deterministic(p: il::Program, l: il::ProgramLocation, s: Sigma, r1: StepRes, r2: StepRes)
    requires step_decides(p, l, s), step_allows(p, l, s, r1), step_allows(p, l, s, r2),
    ensures res_agree(r1, r2),
{
    reveal(step_allows);
    if loc_applies(p, l) {
        let f = loc_fn(p, l)->Some_0;
        match l.function_location {
            il::FunctionLocation::Instruction(b, i) => {
                let op1 = choose|op: Operation| #[trigger] op_at(f, b, i, op) && instr_allows(p, f, Loc::Instruction(b, i), op, s, r1);
                let op2 = choose|op: Operation| #[trigger] op_at(f, b, i, op) && instr_allows(p, f, Loc::Instruction(b, i), op, s, r2);
                lemma_op_unique(f, b, i, op1, op2);
                assert(op_decides(p, f, Loc::Instruction(b, i), op1, s));
                match op_spec(op1, s) {
                    OpResult::Fault(k) => {}
                    OpResult::Next(s1, Flow::FallThrough) => {
                        lemma_select_deterministic(p, f, Loc::Instruction(b, i), s1, r1, r2);
                    }
                    OpResult::Next(s1, Flow::Branch(a)) => {
                        lemma_branch_deterministic(p, a, s1, r1, r2);
                    }
                }
            }
            il::FunctionLocation::Edge(h, t) => {
                let a = choose|l2: Loc| #[trigger] succ(f, Loc::Edge(h, t), l2) && r1->Next_1 == ploc(f, l2);
                let b = choose|l2: Loc| #[trigger] succ(f, Loc::Edge(h, t), l2) && r2->Next_1 == ploc(f, l2);
                assert(is_block_start(f, t, a) && is_block_start(f, t, b));
            }
            il::FunctionLocation::EmptyBlock(b) => {
                lemma_select_deterministic(p, f, Loc::EmptyBlock(b), s, r1, r2);
            }
        }
    }
}

/// an indirect branch to an address that exactly one instruction of the program has
pub proof fn lemma_branch_deterministic(p: il::Program, a: u64, s1: Sigma, r1: StepRes, r2: StepRes)
    requires branch_decides(p, a), branch_allows(p, a, s1, r1), branch_allows(p, a, s1, r2),
    ensures r1 is Next, r1 == r2,
{
    let w = choose|l1: il::ProgramLocation| #[trigger] addr_loc(p, a, l1);
    // the program has an instruction with that address: nothing is lifted, no error
    let k = w.function_index->Some_0;
    let b = w.function_location->Instruction_0;
    let i = w.function_location->Instruction_1;
    let f = *p.functions@[k];
    let blk = f.control_flow_graph.blocks_view()[b];
    let q = choose|q: int| #[trigger] instr_at(blk, q, i) && blk.instructions@[q].address == Some(a);
    if program_no_addr(p, a) {
        assert(fn_no_addr(*p.functions@[k], a));
        assert(block_no_addr(f.control_flow_graph.graph.vertices@[b], a));
        assert(blk.instructions@[q].address != Some(a));
    }
}
