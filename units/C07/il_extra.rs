// ---- units/C07/il_extra.rs: the two IL functions the executor's lifting arm calls that no other unit
// has under contract (Program::add_function, Function::set_index) + lemmas; included inside `pub mod il`.

impl Function {
//@ source lib/il/function.rs
//@ fn impl Function :: fn set_index
//@ spec
    ensures
        /*@index*/ final(self).index == index,
        /*@frame*/ final(self).address == old(self).address && final(self).control_flow_graph == old(self).control_flow_graph && final(self).name == old(self).name,
//@ end
}

/// `p1` is `p0` with the function `f` (its index set) added under the fresh key `p0.next_index`; every function of
/// `p0` is still there, untouched, under its key
pub open spec fn program_extended(p0: Program, f: Function, p1: Program) -> bool {
    let k = p0.next_index;
    &&& p1.next_index == k + 1
    &&& p1.functions@.dom() =~= p0.functions@.dom().insert(k)
    &&& (*p1.functions@[k]).index == Some(k)
    &&& (*p1.functions@[k]).address == f.address
    &&& (*p1.functions@[k]).control_flow_graph == f.control_flow_graph
    &&& (*p1.functions@[k]).name == f.name
    &&& forall|j: usize| #![trigger p1.functions@[j]] p0.functions@.contains_key(j) && j != k ==> p1.functions@[j] == p0.functions@[j]
}

impl Program {
//@ source lib/il/program.rs
//@ fn impl Program :: fn add_function
//@ spec
    requires old(self).next_index < usize::MAX,
    ensures
        /*@added*/ program_extended(*old(self), function, *final(self)),
        /*@wf*/ (old(self).program_wf() && function.function_wf()) ==> final(self).program_wf(),
//@ end
}

impl Intrinsic {
//@ source lib/il/intrinsic.rs
//@ fn impl Intrinsic :: fn instruction_str
//@ spec
    ensures /*@same*/ r@ == self.instruction_str@,
//@ end
}
