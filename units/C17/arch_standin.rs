// ======================================================================================
// units/C17/arch_standin.rs - STAND-IN (template text, not extracted) for the trait
// `architecture::Architecture` of lib/architecture.rs, reduced to the one method the analysis calls.
// The stack pointer is an ABSTRACT scalar `sp_spec()`; the seven concrete impls of the crate
// (Amd64 "rsp":64, AArch64 / AArch64Eb "sp":64, Mips / Mipsel "$sp":32, Ppc "r1":32, X86 "esp":32)
// are OUTSIDE this unit: each of them returns `il::scalar(name, 32 | 64)`, a constant scalar whose
// width satisfies `sp_ok` (1 <= bits <= 64), which is all the contracts below ask of it.
// ======================================================================================
pub trait Architecture {
    /// the scalar the architecture uses as its stack pointer
    spec fn sp_spec(&self) -> Scalar;

    fn stack_pointer(&self) -> (r: Scalar)
        ensures r == self.sp_spec();
}
