// ======================================================================================
// units/C17/spo_istransl.rs - the helper `StackPointerOffsetAnalysis::is_translation` that candidate fix 3
// (units/C17/proposed_fix_3.diff) introduces: it recognises "sp plus / minus constants" syntactically.
// Kept in a file of its own because it does not exist in a tree without fix 3
// (units/C17/nofix3/unit.rs is the same unit without this include).
// ======================================================================================
//@ source lib/analysis/stack_pointer_offsets.rs
impl StackPointerOffsetAnalysis {

//@ fn impl StackPointerOffsetAnalysis :: fn is_translation
//@ spec
    ensures /*@spec*/ r == is_transl(self.stack_pointer, *expression),
    decreases *expression,
//@ end

} // impl StackPointerOffsetAnalysis
