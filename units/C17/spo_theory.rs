// ======================================================================================
// units/C17/spo_theory.rs - what property C17 talks about, as mathematics (no code of /repo here):
//   * concrete scalar stores and the effect of one IL operation on them (from the IL semantics:
//     the executor keys its store BY NAME and stores whatever the right-hand side evaluates to),
//   * the abstract offsets Top / Value(bits, value) / Bottom, their order, join and concretisation
//     gamma (sp == sp0 + value  mod 2^bits), all taken from the property statement,
//   * "translation of the stack pointer" and the key arithmetic fact: evaluating a translation with
//     sp := c and with sp := sp0 + c gives results that differ by sp0 (mod 2^w), errors coincide,
//   * the abstract transfer function and its LOCAL SOUNDNESS for every operation kind.
// To be included inside a module with `use super::*; use super::il::*; use super::il_subst::{..}`.
// ======================================================================================

// ---------------------------------------------------------------------------------------------
// concrete side

/// a concrete scalar store: name -> (width, value).  Exactly the shape of the executor's store
/// (`State.scalars: BTreeMap<String, Constant>`, looked up by `scalar.name()` only).
pub type CState = IMap<Seq<char>, (nat, nat)>;

/// the environment a store gives to expressions: scalars are looked up BY NAME ONLY
/// (same reading as units/C07/state_expr.rs `store_env`)
pub open spec fn cenv(st: CState) -> Env {
    |x: Scalar| if st.contains_key(x.name@) { Some(st[x.name@]) } else { None::<(nat, nat)> }
}

/// the two stores agree on every name except `name`
pub open spec fn same_except(s: CState, s2: CState, name: Seq<char>) -> bool {
    forall|n: Seq<char>| #![trigger s2.contains_key(n)] #![trigger s2[n]] n != name ==> (s2.contains_key(n) == s.contains_key(n) && s2[n] == s[n])
}

/// the effect of one operation on the scalar store (memory is not modelled: a load may produce ANY value):
///   Assign{dst,src}: the store with dst.name rebound to the value of src (stuck if src has no value);
///   Load{dst,..}:    dst.name rebound to an arbitrary value, everything else unchanged;
///   Store / Branch / Intrinsic / Nop: scalars unchanged.
pub open spec fn op_step(op: Operation, s: CState, s2: CState) -> bool {
    match op {
        Operation::Assign { dst, src } => eval_spec(src, cenv(s)) matches EvalR::Val(w, v) && s2 == s.insert(dst.name@, (w, v)),
        Operation::Load { dst, index } => same_except(s, s2, dst.name@),
        _ => s2 == s,
    }
}

/// the operation cannot execute in `s` (only an assignment whose right-hand side has no value)
pub open spec fn op_stuck(op: Operation, s: CState) -> bool {
    op matches Operation::Assign { dst, src } && !(eval_spec(src, cenv(s)) is Val)
}

/// PROVISO of the soundness statements.  The analysis identifies the stack pointer by the whole
/// `Scalar` (name, width, ssa version) while the executor keys by name: soundness is stated for
/// operations in which the stack pointer's NAME is written only through the stack-pointer scalar itself
/// (no differently-sized or ssa-versioned alias of the same name is assigned / loaded).
pub open spec fn sp_exclusive(op: Operation, sp: Scalar) -> bool {
    match op {
        Operation::Assign { dst, src } => dst.name@ == sp.name@ ==> dst == sp,
        Operation::Load { dst, index } => dst.name@ == sp.name@ ==> dst == sp,
        _ => true,
    }
}

// ---------------------------------------------------------------------------------------------
// abstract side

/// the lattice of the analysis, as mathematics: Value(bits, value) is a constant `value` of width `bits`
pub enum AOff {
    Top,
    Value(nat, nat),
    Bottom,
}

pub open spec fn a_wf(a: AOff) -> bool {
    a matches AOff::Value(b, v) ==> 1 <= b && b <= MAX_BITS() && v < pow2(b)
}

/// CONCRETISATION (from the property): relative to the entry value `sp0` of the stack pointer,
/// Value(c) describes the stores in which sp holds sp0 + c modulo 2^w at sp's own width w;
/// Top describes every store; Bottom none (unreachable).
pub open spec fn gamma(sp: Scalar, sp0: nat, a: AOff, s: CState) -> bool {
    match a {
        AOff::Top => true,
        AOff::Value(b, v) => b == sp.bits as nat && s.contains_key(sp.name@) && s[sp.name@] == (b, (sp0 + v) % pow2(b)),
        AOff::Bottom => false,
    }
}

/// the order Bottom < Value(c) < Top, distinct values incomparable
pub open spec fn a_le(a: AOff, b: AOff) -> bool {
    a is Bottom || b is Top || a == b
}

pub open spec fn a_join(a: AOff, b: AOff) -> AOff {
    match a {
        AOff::Top => AOff::Top,
        AOff::Bottom => b,
        AOff::Value(_, _) => match b {
            AOff::Top => AOff::Top,
            AOff::Bottom => a,
            AOff::Value(_, _) => if a == b { a } else { AOff::Top },
        },
    }
}

/// what `partial_cmp` has to answer
pub open spec fn a_cmp(a: AOff, b: AOff) -> Option<core::cmp::Ordering> {
    if a == b { Some(core::cmp::Ordering::Equal) }
    else if a_le(a, b) { Some(core::cmp::Ordering::Less) }
    else if a_le(b, a) { Some(core::cmp::Ordering::Greater) }
    else { None }
}

/// lattice laws (partial order, least upper bound, commutative, idempotent) and monotonicity of gamma
pub proof fn lemma_lattice(a: AOff, b: AOff, c: AOff)
    ensures
        a_le(a, a),
        a_le(a, b) && a_le(b, c) ==> a_le(a, c),
        a_le(a, b) && a_le(b, a) ==> a == b,
        a_le(a, a_join(a, b)), a_le(b, a_join(a, b)),
        a_le(a, c) && a_le(b, c) ==> a_le(a_join(a, b), c),
        a_join(a, b) == a_join(b, a),
        a_join(a, a) == a,
        a_le(a, b) <==> a_join(a, b) == b,
        a_wf(a) && a_wf(b) ==> a_wf(a_join(a, b)),
        a_cmp(a, b) == Some(core::cmp::Ordering::Equal) <==> a == b,
        a_cmp(a, b) == Some(core::cmp::Ordering::Less) <==> a_le(a, b) && a != b,
        a_cmp(a, b) == Some(core::cmp::Ordering::Greater) <==> a_le(b, a) && a != b,
        a_cmp(a, b) is None <==> !a_le(a, b) && !a_le(b, a),
{
}

pub proof fn lemma_gamma_mono(sp: Scalar, sp0: nat, a: AOff, b: AOff, s: CState)
    requires a_le(a, b), gamma(sp, sp0, a, s),
    ensures gamma(sp, sp0, b, s),
{
}

/// join is an upper bound for gamma: gamma(a) U gamma(b) is contained in gamma(join(a, b))
pub proof fn lemma_join_gamma(sp: Scalar, sp0: nat, a: AOff, b: AOff, s: CState)
    requires gamma(sp, sp0, a, s) || gamma(sp, sp0, b, s),
    ensures gamma(sp, sp0, a_join(a, b), s),
{
}

// ---------------------------------------------------------------------------------------------
// translations of the stack pointer

/// `e` is the stack pointer plus / minus scalar-free expressions (possibly nested): the only shapes
/// for which the new value of sp is the old one plus a number that does not depend on the store
pub open spec fn is_transl(sp: Scalar, e: Expression) -> bool
    decreases e,
{
    match e {
        Expression::Scalar(s) => s == sp,
        Expression::Add(l, r) => (is_transl(sp, *l) && expr_all_constants(*r)) || (expr_all_constants(*l) && is_transl(sp, *r)),
        Expression::Sub(l, r) => is_transl(sp, *l) && expr_all_constants(*r),
        _ => false,
    }
}

pub proof fn lemma_add_mod_left(x: nat, y: nat, m: nat)
    requires m > 0,
    ensures ((x % m) + y) % m == (x + y) % m,
{
    lemma_fundamental_div_mod(x as int, m as int);
    lemma_mod_multiples_vanish((x / m) as int, (x % m + y) as int, m as int);
    assert((m * (x / m) + (x % m + y)) as int == (x + y) as int);
}

pub proof fn lemma_add_mod_right(x: nat, y: nat, m: nat)
    requires m > 0,
    ensures (x + (y % m)) % m == (x + y) % m,
{
    lemma_add_mod_left(y, x, m);
}

/// (x mod m - k) mod m == (x - k) mod m over the integers
pub proof fn lemma_sub_mod_left(x: int, k: int, m: int)
    requires m > 0,
    ensures ((x % m) - k) % m == (x - k) % m,
{
    lemma_fundamental_div_mod(x, m);
    lemma_mod_multiples_vanish(x / m, (x % m) - k, m);
    assert(m * (x / m) + ((x % m) - k) == x - k);
}

/// the arithmetic of one translation step at width w: shifting the left operand by d shifts the result by d
pub proof fn lemma_shift_add_sub(w: nat, d: nat, a: nat, k: nat)
    ensures
        bv_add(w, a, k) < pow2(w),
        bv_add(w, k, a) < pow2(w),
        bv_sub(w, a, k) < pow2(w),
        bv_add(w, (d + a) % pow2(w), k) == (d + bv_add(w, a, k)) % pow2(w),
        bv_add(w, k, (d + a) % pow2(w)) == (d + bv_add(w, k, a)) % pow2(w),
        bv_sub(w, (d + a) % pow2(w), k) == (d + bv_sub(w, a, k)) % pow2(w),
{
    reveal(bv_add); reveal(bv_sub);
    let m = pow2(w);
    lemma_pow2_pos(w);
    lemma_mod_bound((a + k) as int, m as int);
    lemma_mod_bound((k + a) as int, m as int);
    lemma_mod_bound(a as int - k as int, m as int);
    // add, left operand shifted
    lemma_add_mod_left(d + a, k, m);
    lemma_add_mod_right(d, a + k, m);
    // add, right operand shifted
    lemma_add_mod_right(k, d + a, m);
    lemma_add_mod_right(d, k + a, m);
    // sub
    lemma_sub_mod_left((d + a) as int, k as int, m as int);
    let e = (a as int - k as int) % (m as int);
    lemma_fundamental_div_mod(a as int - k as int, m as int);
    lemma_mod_multiples_vanish((a as int - k as int) / (m as int), d as int + e, m as int);
    assert(m as int * ((a as int - k as int) / (m as int)) + (d as int + e) == d as int + a as int - k as int);
}

/// the two evaluation results are "the same up to a shift by d at width w": values of width w that
/// differ by d modulo 2^w, or the same error
pub open spec fn shift_rel(w: nat, d: nat, a: EvalR, b: EvalR) -> bool {
    match a {
        EvalR::Val(wa, va) => wa == w && va < pow2(w) && b == EvalR::Val(w, (d + va) % pow2(w)),
        _ => b == a,
    }
}

/// KEY FACT: for a translation e of sp, evaluating e in an environment where sp has the value c and in
/// one where sp has the value d + c (mod 2^w) gives results that differ by d (mod 2^w); both evaluations
/// fail together, with the same error.
pub proof fn lemma_transl_eval(sp: Scalar, e: Expression, env1: Env, env2: Env, w: nat, c: nat, d: nat)
    requires
        is_transl(sp, e),
        c < pow2(w),
        env1(sp) == Some((w, c)),
        env2(sp) == Some((w, (d + c) % pow2(w))),
    ensures shift_rel(w, d, eval_spec(e, env1), eval_spec(e, env2)),
    decreases e,
{
    match e {
        Expression::Scalar(s) => {}
        Expression::Add(l, r) => {
            if is_transl(sp, *l) && expr_all_constants(*r) {
                lemma_transl_eval(sp, *l, env1, env2, w, c, d);
                lemma_all_constants_env(*r, env1, env2);
                if let EvalR::Val(wl, a) = eval_spec(*l, env1) {
                    if let EvalR::Val(wr, k) = eval_spec(*r, env1) {
                        lemma_shift_add_sub(w, d, a, k);
                    }
                }
            } else {
                lemma_transl_eval(sp, *r, env1, env2, w, c, d);
                lemma_all_constants_env(*l, env1, env2);
                if let EvalR::Val(wl, k) = eval_spec(*l, env1) {
                    if let EvalR::Val(wr, a) = eval_spec(*r, env1) {
                        lemma_shift_add_sub(w, d, a, k);
                    }
                }
            }
        }
        Expression::Sub(l, r) => {
            lemma_transl_eval(sp, *l, env1, env2, w, c, d);
            lemma_all_constants_env(*r, env1, env2);
            if let EvalR::Val(wl, a) = eval_spec(*l, env1) {
                if let EvalR::Val(wr, k) = eval_spec(*r, env1) {
                    lemma_shift_add_sub(w, d, a, k);
                }
            }
        }
        _ => {}
    }
}

// ---------------------------------------------------------------------------------------------
// the abstract transfer function of one operation, and its local soundness

/// the environment in which only the stack pointer has a value: the offset c of width b
pub open spec fn sp_env(sp: Scalar, b: nat, v: nat) -> Env {
    env_upd(empty_env(), sp, b, v)
}

/// the transfer function (None = the analysis reports an error):
///   assignment to sp of a translation: the offset moves by the translation (error iff the translation has no value);
///   assignment to sp of anything else, load into sp: unknown;
///   everything else: unchanged.   Top stays Top, Bottom (unreachable) stays Bottom.
pub open spec fn handle_abs(sp: Scalar, op: Operation, a: AOff) -> Option<AOff> {
    match op {
        Operation::Assign { dst, src } =>
            if dst == sp {
                match a {
                    AOff::Top => Some(AOff::Top),
                    AOff::Bottom => Some(AOff::Bottom),
                    AOff::Value(b, v) =>
                        if is_transl(sp, src) {
                            match eval_spec(src, sp_env(sp, b, v)) {
                                EvalR::Val(w2, v2) => Some(AOff::Value(w2, v2)),
                                _ => None,
                            }
                        } else { Some(AOff::Top) },
                }
            } else { Some(a) },
        Operation::Load { dst, index } => if dst == sp { Some(AOff::Top) } else { Some(a) },
        _ => Some(a),
    }
}

/// LOCAL SOUNDNESS of going from `a` to `a2` across `op`: every store described by `a` (for whatever
/// entry value sp0) is taken by `op` only to stores described by `a2`
pub open spec fn step_sound(sp: Scalar, op: Operation, a: AOff, a2: AOff) -> bool {
    forall|sp0: nat, s: CState, s2: CState| #![trigger gamma(sp, sp0, a, s), op_step(op, s, s2)]
        gamma(sp, sp0, a, s) && op_step(op, s, s2) ==> gamma(sp, sp0, a2, s2)
}

/// one instance of local soundness of the transfer function
pub proof fn lemma_handle_sound_at(sp: Scalar, op: Operation, a: AOff, sp0: nat, s: CState, s2: CState)
    requires
        sp_exclusive(op, sp), a_wf(a),
        handle_abs(sp, op, a) is Some,
        gamma(sp, sp0, a, s), op_step(op, s, s2),
    ensures gamma(sp, sp0, handle_abs(sp, op, a).unwrap(), s2),
{
    match op {
        Operation::Assign { dst, src } => {
            if dst == sp {
                if let AOff::Value(b, v) = a {
                    if is_transl(sp, src) {
                        lemma_transl_eval(sp, src, sp_env(sp, b, v), cenv(s), b, v, sp0);
                    }
                }
            } else {
                assert(dst.name@ != sp.name@);
            }
        }
        Operation::Load { dst, index } => {
            if dst != sp { assert(dst.name@ != sp.name@); }
        }
        _ => {}
    }
}

/// LOCAL SOUNDNESS of the transfer function, for every operation kind
pub proof fn lemma_handle_sound(sp: Scalar, op: Operation, a: AOff)
    requires sp_exclusive(op, sp), a_wf(a), handle_abs(sp, op, a) is Some,
    ensures step_sound(sp, op, a, handle_abs(sp, op, a).unwrap()),
{
    let a2 = handle_abs(sp, op, a).unwrap();
    assert forall|sp0: nat, s: CState, s2: CState| #![trigger gamma(sp, sp0, a, s), op_step(op, s, s2)]
        gamma(sp, sp0, a, s) && op_step(op, s, s2) implies gamma(sp, sp0, a2, s2) by {
        lemma_handle_sound_at(sp, op, a, sp0, s, s2);
    }
}

/// when the transfer function reports an error, no store described by the input can execute the operation either
pub proof fn lemma_handle_err_stuck(sp: Scalar, op: Operation, a: AOff, sp0: nat, s: CState)
    requires a_wf(a), handle_abs(sp, op, a) is None, gamma(sp, sp0, a, s),
    ensures op_stuck(op, s),
{
    match op {
        Operation::Assign { dst, src } => {
            if let AOff::Value(b, v) = a {
                lemma_transl_eval(sp, src, sp_env(sp, b, v), cenv(s), b, v, sp0);
            }
        }
        _ => {}
    }
}

/// the transfer function keeps abstract values well formed (given that evaluation yields in-range values)
pub proof fn lemma_handle_mono(sp: Scalar, op: Operation, a: AOff, b: AOff)
    requires a_le(a, b), handle_abs(sp, op, a) is Some, handle_abs(sp, op, b) is Some,
    ensures a_le(handle_abs(sp, op, a).unwrap(), handle_abs(sp, op, b).unwrap()),
{
}

/// the signed reading of the offset: sp0 + value and sp0 + sval(value) are the same stack-pointer value mod 2^w
pub proof fn lemma_signed_reading(w: nat, sp0: nat, v: nat)
    requires w >= 1, v < pow2(w),
    ensures ((sp0 + v) % pow2(w)) as int == (sp0 as int + sval(w, v)) % (pow2(w) as int),
{
    lemma_pow2_pos(w);
    if sval(w, v) != v as int {
        lemma_mod_multiples_vanish(-1, (sp0 + v) as int, pow2(w) as int);
        assert(pow2(w) as int * -1 + (sp0 + v) as int == sp0 as int + sval(w, v));
    }
}
