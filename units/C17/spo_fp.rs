// ======================================================================================
// units/C17/spo_fp.rs - PHASE 2: StackPointerOffsetAnalysis implements C09's contracted trait
// `FixedPointAnalysis` (units/C09/fp_trait.rs), `stack_pointer_offsets` is proved against C09's
// engine contract, and the abstract-interpretation lemma L-AI is proved for this instance.
// ======================================================================================

//@ source lib/analysis/stack_pointer_offsets.rs

// derive(Debug) of IntermediateOffset: opaque (the text is never inspected by verified code)
impl vstd::std_specs::fmt::DebugSpecImpl for IntermediateOffset {
    open spec fn fmt_req(&self, f: &std::fmt::Formatter<'_>) -> bool { true }
}
impl std::fmt::Debug for IntermediateOffset {
    #[verifier::external_body]
    fn fmt(&self, f: &mut std::fmt::Formatter<'_>) -> std::fmt::Result { unimplemented!() }
}

/// a lattice element with a given mathematical value (ill-formed values are sent to Top, so the result
/// always satisfies the state invariant)
pub open spec fn conc(a: AOff) -> IntermediateOffset {
    match a {
        AOff::Top => IntermediateOffset::Top,
        AOff::Bottom => IntermediateOffset::Bottom,
        AOff::Value(b, v) => if a_wf(a) { IntermediateOffset::Value(Constant { value: biguint_of(v), bits: b as usize }) } else { IntermediateOffset::Top },
    }
}

pub proof fn lemma_abs_conc(a: AOff)
    ensures io_wf(conc(a)), a_wf(a) ==> abs(conc(a)) == a,
{
    broadcast use axiom_biguint_of;
}

/// the abstract value of trans_spec: the transfer function; an error (never compared, see trans_err) reads as Top
pub open spec fn trans_val(sp: Scalar, f: Function, l: Loc, s: Option<IntermediateOffset>) -> AOff {
    match trans_abs(sp, f, l, opt_abs(s)) { Some(a) => a, None => AOff::Top }
}

/// THE HYPOTHESIS OF THE PROPERTY ("every function whose entry block has no incoming edge"), at the level of
/// locations: the function has an entry location and it has no predecessor
pub open spec fn entry_no_pred(f: Function) -> bool {
    entry_loc(f) matches Some(l0) && forall|p: Loc| !#[trigger] pred(f, l0, p)
}

/// the transfer function is monotone in its input (errors read as Top)
pub proof fn lemma_trans_val_mono(sp: Scalar, f: Function, l: Loc, x1: IntermediateOffset, x2: IntermediateOffset)
    requires a_le(abs(x1), abs(x2)),
    ensures a_le(trans_val(sp, f, l, Some(x1)), trans_val(sp, f, l, Some(x2))),
{
}

impl<'f> FixedPointAnalysis<'f, IntermediateOffset> for StackPointerOffsetAnalysis {
    /// the analysis is set up with a stack pointer of 1..=64 bits and the function's right-hand sides are sane
    open spec fn an_inv(&self, f: Function) -> bool { fn_sane(f) && sp_ok(self.stack_pointer) }
    open spec fn st_inv(&self, s: IntermediateOffset) -> bool { io_wf(s) }
    open spec fn le(&self, a: IntermediateOffset, b: IntermediateOffset) -> bool { a_le(abs(a), abs(b)) }
    open spec fn trans_spec(&self, f: Function, l: Loc, s: Option<IntermediateOffset>) -> IntermediateOffset {
        conc(trans_val(self.stack_pointer, f, l, s))
    }
    /// `trans` fails only where the transfer function has no value (no entry; a translation that has no value, i.e.
    /// every execution is stuck there too) - or the function is not well sorted / the offset has a foreign width
    open spec fn trans_err(&self, f: Function, l: Loc, s: Option<IntermediateOffset>, e: Error) -> bool {
        trans_abs(self.stack_pointer, f, l, opt_abs(s)) is None
            || !(fn_wf(f) && width_ok(self.stack_pointer, opt_abs(s).unwrap_or(AOff::Top)))
    }
    open spec fn join_spec(&self, a: IntermediateOffset, b: IntermediateOffset) -> IntermediateOffset { conc(a_join(abs(a), abs(b))) }
    /// partial_cmp answers Equal exactly for equal lattice elements
    open spec fn cmp_exact(&self) -> bool { true }
    /// monotone on the functions the property is about: forward, and the entry location has no predecessor
    /// (otherwise the seed Value(0) used for "no input yet" is not below trans(entry, Some(x)))
    open spec fn monotone(&self, f: Function, fwd: bool) -> bool { fwd && entry_no_pred(f) }

    proof fn law_partial_cmp() {}
    proof fn law_clone(&self, a: IntermediateOffset, b: IntermediateOffset) {}
    proof fn law_le_refl(&self, a: IntermediateOffset) {}
    proof fn law_le_trans(&self, a: IntermediateOffset, b: IntermediateOffset, c: IntermediateOffset) {}
    proof fn law_join_inv(&self, a: IntermediateOffset, b: IntermediateOffset) { lemma_abs_conc(a_join(abs(a), abs(b))); }
    proof fn law_join_ub(&self, a: IntermediateOffset, b: IntermediateOffset) {
        lemma_abs_conc(a_join(abs(a), abs(b)));
        lemma_lattice(abs(a), abs(b), abs(a));
    }
    proof fn law_join_least(&self, a: IntermediateOffset, b: IntermediateOffset, c: IntermediateOffset) {
        lemma_abs_conc(a_join(abs(a), abs(b)));
        lemma_lattice(abs(a), abs(b), abs(c));
    }
    proof fn law_trans_inv(&self, f: Function, fwd: bool, l: Loc, s: Option<IntermediateOffset>) {
        lemma_abs_conc(trans_val(self.stack_pointer, f, l, s));
    }
    proof fn law_trans_cong(&self, f: Function, fwd: bool, l: Loc, s1: IntermediateOffset, s2: IntermediateOffset) {
        lemma_lattice(abs(s1), abs(s2), abs(s1));
        let t = self.trans_spec(f, l, Some(s1));
        lemma_lattice(abs(t), abs(t), abs(t));
    }
    proof fn law_cmp_exact(&self, new: IntermediateOffset, old: IntermediateOffset) {
        lemma_lattice(abs(new), abs(old), abs(new));
    }
    proof fn law_trans_mono(&self, f: Function, fwd: bool, l: Loc, s1: Option<IntermediateOffset>, s2: Option<IntermediateOffset>) {
        let sp = self.stack_pointer;
        lemma_abs_conc(trans_val(sp, f, l, s1));
        lemma_abs_conc(trans_val(sp, f, l, s2));
        if s1 is None && s2 is Some {
            let p = choose|p: Loc| #[trigger] input_of(f, fwd, l, p);
            assert(pred(f, l, p));
        } else if s1 is Some {
            lemma_trans_val_mono(sp, f, l, s1.unwrap(), s2.unwrap());
        } else {
            lemma_lattice(trans_val(sp, f, l, s1), trans_val(sp, f, l, s1), trans_val(sp, f, l, s1));
        }
    }
    proof fn law_cmp_equal(&self, f: Function, fwd: bool, new: IntermediateOffset, old: IntermediateOffset) {
        lemma_lattice(abs(new), abs(old), abs(new));
    }
    proof fn law_cmp_ascending(&self, f: Function, fwd: bool, new: IntermediateOffset, old: IntermediateOffset) {
        lemma_lattice(abs(new), abs(old), abs(new));
        lemma_lattice(abs(old), abs(new), abs(old));
    }

//@ fn impl<'f> fixed_point::FixedPointAnalysis<'f, IntermediateOffset> for StackPointerOffsetAnalysis :: fn trans nopub
//@ spec
    ensures
        /*@entry_seed*/ (state is None && entry_loc(*location.function) == Some(location.loc())) ==>
            (r matches Ok(a2) ==> trans_abs(self.stack_pointer, *location.function, location.loc(), Some(AOff::Value(self.stack_pointer.bits as nat, 0))) == Some(abs(a2))),
        /*@other_seed*/ (state is None && entry_loc(*location.function) is Some && entry_loc(*location.function) != Some(location.loc())) ==>
            (r matches Ok(a2) ==> trans_abs(self.stack_pointer, *location.function, location.loc(), Some(AOff::Top)) == Some(abs(a2))),
        /*@spec*/ r matches Ok(a2) ==> trans_abs(self.stack_pointer, *location.function, location.loc(), opt_abs(state)) == Some(abs(a2)) && io_wf(a2),
        /*@no_entry*/ (state is None && entry_loc(*location.function) is None) ==> r is Err,
        /*@completes*/ (fn_wf(*location.function) && width_ok(self.stack_pointer, opt_abs(state).unwrap_or(AOff::Top)))
            ==> (r is Err ==> trans_abs(self.stack_pointer, *location.function, location.loc(), opt_abs(state)) is None),
//@ enter
    proof {
        lemma_loc_op(location);
        lemma_abs_conc(trans_val(self.stack_pointer, *location.function, location.loc(), state));
    }
//@ after 0 `.ok_or("Unable to get function entry")??;`
    proof { lemma_rpl_eq(location, function_entry); }
//@ end

//@ fn impl<'f> fixed_point::FixedPointAnalysis<'f, IntermediateOffset> for StackPointerOffsetAnalysis :: fn join nopub
//@ spec
    ensures
        /*@total*/ r is Ok,
        /*@upper_bound*/ r matches Ok(j) ==> gamma_ub(abs(state0), abs(*state1), abs(j)),
        /*@le_consistent*/ r matches Ok(j) ==> a_le(abs(state0), abs(j)) && a_le(abs(*state1), abs(j)),
        /*@least*/ r matches Ok(j) ==> abs(j) == a_join(abs(state0), abs(*state1)),
        /*@wf*/ r matches Ok(j) && io_wf(j),
//@ enter
    proof { lemma_abs_conc(a_join(abs(state0), abs(*state1))); }
//@ end

} // impl FixedPointAnalysis for StackPointerOffsetAnalysis

// ---- stack_pointer_offsets ----------------------------------------------------------------------------

/// the analysis value `stack_pointer_offsets` builds for a stack pointer `sp`
pub open spec fn spo_analysis(sp: Scalar) -> StackPointerOffsetAnalysis {
    StackPointerOffsetAnalysis { stack_pointer: sp }
}

/// `st` is a SOLUTION of the stack-pointer data-flow equations of `f` (C09's vocabulary): it has a state exactly
/// on the forward closure of the entry location, every state satisfies the state invariant, the state of every
/// location is the transfer function applied to the join of the states of its predecessors; on the functions
/// the property is about it is moreover the least such map
pub open spec fn spo_solution(sp: Scalar, f: Function, st: LMap<IntermediateOffset>) -> bool {
    let a = spo_analysis(sp);
    &&& solution_domain(f, true, st)
    &&& lm_inv(&a, st)
    &&& solution_eqs(&a, f, true, st)
    &&& (entry_no_pred(f) ==> solution_least(&a, f, true, st))
}

/// what `stack_pointer_offsets` returns on success: the signed reading of a solution of the equations
pub open spec fn spo_result(sp: Scalar, f: Function, mo: vstd::map::Map<il::ProgramLocation, StackPointerOffset>) -> bool {
    exists|mi: vstd::map::Map<il::ProgramLocation, IntermediateOffset>| #![trigger conv_map(mi, mo)]
        fkeys_ok(mi, f) && spo_solution(sp, f, fview(mi, f)) && conv_map(mi, mo)
}

/// the errors `stack_pointer_offsets` may return: the solver's (no entry / step budget / `trans` failed / - only when
/// the entry location has a predecessor - an ordering violation), or - again only when the entry location has a
/// predecessor - the conversion's (an offset wider than 64 bits)
pub open spec fn spo_error(sp: Scalar, f: Function, e: Error) -> bool {
    fp_error(&spo_analysis(sp), f, true, false, e) || (!entry_no_pred(f) && e is Analysis)
}

//@ fn fn stack_pointer_offsets
//@ rewrite 1 `transform(fixed_point::fixed_point_forward(spoa, function)?)` => `let vf_states = fixed_point::fixed_point_forward(spoa, function)?; transform(vf_states)` ## R-let-arg: binds the argument of the call to a name first (same evaluation order, same `?`), so that a ghost block can sit between the two calls
//@ spec
    requires function.function_wf(), fn_sane(*function), sp_ok(architecture.sp_spec()),
    ensures
        /*@solution*/ r matches Ok(m) ==> spo_result(architecture.sp_spec(), *function, m@),
        /*@no_entry*/ function.control_flow_graph.entry is None ==> r is Err,
        /*@errors*/ r matches Err(e) ==> spo_error(architecture.sp_spec(), *function, e),
//@ before 0 `transform(vf_states)`
    proof {
        let f = *function;
        let a = spo_analysis(architecture.sp_spec());
        assert(spoa == a);
        let st = fview(vf_states@, f);
        assert forall|k: il::ProgramLocation| #[trigger] vf_states@.contains_key(k) implies io_wf(vf_states@[k]) by {
            super::fixed_point_engine::lemma_ploc_of(f, k);
            assert(opt_inv(&a, st(fl_loc(k.function_location))));
        }
        assert(spo_solution(architecture.sp_spec(), f, st));
        if entry_no_pred(f) {
            // every numeric offset has the stack pointer's width (at most 64 bits): the conversion cannot fail
            lemma_solution_widths(architecture.sp_spec(), f, st);
            assert forall|k: il::ProgramLocation| #[trigger] vf_states@.contains_key(k) implies reported(vf_states@[k]) is Some by {
                super::fixed_point_engine::lemma_ploc_of(f, k);
                assert(st(fl_loc(k.function_location)) is Some);
                assert(width_good(architecture.sp_spec(), st, fl_loc(k.function_location)));
            }
        }
    }
//@ end
