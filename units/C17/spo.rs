// placeholder
