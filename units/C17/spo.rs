// ======================================================================================
// units/C17/spo.rs - lib/analysis/stack_pointer_offsets.rs under contract (REAL text, extracted).
// The mathematics (AOff, gamma, a_le / a_join / a_cmp, is_transl, handle_abs, step_sound and the
// soundness lemmas) is in units/C17/spo_theory.rs; this file ties the code to it.
// ======================================================================================

//@ source lib/analysis/stack_pointer_offsets.rs
//@ item enum StackPointerOffset
//@ item enum IntermediateOffset
//@ item struct StackPointerOffsetAnalysis

/// the mathematical value of the analysis' lattice element
pub open spec fn abs(o: IntermediateOffset) -> AOff {
    match o {
        IntermediateOffset::Top => AOff::Top,
        IntermediateOffset::Value(c) => AOff::Value(c.bits as nat, c.value@),
        IntermediateOffset::Bottom => AOff::Bottom,
    }
}

/// data invariant of a lattice element: the constant satisfies il::Constant's invariant
pub open spec fn io_wf(o: IntermediateOffset) -> bool {
    o matches IntermediateOffset::Value(c) ==> c.wf()
}

pub proof fn lemma_io_wf(o: IntermediateOffset)
    requires io_wf(o),
    ensures a_wf(abs(o)),
{
}

// derive(Clone, PartialEq, Eq, Debug) of IntermediateOffset re-supplied.  ASSUMED (derive = structural
// copy / structural equality; Constant equality is equality of width and mathematical value).
impl Clone for IntermediateOffset {
    #[verifier::external_body]
    fn clone(&self) -> (r: IntermediateOffset) ensures r == *self { unimplemented!() }
}
impl vstd::std_specs::cmp::PartialEqSpecImpl for IntermediateOffset {
    open spec fn obeys_eq_spec() -> bool { true }
    open spec fn eq_spec(&self, other: &IntermediateOffset) -> bool { abs(*self) == abs(*other) }
}
impl PartialEq for IntermediateOffset {
    #[verifier::external_body]
    fn eq(&self, other: &IntermediateOffset) -> (r: bool) ensures r == (abs(*self) == abs(*other)) { unimplemented!() }
}
impl Eq for IntermediateOffset {}

// ---- the order ---------------------------------------------------------------------------------
impl vstd::std_specs::cmp::PartialOrdSpecImpl for IntermediateOffset {
    open spec fn obeys_partial_cmp_spec() -> bool { true }
    open spec fn partial_cmp_spec(&self, other: &IntermediateOffset) -> Option<core::cmp::Ordering> { a_cmp(abs(*self), abs(*other)) }
}
impl PartialOrd for IntermediateOffset {
//@ fn impl PartialOrd for IntermediateOffset :: fn partial_cmp nopub
//@ spec
    ensures /*@order*/ r == a_cmp(abs(*self), abs(*other)),
//@ end
}

// ---- the public result type ----------------------------------------------------------------------
impl StackPointerOffset {
//@ fn impl StackPointerOffset :: fn is_top
//@ spec
    ensures /*@iff*/ r == (*self is Top),
//@ end
//@ fn impl StackPointerOffset :: fn is_value
//@ spec
    ensures /*@iff*/ r == (*self is Value),
//@ end
//@ fn impl StackPointerOffset :: fn is_bottom
//@ spec
    ensures /*@iff*/ r == (*self is Bottom),
//@ end
//@ fn impl StackPointerOffset :: fn value
//@ spec
    ensures
        /*@value*/ *self matches StackPointerOffset::Value(k) ==> r == Some(k),
        /*@other*/ !(*self is Value) ==> r is None,
//@ end
}

/// THE REPORTED OFFSET (from the property): the constant read as a SIGNED quantity of its own width;
/// None = the analysis reports an error (a constant wider than 64 bits has no i64 reading)
pub open spec fn reported(o: IntermediateOffset) -> Option<StackPointerOffset> {
    match o {
        IntermediateOffset::Top => Some(StackPointerOffset::Top),
        IntermediateOffset::Bottom => Some(StackPointerOffset::Bottom),
        IntermediateOffset::Value(c) => if c.bits <= 64 { Some(StackPointerOffset::Value(sval(c.bits as nat, c.value@) as isize)) } else { None },
    }
}

/// the signed reading at a width that fits the machine word is representable (so the cast in `reported` is exact)
pub proof fn lemma_reported_fits(w: nat, v: nat)
    requires 1 <= w <= 64, w <= usize::BITS, v < pow2(w),
    ensures isize::MIN <= sval(w, v) <= isize::MAX,
{
    lemma_sval_range(w, v);
    lemma2_to64();
    lemma_pow2_step(63);
    if w - 1 < 31 { lemma_pow2_strictly_increases((w - 1) as nat, 31); }
    if w - 1 < 63 { lemma_pow2_strictly_increases((w - 1) as nat, 63); }
    lemma_pow2_step(31);
}

impl StackPointerOffset {
//@ fn impl StackPointerOffset :: fn from_intermediate
//@ closure 0 || -> (e0: Error)
    ensures e0 is Analysis,
//@ spec
    requires io_wf(*intermediate),
    ensures
        /*@top*/ *intermediate is Top ==> r == Ok::<StackPointerOffset, Error>(StackPointerOffset::Top),
        /*@bottom*/ *intermediate is Bottom ==> r == Ok::<StackPointerOffset, Error>(StackPointerOffset::Bottom),
        /*@signed*/ *intermediate matches IntermediateOffset::Value(c) ==> (c.bits <= 64 ==> (r matches Ok(StackPointerOffset::Value(k))
            && (c.bits as nat <= usize::BITS ==> k as int == sval(c.bits as nat, c.value@)))),
        /*@wide*/ *intermediate matches IntermediateOffset::Value(c) ==> (c.bits > 64 ==> r is Err),
        /*@err_kind*/ r matches Err(e) ==> e is Analysis,
        /*@spec*/ usize::BITS == 64 ==> (match reported(*intermediate) { Some(x) => r == Ok::<StackPointerOffset, Error>(x), None => r is Err }),
//@ enter
    proof {
        if *intermediate is Value {
            let c = intermediate->Value_0;
            if c.bits <= 64 && c.bits as nat <= usize::BITS { lemma_reported_fits(c.bits as nat, c.value@); }
        }
    }
//@ end
}

// ---- transform: every entry is converted ------------------------------------------------------------
/// the reported map is the entry-wise SIGNED READING of the intermediate map (64-bit host: isize is i64)
pub open spec fn conv_map(mi: vstd::map::Map<il::ProgramLocation, IntermediateOffset>, mo: vstd::map::Map<il::ProgramLocation, StackPointerOffset>) -> bool {
    &&& mo.dom() =~= mi.dom()
    &&& forall|k: il::ProgramLocation| #[trigger] mi.contains_key(k) ==> (usize::BITS == 64 ==> reported(mi[k]) == Some(mo[k]))
}

//@ fn fn transform loops=1
//@ rewrite 1 `states .into_iter() .try_fold(HashMap::new(), |mut t, (rpl, ispo)| {` => `let mut t: HashMap<il::ProgramLocation, StackPointerOffset> = HashMap::new(); let vf_items = hashmap_into_items::hashmap_into_items(states); for vf_item in vf_it: vf_items { let (rpl, ispo) = vf_item; {` ## R-tryfold: `ITER.try_fold(INIT, |mut acc, x| { BODY; Ok(acc) })` is by definition the loop `let mut acc = INIT; for x in ITER { BODY }; Ok(acc)` whose `?` leaves with the error (part 1 of 2; BODY stays the original tokens); `states.into_iter()` is taken through the stand-in of prelude/hashmap_into_items.rs (every entry once, order unspecified)
//@ rewrite 1 `Ok(t) })` => `} } Ok(t)` ## R-tryfold: part 2 of 2
//@ spec
    requires forall|k: il::ProgramLocation| #[trigger] states@.contains_key(k) ==> io_wf(states@[k]),
    ensures
        /*@domain*/ r matches Ok(t) ==> t@.dom() =~= states@.dom(),
        /*@entries*/ r matches Ok(t) ==> conv_map(states@, t@),
        /*@err*/ r matches Err(e) ==> e is Analysis && exists|k: il::ProgramLocation| #[trigger] states@.contains_key(k) && reported(states@[k]) is None,
//@ before 0 `let mut t`
    let ghost m0 = states@;
//@ loop 0
    invariant
        m0 == states@,
        hashmap_into_items::lists_entries(vf_items@, m0),
        vf_it.seq() == vf_items@,
        forall|k: il::ProgramLocation| #[trigger] m0.contains_key(k) ==> io_wf(m0[k]),
        forall|k: il::ProgramLocation| #[trigger] t@.contains_key(k) <==> (exists|i: int| 0 <= i < vf_it.index@ && (#[trigger] vf_items@[i]).0 == k),
        forall|i: int| 0 <= i < vf_it.index@ ==> (usize::BITS == 64 ==> reported((#[trigger] vf_items@[i]).1) == Some(t@[vf_items@[i].0])),
//@ before 0 `t.insert(`
    proof {
        assert(vf_items@[vf_it.index@] == (rpl, ispo));
        assert(m0.contains_key(rpl) && m0[rpl] == ispo);
    }
//@ end

// ---- the analysis ------------------------------------------------------------------------------------

/// the stack pointer scalar the analysis is run with: a width for which an offset has an i64 reading
pub open spec fn sp_ok(sp: Scalar) -> bool {
    1 <= sp.bits <= 64
}

/// the operation's expressions are sane (constants satisfy their invariant, explicit widths in range):
/// what the evaluator needs in order not to allocate without bound
pub open spec fn op_sane(op: Operation) -> bool {
    op matches Operation::Assign { dst, src } ==> expr_sane(src)
}

/// the operation's right-hand side is well sorted (the width rules the Expression constructors enforce)
pub open spec fn op_wf(op: Operation) -> bool {
    op matches Operation::Assign { dst, src } ==> expr_wf(src)
}

/// a numeric offset has the stack pointer's width
pub open spec fn width_ok(sp: Scalar, a: AOff) -> bool {
    a matches AOff::Value(b, v) ==> b == sp.bits as nat
}

pub open spec fn is_assign_to(op: Operation, sp: Scalar) -> bool {
    op matches Operation::Assign { dst, src } && dst == sp
}
pub open spec fn assign_src(op: Operation) -> Expression {
    op->Assign_src
}
pub open spec fn is_load_to(op: Operation, sp: Scalar) -> bool {
    op matches Operation::Load { dst, index } && dst == sp
}

/// substituting a constant for a scalar keeps an expression sane
pub proof fn lemma_replace_sane(e: Expression, sp: Scalar, c: Constant)
    requires expr_sane(e), c.wf(), replace_spec(e, sp, Expression::Constant(c)) is Some,
    ensures expr_sane(replace_spec(e, sp, Expression::Constant(c)).unwrap()),
    decreases e,
{
    let g = repl_g(sp, Expression::Constant(c));
    if g(e) is Some {
    } else {
        match e {
            Expression::Scalar(x) => {}
            Expression::Constant(k) => {}
            Expression::Add(l, r) | Expression::Sub(l, r) | Expression::Mul(l, r) | Expression::Divu(l, r)
            | Expression::Modu(l, r) | Expression::Divs(l, r) | Expression::Mods(l, r) | Expression::And(l, r)
            | Expression::Or(l, r) | Expression::Xor(l, r) | Expression::Shl(l, r) | Expression::Shr(l, r)
            | Expression::AShr(l, r) | Expression::Cmpeq(l, r) | Expression::Cmpneq(l, r) | Expression::Cmplts(l, r)
            | Expression::Cmpltu(l, r) => { lemma_replace_sane(*l, sp, c); lemma_replace_sane(*r, sp, c); }
            Expression::Zext(b, x) | Expression::Sext(b, x) | Expression::Trun(b, x) => { lemma_replace_sane(*x, sp, c); }
            Expression::Ite(k, t, f) => { lemma_replace_sane(*k, sp, c); lemma_replace_sane(*t, sp, c); lemma_replace_sane(*f, sp, c); }
        }
    }
}

/// on a well-sorted translation, substituting a constant of the stack pointer's width cannot fail
pub proof fn lemma_replace_total(e: Expression, sp: Scalar, c: Constant)
    requires expr_wf(e), is_transl(sp, e), c.bits == sp.bits,
    ensures replace_spec(e, sp, Expression::Constant(c)) matches Some(e2) && expr_bits(e2) == expr_bits(e),
    decreases e,
{
    match e {
        Expression::Add(l, r) => {
            if is_transl(sp, *l) && expr_all_constants(*r) { lemma_replace_total(*l, sp, c); lemma_replace_const(*r, sp, Expression::Constant(c)); }
            else { lemma_replace_total(*r, sp, c); lemma_replace_const(*l, sp, Expression::Constant(c)); }
        }
        Expression::Sub(l, r) => { lemma_replace_total(*l, sp, c); lemma_replace_const(*r, sp, Expression::Constant(c)); }
        _ => {}
    }
}

/// substitution does not touch a scalar-free well-sorted expression
pub proof fn lemma_replace_const(e: Expression, sp: Scalar, v: Expression)
    requires expr_wf(e), expr_all_constants(e),
    ensures replace_spec(e, sp, v) == Some(e),
    decreases e,
{
    match e {
        Expression::Scalar(x) => {}
        Expression::Constant(k) => {}
        Expression::Add(l, r) | Expression::Sub(l, r) | Expression::Mul(l, r) | Expression::Divu(l, r)
        | Expression::Modu(l, r) | Expression::Divs(l, r) | Expression::Mods(l, r) | Expression::And(l, r)
        | Expression::Or(l, r) | Expression::Xor(l, r) | Expression::Shl(l, r) | Expression::Shr(l, r)
        | Expression::AShr(l, r) | Expression::Cmpeq(l, r) | Expression::Cmpneq(l, r) | Expression::Cmplts(l, r)
        | Expression::Cmpltu(l, r) => { lemma_replace_const(*l, sp, v); lemma_replace_const(*r, sp, v); }
        Expression::Zext(b, x) | Expression::Sext(b, x) | Expression::Trun(b, x) => { lemma_replace_const(*x, sp, v); lemma_expr_wf_bits(*x); }
        Expression::Ite(k, t, f) => { lemma_replace_const(*k, sp, v); lemma_replace_const(*t, sp, v); lemma_replace_const(*f, sp, v); }
    }
}

/// the expression handle_operation evaluates: the right-hand side with the current offset substituted for sp
pub open spec fn subst_of(op: Operation, sp: Scalar, off: IntermediateOffset) -> Option<Expression> {
    replace_spec(assign_src(op), sp, Expression::Constant(off->Value_0))
}

/// everything handle_operation's contract needs about one (operation, input) pair, proved at spec level:
/// the transfer function is locally sound, and what the substitute-and-evaluate step computes is the
/// transfer function's value
pub proof fn lemma_handle_facts(sp: Scalar, op: Operation, off: IntermediateOffset)
    requires io_wf(off),
    ensures
        a_wf(abs(off)),
        sp_exclusive(op, sp) ==> (handle_abs(sp, op, abs(off)) matches Some(a2) ==> step_sound(sp, op, abs(off), a2)),
        (is_assign_to(op, sp) && off is Value && subst_of(op, sp, off) is Some) ==>
            eval_spec(subst_of(op, sp, off).unwrap(), empty_env())
                == eval_spec(assign_src(op), sp_env(sp, (off->Value_0).bits as nat, (off->Value_0).value@)),
        (is_assign_to(op, sp) && op_sane(op) && off is Value && subst_of(op, sp, off) is Some) ==>
            expr_sane(subst_of(op, sp, off).unwrap()),
{
    if sp_exclusive(op, sp) && handle_abs(sp, op, abs(off)) is Some {
        lemma_handle_sound(sp, op, abs(off));
    }
    if is_assign_to(op, sp) {
        if let IntermediateOffset::Value(c) = off {
            let src = assign_src(op);
            if replace_spec(src, sp, Expression::Constant(c)) is Some {
                lemma_subst_eval(src, sp, Expression::Constant(c), empty_env(), c.bits as nat, c.value@);
                if op_sane(op) { lemma_replace_sane(src, sp, c); }
            }
        }
    }
}

impl StackPointerOffsetAnalysis {

//@ fn impl StackPointerOffsetAnalysis :: fn handle_operation
//@ spec
    requires io_wf(stack_pointer_offset), op_sane(*operation),
    ensures
        // LOCAL SOUNDNESS, per operation kind (PROVISO sp_exclusive: see spo_theory.rs)
        /*@sound_translation*/ (is_assign_to(*operation, self.stack_pointer) && is_transl(self.stack_pointer, assign_src(*operation)) && sp_exclusive(*operation, self.stack_pointer))
            ==> (r matches Ok(a2) ==> step_sound(self.stack_pointer, *operation, abs(stack_pointer_offset), abs(a2))),
        /*@sound_nontranslation*/ (is_assign_to(*operation, self.stack_pointer) && !is_transl(self.stack_pointer, assign_src(*operation)) && sp_exclusive(*operation, self.stack_pointer))
            ==> (r matches Ok(a2) ==> step_sound(self.stack_pointer, *operation, abs(stack_pointer_offset), abs(a2))),
        /*@sound_load*/ (*operation is Load && sp_exclusive(*operation, self.stack_pointer))
            ==> (r matches Ok(a2) ==> step_sound(self.stack_pointer, *operation, abs(stack_pointer_offset), abs(a2))),
        /*@sound_other*/ (!is_assign_to(*operation, self.stack_pointer) && !(*operation is Load) && sp_exclusive(*operation, self.stack_pointer))
            ==> (r matches Ok(a2) ==> step_sound(self.stack_pointer, *operation, abs(stack_pointer_offset), abs(a2))),
        // "where the stack pointer is loaded or computed from other registers it reports 'unknown' rather than a number"
        /*@unknown_load*/ is_load_to(*operation, self.stack_pointer) ==> (r matches Ok(a2) && abs(a2) is Top),
        /*@unknown_nontranslation*/ (is_assign_to(*operation, self.stack_pointer) && !is_transl(self.stack_pointer, assign_src(*operation)) && stack_pointer_offset is Value)
            ==> (r matches Ok(a2) && abs(a2) is Top),
        // exact value and exact error condition
        /*@spec*/ r matches Ok(a2) ==> handle_abs(self.stack_pointer, *operation, abs(stack_pointer_offset)) == Some(abs(a2)) && io_wf(a2),
        /*@completes*/ (op_wf(*operation) && width_ok(self.stack_pointer, abs(stack_pointer_offset)))
            ==> (r is Err ==> handle_abs(self.stack_pointer, *operation, abs(stack_pointer_offset)) is None),
//@ enter
    proof {
        lemma_handle_facts(self.stack_pointer, *operation, stack_pointer_offset);
        if is_assign_to(*operation, self.stack_pointer) && is_transl(self.stack_pointer, assign_src(*operation)) && expr_wf(assign_src(*operation)) {
            if stack_pointer_offset is Value {
                let c = stack_pointer_offset->Value_0;
                if c.bits == self.stack_pointer.bits { lemma_replace_total(assign_src(*operation), self.stack_pointer, c); }
            }
        }
    }
//@ end

} // impl StackPointerOffsetAnalysis

// ---- join ------------------------------------------------------------------------------------------------

/// join is an upper bound for the concretisation
pub open spec fn gamma_ub(a: AOff, b: AOff, j: AOff) -> bool {
    forall|sp: Scalar, sp0: nat, s: CState| #![trigger gamma(sp, sp0, j, s)]
        gamma(sp, sp0, a, s) || gamma(sp, sp0, b, s) ==> gamma(sp, sp0, j, s)
}


// ---- trans ---------------------------------------------------------------------------------------------

/// the instruction of `f` at block `b`, instruction index `i`
pub open spec fn instr_of(f: Function, b: usize, i: usize) -> Instruction {
    let blk = f.control_flow_graph.blocks_view()[b];
    blk.instructions@[choose|p: int| instr_at(blk, p, i)]
}

/// the operation a location executes (edges and empty blocks execute nothing)
pub open spec fn loc_op(f: Function, l: Loc) -> Option<Operation> {
    match l {
        Loc::Instruction(b, i) => Some(instr_of(f, b, i).operation),
        _ => None,
    }
}

/// every right-hand side in the function is sane (see op_sane)
pub open spec fn fn_sane(f: Function) -> bool {
    forall|b: usize, p: int| #![trigger f.control_flow_graph.blocks_view()[b].instructions@[p]]
        f.control_flow_graph.has_block(b) && 0 <= p < f.control_flow_graph.blocks_view()[b].instructions@.len()
            ==> op_sane(f.control_flow_graph.blocks_view()[b].instructions@[p].operation)
}

/// every right-hand side in the function is well sorted (see op_wf)
pub open spec fn fn_wf(f: Function) -> bool {
    forall|b: usize, p: int| #![trigger f.control_flow_graph.blocks_view()[b].instructions@[p]]
        f.control_flow_graph.has_block(b) && 0 <= p < f.control_flow_graph.blocks_view()[b].instructions@.len()
            ==> op_wf(f.control_flow_graph.blocks_view()[b].instructions@[p].operation)
}

/// the abstract value the analysis starts from when a location has no incoming information:
/// a ZERO OF THE STACK POINTER'S WIDTH at the function entry, unknown elsewhere (None: the function has no entry)
pub open spec fn seed_abs(sp: Scalar, f: Function, l: Loc) -> Option<AOff> {
    if entry_loc(f) is None { None } else if entry_loc(f) == Some(l) { Some(AOff::Value(sp.bits as nat, 0)) } else { Some(AOff::Top) }
}

/// the transfer function of a location (None = error)
pub open spec fn trans_abs(sp: Scalar, f: Function, l: Loc, s: Option<AOff>) -> Option<AOff> {
    let input = match s { Some(a) => Some(a), None => seed_abs(sp, f, l) };
    match input {
        None => None,
        Some(a) => match loc_op(f, l) {
            Some(op) => handle_abs(sp, op, a),
            None => Some(a),
        },
    }
}

pub open spec fn opt_abs(s: Option<IntermediateOffset>) -> Option<AOff> {
    match s { Some(x) => Some(abs(x)), None => None }
}

/// a borrowed instruction location of a well-formed function executes the operation `loc_op` names
pub proof fn lemma_loc_op(x: RefProgramLocation)
    requires x.rpl_wf(),
    ensures
        x.function_location matches RefFunctionLocation::Instruction(b, ins) ==> loc_op(*x.function, x.loc()) == Some(ins.operation),
        !(x.function_location is Instruction) ==> loc_op(*x.function, x.loc()) is None,
        fn_sane(*x.function) ==> (x.function_location matches RefFunctionLocation::Instruction(b, ins) ==> op_sane(ins.operation)),
        fn_wf(*x.function) ==> (x.function_location matches RefFunctionLocation::Instruction(b, ins) ==> op_wf(ins.operation)),
{
    let f = *x.function;
    match x.function_location {
        RefFunctionLocation::Instruction(b, ins) => {
            let blk = f.control_flow_graph.blocks_view()[b.index];
            assert(blk == *b);
            assert(blk.block_wf());
            let p = choose|p: int| 0 <= p < b.instructions@.len() && #[trigger] b.instructions@[p] == *ins;
            assert(instr_at(blk, p, ins.index));
            let q = choose|q: int| instr_at(blk, q, ins.index);
            if p < q { assert(blk.instructions@[p].index != blk.instructions@[q].index); }
            if q < p { assert(blk.instructions@[q].index != blk.instructions@[p].index); }
            assert(f.control_flow_graph.blocks_view()[b.index].instructions@[p] == *ins);
        }
        _ => {}
    }
}

/// two borrowed locations of the same well-formed function are equal iff they denote the same abstract location
pub proof fn lemma_rpl_eq(x: RefProgramLocation, y: RefProgramLocation)
    requires x.rpl_wf(), y.rpl_wf(), *x.function == *y.function,
    ensures (x == y) <==> (x.loc() == y.loc()),
{
    if x.loc() == y.loc() {
        lemma_rfl_in_unique(*x.function, x.function_location, y.function_location);
    }
}

