// Unit C17, VARIANT for a tree WITHOUT candidate fix 3 (units/C17/proposed_fix_3.diff): identical to units/C17/unit.rs except that
// the helper `is_translation` (introduced by fix 3) is not extracted.  Purpose: show the named obligations of the three defects
// FAILING on the current code (`mkdir -p $OUT/build/C17 && VERIF_OUT=$OUT ./check C17/nofix3`), see units/C17/nofix3/meta.json.
// Generated file = this template + the real text of the items named in the `//@` holes.
#![feature(allocator_api)]
#![allow(unused_imports, unused_variables, dead_code, unused_mut, non_snake_case, unused_parens, unused_braces, deprecated)]
use vstd::prelude::*;
use vstd::arithmetic::power2::*;
use vstd::arithmetic::div_mod::*;
use vstd::arithmetic::mul::*;
use std::ops::*;
use std::cmp;
use std::cmp::Ordering;
use std::collections::{BTreeMap, BTreeSet, VecDeque};
use std::fmt;
use std::rc::Rc;

verus! {

//@ include spec/bv.rs
//@ include prelude/bigint.rs
//@ include prelude/error.rs
//@ include prelude/fxhash.rs
//@ include prelude/stdcoll.rs
//@ include prelude/rc_asref.rs
//@ include prelude/location_hash.rs
//@ include prelude/fmt_option.rs
//@ include prelude/hashmap_into_items.rs
//@ include units/C11/error_from.rs
//@ mode contracts-only C15
//@ include units/C15/error_from_string.rs
//@ mode full

// falcon::RC (default build, feature "thread_safe" off): the real alias, extracted
//@ item lib/lib.rs :: type RC#0

pub mod graph {
use super::*;
use vstd::std_specs::iter::IteratorSpec;
use rustc_hash::{FxHashMap, FxHashSet};
broadcast use {rustc_hash::axiom_fx_builds_valid_hashers, stdcoll::axiom_btreemap_index_req, stdcoll::axiom_hashmap_index_req, stdcoll::axiom_usize_pair_obeys_key_model};
//@ mode contracts-only C11
//@ include units/C11/graph_core.rs
//@ mode full
proof fn vf_canary_graph() ensures false {}
} // mod graph

pub mod il {
use super::*;
use vstd::std_specs::iter::IteratorSpec;
//@ mode contracts-only C15
//@ include units/C15/il_core.rs
//@ mode contracts-only C18
//@ include units/C18/loc_core.rs
//@ include units/C18/loc_proofs.rs
//@ mode contracts-only C04
//@ include units/C04/builders.rs
//@ mode full
// il functions the analysis calls that no other unit has under contract (proved HERE)
//@ include units/C17/il_extra.rs
proof fn vf_canary_il() ensures false {}
} // mod il

// scalar substitution (C04); its own module because subst.rs hoists falcon's nested `struct Map<F>`,
// which would shadow vstd's `Map` inside `mod il`
pub mod il_subst {
use super::*;
use super::il::*;
//@ mode contracts-only C04
//@ include units/C04/subst.rs
//@ mode full
} // mod il_subst

pub mod executor {
use super::*;
use super::il::*;
//@ mode contracts-only C04
//@ include units/C04/eval.rs
//@ mode full
} // mod executor

// C09: the trait contract + the abstract data-flow theory (no axioms, no broadcast use)
pub mod fixed_point {
use super::*;
use super::il::*;
use std::collections::HashMap;
use std::fmt::Debug;
//@ include units/C09/fp_trait.rs
//@ include units/C09/fp_theory.rs
// in the crate the solver lives in the same module as the trait (analysis::fixed_point); C09 keeps it in a
// module of its own (key-model axioms in scope there only), re-exported here under the crate's path
pub use super::fixed_point_engine::fixed_point_forward;
proof fn vf_canary_fixed_point() ensures false {}
} // mod fixed_point

// C09: the forward solver, contract imported
pub mod fixed_point_engine {
use super::*;
use super::il::*;
use super::fixed_point::*;
use std::collections::HashMap;
use std::fmt::Debug;
//@ mode contracts-only C09
//@ include units/C09/fp_engine.rs
//@ mode full
proof fn vf_canary_fixed_point_engine() ensures false {}
} // mod fixed_point_engine

// stand-in for trait architecture::Architecture (lib/architecture.rs): only `stack_pointer` is used
pub mod architecture {
use super::*;
use super::il::*;
//@ include units/C17/arch_standin.rs
} // mod architecture

// the concrete semantics the property talks about, the concretisation, the arithmetic of translations
pub mod spo_theory {
use super::*;
use super::il::*;
use super::il_subst::{replace_spec, repl_g, map_spec, map_result, env_upd, lemma_subst_eval};
//@ include units/C17/spo_theory.rs
proof fn vf_canary_spo_theory() ensures false {}
} // mod spo_theory

pub mod stack_pointer_offsets {
use super::*;
use super::il;
use super::il::*;
use super::il_subst::{replace_spec, repl_g, map_spec, map_result, env_upd, lemma_subst_eval};
use super::executor::eval;
use super::spo_theory::*;
use super::fixed_point;
use super::fixed_point::*;
use super::fixed_point_engine::{fview, fkeys_ok, ploc, lemma_ploc_inj, lemma_ploc_of};
use super::architecture::Architecture;
use std::collections::HashMap;
use std::fmt::Debug;
broadcast use {location_hash::axiom_program_location_obeys_key_model};
//@ include units/C17/spo.rs
//@ include units/C17/spo_fp.rs
//@ include units/C17/spo_lai.rs
proof fn vf_canary_stack_pointer_offsets() ensures false {}
} // mod stack_pointer_offsets

proof fn vf_canary_root() ensures false {}

} // verus!

fn main() {}
