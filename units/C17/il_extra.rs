// ======================================================================================
// units/C17/il_extra.rs - il functions the stack-pointer analysis calls which no other unit has
// under contract: Constant::value_i64 (used by the candidate fix for defect (ii)).
// REAL text, extracted; proved in THIS unit.
// To be included inside `pub mod il` after C04's constant.rs / expression.rs.
// ======================================================================================

// derive(PartialEq), derive(Eq), derive(Debug) of il::Constant { value: BigUint, bits: usize }:
// compiler-generated structural equality (`value == value && bits == bits`; BigUint equality is equality
// of the mathematical value, prelude/bigint.rs).  ASSUMED (derive = structural), same text as units/C08/il_glue.rs.
impl vstd::std_specs::cmp::PartialEqSpecImpl for Constant {
    open spec fn obeys_eq_spec() -> bool { true }
    open spec fn eq_spec(&self, other: &Constant) -> bool { self.bits == other.bits && self.value@ == other.value@ }
}
impl PartialEq for Constant {
    #[verifier::external_body]
    fn eq(&self, other: &Constant) -> (r: bool) ensures r == (self.bits == other.bits && self.value@ == other.value@) { unimplemented!() }
}
impl Eq for Constant {}

/// the cast `u64 as i64` is the two's-complement reinterpretation (Verus leaves an out-of-range `as`
/// unspecified in integer mode; the bit-vector theory pins it down)
pub proof fn lemma_u64_as_i64(v: u64)
    ensures
        v < 0x8000_0000_0000_0000 ==> (v as i64) as int == v as int,
        v >= 0x8000_0000_0000_0000 ==> (v as i64) as int == v as int - 0x1_0000_0000_0000_0000,
{
    let y = v as i64;
    assert(v >= 0x8000_0000_0000_0000u64 ==> (v as i64) < 0) by (bit_vector);
    assert((!(v as i64)) as u64 == !v) by (bit_vector);
    assert(!v == 0xffff_ffff_ffff_ffffu64 - v) by (bit_vector);
    assert(!y == -1i64 - y) by (bit_vector);
}

/// sval at width 64 of a value below 2^64 is what `as i64` computes
pub proof fn lemma_sval64(v: u64)
    ensures (v as i64) as int == sval(64, v as nat),
{
    lemma_u64_as_i64(v);
    lemma2_to64();
    lemma_pow2_step(63);
    assert(pow2(63) == 0x8000_0000_0000_0000);
}

/// sign extension to 64 bits followed by the signed reading at 64 bits is the signed reading at the original width
pub proof fn lemma_sext_sval(w: nat, a: nat)
    requires 1 <= w < 64, a < pow2(w),
    ensures bv_sext(w, 64, a) < pow2(64), sval(64, bv_sext(w, 64, a)) == sval(w, a),
{
    reveal(bv_sext);
    lemma_sval_range(w, a);
    lemma_pow2_strictly_increases((w - 1) as nat, 63);
    lemma_pow2_strictly_increases(w, 64);
    lemma_pow2_step(63);
    let s = sval(w, a);
    if s >= 0 { lemma_enc_small(64, s); } else { lemma_enc_neg(64, s); }
}

impl Constant {
//@ source lib/il/constant.rs
//@ fn impl Constant :: fn value_i64
//@ spec
    requires self.wf(),
    ensures
        /*@wide*/ self.bits > 64 ==> r is None,
        /*@signed*/ self.bits <= 64 ==> (r matches Some(k) && k as int == sval(self.bits as nat, self.value@)),
//@ closure 0 |v: u64| -> (r0: i64)
    ensures r0 == v as i64,
//@ closure 1 |v: u64| -> (r1: i64)
    ensures r1 == v as i64,
//@ enter
    proof {
        lemma2_to64();
        if self.bits <= 64 && self.value@ <= u64::MAX { lemma_sval64(self.value@ as u64); }
        if self.bits < 64 {
            lemma_sext_sval(self.bits as nat, self.value@);
            lemma_sval64(bv_sext(self.bits as nat, 64, self.value@) as u64);
        }
    }
//@ end
}

