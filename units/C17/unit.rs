// Unit C17 - stack-pointer offsets hold on every execution, for every architecture.
// Generated file = this template + the real text of the items named in the `//@` holes.
#![feature(allocator_api)]
#![allow(unused_imports, unused_variables, dead_code, unused_mut, non_snake_case, unused_parens, unused_braces, deprecated)]
use vstd::prelude::*;
use vstd::arithmetic::power2::*;
use vstd::arithmetic::div_mod::*;
use vstd::arithmetic::mul::*;
use std::ops::*;
use std::cmp;
use std::cmp::Ordering;
use std::collections::{BTreeMap, BTreeSet, VecDeque};
use std::fmt;
use std::rc::Rc;

verus! {

//@ include spec/bv.rs
//@ include prelude/bigint.rs
//@ include prelude/error.rs
//@ include prelude/fxhash.rs
//@ include prelude/stdcoll.rs
//@ include prelude/rc_asref.rs
//@ include prelude/location_hash.rs
//@ include prelude/fmt_option.rs
//@ include prelude/hashmap_into_items.rs
//@ include units/C11/error_from.rs
//@ mode contracts-only C15
//@ include units/C15/error_from_string.rs
//@ mode full

// falcon::RC (default build, feature "thread_safe" off): the real alias, extracted
//@ item lib/lib.rs :: type RC#0

pub mod graph {
use super::*;
use vstd::std_specs::iter::IteratorSpec;
use rustc_hash::{FxHashMap, FxHashSet};
broadcast use {rustc_hash::axiom_fx_builds_valid_hashers, stdcoll::axiom_btreemap_index_req, stdcoll::axiom_hashmap_index_req, stdcoll::axiom_usize_pair_obeys_key_model};
//@ mode contracts-only C11
//@ include units/C11/graph_core.rs
//@ mode full
proof fn vf_canary_graph() ensures false {}
} // mod graph

pub mod il {
use super::*;
use vstd::std_specs::iter::IteratorSpec;
//@ mode contracts-only C15
//@ include units/C15/il_core.rs
//@ mode contracts-only C18
//@ include units/C18/loc_core.rs
//@ mode contracts-only C04
//@ include units/C04/builders.rs
//@ include units/C04/subst.rs
//@ mode full
// il functions the analysis calls that no other unit has under contract (proved HERE)
//@ include units/C17/il_extra.rs
proof fn vf_canary_il() ensures false {}
} // mod il

pub mod executor {
use super::*;
use super::il::*;
//@ mode contracts-only C04
//@ include units/C04/eval.rs
//@ mode full
} // mod executor

// the concrete semantics the property talks about, the concretisation, the arithmetic of translations
pub mod spo_theory {
use super::*;
use super::il::*;
//@ include units/C17/spo_theory.rs
proof fn vf_canary_spo_theory() ensures false {}
} // mod spo_theory

pub mod stack_pointer_offsets {
use super::*;
use super::il;
use super::il::*;
use super::executor::eval;
use super::spo_theory::*;
use std::collections::HashMap;
broadcast use {location_hash::axiom_program_location_obeys_key_model};
//@ include units/C17/spo.rs
proof fn vf_canary_stack_pointer_offsets() ensures false {}
} // mod stack_pointer_offsets

proof fn vf_canary_root() ensures false {}

} // verus!

fn main() {}
