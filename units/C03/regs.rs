// ---- units/C03/regs.rs: translator::aarch64::{UnsupportedError, unsupported, register::*}
//@ source lib/translator/aarch64/mod.rs
//@ item struct UnsupportedError
//@ fn fn unsupported
//@ spec
    ensures /*@unit*/ true,
//@ end

//@ source lib/translator/aarch64/register.rs
//@ item type Result
//@ item struct AArch64Register

// ---- the register table, extracted TWICE from the same source text (see units/C01/regs.rs):
//  (1) as the executable constant in the block form Verus takes, with the postcondition that its value IS (2);
//  (2) as a spec function returning the same literal as a mathematical sequence - what the contracts talk about.
//@ itemx const AARCH64_REGISTERS
//@ rewrite 1 `const AARCH64_REGISTERS: &[AArch64Register] = &[` => `const AARCH64_REGISTERS_TWIN: () = (); pub open spec fn table_spec() -> Seq<AArch64Register> { seq![` ## R-table-twin: ghost twin of the table: the same literal read as a mathematical sequence (a dummy constant keeps the item a `const` for the extractor); spec-only, no executable token involved
//@ rewrite 1 `] ;` => `] }` ## R-table-twin: closes the spec function
//@ end
//@ itemx const AARCH64_REGISTERS exec_const
//@ rewrite 1 `const AARCH64_REGISTERS: &[AArch64Register] = &[` => `const AARCH64_REGISTERS: &'static [AArch64Register] ensures AARCH64_REGISTERS@ =~= table_spec() { let vf_table: &'static [AArch64Register] = &[` ## R-exec-const: Verus takes a slice constant only in the block form `exec const N: &'static [T] ensures .. { .. }` (a `const` is implicitly 'static); same literal, same value
//@ rewrite 1 `] ;` => `]; vf_table } pub const VF_AARCH64_REGISTERS_END: () = ();` ## R-exec-const: closes the block (the unit constant after it only gives tools/rsx.py the `;` it expects at the end of a `const` item)
//@ end

/// index of the first record at or after `k` whose bad64 id is `id`
pub open spec fn lookup_from(t: Seq<AArch64Register>, id: Reg, k: int) -> Option<int>
    decreases t.len() - k,
{
    if k < 0 || k >= t.len() { None } else if t[k].bad64_reg == id { Some(k) } else { lookup_from(t, id, k + 1) }
}

pub open spec fn lookup(t: Seq<AArch64Register>, id: Reg) -> Option<int> { lookup_from(t, id, 0) }

// ---- the ARCHITECTURE's view of the general-purpose register file (written from the Arm ARM, independent of the table)
/// Some((is64, n)): the 64-bit (X) resp. 32-bit (W) view of general-purpose register n = 0..30, of the stack pointer
/// (n = 31: SP / WSP) or of the zero register (n = 32: XZR / WZR); None: not an integer register
pub open spec fn gp_class(r: Reg) -> Option<(bool, int)> {
    match r {
        Reg::W0 => Some((false, 0int)),
        Reg::W1 => Some((false, 1int)),
        Reg::W2 => Some((false, 2int)),
        Reg::W3 => Some((false, 3int)),
        Reg::W4 => Some((false, 4int)),
        Reg::W5 => Some((false, 5int)),
        Reg::W6 => Some((false, 6int)),
        Reg::W7 => Some((false, 7int)),
        Reg::W8 => Some((false, 8int)),
        Reg::W9 => Some((false, 9int)),
        Reg::W10 => Some((false, 10int)),
        Reg::W11 => Some((false, 11int)),
        Reg::W12 => Some((false, 12int)),
        Reg::W13 => Some((false, 13int)),
        Reg::W14 => Some((false, 14int)),
        Reg::W15 => Some((false, 15int)),
        Reg::W16 => Some((false, 16int)),
        Reg::W17 => Some((false, 17int)),
        Reg::W18 => Some((false, 18int)),
        Reg::W19 => Some((false, 19int)),
        Reg::W20 => Some((false, 20int)),
        Reg::W21 => Some((false, 21int)),
        Reg::W22 => Some((false, 22int)),
        Reg::W23 => Some((false, 23int)),
        Reg::W24 => Some((false, 24int)),
        Reg::W25 => Some((false, 25int)),
        Reg::W26 => Some((false, 26int)),
        Reg::W27 => Some((false, 27int)),
        Reg::W28 => Some((false, 28int)),
        Reg::W29 => Some((false, 29int)),
        Reg::W30 => Some((false, 30int)),
        Reg::WSP => Some((false, 31int)),
        Reg::WZR => Some((false, 32int)),
        Reg::X0 => Some((true, 0int)),
        Reg::X1 => Some((true, 1int)),
        Reg::X2 => Some((true, 2int)),
        Reg::X3 => Some((true, 3int)),
        Reg::X4 => Some((true, 4int)),
        Reg::X5 => Some((true, 5int)),
        Reg::X6 => Some((true, 6int)),
        Reg::X7 => Some((true, 7int)),
        Reg::X8 => Some((true, 8int)),
        Reg::X9 => Some((true, 9int)),
        Reg::X10 => Some((true, 10int)),
        Reg::X11 => Some((true, 11int)),
        Reg::X12 => Some((true, 12int)),
        Reg::X13 => Some((true, 13int)),
        Reg::X14 => Some((true, 14int)),
        Reg::X15 => Some((true, 15int)),
        Reg::X16 => Some((true, 16int)),
        Reg::X17 => Some((true, 17int)),
        Reg::X18 => Some((true, 18int)),
        Reg::X19 => Some((true, 19int)),
        Reg::X20 => Some((true, 20int)),
        Reg::X21 => Some((true, 21int)),
        Reg::X22 => Some((true, 22int)),
        Reg::X23 => Some((true, 23int)),
        Reg::X24 => Some((true, 24int)),
        Reg::X25 => Some((true, 25int)),
        Reg::X26 => Some((true, 26int)),
        Reg::X27 => Some((true, 27int)),
        Reg::X28 => Some((true, 28int)),
        Reg::X29 => Some((true, 29int)),
        Reg::X30 => Some((true, 30int)),
        Reg::SP => Some((true, 31int)),
        Reg::XZR => Some((true, 32int)),
        _ => None,
    }
}

/// the IL scalar name that holds the 64-bit content of integer register n (0..30 = x0..x30, 31 = sp); the zero
/// register (32) has no architectural state: "xzr" is a scratch name
pub open spec fn xname(n: int) -> Seq<char> {
    if n == 0 { "x0"@ }
    else if n == 1 { "x1"@ }
    else if n == 2 { "x2"@ }
    else if n == 3 { "x3"@ }
    else if n == 4 { "x4"@ }
    else if n == 5 { "x5"@ }
    else if n == 6 { "x6"@ }
    else if n == 7 { "x7"@ }
    else if n == 8 { "x8"@ }
    else if n == 9 { "x9"@ }
    else if n == 10 { "x10"@ }
    else if n == 11 { "x11"@ }
    else if n == 12 { "x12"@ }
    else if n == 13 { "x13"@ }
    else if n == 14 { "x14"@ }
    else if n == 15 { "x15"@ }
    else if n == 16 { "x16"@ }
    else if n == 17 { "x17"@ }
    else if n == 18 { "x18"@ }
    else if n == 19 { "x19"@ }
    else if n == 20 { "x20"@ }
    else if n == 21 { "x21"@ }
    else if n == 22 { "x22"@ }
    else if n == 23 { "x23"@ }
    else if n == 24 { "x24"@ }
    else if n == 25 { "x25"@ }
    else if n == 26 { "x26"@ }
    else if n == 27 { "x27"@ }
    else if n == 28 { "x28"@ }
    else if n == 29 { "x29"@ }
    else if n == 30 { "x30"@ }
    else if n == 31 { "sp"@ }
    else { "xzr"@ }
}

pub open spec fn is_zero_reg(r: Reg) -> bool { r == Reg::XZR || r == Reg::WZR }

/// the names of the IL scalars that hold ARCHITECTURAL state: x0..x30, sp and the four flags
pub open spec fn is_arch_name(s: Seq<char>) -> bool {
    (exists|n: int| 0 <= n <= 31 && s == #[trigger] xname(n)) || s == "n"@ || s == "z"@ || s == "c"@ || s == "v"@
}

// ---- the REGISTER RECORD INVARIANT -----------------------------------------------------------------------------
impl AArch64Register {
    /// the record of the full register `get_full()` returns for a record satisfying `rec_ok`
    pub open spec fn full_rec(&self) -> AArch64Register {
        let t = table_spec();
        t[lookup(t, self.bad64_full_reg).unwrap()]
    }

    /// `self` names its full register `f` correctly: `f` exists in the table, is a full register (its own full register),
    /// is at least as wide as `self` and at most 128 bits; a full register is its own full register; and - the
    /// ARCHITECTURAL part - an integer register Wn / Xn / WSP / SP / WZR / XZR is 32 resp. 64 bits wide and its full register
    /// is the 64-bit view of the SAME register number, held in the scalar called x<n> / sp (xzr for the zero register);
    /// a non-integer register never aliases an integer register
    pub open spec fn rec_ok(&self) -> bool { rec_ok_in(table_spec(), *self) }
}

/// (the table is a parameter so that the evaluator builds the literal once)
pub open spec fn rec_ok_in(t: Seq<AArch64Register>, x: AArch64Register) -> bool {
    match lookup(t, x.bad64_full_reg) {
        Some(j) => ({
            let f = t[j];
            &&& f.bad64_reg == f.bad64_full_reg
            &&& f.bad64_reg == x.bad64_full_reg
            &&& 1 <= x.bits && x.bits <= f.bits && f.bits <= 128
            &&& (x.bad64_reg == x.bad64_full_reg ==> (x.name@ == f.name@ && x.bits == f.bits))
            &&& (match gp_class(x.bad64_reg) {
                    Some((is64, n)) => x.bits == (if is64 { 64usize } else { 32usize }) && gp_class(f.bad64_reg) == Some((true, n))
                        && f.bits == 64 && f.name@ == xname(n),
                    None => gp_class(f.bad64_reg) is None,
                })
        }),
        None => false,
    }
}

/// position of a register id in bad64's declaration order (a PROOF DEVICE only: the real table lists the registers in
/// this order, which lets the evaluator find the full register of a record by position; checked on every run)
pub open spec fn reg_ord(r: Reg) -> int {
    match r {
        Reg::W0 => 0int, Reg::W1 => 1int, Reg::W2 => 2int, Reg::W3 => 3int, Reg::W4 => 4int, Reg::W5 => 5int, Reg::W6 => 6int, Reg::W7 => 7int,
        Reg::W8 => 8int, Reg::W9 => 9int, Reg::W10 => 10int, Reg::W11 => 11int, Reg::W12 => 12int, Reg::W13 => 13int, Reg::W14 => 14int, Reg::W15 => 15int,
        Reg::W16 => 16int, Reg::W17 => 17int, Reg::W18 => 18int, Reg::W19 => 19int, Reg::W20 => 20int, Reg::W21 => 21int, Reg::W22 => 22int, Reg::W23 => 23int,
        Reg::W24 => 24int, Reg::W25 => 25int, Reg::W26 => 26int, Reg::W27 => 27int, Reg::W28 => 28int, Reg::W29 => 29int, Reg::W30 => 30int, Reg::WZR => 31int,
        Reg::WSP => 32int, Reg::X0 => 33int, Reg::X1 => 34int, Reg::X2 => 35int, Reg::X3 => 36int, Reg::X4 => 37int, Reg::X5 => 38int, Reg::X6 => 39int,
        Reg::X7 => 40int, Reg::X8 => 41int, Reg::X9 => 42int, Reg::X10 => 43int, Reg::X11 => 44int, Reg::X12 => 45int, Reg::X13 => 46int, Reg::X14 => 47int,
        Reg::X15 => 48int, Reg::X16 => 49int, Reg::X17 => 50int, Reg::X18 => 51int, Reg::X19 => 52int, Reg::X20 => 53int, Reg::X21 => 54int, Reg::X22 => 55int,
        Reg::X23 => 56int, Reg::X24 => 57int, Reg::X25 => 58int, Reg::X26 => 59int, Reg::X27 => 60int, Reg::X28 => 61int, Reg::X29 => 62int, Reg::X30 => 63int,
        Reg::XZR => 64int, Reg::SP => 65int, Reg::V0 => 66int, Reg::V1 => 67int, Reg::V2 => 68int, Reg::V3 => 69int, Reg::V4 => 70int, Reg::V5 => 71int,
        Reg::V6 => 72int, Reg::V7 => 73int, Reg::V8 => 74int, Reg::V9 => 75int, Reg::V10 => 76int, Reg::V11 => 77int, Reg::V12 => 78int, Reg::V13 => 79int,
        Reg::V14 => 80int, Reg::V15 => 81int, Reg::V16 => 82int, Reg::V17 => 83int, Reg::V18 => 84int, Reg::V19 => 85int, Reg::V20 => 86int, Reg::V21 => 87int,
        Reg::V22 => 88int, Reg::V23 => 89int, Reg::V24 => 90int, Reg::V25 => 91int, Reg::V26 => 92int, Reg::V27 => 93int, Reg::V28 => 94int, Reg::V29 => 95int,
        Reg::V30 => 96int, Reg::VZR => 97int, Reg::V31 => 98int, Reg::B0 => 99int, Reg::B1 => 100int, Reg::B2 => 101int, Reg::B3 => 102int, Reg::B4 => 103int,
        Reg::B5 => 104int, Reg::B6 => 105int, Reg::B7 => 106int, Reg::B8 => 107int, Reg::B9 => 108int, Reg::B10 => 109int, Reg::B11 => 110int, Reg::B12 => 111int,
        Reg::B13 => 112int, Reg::B14 => 113int, Reg::B15 => 114int, Reg::B16 => 115int, Reg::B17 => 116int, Reg::B18 => 117int, Reg::B19 => 118int, Reg::B20 => 119int,
        Reg::B21 => 120int, Reg::B22 => 121int, Reg::B23 => 122int, Reg::B24 => 123int, Reg::B25 => 124int, Reg::B26 => 125int, Reg::B27 => 126int, Reg::B28 => 127int,
        Reg::B29 => 128int, Reg::B30 => 129int, Reg::BZR => 130int, Reg::B31 => 131int, Reg::H0 => 132int, Reg::H1 => 133int, Reg::H2 => 134int, Reg::H3 => 135int,
        Reg::H4 => 136int, Reg::H5 => 137int, Reg::H6 => 138int, Reg::H7 => 139int, Reg::H8 => 140int, Reg::H9 => 141int, Reg::H10 => 142int, Reg::H11 => 143int,
        Reg::H12 => 144int, Reg::H13 => 145int, Reg::H14 => 146int, Reg::H15 => 147int, Reg::H16 => 148int, Reg::H17 => 149int, Reg::H18 => 150int, Reg::H19 => 151int,
        Reg::H20 => 152int, Reg::H21 => 153int, Reg::H22 => 154int, Reg::H23 => 155int, Reg::H24 => 156int, Reg::H25 => 157int, Reg::H26 => 158int, Reg::H27 => 159int,
        Reg::H28 => 160int, Reg::H29 => 161int, Reg::H30 => 162int, Reg::HZR => 163int, Reg::H31 => 164int, Reg::S0 => 165int, Reg::S1 => 166int, Reg::S2 => 167int,
        Reg::S3 => 168int, Reg::S4 => 169int, Reg::S5 => 170int, Reg::S6 => 171int, Reg::S7 => 172int, Reg::S8 => 173int, Reg::S9 => 174int, Reg::S10 => 175int,
        Reg::S11 => 176int, Reg::S12 => 177int, Reg::S13 => 178int, Reg::S14 => 179int, Reg::S15 => 180int, Reg::S16 => 181int, Reg::S17 => 182int, Reg::S18 => 183int,
        Reg::S19 => 184int, Reg::S20 => 185int, Reg::S21 => 186int, Reg::S22 => 187int, Reg::S23 => 188int, Reg::S24 => 189int, Reg::S25 => 190int, Reg::S26 => 191int,
        Reg::S27 => 192int, Reg::S28 => 193int, Reg::S29 => 194int, Reg::S30 => 195int, Reg::SZR => 196int, Reg::S31 => 197int, Reg::D0 => 198int, Reg::D1 => 199int,
        Reg::D2 => 200int, Reg::D3 => 201int, Reg::D4 => 202int, Reg::D5 => 203int, Reg::D6 => 204int, Reg::D7 => 205int, Reg::D8 => 206int, Reg::D9 => 207int,
        Reg::D10 => 208int, Reg::D11 => 209int, Reg::D12 => 210int, Reg::D13 => 211int, Reg::D14 => 212int, Reg::D15 => 213int, Reg::D16 => 214int, Reg::D17 => 215int,
        Reg::D18 => 216int, Reg::D19 => 217int, Reg::D20 => 218int, Reg::D21 => 219int, Reg::D22 => 220int, Reg::D23 => 221int, Reg::D24 => 222int, Reg::D25 => 223int,
        Reg::D26 => 224int, Reg::D27 => 225int, Reg::D28 => 226int, Reg::D29 => 227int, Reg::D30 => 228int, Reg::DZR => 229int, Reg::D31 => 230int, Reg::Q0 => 231int,
        Reg::Q1 => 232int, Reg::Q2 => 233int, Reg::Q3 => 234int, Reg::Q4 => 235int, Reg::Q5 => 236int, Reg::Q6 => 237int, Reg::Q7 => 238int, Reg::Q8 => 239int,
        Reg::Q9 => 240int, Reg::Q10 => 241int, Reg::Q11 => 242int, Reg::Q12 => 243int, Reg::Q13 => 244int, Reg::Q14 => 245int, Reg::Q15 => 246int, Reg::Q16 => 247int,
        Reg::Q17 => 248int, Reg::Q18 => 249int, Reg::Q19 => 250int, Reg::Q20 => 251int, Reg::Q21 => 252int, Reg::Q22 => 253int, Reg::Q23 => 254int, Reg::Q24 => 255int,
        Reg::Q25 => 256int, Reg::Q26 => 257int, Reg::Q27 => 258int, Reg::Q28 => 259int, Reg::Q29 => 260int, Reg::Q30 => 261int, Reg::QZR => 262int, Reg::Q31 => 263int,
        Reg::Z0 => 264int, Reg::Z1 => 265int, Reg::Z2 => 266int, Reg::Z3 => 267int, Reg::Z4 => 268int, Reg::Z5 => 269int, Reg::Z6 => 270int, Reg::Z7 => 271int,
        Reg::Z8 => 272int, Reg::Z9 => 273int, Reg::Z10 => 274int, Reg::Z11 => 275int, Reg::Z12 => 276int, Reg::Z13 => 277int, Reg::Z14 => 278int, Reg::Z15 => 279int,
        Reg::Z16 => 280int, Reg::Z17 => 281int, Reg::Z18 => 282int, Reg::Z19 => 283int, Reg::Z20 => 284int, Reg::Z21 => 285int, Reg::Z22 => 286int, Reg::Z23 => 287int,
        Reg::Z24 => 288int, Reg::Z25 => 289int, Reg::Z26 => 290int, Reg::Z27 => 291int, Reg::Z28 => 292int, Reg::Z29 => 293int, Reg::Z30 => 294int, Reg::Z31 => 295int,
        Reg::P0 => 296int, Reg::P1 => 297int, Reg::P2 => 298int, Reg::P3 => 299int, Reg::P4 => 300int, Reg::P5 => 301int, Reg::P6 => 302int, Reg::P7 => 303int,
        Reg::P8 => 304int, Reg::P9 => 305int, Reg::P10 => 306int, Reg::P11 => 307int, Reg::P12 => 308int, Reg::P13 => 309int, Reg::P14 => 310int, Reg::P15 => 311int,
        Reg::P16 => 312int, Reg::P17 => 313int, Reg::P18 => 314int, Reg::P19 => 315int, Reg::P20 => 316int, Reg::P21 => 317int, Reg::P22 => 318int, Reg::P23 => 319int,
        Reg::P24 => 320int, Reg::P25 => 321int, Reg::P26 => 322int, Reg::P27 => 323int, Reg::P28 => 324int, Reg::P29 => 325int, Reg::P30 => 326int, Reg::P31 => 327int,
    }
}

/// rec_ok_in with the position of the full register given instead of searched for
pub open spec fn rec_ok_at(t: Seq<AArch64Register>, x: AArch64Register, j: int) -> bool {
    &&& 0 <= j < t.len()
    &&& ({
        let f = t[j];
        &&& f.bad64_reg == f.bad64_full_reg
        &&& f.bad64_reg == x.bad64_full_reg
        &&& 1 <= x.bits && x.bits <= f.bits && f.bits <= 128
        &&& (x.bad64_reg == x.bad64_full_reg ==> (x.name@ == f.name@ && x.bits == f.bits))
        &&& (match gp_class(x.bad64_reg) {
                Some((is64, n)) => x.bits == (if is64 { 64usize } else { 32usize }) && gp_class(f.bad64_reg) == Some((true, n))
                    && f.bits == 64 && f.name@ == xname(n),
                None => gp_class(f.bad64_reg) is None,
            })
    })
}

/// linear-time form of "every record satisfies the invariant": record k holds the register with ordinal k and its
/// full register (found by ordinal) has the required properties
pub open spec fn ord_ok_from(t: Seq<AArch64Register>, k: int) -> bool
    decreases t.len() - k,
{
    if k < 0 || k >= t.len() { true } else { reg_ord(t[k].bad64_reg) == k && rec_ok_at(t, t[k], reg_ord(t[k].bad64_full_reg)) && ord_ok_from(t, k + 1) }
}

pub proof fn lemma_ord_ok(t: Seq<AArch64Register>, k: int, i: int)
    requires ord_ok_from(t, k), 0 <= k <= i < t.len(),
    ensures reg_ord(t[i].bad64_reg) == i, rec_ok_at(t, t[i], reg_ord(t[i].bad64_full_reg)),
    decreases i - k,
{
    if k < i { lemma_ord_ok(t, k + 1, i); }
}

/// in a table whose record k holds the register with ordinal k, the first record with id `id` is record reg_ord(id)
pub proof fn lemma_lookup_by_ord(t: Seq<AArch64Register>, id: Reg, k: int)
    requires ord_ok_from(t, 0), 0 <= k <= reg_ord(id), reg_ord(id) < t.len(), t[reg_ord(id)].bad64_reg == id,
    ensures lookup_from(t, id, k) == Some(reg_ord(id)),
    decreases reg_ord(id) - k,
{
    if k < reg_ord(id) {
        lemma_ord_ok(t, 0, k);
        lemma_lookup_by_ord(t, id, k + 1);
    }
}

pub proof fn lemma_table_ok()
    ensures ord_ok_from(table_spec(), 0),
{
    assert(ord_ok_from(table_spec(), 0)) by (compute);
}

/// every record of the real table satisfies the register record invariant (checked by evaluation of the extracted table)
pub proof fn lemma_table_rec_ok(k: int)
    requires 0 <= k < table_spec().len(),
    ensures table_spec()[k].rec_ok(),
{
    let t = table_spec();
    lemma_table_ok();
    lemma_ord_ok(t, 0, k);
    let j = reg_ord(t[k].bad64_full_reg);
    lemma_lookup_by_ord(t, t[k].bad64_full_reg, 0);
}

pub proof fn lemma_lookup_found(t: Seq<AArch64Register>, id: Reg, k: int)
    requires 0 <= k,
    ensures lookup_from(t, id, k) matches Some(j) ==> k <= j < t.len() && t[j].bad64_reg == id,
    decreases t.len() - k,
{
    if k < t.len() && t[k].bad64_reg != id { lemma_lookup_found(t, id, k + 1); }
}

//@ fn fn get_register
//@ rewrite 1 `AARCH64_REGISTERS.iter()` => `it: AARCH64_REGISTERS.iter()` ## R-iter-name: names the ghost iterator of the `for` loop (no executable change)
//@ spec
    ensures
        /*@found*/ lookup(table_spec(), bad64_reg) matches Some(k) ==> (r matches Ok(x) && *x == table_spec()[k]),
        /*@missing*/ lookup(table_spec(), bad64_reg) is None ==> r is Err,
        /*@inv*/ r matches Ok(x) ==> x.rec_ok() && x.bad64_reg == bad64_reg,
//@ loop 0
    invariant
        it.seq().len() == table_spec().len(),
        forall|j: int| 0 <= j < it.seq().len() ==> *#[trigger] it.seq()[j] == table_spec()[j],
        lookup(table_spec(), bad64_reg) == lookup_from(table_spec(), bad64_reg, it.index@ as int),
//@ before 0 `return Ok(register)`
    proof { lemma_table_rec_ok(it.index@ as int); }
//@ end

// derive(Debug) of UnsupportedError re-supplied (trait bound of Result::expect / unwrap only): opaque, no contract
impl std::fmt::Debug for UnsupportedError {
    #[verifier::external_body]
    fn fmt(&self, f: &mut std::fmt::Formatter<'_>) -> std::fmt::Result { unimplemented!() }
}

// ---- meaning of a register read / write ----------------------------------------------------------------------------

/// the IL scalar that holds the full register `f`
pub open spec fn reg_scalar(f: AArch64Register) -> Scalar { named_scalar(f.name@, f.bits) }

/// Arm ARM X[n] / W[n] / SP read: the zero register reads as zero in every state; any other register is the low
/// `bits` bits of the scalar of its full register (Wn = Xn<31:0>, WSP = SP<31:0>)
pub open spec fn reg_read(x: AArch64Register, env: Env) -> EvalR {
    if is_zero_reg(x.bad64_reg) { EvalR::Val(x.bits as nat, 0) } else {
        let f = x.full_rec();
        match env(reg_scalar(f)) {
            Some((w, full)) => EvalR::Val(x.bits as nat, full % pow2(x.bits as nat)),
            None => EvalR::ErrScalar(reg_scalar(f).name@),
        }
    }
}

/// `e` is a well-sorted expression of x's width that reads register x (what `get` returns; doubles as a trigger)
pub open spec fn reg_expr(x: AArch64Register, e: Expression) -> bool {
    &&& expr_wf(e) && expr_bits(e) == x.bits
    &&& forall|env: Env| env_sorted(env) ==> #[trigger] eval_spec(e, env) == reg_read(x, env)
}

/// `src` computes the new content of the full register: the written value, zero-extended (same number)
pub open spec fn write_ok(x: AArch64Register, value: Expression, src: Expression, env: Env) -> bool {
    eval_spec(value, env) matches EvalR::Val(w, v) ==> eval_spec(src, env) == EvalR::Val(x.full_rec().bits as nat, v)
}

/// a write of (at most) x.bits bits: the full 64-bit register receives the value itself, which is below 2^x.bits - i.e.
/// for a W register bits 63..32 of the X register become zero
pub open spec fn w_write_ok(x: AArch64Register, value: Expression, src: Expression, env: Env) -> bool {
    eval_spec(value, env) matches EvalR::Val(w, v) ==> eval_spec(src, env) == EvalR::Val(64, v) && v < pow2(x.bits as nat)
}

/// "32-bit destinations clear the upper half": a write of at most x.bits bits to an integer register assigns the 64-bit
/// scalar x<n> / sp the value itself (below 2^x.bits)
pub open spec fn w_clears_upper(x: AArch64Register, value: Expression, b1: Block) -> bool {
    (gp_class(x.bad64_reg) is Some && expr_bits(value) <= x.bits) ==>
        (b1.instructions@.last().operation matches Operation::Assign { dst, src } && dst == named_scalar(xname(gp_class(x.bad64_reg).unwrap().1), 64)
         && forall|env: Env| env_sorted(env) ==> #[trigger] w_write_ok(x, value, src, env))
}

/// "the zero register discards writes": the assignment goes to the scratch scalar "xzr", which is not the name of any
/// architectural scalar (x0..x30, sp, n, z, c, v) - and is never read (get: zero_reads_zero)
pub open spec fn zero_discards(x: AArch64Register, b1: Block) -> bool {
    is_zero_reg(x.bad64_reg) ==>
        (b1.instructions@.last().operation matches Operation::Assign { dst, src } && dst.name@ == "xzr"@ && !is_arch_name(dst.name@))
}

/// the effect of `x.set(block, value)`: exactly one instruction is appended, `full(x) := src`
pub open spec fn set_effect(x: AArch64Register, value: Expression, b0: Block, b1: Block) -> bool {
    let f = x.full_rec();
    &&& b1.instructions@.len() == b0.instructions@.len() + 1
    &&& b1.instructions@.last().operation matches Operation::Assign { dst, src }
    &&& b1.pushed_op(b0, Operation::Assign { dst, src })
    &&& dst == reg_scalar(f) && dst.name@ == f.name@
    &&& expr_wf(src) && expr_bits(src) == f.bits
    &&& (expr_bits(value) == f.bits ==> src == value)
    &&& forall|env: Env| env_sorted(env) ==> #[trigger] write_ok(x, value, src, env)
}


// ---- the scalar names are pairwise different (facts about string literals, proved from their characters) -----------
pub proof fn lemma_names_revealed()
    ensures
        forall|n: int| 0 <= n <= 9 ==> (#[trigger] xname(n)).len() == 2 && xname(n)[0] == 'x',
        forall|n: int| 10 <= n <= 30 ==> (#[trigger] xname(n)).len() == 3 && xname(n)[0] == 'x',
        xname(31).len() == 2 && xname(31)[0] == 's' && xname(31)[1] == 'p',
        xname(32).len() == 3 && xname(32)[0] == 'x' && xname(32)[1] == 'z' && xname(32)[2] == 'r',
        "n"@.len() == 1 && "z"@.len() == 1 && "c"@.len() == 1 && "v"@.len() == 1,
        "n"@[0] == 'n' && "z"@[0] == 'z' && "c"@[0] == 'c' && "v"@[0] == 'v',
        forall|n: int| 0 <= n <= 30 ==> (#[trigger] xname(n))[1] != 'z',
{
    reveal_strlit("x0");
    reveal_strlit("x1");
    reveal_strlit("x2");
    reveal_strlit("x3");
    reveal_strlit("x4");
    reveal_strlit("x5");
    reveal_strlit("x6");
    reveal_strlit("x7");
    reveal_strlit("x8");
    reveal_strlit("x9");
    reveal_strlit("x10");
    reveal_strlit("x11");
    reveal_strlit("x12");
    reveal_strlit("x13");
    reveal_strlit("x14");
    reveal_strlit("x15");
    reveal_strlit("x16");
    reveal_strlit("x17");
    reveal_strlit("x18");
    reveal_strlit("x19");
    reveal_strlit("x20");
    reveal_strlit("x21");
    reveal_strlit("x22");
    reveal_strlit("x23");
    reveal_strlit("x24");
    reveal_strlit("x25");
    reveal_strlit("x26");
    reveal_strlit("x27");
    reveal_strlit("x28");
    reveal_strlit("x29");
    reveal_strlit("x30");
    reveal_strlit("sp"); reveal_strlit("xzr");
    reveal_strlit("n"); reveal_strlit("z"); reveal_strlit("c"); reveal_strlit("v");
}

/// "xzr" (the scratch scalar a write to XZR / WZR ends up in) is not the name of any architectural scalar
pub proof fn lemma_xzr_scratch()
    ensures !is_arch_name("xzr"@), xname(32) == "xzr"@,
{
    lemma_names_revealed();
    assert forall|n: int| 0 <= n <= 31 implies "xzr"@ != #[trigger] xname(n) by {
        if n <= 30 { assert(xname(n)[1] != 'z'); }
    }
}

/// different integer registers (and the flags) live in scalars with different names
pub proof fn lemma_xname_injective()
    ensures
        forall|n: int, m: int| 0 <= n <= 32 && 0 <= m <= 32 && n != m ==> #[trigger] xname(n) != #[trigger] xname(m),
        forall|n: int| 0 <= n <= 32 ==> (#[trigger] xname(n)) != "n"@ && xname(n) != "z"@ && xname(n) != "c"@ && xname(n) != "v"@,
        "n"@ != "z"@ && "n"@ != "c"@ && "n"@ != "v"@ && "z"@ != "c"@ && "z"@ != "v"@ && "c"@ != "v"@,
{
    reveal_strlit("x0");
    reveal_strlit("x1");
    reveal_strlit("x2");
    reveal_strlit("x3");
    reveal_strlit("x4");
    reveal_strlit("x5");
    reveal_strlit("x6");
    reveal_strlit("x7");
    reveal_strlit("x8");
    reveal_strlit("x9");
    reveal_strlit("x10");
    reveal_strlit("x11");
    reveal_strlit("x12");
    reveal_strlit("x13");
    reveal_strlit("x14");
    reveal_strlit("x15");
    reveal_strlit("x16");
    reveal_strlit("x17");
    reveal_strlit("x18");
    reveal_strlit("x19");
    reveal_strlit("x20");
    reveal_strlit("x21");
    reveal_strlit("x22");
    reveal_strlit("x23");
    reveal_strlit("x24");
    reveal_strlit("x25");
    reveal_strlit("x26");
    reveal_strlit("x27");
    reveal_strlit("x28");
    reveal_strlit("x29");
    reveal_strlit("x30");
    reveal_strlit("sp"); reveal_strlit("xzr");
    reveal_strlit("n"); reveal_strlit("z"); reveal_strlit("c"); reveal_strlit("v");
    assert("n"@[0] == 'n' && "z"@[0] == 'z' && "c"@[0] == 'c' && "v"@[0] == 'v');
    assert forall|n: int| 0 <= n <= 32 implies (#[trigger] xname(n)) != "n"@ && xname(n) != "z"@ && xname(n) != "c"@ && xname(n) != "v"@ by {
        assert(xname(n).len() >= 2);
    }
    assert forall|n: int, m: int| 0 <= n <= 32 && 0 <= m <= 32 && n != m implies #[trigger] xname(n) != #[trigger] xname(m) by {
        let a = xname(n); let b = xname(m);
        if a.len() == b.len() {
            assert(a[0] != b[0] || a[1] != b[1] || (a.len() == 3 && a[2] != b[2]));
        }
    }
}

/// the expression assigned by the last instruction of the block
pub open spec fn last_src(b: Block) -> Expression {
    match b.instructions@.last().operation { Operation::Assign { dst, src } => src, _ => arbitrary() }
}

/// the full register of a record satisfying the invariant satisfies it too, and is its own full register
pub proof fn lemma_full_rec_ok(x: AArch64Register)
    requires x.rec_ok(),
    ensures x.full_rec().rec_ok(), x.full_rec().full_rec() == x.full_rec(), x.full_rec().bad64_reg == x.bad64_full_reg,
            x.full_rec().bad64_reg == x.full_rec().bad64_full_reg, 1 <= x.bits <= x.full_rec().bits <= 128,
            is_zero_reg(x.bad64_reg) <==> is_zero_reg(x.full_rec().bad64_reg),
            is_zero_reg(x.bad64_reg) ==> x.full_rec().name@ == "xzr"@,
            x.bad64_reg == x.bad64_full_reg ==> (x.name@ == x.full_rec().name@ && x.bits == x.full_rec().bits),
{
    let t = table_spec();
    lemma_lookup_found(t, x.bad64_full_reg, 0);
    let j = lookup(t, x.bad64_full_reg).unwrap();
    lemma_table_rec_ok(j);
    lemma_lookup_found(t, t[j].bad64_full_reg, 0);
}

/// ARCHITECTURAL reading of the invariant for the integer registers: Wn / Xn live in the 64-bit scalar x<n>, WSP / SP in sp
pub proof fn lemma_gp_scalar(x: AArch64Register)
    requires x.rec_ok(), gp_class(x.bad64_reg) is Some,
    ensures
        reg_scalar(x.full_rec()) == named_scalar(xname(gp_class(x.bad64_reg).unwrap().1), 64),
        x.bits == (if gp_class(x.bad64_reg).unwrap().0 { 64usize } else { 32usize }),
{
}

pub proof fn lemma_read_full(f: AArch64Register, env: Env)
    requires f.rec_ok(), f.bad64_reg == f.bad64_full_reg, !is_zero_reg(f.bad64_reg), env_sorted(env),
    ensures eval_spec(Expression::Scalar(named_scalar(f.name@, f.bits)), env) == reg_read(f, env),
{
    lemma_full_rec_ok(f);
    let s = named_scalar(f.name@, f.bits);
    let ff = f.full_rec();
    assert(reg_scalar(ff) == s);
    if let Some((w, full)) = env(s) {
        lemma_small_mod(full, pow2(f.bits as nat));
    }
}

pub proof fn lemma_read_low(x: AArch64Register, ef: Expression, env: Env)
    requires
        x.rec_ok(), x.bad64_reg != x.bad64_full_reg, !is_zero_reg(x.bad64_reg), env_sorted(env),
        expr_wf(ef), expr_bits(ef) == x.full_rec().bits, eval_spec(ef, env) == reg_read(x.full_rec(), env),
    ensures
        x.bits == x.full_rec().bits ==> eval_spec(ef, env) == reg_read(x, env),
        x.bits < x.full_rec().bits ==> eval_spec(Expression::Trun(x.bits, Box::new(ef)), env) == reg_read(x, env),
{
    let f = x.full_rec();
    lemma_full_rec_ok(x);
    reveal(bv_trun);
    if let Some((w, full)) = env(reg_scalar(f)) {
        lemma_small_mod(full, pow2(f.bits as nat));
    }
}

impl AArch64Register {

//@ fn impl AArch64Register :: fn bits
//@ spec
    ensures /*@field*/ r == self.bits,
//@ end

//@ fn impl AArch64Register :: fn is_full
//@ spec
    ensures /*@spec*/ r == (self.bad64_reg == self.bad64_full_reg),
//@ end

//@ fn impl AArch64Register :: fn get_full
//@ spec
    requires self.rec_ok(),
    ensures
        /*@full*/ *r == self.full_rec() && r.rec_ok() && r.full_rec() == *r && r.bad64_reg == r.bad64_full_reg && r.bad64_reg == self.bad64_full_reg,
//@ enter
    proof { lemma_full_rec_ok(*self); lemma_lookup_found(table_spec(), self.bad64_full_reg, 0); }
//@ end

//@ fn impl AArch64Register :: fn get
//@ spec
    requires self.rec_ok(),
    ensures
        /*@ok*/ expr_wf(r) && expr_bits(r) == self.bits,
        /*@zero_reads_zero*/ is_zero_reg(self.bad64_reg) ==> (forall|env: Env| #[trigger] eval_spec(r, env) == EvalR::Val(self.bits as nat, 0)),
        /*@get_value*/ forall|env: Env| env_sorted(env) ==> #[trigger] eval_spec(r, env) == reg_read(*self, env),
        /*@expr*/ reg_expr(*self, r),
    decreases (if self.bad64_reg == self.bad64_full_reg { 0nat } else { 1nat }),
//@ enter
    proof {
        broadcast use crate::strmap::axiom_into_string_str;
        lemma_full_rec_ok(*self);
        let f = self.full_rec();
        lemma2_to64();
        lemma_pow2_pos(self.bits as nat);
        lemma_small_mod(0, pow2(self.bits as nat));
        if self.bad64_reg == self.bad64_full_reg && !is_zero_reg(self.bad64_reg) {
            assert forall|env: Env| env_sorted(env) implies #[trigger] eval_spec(Expression::Scalar(named_scalar(self.name@, self.bits)), env) == reg_read(*self, env) by {
                lemma_read_full(*self, env);
            }
        }
    }
//@ after 0 `let full_reg_scalar = self.get_full().get();`
    proof {
        let f = self.full_rec();
        assert forall|env: Env| env_sorted(env) implies (self.bits == f.bits ==> #[trigger] eval_spec(full_reg_scalar, env) == reg_read(*self, env)) by {
            lemma_read_low(*self, full_reg_scalar, env);
        }
        assert forall|env: Env| env_sorted(env) implies (self.bits < f.bits ==> #[trigger] eval_spec(Expression::Trun(self.bits, Box::new(full_reg_scalar)), env) == reg_read(*self, env)) by {
            lemma_read_low(*self, full_reg_scalar, env);
        }
    }
//@ end

//@ fn impl AArch64Register :: fn set
//@ spec
    requires
        self.rec_ok(), expr_wf(value),
        // WIDTH PRECONDITION (no panic): the value is not wider than the full register
        expr_bits(value) <= self.full_rec().bits,
        old(block).block_wf(), old(block).next_instruction_index < usize::MAX,
    ensures
        /*@wf*/ final(block).block_wf(),
        /*@effect*/ set_effect(*self, value, *old(block), *final(block)),
        /*@w_clears_upper*/ w_clears_upper(*self, value, *final(block)),
        /*@zero_discards*/ zero_discards(*self, *final(block)),
    decreases (if self.bad64_reg == self.bad64_full_reg { 0nat } else { 1nat }),
//@ enter
    let ghost value0 = value;
    proof {
        broadcast use crate::strmap::axiom_into_string_str;
        lemma_full_rec_ok(*self);
        lemma_expr_wf_bits(value);
        lemma_xzr_scratch();
        let f = self.full_rec();
        lemma2_to64();
        assert forall|env: Env| env_sorted(env) implies ((#[trigger] eval_spec(value, env)) matches EvalR::Val(w, v) ==> v < pow2(expr_bits(value)) && w == expr_bits(value)) by {
            lemma_eval_wf_val(value, env);
        }
        if expr_bits(value) <= self.bits { lemma_pow2_mono(expr_bits(value), self.bits as nat); }
        if self.bad64_reg == self.bad64_full_reg {
            assert forall|env: Env| (env_sorted(env) && expr_bits(value) == self.bits) implies #[trigger] write_ok(*self, value, value, env) by {
                lemma_eval_wf_val(value, env);
            }
            assert forall|env: Env| (env_sorted(env) && expr_bits(value) < self.bits) implies #[trigger] write_ok(*self, value, Expression::Zext(self.bits, Box::new(value)), env) by {
                lemma_eval_wf_val(value, env);
                reveal(bv_zext);
            }
        }
    }
//@ after 0 `block.assign(scalar(self.name, self.bits), value);`
    proof {
        let src = last_src(*block);
        if gp_class(self.bad64_reg) is Some && expr_bits(value0) <= self.bits {
            lemma_gp_scalar(*self);
            assert forall|env: Env| env_sorted(env) implies #[trigger] w_write_ok(*self, value0, src, env) by {
                assert(write_ok(*self, value0, src, env));
                lemma_eval_wf_val(value0, env);
            }
        }
    }
//@ after 0 `full_reg.set(block, value);`
    proof {
        let src = last_src(*block);
        assert forall|env: Env| env_sorted(env) implies #[trigger] write_ok(*self, value0, src, env) by {
            assert(write_ok(*full_reg, value0, src, env));
        }
        if gp_class(self.bad64_reg) is Some && expr_bits(value0) <= self.bits {
            lemma_gp_scalar(*self);
            assert forall|env: Env| env_sorted(env) implies #[trigger] w_write_ok(*self, value0, src, env) by {
                assert(write_ok(*full_reg, value0, src, env));
                lemma_eval_wf_val(value0, env);
            }
        }
    }
//@ end

} // impl AArch64Register
