// ---- units/C03/regs.rs: translator::aarch64::{UnsupportedError, unsupported, register::*}
//@ source lib/translator/aarch64/mod.rs
//@ item struct UnsupportedError
//@ fn fn unsupported
//@ spec
    ensures /*@unit*/ true,
//@ end

//@ source lib/translator/aarch64/register.rs
//@ item type Result
//@ item struct AArch64Register

// ---- the register table, extracted TWICE from the same source text (see units/C01/regs.rs):
//  (1) as the executable constant in the block form Verus takes, with the postcondition that its value IS (2);
//  (2) as a spec function returning the same literal as a mathematical sequence - what the contracts talk about.
//@ itemx const AARCH64_REGISTERS
//@ rewrite 1 `const AARCH64_REGISTERS: &[AArch64Register] = &[` => `const AARCH64_REGISTERS_TWIN: () = (); pub open spec fn table_spec() -> Seq<AArch64Register> { seq![` ## R-table-twin: ghost twin of the table: the same literal read as a mathematical sequence (a dummy constant keeps the item a `const` for the extractor); spec-only, no executable token involved
//@ rewrite 1 `] ;` => `] }` ## R-table-twin: closes the spec function
//@ end
//@ itemx const AARCH64_REGISTERS exec_const
//@ rewrite 1 `const AARCH64_REGISTERS: &[AArch64Register] = &[` => `const AARCH64_REGISTERS: &'static [AArch64Register] ensures AARCH64_REGISTERS@ =~= table_spec() { let vf_table: &'static [AArch64Register] = &[` ## R-exec-const: Verus takes a slice constant only in the block form `exec const N: &'static [T] ensures .. { .. }` (a `const` is implicitly 'static); same literal, same value
//@ rewrite 1 `] ;` => `]; vf_table } pub const VF_AARCH64_REGISTERS_END: () = ();` ## R-exec-const: closes the block (the unit constant after it only gives tools/rsx.py the `;` it expects at the end of a `const` item)
//@ end

/// index of the first record at or after `k` whose bad64 id is `id`
pub open spec fn lookup_from(t: Seq<AArch64Register>, id: Reg, k: int) -> Option<int>
    decreases t.len() - k,
{
    if k < 0 || k >= t.len() { None } else if t[k].bad64_reg == id { Some(k) } else { lookup_from(t, id, k + 1) }
}

pub open spec fn lookup(t: Seq<AArch64Register>, id: Reg) -> Option<int> { lookup_from(t, id, 0) }

// ---- the ARCHITECTURE's view of the general-purpose register file (written from the Arm ARM, independent of the table)
/// Some((is64, n)): the 64-bit (X) resp. 32-bit (W) view of general-purpose register n = 0..30, of the stack pointer
/// (n = 31: SP / WSP) or of the zero register (n = 32: XZR / WZR); None: not an integer register
pub open spec fn gp_class(r: Reg) -> Option<(bool, int)> {
    match r {
        Reg::W0 => Some((false, 0int)),
        Reg::W1 => Some((false, 1int)),
        Reg::W2 => Some((false, 2int)),
        Reg::W3 => Some((false, 3int)),
        Reg::W4 => Some((false, 4int)),
        Reg::W5 => Some((false, 5int)),
        Reg::W6 => Some((false, 6int)),
        Reg::W7 => Some((false, 7int)),
        Reg::W8 => Some((false, 8int)),
        Reg::W9 => Some((false, 9int)),
        Reg::W10 => Some((false, 10int)),
        Reg::W11 => Some((false, 11int)),
        Reg::W12 => Some((false, 12int)),
        Reg::W13 => Some((false, 13int)),
        Reg::W14 => Some((false, 14int)),
        Reg::W15 => Some((false, 15int)),
        Reg::W16 => Some((false, 16int)),
        Reg::W17 => Some((false, 17int)),
        Reg::W18 => Some((false, 18int)),
        Reg::W19 => Some((false, 19int)),
        Reg::W20 => Some((false, 20int)),
        Reg::W21 => Some((false, 21int)),
        Reg::W22 => Some((false, 22int)),
        Reg::W23 => Some((false, 23int)),
        Reg::W24 => Some((false, 24int)),
        Reg::W25 => Some((false, 25int)),
        Reg::W26 => Some((false, 26int)),
        Reg::W27 => Some((false, 27int)),
        Reg::W28 => Some((false, 28int)),
        Reg::W29 => Some((false, 29int)),
        Reg::W30 => Some((false, 30int)),
        Reg::WSP => Some((false, 31int)),
        Reg::WZR => Some((false, 32int)),
        Reg::X0 => Some((true, 0int)),
        Reg::X1 => Some((true, 1int)),
        Reg::X2 => Some((true, 2int)),
        Reg::X3 => Some((true, 3int)),
        Reg::X4 => Some((true, 4int)),
        Reg::X5 => Some((true, 5int)),
        Reg::X6 => Some((true, 6int)),
        Reg::X7 => Some((true, 7int)),
        Reg::X8 => Some((true, 8int)),
        Reg::X9 => Some((true, 9int)),
        Reg::X10 => Some((true, 10int)),
        Reg::X11 => Some((true, 11int)),
        Reg::X12 => Some((true, 12int)),
        Reg::X13 => Some((true, 13int)),
        Reg::X14 => Some((true, 14int)),
        Reg::X15 => Some((true, 15int)),
        Reg::X16 => Some((true, 16int)),
        Reg::X17 => Some((true, 17int)),
        Reg::X18 => Some((true, 18int)),
        Reg::X19 => Some((true, 19int)),
        Reg::X20 => Some((true, 20int)),
        Reg::X21 => Some((true, 21int)),
        Reg::X22 => Some((true, 22int)),
        Reg::X23 => Some((true, 23int)),
        Reg::X24 => Some((true, 24int)),
        Reg::X25 => Some((true, 25int)),
        Reg::X26 => Some((true, 26int)),
        Reg::X27 => Some((true, 27int)),
        Reg::X28 => Some((true, 28int)),
        Reg::X29 => Some((true, 29int)),
        Reg::X30 => Some((true, 30int)),
        Reg::SP => Some((true, 31int)),
        Reg::XZR => Some((true, 32int)),
        _ => None,
    }
}

/// the IL scalar name that holds the 64-bit content of integer register n (0..30 = x0..x30, 31 = sp); the zero
/// register (32) has no architectural state: "xzr" is a scratch name
pub open spec fn xname(n: int) -> Seq<char> {
    if n == 0 { "x0"@ }
    else if n == 1 { "x1"@ }
    else if n == 2 { "x2"@ }
    else if n == 3 { "x3"@ }
    else if n == 4 { "x4"@ }
    else if n == 5 { "x5"@ }
    else if n == 6 { "x6"@ }
    else if n == 7 { "x7"@ }
    else if n == 8 { "x8"@ }
    else if n == 9 { "x9"@ }
    else if n == 10 { "x10"@ }
    else if n == 11 { "x11"@ }
    else if n == 12 { "x12"@ }
    else if n == 13 { "x13"@ }
    else if n == 14 { "x14"@ }
    else if n == 15 { "x15"@ }
    else if n == 16 { "x16"@ }
    else if n == 17 { "x17"@ }
    else if n == 18 { "x18"@ }
    else if n == 19 { "x19"@ }
    else if n == 20 { "x20"@ }
    else if n == 21 { "x21"@ }
    else if n == 22 { "x22"@ }
    else if n == 23 { "x23"@ }
    else if n == 24 { "x24"@ }
    else if n == 25 { "x25"@ }
    else if n == 26 { "x26"@ }
    else if n == 27 { "x27"@ }
    else if n == 28 { "x28"@ }
    else if n == 29 { "x29"@ }
    else if n == 30 { "x30"@ }
    else if n == 31 { "sp"@ }
    else { "xzr"@ }
}

pub open spec fn is_zero_reg(r: Reg) -> bool { r == Reg::XZR || r == Reg::WZR }

/// the names of the IL scalars that hold ARCHITECTURAL state: x0..x30, sp and the four flags
pub open spec fn is_arch_name(s: Seq<char>) -> bool {
    (exists|n: int| 0 <= n <= 31 && s == #[trigger] xname(n)) || s == "n"@ || s == "z"@ || s == "c"@ || s == "v"@
}

// ---- the REGISTER RECORD INVARIANT -----------------------------------------------------------------------------
impl AArch64Register {
    /// the record of the full register `get_full()` returns for a record satisfying `rec_ok`
    pub open spec fn full_rec(&self) -> AArch64Register {
        let t = table_spec();
        t[lookup(t, self.bad64_full_reg).unwrap()]
    }

    /// `self` names its full register `f` correctly: `f` exists in the table, is a full register (its own full register),
    /// is at least as wide as `self` and at most 128 bits; a full register is its own full register; and - the
    /// ARCHITECTURAL part - an integer register Wn / Xn / WSP / SP / WZR / XZR is 32 resp. 64 bits wide and its full register
    /// is the 64-bit view of the SAME register number, held in the scalar called x<n> / sp (xzr for the zero register);
    /// a non-integer register never aliases an integer register
    pub open spec fn rec_ok(&self) -> bool {
        let t = table_spec();
        &&& lookup(t, self.bad64_full_reg) is Some
        &&& ({ let f = self.full_rec();
            &&& f.bad64_reg == f.bad64_full_reg
            &&& f.bad64_reg == self.bad64_full_reg
            &&& 1 <= self.bits && self.bits <= f.bits && f.bits <= 128
            &&& (self.bad64_reg == self.bad64_full_reg ==> (self.name@ == f.name@ && self.bits == f.bits))
            &&& (match gp_class(self.bad64_reg) {
                    Some((is64, n)) => self.bits == (if is64 { 64usize } else { 32usize }) && gp_class(f.bad64_reg) == Some((true, n))
                        && f.bits == 64 && f.name@ == xname(n),
                    None => gp_class(f.bad64_reg) is None,
                }) })
    }
}

pub open spec fn recs_ok_from(t: Seq<AArch64Register>, k: int) -> bool
    decreases t.len() - k,
{
    if k < 0 || k >= t.len() { true } else { t[k].rec_ok() && recs_ok_from(t, k + 1) }
}

pub proof fn lemma_recs_ok(t: Seq<AArch64Register>, k: int, i: int)
    requires recs_ok_from(t, k), 0 <= k <= i < t.len(),
    ensures t[i].rec_ok(),
    decreases i - k,
{
    if k < i { lemma_recs_ok(t, k + 1, i); }
}

pub proof fn lemma_table_ok()
    ensures recs_ok_from(table_spec(), 0),
{
    assert(recs_ok_from(table_spec(), 0)) by (compute);
}

/// every record of the real table satisfies the register record invariant (checked by evaluation of the extracted table)
pub proof fn lemma_table_rec_ok(k: int)
    requires 0 <= k < table_spec().len(),
    ensures table_spec()[k].rec_ok(),
{
    lemma_table_ok();
    lemma_recs_ok(table_spec(), 0, k);
}

pub proof fn lemma_lookup_found(t: Seq<AArch64Register>, id: Reg, k: int)
    requires 0 <= k,
    ensures lookup_from(t, id, k) matches Some(j) ==> k <= j < t.len() && t[j].bad64_reg == id,
    decreases t.len() - k,
{
    if k < t.len() && t[k].bad64_reg != id { lemma_lookup_found(t, id, k + 1); }
}

//@ fn fn get_register
//@ rewrite 1 `AARCH64_REGISTERS.iter()` => `it: AARCH64_REGISTERS.iter()` ## R-iter-name: names the ghost iterator of the `for` loop (no executable change)
//@ spec
    ensures
        /*@found*/ lookup(table_spec(), bad64_reg) matches Some(k) ==> (r matches Ok(x) && *x == table_spec()[k]),
        /*@missing*/ lookup(table_spec(), bad64_reg) is None ==> r is Err,
        /*@inv*/ r matches Ok(x) ==> x.rec_ok() && x.bad64_reg == bad64_reg,
//@ loop 0
    invariant
        it.seq().len() == table_spec().len(),
        forall|j: int| 0 <= j < it.seq().len() ==> *#[trigger] it.seq()[j] == table_spec()[j],
        lookup(table_spec(), bad64_reg) == lookup_from(table_spec(), bad64_reg, it.index@ as int),
//@ before 0 `return Ok(register)`
    proof { lemma_table_rec_ok(it.index@ as int); }
//@ end
