// ---- units/C03/flags.rs: NZCV of ADDS / SUBS (Arm ARM AddWithCarry) - value-level facts about the expressions the lifter
// builds: N = cmplts(result, 0), Z = cmpeq(result, 0), C / V = comparison of the 72-bit zero- / sign-extended result with
// the 72-bit sum / difference of the zero- / sign-extended operands.  Included inside `mod translator::aarch64`.

/// Arm ARM AddWithCarry(x, y, carry_in) at width w; ADDS: (a, b, 0); SUBS / CMP: (a, NOT(b), 1)
pub open spec fn awc_result(w: nat, x: nat, y: nat, cin: nat) -> nat { (x + y + cin) % pow2(w) }
pub open spec fn awc_n(w: nat, x: nat, y: nat, cin: nat) -> nat { msb(w, awc_result(w, x, y, cin)) }
pub open spec fn awc_z(w: nat, x: nat, y: nat, cin: nat) -> nat { b2n(awc_result(w, x, y, cin) == 0) }
pub open spec fn awc_c(w: nat, x: nat, y: nat, cin: nat) -> nat { b2n(awc_result(w, x, y, cin) != x + y + cin) }
pub open spec fn awc_v(w: nat, x: nat, y: nat, cin: nat) -> nat { b2n(sval(w, awc_result(w, x, y, cin)) != sval(w, x) + sval(w, y) + cin) }
/// NOT(b) at width w
pub open spec fn not_w(w: nat, b: nat) -> nat { (pow2(w) - 1 - b) as nat }

/// the arguments AddWithCarry receives: ADDS (a, b, 0), SUBS (a, NOT(b), 1)
pub open spec fn awc_y(w: nat, b: nat, sub: bool) -> nat { if sub { not_w(w, b) } else { b } }
pub open spec fn awc_cin(sub: bool) -> nat { if sub { 1 } else { 0 } }

/// result of x + y resp. x - y at width w, as eval_spec computes it
pub open spec fn addsub(w: nat, a: nat, b: nat, sub: bool) -> nat { if sub { bv_sub(w, a, b) } else { bv_add(w, a, b) } }

/// the explicit form of the truncated sum / difference
pub proof fn lemma_addsub_cases(w: nat, a: nat, b: nat, sub: bool)
    requires w >= 1, a < pow2(w), b < pow2(w),
    ensures
        addsub(w, a, b, sub) < pow2(w),
        !sub ==> addsub(w, a, b, sub) == (if a + b < pow2(w) { a + b } else { (a + b - pow2(w)) as nat }),
        sub ==> addsub(w, a, b, sub) == (if a >= b { (a - b) as nat } else { (a - b + pow2(w)) as nat }),
        addsub(w, a, b, sub) == awc_result(w, a, awc_y(w, b, sub), awc_cin(sub)),
{
    reveal(bv_add); reveal(bv_sub);
    lemma_pow2_pos(w);
    let p = pow2(w);
    if sub {
        let d = a as int - b as int;
        if d >= 0 { lemma_enc_small(w, d); } else { lemma_enc_neg(w, d); }
        // a + NOT(b) + 1 = a - b + 2^w
        let s = a + not_w(w, b) + 1;
        assert(s == a - b + p);
        if a >= b { lemma_fundamental_div_mod_converse(s as int, p as int, 1, a as int - b as int); }
        else { lemma_small_mod(s, p); }
    } else {
        let s = a + b;
        if s < p { lemma_small_mod(s, p); } else { lemma_fundamental_div_mod_converse(s as int, p as int, 1, s as int - p as int); }
    }
}

/// enc at 72 bits is injective on the integers of magnitude below 2^71 and keeps the small naturals
pub proof fn lemma_enc72(x: int)
    requires -(pow2(71) as int) < x < pow2(71),
    ensures enc(72, x) == (if x >= 0 { x } else { x + pow2(72) }) as nat, pow2(72) == 2 * pow2(71),
{
    lemma_pow2_step(71);
    if x >= 0 { lemma_enc_small(72, x); } else { lemma_enc_neg(72, x); }
}

/// what the lifter's four flag expressions evaluate to, and that this is the NZCV of AddWithCarry
pub proof fn lemma_nzcv_values(w: nat, a: nat, b: nat, sub: bool)
    requires 1 <= w <= 64, a < pow2(w), b < pow2(w),
    ensures
        ({
            let res = addsub(w, a, b, sub);
            let y = awc_y(w, b, sub);
            let cin = awc_cin(sub);
            &&& res < pow2(w)
            &&& bv_cmplts(w, res, 0) == awc_n(w, a, y, cin)
            &&& bv_cmpeq(res, 0) == awc_z(w, a, y, cin)
            &&& !sub ==> bv_cmpneq(bv_zext(res), bv_add(72, bv_zext(a), bv_zext(b))) == awc_c(w, a, y, cin)
            &&& sub ==> bv_cmpeq(bv_zext(res), bv_sub(72, bv_zext(a), bv_zext(b))) == awc_c(w, a, y, cin)
            &&& !sub ==> bv_cmpneq(bv_sext(w, 72, res), bv_add(72, bv_sext(w, 72, a), bv_sext(w, 72, b))) == awc_v(w, a, y, cin)
            &&& sub ==> bv_cmpneq(bv_sext(w, 72, res), bv_sub(72, bv_sext(w, 72, a), bv_sext(w, 72, b))) == awc_v(w, a, y, cin)
            // the textbook reading of the carry and overflow flags
            &&& awc_c(w, a, y, cin) == b2n(if sub { a >= b } else { a + b >= pow2(w) })
            &&& awc_v(w, a, y, cin) == b2n(signed_overflow(w, a, b, sub))
        }),
{
    let res = addsub(w, a, b, sub);
    let y = awc_y(w, b, sub);
    let cin = awc_cin(sub);
    let p = pow2(w);
    let h = pow2((w - 1) as nat);
    let p72 = pow2(72);
    lemma_addsub_cases(w, a, b, sub);
    lemma_sval_range(w, a); lemma_sval_range(w, b); lemma_sval_range(w, res);
    lemma_pow2_pos(w);
    lemma_pow2_mono(w, 64);
    lemma_pow2_strictly_increases(64, 71);
    lemma_pow2_step(71);
    lemma_msb(w, res);
    // N, Z
    assert(bv_cmplts(w, res, 0) == msb(w, res)) by {
        reveal(bv_cmplts);
        lemma_pow2_pos((w - 1) as nat);
        assert(sval(w, 0) == 0);
    }
    assert(bv_cmpeq(res, 0) == b2n(res == 0)) by { reveal(bv_cmpeq); }
    // C
    reveal(bv_zext);
    if sub {
        reveal(bv_sub); reveal(bv_cmpeq);
        lemma_enc72(a as int - b as int);
        assert(a + y + cin == a - b + p);
    } else {
        reveal(bv_add); reveal(bv_cmpneq);
        lemma_small_mod(a + b, p72);
    }
    // V
    let sa = sval(w, a); let sb = sval(w, b); let sr = sval(w, res);
    let sy = sval(w, y);
    lemma_enc72(sa); lemma_enc72(sb); lemma_enc72(sr);
    reveal(bv_sext); reveal(bv_cmpneq);
    let t = if sub { sa - sb } else { sa + sb };
    lemma_enc72(t);
    if sub {
        reveal(bv_sub);
        lemma_sub_mod_noop(sa, sb, p72 as int);
        assert(bv_sub(72, enc(72, sa), enc(72, sb)) == enc(72, t));
        // sval(NOT b) = -sval(b) - 1
        assert(y < p);
        lemma_sval_range(w, y);
        assert(sy == -sb - 1);
        assert(sa + sy + cin as int == t);
    } else {
        reveal(bv_add);
        lemma_add_mod_noop(sa, sb, p72 as int);
        assert(bv_add(72, enc(72, sa), enc(72, sb)) == enc(72, t));
    }
    // sr and t differ by a multiple of 2^w; both in range ==> equal
    assert(sr != t <==> signed_overflow(w, a, b, sub));
}
