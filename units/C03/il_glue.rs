// ---- units/C03/il_glue.rs: IL helpers the AArch64 lifter calls and no other unit has under a precise-enough contract
