// ---- units/C03/il_glue.rs: IL helpers the AArch64 lifter calls. Included inside `pub mod il`.
// (1) ControlFlowGraph::{new_block, set_entry, set_exit}: the three holes below are VERBATIM COPIES of the holes of
//     units/C15/cfg_edit.rs (same contracts, proved by unit C15 against the same text; imported here as contracts-only).
//     units/C15/cfg_edit.rs cannot be included as a whole: it also holds C15's `Scalar::new`, which would collide with the
//     NAME-precise `Scalar::new` of units/C01/il_glue.rs this unit needs.
//@ mode contracts-only C15
impl ControlFlowGraph {
//@ source lib/il/control_flow_graph.rs
//@ fn impl ControlFlowGraph :: fn set_entry
//@ spec
    requires old(self).cfg_wf(),
    ensures
        /*@wf*/ final(self).cfg_wf(),
        /*@ok*/ old(self).has_block(entry) ==> r is Ok && final(self).entry == Some(entry),
        /*@missing*/ !old(self).has_block(entry) ==> (r matches Err(e) && e is Custom) && final(self).entry == old(self).entry,
        /*@frame*/ final(self).graph == old(self).graph && final(self).next_index == old(self).next_index && final(self).next_temp_index == old(self).next_temp_index
            && final(self).exit == old(self).exit && final(self).ssa_form == old(self).ssa_form,
//@ end

//@ fn impl ControlFlowGraph :: fn set_exit
//@ spec
    requires old(self).cfg_wf(),
    ensures
        /*@wf*/ final(self).cfg_wf(),
        /*@ok*/ old(self).has_block(exit) ==> r is Ok && final(self).exit == Some(exit),
        /*@missing*/ !old(self).has_block(exit) ==> (r matches Err(e) && e is Custom) && final(self).exit == old(self).exit,
        /*@frame*/ final(self).graph == old(self).graph && final(self).next_index == old(self).next_index && final(self).next_temp_index == old(self).next_temp_index
            && final(self).entry == old(self).entry && final(self).ssa_form == old(self).ssa_form,
//@ end

//@ fn impl ControlFlowGraph :: fn new_block
//@ spec
    requires old(self).cfg_wf(), old(self).next_index < usize::MAX,
    ensures
        /*@ok*/ r is Ok,
        /*@block*/ r matches Ok(b) ==> b.index == old(self).next_index && b.next_instruction_index == 0
            && b.instructions@ == Seq::<Instruction>::empty() && b.phi_nodes@ == Seq::<PhiNode>::empty(),
        /*@vertices*/ r matches Ok(b) ==> !old(self).has_block(old(self).next_index)
            && final(self).graph.vertices@ == old(self).graph.vertices@.insert(old(self).next_index, *final(b)),
        /*@edges*/ final(self).graph.edges == old(self).graph.edges,
        /*@counter*/ final(self).next_index == old(self).next_index + 1,
        /*@frame*/ final(self).next_temp_index == old(self).next_temp_index && final(self).entry == old(self).entry
            && final(self).exit == old(self).exit && final(self).ssa_form == old(self).ssa_form,
        /*@wf*/ r matches Ok(b) ==> (final(b).index == old(self).next_index && final(b).block_wf() ==> final(self).cfg_wf()),
//@ end
}
//@ mode full

// (2) Scalar::temp (lib/il/scalar.rs): a scalar named by `format!("temp_0x{:X}", index)`. Verus gives `format!` no
//     specification, so the contract says nothing about the NAME (that temporaries do not collide with the architectural
//     scalars x0..x30 / sp / n / z / c / v is therefore NOT decided here; bounded check only).
impl Scalar {
//@ fn lib/il/scalar.rs :: impl Scalar :: fn temp
//@ spec
    ensures /*@fields*/ r.bits == bits && r.ssa is None,
//@ end
}
