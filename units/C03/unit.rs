// Unit C03 (PARTIAL / residual) - the register layer and the decoder-independent helper layer every lifted AArch64
// instruction goes through: translator::aarch64::register (the register table, get_register,
// AArch64Register::{bits, is_full, get_full, get, set}) and translator::aarch64::semantics (resize_zext, lsl / lsr / asr /
// ror / shift / maybe_shift, imm_to_u64, operand_imm_u64, operand_load / operand_store / operand_storing_width /
// mem_operand_address / MemOperandSideeffect::apply on the integer operand shapes, the NZCV computation of adds / subs,
// the condition evaluation of b_cc, ...), relative to stand-in transcriptions of the bad64 operand types.
// Generated file = this template + the real text of the items named in the `//@` holes.
// Imported under contract: il::{Constant, Scalar, Expression}, eval_spec (C04); il core + Block edits (C15);
// graph (C11, only because il::ControlFlowGraph's definition mentions it); Scalar::new / il::scalar / il::expr_scalar
// with NAME-precise contracts (C01).
#![feature(allocator_api)]
#![allow(unused_imports, unused_variables, dead_code, unused_mut, non_snake_case, non_camel_case_types, unused_parens, unused_braces, deprecated, unreachable_patterns, unused_assignments)]
use vstd::prelude::*;
use vstd::arithmetic::power2::*;
use vstd::arithmetic::div_mod::*;
use vstd::arithmetic::mul::*;
use std::ops::*;
use std::cmp;
use std::cmp::Ordering;
use std::collections::{BTreeMap, BTreeSet, VecDeque};
use std::fmt;
use std::rc::Rc;

verus! {

//@ include spec/bv.rs
//@ include prelude/bigint.rs
//@ include prelude/error.rs
//@ include prelude/fxhash.rs
//@ include prelude/stdcoll.rs
//@ include prelude/rc_asref.rs
//@ include prelude/strmap.rs
//@ include prelude/bad64_reg.rs
//@ mode contracts-only C11
//@ include units/C11/error_from.rs
//@ mode contracts-only C15
//@ include units/C15/error_from_string.rs
//@ mode full

// falcon::RC (default build, feature "thread_safe" off): the real alias, extracted
//@ item lib/lib.rs :: type RC#0

pub mod graph {
use super::*;
use vstd::std_specs::iter::IteratorSpec;
use rustc_hash::{FxHashMap, FxHashSet};
broadcast use {rustc_hash::axiom_fx_builds_valid_hashers, stdcoll::axiom_btreemap_index_req, stdcoll::axiom_hashmap_index_req, stdcoll::axiom_usize_pair_obeys_key_model};
//@ mode contracts-only C11
//@ include units/C11/graph_core.rs
//@ mode full
proof fn vf_canary_graph() ensures false {}
} // mod graph

pub mod il {
use super::*;
use super::strmap::*;
use vstd::std_specs::iter::IteratorSpec;
// il::ProgramLocation (lib/il/location.rs) is only a payload of falcon::Error here: opaque stand-in
#[verifier::external_body] pub struct ProgramLocation { _p: () }
//@ mode contracts-only C15
//@ include units/C15/il_core.rs
use super::graph::{Vertex as GraphVertexTrait, Edge as GraphEdgeTrait};
//@ include units/C15/block_edit.rs
//@ mode contracts-only C04
//@ include units/C04/builders.rs
//@ mode contracts-only C01
//@ include units/C01/bits.rs
//@ include units/C01/il_glue.rs
//@ mode full
//@ include units/C03/il_glue.rs
proof fn vf_canary_il() ensures false {}
} // mod il

pub mod translator {
pub mod aarch64 {
use crate::*;
use crate::il;
use crate::il::*;
use crate::strmap::*;
use crate::bad64_reg as bad64;
use crate::bad64_reg::Reg;
use vstd::std_specs::iter::IteratorSpec;
//@ include units/C03/regs.rs
//@ include units/C03/flags.rs
//@ include units/C03/sem.rs
proof fn vf_canary_aarch64() ensures false {}
} // mod aarch64
} // mod translator

proof fn vf_canary_root() ensures false {}

} // verus!

fn main() {}
