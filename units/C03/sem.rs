// ---- units/C03/sem.rs: translator::aarch64::semantics - the decoder-independent helper layer
//@ source lib/translator/aarch64/semantics.rs

// ---- meaning of the bad64 operand pieces (ASSUMED DECODER CONTRACT: the structs describe the encoding as the Arm ARM
// prescribes; everything below is relative to them) -----------------------------------------------------------------

/// the 64-bit pattern of an immediate: a signed immediate is bit-cast (two's complement)
pub open spec fn imm_val(imm: bad64::Imm) -> nat {
    match imm {
        bad64::Imm::Signed(x) => (if x >= 0 { x as int } else { x as int + 0x1_0000_0000_0000_0000 }) as nat,
        bad64::Imm::Unsigned(x) => x as nat,
    }
}

//@ fn fn imm_to_u64
//@ spec
    ensures /*@bitcast*/ r as nat == imm_val(*imm),
//@ enter
    proof { lemma_i64_as_u64(); }
//@ end

/// `x as u64` on an i64 is the two's-complement bit pattern
pub proof fn lemma_i64_as_u64()
    ensures forall|x: i64| #[trigger] (x as u64) as int == (if x >= 0 { x as int } else { x as int + 0x1_0000_0000_0000_0000 }),
{
    assert forall|x: i64| #[trigger] (x as u64) as int == (if x >= 0 { x as int } else { x as int + 0x1_0000_0000_0000_0000 }) by {
        assert((x as u64) as int == (if x >= 0 { x as int } else { x as int + 0x1_0000_0000_0000_0000 })) by (bit_vector);
    }
}

// ---- resize / shifts ---------------------------------------------------------------------------------------------------

/// value of `resize_zext`: the low `bits` bits (a widening keeps the number)
pub open spec fn resize_ok(bits: usize, value: Expression, r: Expression, env: Env) -> bool {
    eval_spec(value, env) matches EvalR::Val(w, v) ==> eval_spec(r, env) == EvalR::Val(bits as nat, v % pow2(bits as nat))
}

pub proof fn lemma_resize(bits: usize, value: Expression, env: Env)
    requires expr_wf(value), 1 <= bits, bits as nat <= MAX_BITS(), env_sorted(env),
    ensures
        expr_bits(value) == bits ==> resize_ok(bits, value, value, env),
        expr_bits(value) < bits ==> resize_ok(bits, value, Expression::Zext(bits, Box::new(value)), env),
        expr_bits(value) > bits ==> resize_ok(bits, value, Expression::Trun(bits, Box::new(value)), env),
{
    lemma_eval_wf_val(value, env);
    reveal(bv_zext); reveal(bv_trun);
    if let EvalR::Val(w, v) = eval_spec(value, env) {
        if w <= bits { lemma_pow2_mono(w, bits as nat); lemma_small_mod(v, pow2(bits as nat)); }
    }
}

//@ fn fn resize_zext
//@ spec
    requires expr_wf(value), 1 <= bits, bits as nat <= MAX_BITS(),
    ensures
        /*@wf*/ expr_wf(r) && expr_bits(r) == bits,
        /*@value*/ forall|env: Env| env_sorted(env) ==> #[trigger] resize_ok(bits, value, r, env),
//@ enter
    proof {
        lemma_expr_wf_bits(value);
        assert forall|env: Env| env_sorted(env) implies (expr_bits(value) == bits ==> #[trigger] resize_ok(bits, value, value, env)) by {
            lemma_resize(bits, value, env);
        }
        assert forall|env: Env| env_sorted(env) implies (expr_bits(value) < bits ==> #[trigger] resize_ok(bits, value, Expression::Zext(bits, Box::new(value)), env)) by {
            lemma_resize(bits, value, env);
        }
        assert forall|env: Env| env_sorted(env) implies (expr_bits(value) > bits ==> #[trigger] resize_ok(bits, value, Expression::Trun(bits, Box::new(value)), env)) by {
            lemma_resize(bits, value, env);
        }
    }
//@ end

/// (named relations between the operands and the result of lsl / lsr / asr / ror: they double as quantifier triggers)
pub open spec fn lsl_rel(value: Expression, shift: Expression, r: Expression) -> bool { r == Expression::Shl(Box::new(value), Box::new(shift)) }
pub open spec fn lsr_rel(value: Expression, shift: Expression, r: Expression) -> bool { r == Expression::Shr(Box::new(value), Box::new(shift)) }
pub open spec fn asr_rel(value: Expression, shift: Expression, r: Expression) -> bool {
    &&& expr_wf(r) && expr_bits(r) == expr_bits(value)
    &&& forall|env: Env| env_sorted(env) ==> #[trigger] eval_spec(r, env) == eval_spec(Expression::AShr(Box::new(value), Box::new(shift)), env)
}

//@ fn fn lsl
//@ spec
    requires expr_wf(value), expr_wf(shift), expr_bits(value) == expr_bits(shift),
    ensures /*@shape*/ lsl_rel(value, shift, r),
//@ end

//@ fn fn lsr
//@ spec
    requires expr_wf(value), expr_wf(shift), expr_bits(value) == expr_bits(shift),
    ensures /*@shape*/ lsr_rel(value, shift, r),
//@ end

//@ fn fn asr
//@ spec
    requires expr_wf(value), expr_wf(shift), expr_bits(value) == expr_bits(shift),
    ensures /*@value*/ asr_rel(value, shift, r),
//@ end

/// Arm ARM ROR(x, s) on a w-bit value, 0 <= s <= w: the low s bits move to the top, the rest moves down by s
pub open spec fn rotr_spec(w: nat, a: nat, s: nat) -> nat
    recommends s <= w
{
    (a % pow2(s)) * pow2((w - s) as nat) + a / pow2(s)
}

pub open spec fn ror_form(value: Expression, shift: Expression, wc: Constant) -> Expression {
    Expression::Or(
        Box::new(Expression::Shl(Box::new(value), Box::new(Expression::Sub(Box::new(Expression::Constant(wc)), Box::new(shift))))),
        Box::new(Expression::Shr(Box::new(value), Box::new(shift))))
}

pub open spec fn ror_ok(value: Expression, shift: Expression, r: Expression, env: Env) -> bool {
    match (eval_spec(value, env), eval_spec(shift, env)) {
        (EvalR::Val(w, a), EvalR::Val(w2, s)) => s <= w ==> eval_spec(r, env) == EvalR::Val(w, rotr_spec(w, a, s)),
        _ => true,
    }
}

pub open spec fn ror_rel(value: Expression, shift: Expression, r: Expression) -> bool {
    &&& expr_wf(r) && expr_bits(r) == expr_bits(value)
    &&& forall|env: Env| env_sorted(env) ==> #[trigger] ror_ok(value, shift, r, env)
}

pub proof fn lemma_ror_eval(value: Expression, shift: Expression, wc: Constant, env: Env)
    requires
        expr_wf(value), expr_wf(shift), expr_bits(value) == expr_bits(shift), env_sorted(env),
        wc.wf(), wc.bits as nat == expr_bits(value), wc.value@ == expr_bits(value),
    ensures
        expr_wf(ror_form(value, shift, wc)), expr_bits(ror_form(value, shift, wc)) == expr_bits(value),
        ror_ok(value, shift, ror_form(value, shift, wc), env),
{
    let w = expr_bits(value);
    let cw = Expression::Constant(wc);
    let sub = Expression::Sub(Box::new(cw), Box::new(shift));
    let shl = Expression::Shl(Box::new(value), Box::new(sub));
    let shr = Expression::Shr(Box::new(value), Box::new(shift));
    let whole = Expression::Or(Box::new(shl), Box::new(shr));
    assert(whole == ror_form(value, shift, wc));
    assert(expr_wf(cw) && expr_bits(cw) == w);
    assert(expr_wf(sub) && expr_bits(sub) == w);
    assert(expr_wf(shl) && expr_bits(shl) == w);
    assert(expr_wf(shr) && expr_bits(shr) == w);
    assert(expr_wf(whole) && expr_bits(whole) == w);
    lemma_eval_wf_val(value, env);
    lemma_eval_wf_val(shift, env);
    let ev = eval_spec(value, env);
    let es = eval_spec(shift, env);
    assert(eval_spec(cw, env) == EvalR::Val(w, w));
    assert(eval_spec(sub, env) == bin_spec(BinOp::Sub, EvalR::Val(w, w), es));
    assert(eval_spec(shl, env) == bin_spec(BinOp::Shl, ev, eval_spec(sub, env)));
    assert(eval_spec(shr, env) == bin_spec(BinOp::Shr, ev, es));
    assert(eval_spec(whole, env) == bin_spec(BinOp::Or, eval_spec(shl, env), eval_spec(shr, env)));
    if let EvalR::Val(wv, a) = ev {
        if let EvalR::Val(ws, s) = es {
            if s <= w {
                lemma_lt_pow2(w);
                let k = (w - s) as nat;
                lemma_rotl_val(w, a, k);
                // bv_sub(w, w, s) == w - s
                assert(bv_sub(w, w, s) == k) by { reveal(bv_sub); lemma_enc_small(w, w as int - s as int); }
                assert(rotl_spec(w, a, k) == rotr_spec(w, a, s));
            }
        }
    }
}

//@ fn fn ror
//@ spec
    requires expr_wf(value), expr_wf(shift), expr_bits(value) == expr_bits(shift),
    ensures /*@rotate*/ ror_rel(value, shift, r),
//@ enter
    proof {
        lemma_expr_wf_bits(value);
        let w = expr_bits(value);
        lemma_lt_pow2(w);
        lemma_small_mod(w, pow2(w));
    }
//@ before 0 `il::Expression::or(`
    proof {
        let wc = lhs_of(shift_left_bits)->Constant_0;
        if shift_left_bits == Expression::Sub(Box::new(Expression::Constant(wc)), Box::new(shift)) && wc.value@ == expr_bits(value) {
            lemma_ror_eval(value, shift, wc, empty_env());
            assert forall|env: Env| env_sorted(env) implies #[trigger] ror_ok(value, shift, ror_form(value, shift, wc), env) by {
                lemma_ror_eval(value, shift, wc, env);
            }
        }
    }
//@ end

/// first / second operand of a binary expression, the operand of an extension / truncation (ghost destructuring)
pub open spec fn lhs_of(e: Expression) -> Expression {
    match e {
        Expression::Add(l, _) | Expression::Sub(l, _) | Expression::Mul(l, _) | Expression::Divu(l, _) | Expression::Modu(l, _)
        | Expression::Divs(l, _) | Expression::Mods(l, _) | Expression::And(l, _) | Expression::Or(l, _) | Expression::Xor(l, _)
        | Expression::Shl(l, _) | Expression::Shr(l, _) | Expression::AShr(l, _) | Expression::Cmpeq(l, _) | Expression::Cmpneq(l, _)
        | Expression::Cmplts(l, _) | Expression::Cmpltu(l, _) => *l,
        Expression::Zext(_, x) | Expression::Sext(_, x) | Expression::Trun(_, x) => *x,
        _ => e,
    }
}
pub open spec fn rhs_of(e: Expression) -> Expression {
    match e {
        Expression::Add(_, r) | Expression::Sub(_, r) | Expression::Mul(_, r) | Expression::Divu(_, r) | Expression::Modu(_, r)
        | Expression::Divs(_, r) | Expression::Mods(_, r) | Expression::And(_, r) | Expression::Or(_, r) | Expression::Xor(_, r)
        | Expression::Shl(_, r) | Expression::Shr(_, r) | Expression::AShr(_, r) | Expression::Cmpeq(_, r) | Expression::Cmpneq(_, r)
        | Expression::Cmplts(_, r) | Expression::Cmpltu(_, r) => *r,
        _ => e,
    }
}

// ---- DecodeShift / ExtendReg ------------------------------------------------------------------------------------------

pub open spec fn sh_amount(s: bad64::Shift) -> nat {
    match s {
        bad64::Shift::LSL(a) | bad64::Shift::LSR(a) | bad64::Shift::ASR(a) | bad64::Shift::ROR(a) | bad64::Shift::MSL(a)
        | bad64::Shift::SXTB(a) | bad64::Shift::SXTH(a) | bad64::Shift::SXTW(a) | bad64::Shift::SXTX(a)
        | bad64::Shift::UXTB(a) | bad64::Shift::UXTH(a) | bad64::Shift::UXTW(a) | bad64::Shift::UXTX(a) => a as nat,
    }
}

/// Some((unsigned, len)) for the eight register-extension kinds (Arm ARM DecodeRegExtend / ExtendReg)
pub open spec fn ext_params(s: bad64::Shift) -> Option<(bool, nat)> {
    match s {
        bad64::Shift::SXTB(_) => Some((false, 8nat)), bad64::Shift::SXTH(_) => Some((false, 16nat)),
        bad64::Shift::SXTW(_) => Some((false, 32nat)), bad64::Shift::SXTX(_) => Some((false, 64nat)),
        bad64::Shift::UXTB(_) => Some((true, 8nat)), bad64::Shift::UXTH(_) => Some((true, 16nat)),
        bad64::Shift::UXTW(_) => Some((true, 32nat)), bad64::Shift::UXTX(_) => Some((true, 64nat)),
        _ => None,
    }
}

/// the low `len` bits of the w-bit value v, zero- resp. sign-extended to n bits (n bits kept if len >= n)
pub open spec fn ext_val(unsigned: bool, len: nat, w: nat, v: nat, n: nat) -> nat {
    let we = if len < w { len } else { w };
    let low = if len < w { v % pow2(len) } else { v };
    if len < n { if unsigned { low } else { bv_sext(we, n, low) } } else { low }
}

/// Arm ARM ShiftReg (LSL / LSR / ASR / ROR by `amount`) resp. ExtendReg (extend the low `len` bits, then shift left by
/// `amount`, keep n bits) applied to the w-bit value v, at the operation width n
#[verifier::opaque]
pub open spec fn shift_val(s: bad64::Shift, w: nat, v: nat, n: nat) -> nat {
    let a = sh_amount(s) % pow2(n);
    match s {
        bad64::Shift::LSL(_) => bv_shl(n, v, a),
        bad64::Shift::LSR(_) => bv_shr(n, v, a),
        bad64::Shift::ASR(_) => bv_ashr(n, v, a),
        bad64::Shift::ROR(_) => rotr_spec(n, v, a),
        bad64::Shift::MSL(_) => 0,
        _ => bv_shl(n, ext_val(ext_params(s).unwrap().0, ext_params(s).unwrap().1, w, v, n), a),
    }
}

/// WIDTH PRECONDITION of `shift` (no sort-error panic): a plain shift needs the value at the operation width; an extension
/// of `len` bits needs min(len, width of the value) to fit the operation width exactly when no extension happens
#[verifier::opaque]
pub open spec fn shift_pre(s: bad64::Shift, w: nat, n: nat) -> bool {
    match ext_params(s) {
        Some((unsigned, len)) => ({ let we = if len < w { len } else { w }; if len < n { true } else { we == n } }),
        None => s is MSL || w == n,
    }
}

pub open spec fn shift_ok(s: bad64::Shift, value: Expression, n: usize, r: Expression, env: Env) -> bool {
    eval_spec(value, env) matches EvalR::Val(w, v) ==> ((s is ROR ==> sh_amount(s) % pow2(n as nat) <= n) ==> eval_spec(r, env) == EvalR::Val(n as nat, shift_val(s, w, v, n as nat)))
}

pub proof fn lemma_ext_eval(unsigned: bool, len: usize, value: Expression, n: usize, ca: Constant, env: Env)
    requires
        expr_wf(value), env_sorted(env), 1 <= len, 1 <= n, n as nat <= MAX_BITS(),
        ({ let w = expr_bits(value); let we = if (len as nat) < w { len as nat } else { w }; if len < n { true } else { we == n } }),
        ca.wf(), ca.bits == n,
    ensures
        ({
            let w = expr_bits(value);
            let e1 = if (len as nat) < w { Expression::Trun(len, Box::new(value)) } else { value };
            let e2 = if len < n { if unsigned { Expression::Zext(n, Box::new(e1)) } else { Expression::Sext(n, Box::new(e1)) } } else { e1 };
            let e3 = Expression::Shl(Box::new(e2), Box::new(Expression::Constant(ca)));
            &&& expr_wf(e1) && expr_bits(e1) == (if (len as nat) < w { len as nat } else { w })
            &&& expr_wf(e2) && expr_bits(e2) == n
            &&& expr_wf(e3) && expr_bits(e3) == n
            &&& (eval_spec(value, env) matches EvalR::Val(wv, v) ==> eval_spec(e3, env) == EvalR::Val(n as nat, bv_shl(n as nat, ext_val(unsigned, len as nat, w, v, n as nat), ca.value@)))
        }),
{
    let w = expr_bits(value);
    lemma_expr_wf_bits(value);
    lemma_eval_wf_val(value, env);
    let e1 = if (len as nat) < w { Expression::Trun(len, Box::new(value)) } else { value };
    assert(expr_wf(e1));
    let e2 = if len < n { if unsigned { Expression::Zext(n, Box::new(e1)) } else { Expression::Sext(n, Box::new(e1)) } } else { e1 };
    assert(expr_wf(e2) && expr_bits(e2) == n);
    let cc = Expression::Constant(ca);
    assert(expr_wf(cc) && expr_bits(cc) == n);
    let e3 = Expression::Shl(Box::new(e2), Box::new(cc));
    assert(expr_wf(e3));
    reveal(bv_trun); reveal(bv_zext);
    assert(eval_spec(cc, env) == EvalR::Val(n as nat, ca.value@));
    assert(eval_spec(e3, env) == bin_spec(BinOp::Shl, eval_spec(e2, env), EvalR::Val(n as nat, ca.value@)));
    if let EvalR::Val(wv, v) = eval_spec(value, env) {
        let low = if (len as nat) < w { v % pow2(len as nat) } else { v };
        let we = if (len as nat) < w { len as nat } else { w };
        assert(eval_spec(e1, env) == EvalR::Val(we, low));
        assert(eval_spec(e2, env) == EvalR::Val(n as nat, ext_val(unsigned, len as nat, w, v, n as nat)));
    }
}

/// `sh` is the constant `a` at width n
pub open spec fn const_is(sh: Expression, n: nat, a: nat) -> bool {
    sh matches Expression::Constant(c) && c.wf() && c.bits as nat == n && c.value@ == a
}

/// the result `e` of `shift` is well-sorted at the operation width and means ShiftReg / ExtendReg
pub open spec fn shift_good(s: bad64::Shift, value: Expression, n: usize, e: Expression) -> bool {
    &&& expr_wf(e) && expr_bits(e) == n
    &&& forall|env: Env| env_sorted(env) ==> #[trigger] shift_ok(s, value, n, e, env)
}

pub proof fn lemma_shift_plain(s: bad64::Shift, value: Expression, sh: Expression, e: Expression, n: usize)
    requires
        expr_wf(value), expr_bits(value) == n, const_is(sh, n as nat, sh_amount(s) % pow2(n as nat)),
        (s is LSL && lsl_rel(value, sh, e)) || (s is LSR && lsr_rel(value, sh, e)) || (s is ASR && asr_rel(value, sh, e)) || (s is ROR && ror_rel(value, sh, e)),
    ensures shift_good(s, value, n, e),
{
    reveal(shift_val);
    let c = sh->Constant_0;
    assert(sh == Expression::Constant(c));
    assert(expr_wf(sh) && expr_bits(sh) == n);
    assert(expr_wf(e) && expr_bits(e) == n);
    assert forall|env: Env| env_sorted(env) implies #[trigger] shift_ok(s, value, n, e, env) by {
        lemma_eval_wf_val(value, env);
        assert(eval_spec(sh, env) == EvalR::Val(n as nat, c.value@));
        if s is LSL { assert(eval_spec(e, env) == bin_spec(BinOp::Shl, eval_spec(value, env), eval_spec(sh, env))); }
        if s is LSR { assert(eval_spec(e, env) == bin_spec(BinOp::Shr, eval_spec(value, env), eval_spec(sh, env))); }
        if s is ASR {
            let a = Expression::AShr(Box::new(value), Box::new(sh));
            assert(eval_spec(a, env) == bin_spec(BinOp::AShr, eval_spec(value, env), eval_spec(sh, env)));
        }
        if s is ROR { assert(ror_ok(value, sh, e, env)); }
    }
}

pub proof fn lemma_shift_ext(s: bad64::Shift, unsigned: bool, len: usize, value: Expression, n: usize, sh: Expression)
    requires
        expr_wf(value), 1 <= n, n as nat <= MAX_BITS(), ext_params(s) == Some((unsigned, len as nat)), 1 <= len,
        shift_pre(s, expr_bits(value), n as nat), const_is(sh, n as nat, sh_amount(s) % pow2(n as nat)),
    ensures
        ({
            let w = expr_bits(value);
            let e1 = if (len as nat) < w { Expression::Trun(len, Box::new(value)) } else { value };
            let e2 = if len < n { if unsigned { Expression::Zext(n, Box::new(e1)) } else { Expression::Sext(n, Box::new(e1)) } } else { e1 };
            expr_wf(e2) && expr_bits(e2) == n && shift_good(s, value, n, Expression::Shl(Box::new(e2), Box::new(sh)))
        }),
{
    reveal(shift_val); reveal(shift_pre);
    let ca = sh->Constant_0;
    assert(sh == Expression::Constant(ca));
    lemma_ext_eval(unsigned, len, value, n, ca, empty_env());
    let w = expr_bits(value);
    let e1 = if (len as nat) < w { Expression::Trun(len, Box::new(value)) } else { value };
    let e2 = if len < n { if unsigned { Expression::Zext(n, Box::new(e1)) } else { Expression::Sext(n, Box::new(e1)) } } else { e1 };
    let e3 = Expression::Shl(Box::new(e2), Box::new(sh));
    assert forall|env: Env| env_sorted(env) implies #[trigger] shift_ok(s, value, n, e3, env) by {
        lemma_ext_eval(unsigned, len, value, n, ca, env);
        lemma_eval_wf_val(value, env);
    }
}

//@ fn fn shift
//@ spec
    requires
        expr_wf(value), 1 <= out_bits, out_bits as nat <= MAX_BITS(),
        shift_pre(*bad64_shift, expr_bits(value), out_bits as nat),
    ensures
        /*@ok*/ !(*bad64_shift is MSL) ==> r is Ok,
        /*@msl*/ *bad64_shift is MSL ==> r is Err,
        /*@value*/ r matches Ok(e) ==> shift_good(*bad64_shift, value, out_bits, e),
//@ enter
    let ghost value0 = value;
    let ghost s = *bad64_shift;
    proof {
        reveal(shift_pre);
        lemma_expr_wf_bits(value);
        assert forall|sh: Expression, e: Expression| (#[trigger] lsl_rel(value, sh, e) && s is LSL && const_is(sh, out_bits as nat, sh_amount(s) % pow2(out_bits as nat)) && expr_bits(value) == out_bits)
            implies shift_good(s, value, out_bits, e) by { lemma_shift_plain(s, value, sh, e, out_bits); }
        assert forall|sh: Expression, e: Expression| (#[trigger] lsr_rel(value, sh, e) && s is LSR && const_is(sh, out_bits as nat, sh_amount(s) % pow2(out_bits as nat)) && expr_bits(value) == out_bits)
            implies shift_good(s, value, out_bits, e) by { lemma_shift_plain(s, value, sh, e, out_bits); }
        assert forall|sh: Expression, e: Expression| (#[trigger] asr_rel(value, sh, e) && s is ASR && const_is(sh, out_bits as nat, sh_amount(s) % pow2(out_bits as nat)) && expr_bits(value) == out_bits)
            implies shift_good(s, value, out_bits, e) by { lemma_shift_plain(s, value, sh, e, out_bits); }
        assert forall|sh: Expression, e: Expression| (#[trigger] ror_rel(value, sh, e) && s is ROR && const_is(sh, out_bits as nat, sh_amount(s) % pow2(out_bits as nat)) && expr_bits(value) == out_bits)
            implies shift_good(s, value, out_bits, e) by { lemma_shift_plain(s, value, sh, e, out_bits); }
    }
//@ before 0 `Ok(il::Expression::shl(extended`
    proof {
        assert(ext_params(s) == Some((unsigned, len as nat)));
        assert forall|sh: Expression| const_is(sh, out_bits as nat, sh_amount(s) % pow2(out_bits as nat))
            implies expr_wf(extended) && expr_bits(extended) == out_bits && #[trigger] shift_good(s, value0, out_bits, Expression::Shl(Box::new(extended), Box::new(sh))) by {
            lemma_shift_ext(s, unsigned, len, value0, out_bits, sh);
        }
    }
//@ end

//@ fn fn maybe_shift
//@ spec
    requires
        expr_wf(value), 1 <= out_bits, out_bits as nat <= MAX_BITS(),
        bad64_shift matches Some(s) ==> shift_pre(*s, expr_bits(value), out_bits as nat),
    ensures
        /*@none*/ bad64_shift is None ==> r == Ok::<Expression, UnsupportedError>(value),
        /*@ok*/ bad64_shift matches Some(s) ==> (!(*s is MSL) ==> r is Ok) && (*s is MSL ==> r is Err),
        /*@value*/ bad64_shift matches Some(s) ==> (r matches Ok(e) ==> shift_good(*s, value, out_bits, e)),
//@ end

// ---- operands (relative to the ASSUMED DECODER CONTRACT) -------------------------------------------------------------------

/// the table record of a register id (None: the lifter rejects the register)
pub open spec fn rec_of(reg: Reg) -> Option<AArch64Register> {
    match lookup(table_spec(), reg) { Some(k) => Some(table_spec()[k]), None => None }
}

pub proof fn lemma_rec_of_ok(reg: Reg)
    ensures rec_of(reg) matches Some(x) ==> x.rec_ok() && x.bad64_reg == reg && 1 <= x.bits <= 128
        && (gp_class(reg) is Some ==> (x.bits == 32 || x.bits == 64)),
{
    let t = table_spec();
    lemma_lookup_found(t, reg, 0);
    if let Some(k) = lookup(t, reg) { lemma_table_rec_ok(k); lemma_full_rec_ok(t[k]); }
}

pub open spec fn unshifted_imm(opr: bad64::Operand) -> bool {
    (opr matches bad64::Operand::Imm32 { imm, shift } && shift is None) || (opr matches bad64::Operand::Imm64 { imm, shift } && shift is None)
}

//@ fn fn operand_imm_u64
//@ spec
    requires
        // DECODER CONTRACT (no panic): an unshifted immediate operand
        unshifted_imm(*opr),
    ensures
        /*@imm*/ r as nat == plain_imm_val(*opr),
//@ end

//@ fn fn is_arr_spec_indexed
//@ spec
    ensures /*@unit*/ true,
//@ end

/// the lane index of an arrangement specifier
pub open spec fn arrspec_lane(a: bad64::ArrSpec) -> Option<u32> {
    match a {
        bad64::ArrSpec::Full(i) | bad64::ArrSpec::TwoDoubles(i) | bad64::ArrSpec::FourSingles(i) | bad64::ArrSpec::EightHalves(i)
        | bad64::ArrSpec::SixteenBytes(i) | bad64::ArrSpec::OneDouble(i) | bad64::ArrSpec::TwoSingles(i) | bad64::ArrSpec::FourHalves(i)
        | bad64::ArrSpec::EightBytes(i) | bad64::ArrSpec::OneSingle(i) | bad64::ArrSpec::TwoHalves(i) | bad64::ArrSpec::FourBytes(i)
        | bad64::ArrSpec::OneHalf(i) | bad64::ArrSpec::OneByte(i) => i,
    }
}

//@ fn fn arr_spec_offset_width
//@ spec
    requires arrspec_lane(*bad64_arrspec) matches Some(i) ==> i < 16,
    ensures /*@unit*/ true,
//@ end

//@ fn fn operand_storing_width
//@ spec
    requires
        // DECODER CONTRACT (no panic): the operand whose width is asked for is not a shifted register / immediate
        !(*opr is ShiftReg) && !(*opr is Imm32) && !(*opr is Imm64) && !(*opr is FImm32),
    ensures
        /*@reg*/ *opr matches bad64::Operand::Reg { reg, arrspec } ==> (arrspec is None ==>
            (rec_of(reg) matches Some(x) ==> r == Ok::<usize, UnsupportedError>(x.bits)) && (rec_of(reg) is None ==> r is Err)),
        /*@other*/ !(*opr is Reg) ==> r is Err,
//@ end

/// the value of a (possibly shifted) immediate at the operation width n
pub open spec fn imm_shift_val(w: nat, v: nat, shift: Option<bad64::Shift>, n: nat) -> EvalR {
    match shift { Some(s) => EvalR::Val(n, shift_val(s, w, v, n)), None => EvalR::Val(w, v) }
}

/// Arm ARM meaning of a NON-MEMORY source operand (as the decoder describes it) in an IL state, at operation width n:
/// a register reads X[n] / W[n] / SP / zero; an immediate is its bit pattern, shifted if the encoding says so; a shifted /
/// extended register is ShiftReg / ExtendReg of the register value; a label is the absolute address
#[verifier::opaque]
pub open spec fn load_val(opr: bad64::Operand, n: nat, env: Env) -> EvalR {
    match opr {
        bad64::Operand::Reg { reg, arrspec } => reg_read(rec_of(reg).unwrap(), env),
        bad64::Operand::Imm32 { imm, shift } => imm_shift_val(32, imm_val(imm) % pow2(32), shift, n),
        bad64::Operand::Imm64 { imm, shift } => imm_shift_val(64, imm_val(imm), shift, n),
        bad64::Operand::ShiftReg { reg, shift } => match reg_read(rec_of(reg).unwrap(), env) {
            EvalR::Val(w, v) => EvalR::Val(n, shift_val(shift, w, v, n)),
            e => e,
        },
        bad64::Operand::Label(imm) => EvalR::Val(64, imm_val(imm)),
        _ => EvalR::ErrSort,
    }
}

/// width of the loaded expression
#[verifier::opaque]
pub open spec fn load_bits(opr: bad64::Operand, n: nat) -> nat {
    match opr {
        bad64::Operand::Reg { reg, arrspec } => rec_of(reg).unwrap().bits as nat,
        bad64::Operand::Imm32 { imm, shift } => if shift is Some { n } else { 32 },
        bad64::Operand::Imm64 { imm, shift } => if shift is Some { n } else { 64 },
        bad64::Operand::ShiftReg { reg, shift } => n,
        _ => 64,
    }
}

pub open spec fn ror_in_range(s: bad64::Shift, n: nat) -> bool { s is ROR ==> sh_amount(s) % pow2(n) <= n }

/// DECODER CONTRACT + WIDTH PRECONDITION of operand_load (no panic): not a memory operand, not a vector element; shifts fit
#[verifier::opaque]
pub open spec fn load_pre(opr: bad64::Operand, n: nat) -> bool {
    match opr {
        bad64::Operand::Reg { reg, arrspec } => arrspec is None,
        bad64::Operand::Imm32 { imm, shift } => shift matches Some(s) ==> shift_pre(s, 32, n) && ror_in_range(s, n),
        bad64::Operand::Imm64 { imm, shift } => shift matches Some(s) ==> shift_pre(s, 64, n) && ror_in_range(s, n),
        bad64::Operand::ShiftReg { reg, shift } => rec_of(reg) matches Some(x) ==> shift_pre(shift, x.bits as nat, n) && ror_in_range(shift, n),
        bad64::Operand::MemReg(_) | bad64::Operand::MemOffset { .. } | bad64::Operand::MemPreIdx { .. } | bad64::Operand::MemPostIdxReg(_)
        | bad64::Operand::MemPostIdxImm { .. } | bad64::Operand::MemExt { .. } => false,
        _ => true,
    }
}

/// the operand is rejected (Err) rather than loaded
#[verifier::opaque]
pub open spec fn load_rejected(opr: bad64::Operand) -> bool {
    match opr {
        bad64::Operand::Reg { reg, arrspec } => rec_of(reg) is None,
        bad64::Operand::Imm32 { imm, shift } => shift matches Some(s) && s is MSL,
        bad64::Operand::Imm64 { imm, shift } => shift matches Some(s) && s is MSL,
        bad64::Operand::ShiftReg { reg, shift } => rec_of(reg) is None || shift is MSL,
        bad64::Operand::Label(_) => false,
        _ => true,
    }
}

pub open spec fn load_ok(opr: bad64::Operand, n: nat, e: Expression, env: Env) -> bool {
    load_val(opr, n, env) is Val ==> eval_spec(e, env) == load_val(opr, n, env)
}

/// (in a state in which the registers the operand names have values - every architectural state)
pub open spec fn load_good(opr: bad64::Operand, n: nat, e: Expression) -> bool {
    &&& expr_wf(e) && expr_bits(e) == load_bits(opr, n)
    &&& forall|env: Env| env_sorted(env) ==> #[trigger] load_ok(opr, n, e, env)
}

/// `value` is the expression operand_load builds for the UNSHIFTED source of opr
pub open spec fn src_of(opr: bad64::Operand, value: Expression) -> bool {
    match opr {
        bad64::Operand::Imm32 { imm, shift } => const_is(value, 32, imm_val(imm) % pow2(32)),
        bad64::Operand::Imm64 { imm, shift } => const_is(value, 64, imm_val(imm)),
        bad64::Operand::ShiftReg { reg, shift } => rec_of(reg) is Some && reg_expr(rec_of(reg).unwrap(), value),
        _ => false,
    }
}

pub open spec fn opr_shift(opr: bad64::Operand) -> Option<bad64::Shift> {
    match opr {
        bad64::Operand::Imm32 { imm, shift } => shift,
        bad64::Operand::Imm64 { imm, shift } => shift,
        bad64::Operand::ShiftReg { reg, shift } => Some(shift),
        _ => None,
    }
}

pub proof fn lemma_load_shifted(s: bad64::Shift, value: Expression, n: usize, e: Expression, opr: bad64::Operand)
    requires shift_good(s, value, n, e), ror_in_range(s, n as nat), src_of(opr, value), opr_shift(opr) == Some(s),
    ensures load_good(opr, n as nat, e),
{
    reveal(load_val); reveal(load_bits);
    assert forall|env: Env| env_sorted(env) implies #[trigger] load_ok(opr, n as nat, e, env) by {
        assert(shift_ok(s, value, n, e, env));
        match opr {
            bad64::Operand::ShiftReg { reg, shift } => { assert(eval_spec(value, env) == reg_read(rec_of(reg).unwrap(), env)); }
            _ => { let c = value->Constant_0; assert(value == Expression::Constant(c)); assert(eval_spec(value, env) == EvalR::Val(c.bits as nat, c.value@)); }
        }
    }
}

/// opr is an unshifted immediate / a label with bit pattern a at width w
pub open spec fn plain_imm(opr: bad64::Operand, w: nat, a: nat) -> bool {
    match opr {
        bad64::Operand::Imm32 { imm, shift } => shift is None && w == 32 && a == imm_val(imm) % pow2(32),
        bad64::Operand::Imm64 { imm, shift } => shift is None && w == 64 && a == imm_val(imm),
        bad64::Operand::Label(imm) => w == 64 && a == imm_val(imm),
        _ => false,
    }
}

pub proof fn lemma_load_plain(opr: bad64::Operand, n: nat, e: Expression)
    requires
        (opr matches bad64::Operand::Imm32 { imm, shift } && shift is None && const_is(e, 32, imm_val(imm) % pow2(32)))
        || (opr matches bad64::Operand::Imm64 { imm, shift } && shift is None && const_is(e, 64, imm_val(imm)))
        || (opr matches bad64::Operand::Label(imm) && const_is(e, 64, imm_val(imm)))
        || (opr matches bad64::Operand::Reg { reg, arrspec } && rec_of(reg) is Some && reg_expr(rec_of(reg).unwrap(), e)),
    ensures load_good(opr, n, e),
{
    reveal(load_val); reveal(load_bits);
    if !(opr is Reg) {
        let c = e->Constant_0;
        assert(e == Expression::Constant(c));
        assert(expr_wf(e));
        assert forall|env: Env| env_sorted(env) implies #[trigger] load_ok(opr, n, e, env) by {
            assert(eval_spec(e, env) == EvalR::Val(c.bits as nat, c.value@));
        }
    }
}

pub proof fn lemma_u64_low32()
    ensures forall|x: u64| #[trigger] ((x as u32) as u64) as nat == (x as nat) % pow2(32),
{
    lemma2_to64();
    assert forall|x: u64| #[trigger] ((x as u32) as u64) as nat == (x as nat) % pow2(32) by {
        assert(((x as u32) as u64) == x % 0x1_0000_0000u64) by (bit_vector);
    }
}

pub proof fn lemma_imm_bound(imm: bad64::Imm)
    ensures imm_val(imm) < pow2(64), imm_val(imm) % pow2(64) == imm_val(imm), (imm_val(imm) % pow2(32)) % pow2(32) == imm_val(imm) % pow2(32), imm_val(imm) % pow2(32) < pow2(32),
{
    lemma2_to64();
    lemma_small_mod(imm_val(imm), pow2(64));
    lemma_mod_bound(imm_val(imm) as int, pow2(32) as int);
    lemma_small_mod(imm_val(imm) % pow2(32), pow2(32));
}

//@ fn fn operand_load
//@ spec
    requires 1 <= out_bits, out_bits as nat <= MAX_BITS(), load_pre(*opr, out_bits as nat),
    ensures
        /*@block*/ *final(_block) == *old(_block),
        /*@rejected*/ load_rejected(*opr) <==> r is Err,
        /*@value*/ r matches Ok(e) ==> load_good(*opr, out_bits as nat, e),
        /*@label*/ *opr matches bad64::Operand::Label(imm) ==> (r matches Ok(e) && const_is(e, 64, imm_val(imm))),
//@ enter
    proof {
        reveal(load_pre); reveal(load_rejected); reveal(load_val); reveal(load_bits);
        lemma_u64_low32();
        lemma2_to64();
        match *opr {
            bad64::Operand::Imm32 { imm, shift } => { lemma_imm_bound(imm); }
            bad64::Operand::Imm64 { imm, shift } => { lemma_imm_bound(imm); }
            bad64::Operand::Label(imm) => { lemma_imm_bound(imm); }
            _ => {}
        }
        assert forall|s: bad64::Shift, value: Expression, e: Expression| (#[trigger] shift_good(s, value, out_bits, e) && src_of(*opr, value) && opr_shift(*opr) == Some(s) && ror_in_range(s, out_bits as nat))
            implies load_good(*opr, out_bits as nat, e) by { lemma_load_shifted(s, value, out_bits, e, *opr); }
        assert forall|e: Expression, w: nat, a: nat| (#[trigger] const_is(e, w, a) && plain_imm(*opr, w, a))
            implies load_good(*opr, out_bits as nat, e) by { lemma_load_plain(*opr, out_bits as nat, e); }
        assert forall|x: AArch64Register, e: Expression| (#[trigger] reg_expr(x, e) && (*opr matches bad64::Operand::Reg { reg, arrspec } && rec_of(reg) == Some(x)))
            implies load_good(*opr, out_bits as nat, e) by { lemma_load_plain(*opr, out_bits as nat, e); }
    }
//@ end

// ---- operand_store ---------------------------------------------------------------------------------------------------------

/// DECODER CONTRACT + WIDTH PRECONDITION of operand_store (no panic): the destination is a plain register (or an operand class
/// the lifter rejects), never a shifted register / immediate / vector element; the value is not wider than the full register
#[verifier::opaque]
pub open spec fn store_pre(opr: bad64::Operand, value: Expression) -> bool {
    match opr {
        bad64::Operand::Reg { reg, arrspec } => arrspec is None && (rec_of(reg) matches Some(x) ==> expr_bits(value) <= x.full_rec().bits),
        bad64::Operand::ShiftReg { .. } | bad64::Operand::Imm32 { .. } | bad64::Operand::Imm64 { .. } | bad64::Operand::FImm32(_) => false,
        _ => true,
    }
}

//@ fn fn operand_store
//@ spec
    requires
        expr_wf(value), store_pre(*opr, value),
        old(block).block_wf(), old(block).next_instruction_index < usize::MAX,
    ensures
        /*@wf*/ final(block).block_wf(),
        /*@rejected*/ r is Err <==> !(*opr matches bad64::Operand::Reg { reg, arrspec } && rec_of(reg) is Some),
        /*@err_frame*/ r is Err ==> *final(block) == *old(block),
        /*@effect*/ r is Ok ==> (*opr matches bad64::Operand::Reg { reg, arrspec } && rec_of(reg) matches Some(x)
            && set_effect(x, value, *old(block), *final(block)) && w_clears_upper(x, value, *final(block)) && zero_discards(x, *final(block))),
//@ enter
    proof { reveal(store_pre); }
//@ end

// ---- memory operands ------------------------------------------------------------------------------------------------------------
//@ item enum MemOperandSideeffect

/// the write-back a memory operand asks for is well-formed: the register record satisfies the invariant and the new base
/// value is a well-sorted expression no wider than the full register
pub open spec fn sideeffect_wf(se: MemOperandSideeffect) -> bool {
    match se {
        MemOperandSideeffect::None => true,
        MemOperandSideeffect::Assign(x, v) => x.rec_ok() && expr_wf(v) && expr_bits(v) <= x.full_rec().bits,
    }
}

impl MemOperandSideeffect {
//@ fn impl MemOperandSideeffect :: fn apply
//@ spec
    requires sideeffect_wf(self), old(block).block_wf(), old(block).next_instruction_index < usize::MAX,
    ensures
        /*@wf*/ final(block).block_wf(),
        /*@none*/ self is None ==> *final(block) == *old(block),
        /*@writeback*/ self matches MemOperandSideeffect::Assign(x, v) ==> set_effect(*x, v, *old(block), *final(block)) && w_clears_upper(*x, v, *final(block)),
//@ end
}

/// the record of register `reg` exists ==> it is a 64-bit register (DECODER CONTRACT: address registers are Xn / SP)
pub open spec fn base64(reg: Reg) -> bool { rec_of(reg) matches Some(x) ==> x.bits == 64 }

pub open spec fn add64_ok(x: AArch64Register, i: nat, e: Expression, env: Env) -> bool {
    reg_read(x, env) matches EvalR::Val(w, b) ==> eval_spec(e, env) == EvalR::Val(64, bv_add(64, b, i))
}

/// `e` is the 64-bit address  X[x] + i  (mod 2^64)
pub open spec fn add64_good(x: AArch64Register, i: nat, e: Expression) -> bool {
    &&& expr_wf(e) && expr_bits(e) == 64
    &&& forall|env: Env| env_sorted(env) ==> #[trigger] add64_ok(x, i, e, env)
}

pub open spec fn addrr_ok(x: AArch64Register, y: AArch64Register, shift: Option<bad64::Shift>, e: Expression, env: Env) -> bool {
    match (reg_read(x, env), reg_read(y, env)) {
        (EvalR::Val(wx, b), EvalR::Val(w, o)) => eval_spec(e, env) == EvalR::Val(64, bv_add(64, b, (match shift { Some(s) => shift_val(s, w, o, 64), None => o }))),
        _ => true,
    }
}

/// `e` is the 64-bit address  X[x] + ExtendReg / ShiftReg (register y)  (mod 2^64)
pub open spec fn addrr_good(x: AArch64Register, y: AArch64Register, shift: Option<bad64::Shift>, e: Expression) -> bool {
    &&& expr_wf(e) && expr_bits(e) == 64
    &&& forall|env: Env| env_sorted(env) ==> #[trigger] addrr_ok(x, y, shift, e, env)
}

pub proof fn lemma_add64(x: AArch64Register, g: Expression, sh: Expression, i: nat)
    requires reg_expr(x, g), x.bits == 64, const_is(sh, 64, i),
    ensures add64_good(x, i, Expression::Add(Box::new(g), Box::new(sh))),
{
    let c = sh->Constant_0;
    assert(sh == Expression::Constant(c));
    assert(expr_wf(sh) && expr_bits(sh) == 64);
    let e = Expression::Add(Box::new(g), Box::new(sh));
    assert(expr_wf(e) && expr_bits(e) == 64);
    assert forall|env: Env| env_sorted(env) implies #[trigger] add64_ok(x, i, e, env) by {
        assert(eval_spec(sh, env) == EvalR::Val(64, c.value@));
        assert(eval_spec(e, env) == bin_spec(BinOp::Add, eval_spec(g, env), eval_spec(sh, env)));
        assert(eval_spec(g, env) == reg_read(x, env));
        lemma_eval_wf_val(g, env);
    }
}

pub proof fn lemma_addrr(x: AArch64Register, y: AArch64Register, shift: Option<bad64::Shift>, g: Expression, gy: Expression, o: Expression)
    requires
        reg_expr(x, g), x.bits == 64, reg_expr(y, gy),
        shift is None ==> (o == gy && y.bits == 64),
        shift matches Some(s) ==> shift_good(s, gy, 64, o) && ror_in_range(s, 64),
    ensures addrr_good(x, y, shift, Expression::Add(Box::new(g), Box::new(o))),
{
    let e = Expression::Add(Box::new(g), Box::new(o));
    assert(expr_wf(e) && expr_bits(e) == 64);
    assert forall|env: Env| env_sorted(env) implies #[trigger] addrr_ok(x, y, shift, e, env) by {
        assert(eval_spec(e, env) == bin_spec(BinOp::Add, eval_spec(g, env), eval_spec(o, env)));
        assert(eval_spec(g, env) == reg_read(x, env));
        assert(eval_spec(gy, env) == reg_read(y, env));
        lemma_eval_wf_val(g, env);
        lemma_eval_wf_val(gy, env);
        if let Some(s) = shift { assert(shift_ok(s, gy, 64, o, env)); }
    }
}

/// DECODER CONTRACT + WIDTH PRECONDITION of mem_operand_address (no panic): a memory-class operand whose address registers are
/// 64 bits wide (Xn / SP; the offset register of the extended form may be Wm when the extension says so)
#[verifier::opaque]
pub open spec fn mem_pre(opr: bad64::Operand) -> bool {
    match opr {
        bad64::Operand::MemReg(reg) => base64(reg),
        bad64::Operand::MemOffset { reg, offset, mul_vl, arrspec } => base64(reg),
        bad64::Operand::MemPreIdx { reg, imm } => base64(reg),
        bad64::Operand::MemPostIdxReg(regs) => base64(regs[0]) && base64(regs[1]),
        bad64::Operand::MemPostIdxImm { reg, imm } => base64(reg),
        bad64::Operand::MemExt { regs, shift, arrspec } => base64(regs[0]) && (rec_of(regs[1]) matches Some(y) ==>
            (match shift { Some(s) => shift_pre(s, y.bits as nat, 64) && ror_in_range(s, 64), None => y.bits == 64 })),
        bad64::Operand::Label(_) => true,
        bad64::Operand::SmeTile { .. } | bad64::Operand::AccumArray { .. } | bad64::Operand::IndexedElement { .. } => true,
        _ => false,
    }
}

/// the operand is rejected (Err)
#[verifier::opaque]
pub open spec fn mem_rejected(opr: bad64::Operand) -> bool {
    match opr {
        bad64::Operand::MemReg(reg) => rec_of(reg) is None,
        bad64::Operand::MemOffset { reg, offset, mul_vl, arrspec } => mul_vl || arrspec is Some || rec_of(reg) is None,
        bad64::Operand::MemPreIdx { reg, imm } => rec_of(reg) is None,
        bad64::Operand::MemPostIdxReg(regs) => rec_of(regs[0]) is None || rec_of(regs[1]) is None,
        bad64::Operand::MemPostIdxImm { reg, imm } => rec_of(reg) is None,
        bad64::Operand::MemExt { regs, shift, arrspec } => arrspec is Some || rec_of(regs[0]) is None || rec_of(regs[1]) is None || (shift matches Some(s) && s is MSL),
        bad64::Operand::Label(_) => false,
        _ => true,
    }
}

/// Arm ARM address generation for the memory operand `opr` (as the decoder describes it): `a` is the access address and `se`
/// the base-register write-back:  [Xn] / [Xn, #imm] / [Xn, Rm, ext]: no write-back;  pre-index [Xn, #imm]!: address = Xn + imm,
/// Xn := Xn + imm;  post-index [Xn], #imm / [Xn], Xm: address = Xn, Xn := Xn + imm / Xn + Xm;  literal: the absolute address
#[verifier::opaque]
pub open spec fn mem_good(opr: bad64::Operand, a: Expression, se: MemOperandSideeffect) -> bool {
    match opr {
        bad64::Operand::MemReg(reg) => rec_of(reg) matches Some(x) && reg_expr(x, a) && se is None,
        bad64::Operand::MemOffset { reg, offset, mul_vl, arrspec } => rec_of(reg) matches Some(x) && add64_good(x, imm_val(offset), a) && se is None,
        bad64::Operand::MemPreIdx { reg, imm } => rec_of(reg) matches Some(x) && add64_good(x, imm_val(imm), a)
            && (se matches MemOperandSideeffect::Assign(y, v) && *y == x && v == a),
        bad64::Operand::MemPostIdxImm { reg, imm } => rec_of(reg) matches Some(x) && reg_expr(x, a)
            && (se matches MemOperandSideeffect::Assign(y, v) && *y == x && add64_good(x, imm_val(imm), v)),
        bad64::Operand::MemPostIdxReg(regs) => rec_of(regs[0]) matches Some(x) && (rec_of(regs[1]) matches Some(yo) && reg_expr(x, a)
            && (se matches MemOperandSideeffect::Assign(y, v) && *y == x && addrr_good(x, yo, None, v))),
        bad64::Operand::MemExt { regs, shift, arrspec } => rec_of(regs[0]) matches Some(x) && (rec_of(regs[1]) matches Some(yo)
            && addrr_good(x, yo, shift, a) && se is None),
        bad64::Operand::Label(imm) => const_is(a, 64, imm_val(imm)) && se is None,
        _ => false,
    }
}

//@ fn fn mem_operand_address
//@ rewrite 1 `bad64::Operand::MemPostIdxReg([reg, reg_offset]) => {` => `bad64::Operand::MemPostIdxReg(vf_regs) => { let reg = &vf_regs[0]; let reg_offset = &vf_regs[1];` ## R-array-pattern: Verus has no slice / array patterns; the two elements of the fixed-size array `[Reg; 2]` are bound by index instead (same references into the matched operand, indices 0 and 1 are in range)
//@ rewrite 1 `regs: [reg, reg_offset], shift: shift_, arrspec: None, } => {` => `regs: vf_regs, shift: shift_, arrspec: None, } => { let reg = &vf_regs[0]; let reg_offset = &vf_regs[1];` ## R-array-pattern: as above
//@ spec
    requires mem_pre(*opr),
    ensures
        /*@rejected*/ mem_rejected(*opr) <==> r is Err,
        /*@address*/ r matches Ok((a, se)) ==> mem_good(*opr, a, se) && expr_wf(a) && expr_bits(a) == 64,
        /*@writeback_wf*/ r matches Ok((a, se)) ==> sideeffect_wf(se),
//@ enter
    proof {
        reveal(mem_pre); reveal(mem_rejected); reveal(mem_good); reveal(shift_pre);
        lemma2_to64();
        match *opr {
            bad64::Operand::MemOffset { reg, offset, mul_vl, arrspec } => { lemma_imm_bound(offset); }
            bad64::Operand::MemPreIdx { reg, imm } => { lemma_imm_bound(imm); }
            bad64::Operand::MemPostIdxImm { reg, imm } => { lemma_imm_bound(imm); }
            bad64::Operand::Label(imm) => { lemma_imm_bound(imm); }
            _ => {}
        }
    }
//@ after 0 `let indexed_address = il::Expression::add(reg.get(), offset).unwrap();`
    proof { lemma_add64(*reg, lhs_of(indexed_address), rhs_of(indexed_address), rhs_of(indexed_address)->Constant_0.value@); }
//@ after 0 `let indexed_address = il::Expression::add(reg.get(), imm).unwrap();`
    proof { lemma_add64(*reg, lhs_of(indexed_address), rhs_of(indexed_address), rhs_of(indexed_address)->Constant_0.value@); }
//@ after 1 `let indexed_address = il::Expression::add(reg.get(), imm).unwrap();`
    proof { lemma_add64(*reg, lhs_of(indexed_address), rhs_of(indexed_address), rhs_of(indexed_address)->Constant_0.value@); }
//@ after 0 `let indexed_address = il::Expression::add(reg.get(), reg_offset).unwrap();`
    proof {
        let y = rec_of(vf_regs[1]).unwrap();
        lemma_addrr(*reg, y, None, lhs_of(indexed_address), rhs_of(indexed_address), rhs_of(indexed_address));
    }
//@ after 0 `let indexed_address = il::Expression::add(reg, reg_offset).unwrap();`
    proof {
        let x = rec_of(vf_regs[0]).unwrap();
        let y = rec_of(vf_regs[1]).unwrap();
        let g = lhs_of(indexed_address);
        let o = rhs_of(indexed_address);
        match *shift_ {
            Some(s) => {
                assert forall|gy: Expression| (#[trigger] shift_good(s, gy, 64, o) && reg_expr(y, gy)) implies addrr_good(x, y, *shift_, indexed_address) by {
                    lemma_addrr(x, y, *shift_, g, gy, o);
                }
            }
            None => { lemma_addrr(x, y, None, g, o, o); }
        }
    }
//@ end

// ---- ADDS / SUBS: result and NZCV ------------------------------------------------------------------------------------------

pub open spec fn addsub_form(sub: bool, l: Expression, r: Expression) -> Expression {
    if sub { Expression::Sub(Box::new(l), Box::new(r)) } else { Expression::Add(Box::new(l), Box::new(r)) }
}
pub open spec fn flag_n_form(sub: bool, lhs: Expression, rhs: Expression, cz: Constant) -> Expression {
    Expression::Cmplts(Box::new(addsub_form(sub, lhs, rhs)), Box::new(Expression::Constant(cz)))
}
pub open spec fn flag_z_form(sub: bool, lhs: Expression, rhs: Expression, cz: Constant) -> Expression {
    Expression::Cmpeq(Box::new(addsub_form(sub, lhs, rhs)), Box::new(Expression::Constant(cz)))
}
/// ADDS: C = (zext72(result) != zext72(lhs) + zext72(rhs));  SUBS: C = (zext72(result) == zext72(lhs) - zext72(rhs)), i.e. NOT borrow
pub open spec fn flag_c_form(sub: bool, lhs: Expression, rhs: Expression) -> Expression {
    let zr = Expression::Zext(72, Box::new(addsub_form(sub, lhs, rhs)));
    let wide = addsub_form(sub, Expression::Zext(72, Box::new(lhs)), Expression::Zext(72, Box::new(rhs)));
    if sub { Expression::Cmpeq(Box::new(zr), Box::new(wide)) } else { Expression::Cmpneq(Box::new(zr), Box::new(wide)) }
}
pub open spec fn flag_v_form(sub: bool, lhs: Expression, rhs: Expression) -> Expression {
    let sr = Expression::Sext(72, Box::new(addsub_form(sub, lhs, rhs)));
    let wide = addsub_form(sub, Expression::Sext(72, Box::new(lhs)), Expression::Sext(72, Box::new(rhs)));
    Expression::Cmpneq(Box::new(sr), Box::new(wide))
}

/// the value Arm ARM AddWithCarry(a, y, cin) gives to item k: 0 = N, 1 = Z, 2 = C, 3 = V (1-bit values), 4 = the result
pub open spec fn awc_item(k: int, w: nat, a: nat, y: nat, cin: nat) -> nat {
    if k == 0 { awc_n(w, a, y, cin) } else if k == 1 { awc_z(w, a, y, cin) } else if k == 2 { awc_c(w, a, y, cin) } else if k == 3 { awc_v(w, a, y, cin) }
    else { awc_result(w, a, y, cin) }
}

/// expression `e` means item k (N / Z / C / V / result) of AddWithCarry(a, b, 0) (ADDS) resp. AddWithCarry(a, NOT(b), 1) (SUBS)
/// on the operand values lv, rv
pub open spec fn flag_ok(k: int, sub: bool, lv: EvalR, rv: EvalR, e: Expression, env: Env) -> bool {
    match (lv, rv) {
        (EvalR::Val(w, a), EvalR::Val(w2, b)) => ({
            let want = awc_item(k, w, a, awc_y(w, b, sub), awc_cin(sub));
            if k == 4 { eval_spec(e, env) matches EvalR::Val(wr, res) && res == want } else { eval_spec(e, env) == EvalR::Val(1, want) }
        }),
        _ => true,
    }
}

/// the five expressions mean result / N / Z / C / V of Arm ARM AddWithCarry(a, b, 0) (ADDS) resp. AddWithCarry(a, NOT(b), 1) (SUBS)
pub open spec fn nzcv_ok(sub: bool, lv: EvalR, rv: EvalR, result: Expression, n: Expression, z: Expression, c: Expression, v: Expression, env: Env) -> bool {
    flag_ok(4, sub, lv, rv, result, env) && flag_ok(0, sub, lv, rv, n, env) && flag_ok(1, sub, lv, rv, z, env) && flag_ok(2, sub, lv, rv, c, env) && flag_ok(3, sub, lv, rv, v, env)
}

pub proof fn lemma_flags_eval(sub: bool, lhs: Expression, rhs: Expression, cz: Constant, env: Env)
    requires
        expr_wf(lhs), expr_wf(rhs), expr_bits(lhs) == expr_bits(rhs), 1 <= expr_bits(lhs) <= 64, env_sorted(env),
        cz.wf(), cz.bits as nat == expr_bits(lhs), cz.value@ == 0,
    ensures
        nzcv_ok(sub, eval_spec(lhs, env), eval_spec(rhs, env), addsub_form(sub, lhs, rhs), flag_n_form(sub, lhs, rhs, cz), flag_z_form(sub, lhs, rhs, cz),
            flag_c_form(sub, lhs, rhs), flag_v_form(sub, lhs, rhs), env),
{
    let w = expr_bits(lhs);
    let op = if sub { BinOp::Sub } else { BinOp::Add };
    let result = addsub_form(sub, lhs, rhs);
    let czx = Expression::Constant(cz);
    let zl = Expression::Zext(72, Box::new(lhs)); let zr = Expression::Zext(72, Box::new(rhs)); let zres = Expression::Zext(72, Box::new(result));
    let sl = Expression::Sext(72, Box::new(lhs)); let sr = Expression::Sext(72, Box::new(rhs)); let sres = Expression::Sext(72, Box::new(result));
    let zwide = addsub_form(sub, zl, zr);
    let swide = addsub_form(sub, sl, sr);
    lemma_eval_wf_val(lhs, env);
    lemma_eval_wf_val(rhs, env);
    let el = eval_spec(lhs, env); let er = eval_spec(rhs, env);
    assert(eval_spec(result, env) == bin_spec(op, el, er));
    assert(eval_spec(czx, env) == EvalR::Val(w, 0));
    assert(eval_spec(flag_n_form(sub, lhs, rhs, cz), env) == bin_spec(BinOp::Cmplts, eval_spec(result, env), EvalR::Val(w, 0)));
    assert(eval_spec(flag_z_form(sub, lhs, rhs, cz), env) == bin_spec(BinOp::Cmpeq, eval_spec(result, env), EvalR::Val(w, 0)));
    assert(eval_spec(zl, env) == zext_spec(72, el)); assert(eval_spec(zr, env) == zext_spec(72, er)); assert(eval_spec(zres, env) == zext_spec(72, eval_spec(result, env)));
    assert(eval_spec(sl, env) == sext_spec(72, el)); assert(eval_spec(sr, env) == sext_spec(72, er)); assert(eval_spec(sres, env) == sext_spec(72, eval_spec(result, env)));
    assert(eval_spec(zwide, env) == bin_spec(op, eval_spec(zl, env), eval_spec(zr, env)));
    assert(eval_spec(swide, env) == bin_spec(op, eval_spec(sl, env), eval_spec(sr, env)));
    assert(eval_spec(flag_c_form(sub, lhs, rhs), env) == bin_spec(if sub { BinOp::Cmpeq } else { BinOp::Cmpneq }, eval_spec(zres, env), eval_spec(zwide, env)));
    assert(eval_spec(flag_v_form(sub, lhs, rhs), env) == bin_spec(BinOp::Cmpneq, eval_spec(sres, env), eval_spec(swide, env)));
    if let EvalR::Val(wa, a) = el {
        if let EvalR::Val(wb, b) = er {
            lemma_nzcv_values(w, a, b, sub);
            lemma_addsub_cases(w, a, b, sub);
        }
    }
}

/// result, C and V need no constant of the code: the same fact with a zero constant made up in the proof
pub proof fn lemma_flags_eval_rcv(sub: bool, lhs: Expression, rhs: Expression, env: Env)
    requires expr_wf(lhs), expr_wf(rhs), expr_bits(lhs) == expr_bits(rhs), 1 <= expr_bits(lhs) <= 64, env_sorted(env),
    ensures
        flag_ok(4, sub, eval_spec(lhs, env), eval_spec(rhs, env), addsub_form(sub, lhs, rhs), env),
        flag_ok(2, sub, eval_spec(lhs, env), eval_spec(rhs, env), flag_c_form(sub, lhs, rhs), env),
        flag_ok(3, sub, eval_spec(lhs, env), eval_spec(rhs, env), flag_v_form(sub, lhs, rhs), env),
{
    broadcast use axiom_biguint_of;
    let cz = Constant { value: biguint_of(0), bits: expr_bits(lhs) as usize };
    lemma_pow2_pos(expr_bits(lhs));
    assert(cz.wf());
    lemma_flags_eval(sub, lhs, rhs, cz, env);
}

// ---- the KNOWN DEFECT C03-D1, pinned (NOT part of the property; see subs.ensures.carry_d1_pin) ---------------------------------
/// the expression /repo builds for c in subs: (zext72(result) != zext72(lhs) - zext72(rhs)) = the BORROW
pub open spec fn borrow_c_form(lhs: Expression, rhs: Expression) -> Expression {
    let zr = Expression::Zext(72, Box::new(addsub_form(true, lhs, rhs)));
    let wide = addsub_form(true, Expression::Zext(72, Box::new(lhs)), Expression::Zext(72, Box::new(rhs)));
    Expression::Cmpneq(Box::new(zr), Box::new(wide))
}
pub open spec fn borrow_ok(lv: EvalR, rv: EvalR, e: Expression, env: Env) -> bool {
    match (lv, rv) { (EvalR::Val(w, a), EvalR::Val(w2, b)) => eval_spec(e, env) == EvalR::Val(1, b2n(a < b)), _ => true }
}
pub open spec fn borrow_block_ok(ops: Seq<bad64::Operand>, x: AArch64Register, b: Block, env: Env) -> bool {
    borrow_ok(load_val(ops[1], x.bits as nat, env), load_val(ops[2], x.bits as nat, env), assign_src(b, 2), env)
}
/// the source assigned to c is, in every state, the borrow of the unsigned subtraction (the documented defect C03-D1)
pub open spec fn borrow_block(ops: Seq<bad64::Operand>, x: AArch64Register, b: Block) -> bool {
    forall|env: Env| env_sorted(env) ==> #[trigger] borrow_block_ok(ops, x, b, env)
}

pub proof fn lemma_borrow_eval(lhs: Expression, rhs: Expression, env: Env)
    requires expr_wf(lhs), expr_wf(rhs), expr_bits(lhs) == expr_bits(rhs), 1 <= expr_bits(lhs) <= 64, env_sorted(env),
    ensures borrow_ok(eval_spec(lhs, env), eval_spec(rhs, env), borrow_c_form(lhs, rhs), env),
{
    let w = expr_bits(lhs);
    let result = addsub_form(true, lhs, rhs);
    let zl = Expression::Zext(72, Box::new(lhs)); let zr = Expression::Zext(72, Box::new(rhs)); let zres = Expression::Zext(72, Box::new(result));
    let zwide = addsub_form(true, zl, zr);
    lemma_eval_wf_val(lhs, env);
    lemma_eval_wf_val(rhs, env);
    let el = eval_spec(lhs, env); let er = eval_spec(rhs, env);
    assert(eval_spec(result, env) == bin_spec(BinOp::Sub, el, er));
    assert(eval_spec(zl, env) == zext_spec(72, el)); assert(eval_spec(zr, env) == zext_spec(72, er)); assert(eval_spec(zres, env) == zext_spec(72, eval_spec(result, env)));
    assert(eval_spec(zwide, env) == bin_spec(BinOp::Sub, eval_spec(zl, env), eval_spec(zr, env)));
    assert(eval_spec(borrow_c_form(lhs, rhs), env) == bin_spec(BinOp::Cmpneq, eval_spec(zres, env), eval_spec(zwide, env)));
    if let EvalR::Val(wa, a) = el {
        if let EvalR::Val(wb, b) = er {
            lemma_nzcv_values(w, a, b, true);
            lemma_addsub_cases(w, a, b, true);
            reveal(bv_cmpeq); reveal(bv_cmpneq);
        }
    }
}

/// DECODER CONTRACT for the three-operand integer arithmetic instructions: operand 0 is a plain integer register (W / X /
/// SP / ZR form), operands 1 and 2 are loadable sources that come out at the destination's width
pub open spec fn int_dst(opr: bad64::Operand) -> bool {
    opr matches bad64::Operand::Reg { reg, arrspec } && arrspec is None && (rec_of(reg) matches Some(x) ==> gp_class(x.bad64_reg) is Some)
}
pub open spec fn dst_rec(opr: bad64::Operand) -> Option<AArch64Register> {
    match opr { bad64::Operand::Reg { reg, arrspec } => rec_of(reg), _ => None }
}
pub open spec fn src_fits(opr: bad64::Operand, n: nat) -> bool {
    load_pre(opr, n) && (!load_rejected(opr) ==> load_bits(opr, n) == n)
}
pub open spec fn arith_pre(ops: Seq<bad64::Operand>) -> bool {
    &&& ops.len() == 3
    &&& int_dst(ops[0])
    &&& (dst_rec(ops[0]) matches Some(x) ==> src_fits(ops[1], x.bits as nat) && src_fits(ops[2], x.bits as nat))
}

/// the k-th instruction of a block assigns `src` to `dst`
pub open spec fn assign_dst(b: Block, k: int) -> Scalar { match b.instructions@[k].operation { Operation::Assign { dst, src } => dst, _ => arbitrary() } }
pub open spec fn assign_src(b: Block, k: int) -> Expression { match b.instructions@[k].operation { Operation::Assign { dst, src } => src, _ => arbitrary() } }
pub open spec fn is_assign(b: Block, k: int) -> bool { b.instructions@[k].operation is Assign }

/// the block ADDS / SUBS emit: n := ..; z := ..; c := ..; v := .. (FIRST, while the sources still hold their old values), then
/// full(Rd) := ..  (structure only; the MEANING of the five sources is stated item by item: flag_block)
pub open spec fn nzcv_struct(x: AArch64Register, b: Block) -> bool {
    &&& b.instructions@.len() == 5
    &&& is_assign(b, 0) && is_assign(b, 1) && is_assign(b, 2) && is_assign(b, 3) && is_assign(b, 4)
    &&& assign_dst(b, 0) == named_scalar("n"@, 1) && assign_dst(b, 1) == named_scalar("z"@, 1)
    &&& assign_dst(b, 2) == named_scalar("c"@, 1) && assign_dst(b, 3) == named_scalar("v"@, 1)
    &&& assign_dst(b, 4) == reg_scalar(x.full_rec())
    &&& expr_bits(assign_src(b, 4)) == x.full_rec().bits
}

/// the source of instruction k of that block (k = 0..3: n z c v, k = 4: the destination) means item k of AddWithCarry on the values
/// of operands 1 and 2
pub open spec fn flag_block_ok(k: int, ops: Seq<bad64::Operand>, sub: bool, x: AArch64Register, b: Block, env: Env) -> bool {
    flag_ok(k, sub, load_val(ops[1], x.bits as nat, env), load_val(ops[2], x.bits as nat, env), assign_src(b, k), env)
}
pub open spec fn flag_block(k: int, ops: Seq<bad64::Operand>, sub: bool, x: AArch64Register, b: Block) -> bool {
    forall|env: Env| env_sorted(env) ==> #[trigger] flag_block_ok(k, ops, sub, x, b, env)
}

/// the instruction graph after a straight-line instruction was lifted: one new block, which is entry and exit
pub open spec fn one_block(c0: ControlFlowGraph, c1: ControlFlowGraph) -> bool {
    &&& c1.cfg_wf()
    &&& c1.graph.vertices@.dom() == c0.graph.vertices@.dom().insert(c0.next_index)
    &&& c1.entry == Some(c0.next_index) && c1.exit == Some(c0.next_index)
    &&& c1.graph.edges == c0.graph.edges
}

//@ fn fn adds
//@ attr #[verifier::spinoff_prover]
//@ attr #[verifier::rlimit(200)]
//@ rewrite 1 `scalar!("n")` => `il::scalar("n", 1)` ## R-macro: expansion of the local macro `scalar!` (semantics.rs lines 10-30: `("n") => { il::scalar("n", 1) }`); tools/rsx.py cannot extract macro_rules items, so the expansion is written out
//@ rewrite 1 `scalar!("z")` => `il::scalar("z", 1)` ## R-macro: as above (`("z") => { il::scalar("z", 1) }`)
//@ rewrite 1 `scalar!("c")` => `il::scalar("c", 1)` ## R-macro: as above (`("c") => { il::scalar("c", 1) }`)
//@ rewrite 1 `scalar!("v")` => `il::scalar("v", 1)` ## R-macro: as above (`("v") => { il::scalar("v", 1) }`)
//@ spec
    requires
        old(control_flow_graph).cfg_wf(), old(control_flow_graph).next_index < usize::MAX,
        arith_pre(instruction.ops@),
    ensures
        /*@rejected*/ r is Err <==> (dst_rec(instruction.ops@[0]) is None || load_rejected(instruction.ops@[1]) || load_rejected(instruction.ops@[2])),
        /*@graph*/ r is Ok ==> one_block(*old(control_flow_graph), *final(control_flow_graph)),
        // n, z, c, v are assigned BEFORE the destination (which may alias a source); then, item by item, Arm ARM AddWithCarry:
        /*@block*/ r is Ok ==> nzcv_struct(dst_rec(instruction.ops@[0]).unwrap(), final(control_flow_graph).graph.vertices@[old(control_flow_graph).next_index]),
        /*@result*/ r is Ok ==> flag_block(4, instruction.ops@, false, dst_rec(instruction.ops@[0]).unwrap(), final(control_flow_graph).graph.vertices@[old(control_flow_graph).next_index]),
        /*@negative*/ r is Ok ==> flag_block(0, instruction.ops@, false, dst_rec(instruction.ops@[0]).unwrap(), final(control_flow_graph).graph.vertices@[old(control_flow_graph).next_index]),
        /*@zero*/ r is Ok ==> flag_block(1, instruction.ops@, false, dst_rec(instruction.ops@[0]).unwrap(), final(control_flow_graph).graph.vertices@[old(control_flow_graph).next_index]),
        /*@carry*/ r is Ok ==> flag_block(2, instruction.ops@, false, dst_rec(instruction.ops@[0]).unwrap(), final(control_flow_graph).graph.vertices@[old(control_flow_graph).next_index]),
        /*@overflow*/ r is Ok ==> flag_block(3, instruction.ops@, false, dst_rec(instruction.ops@[0]).unwrap(), final(control_flow_graph).graph.vertices@[old(control_flow_graph).next_index]),
//@ enter
    proof { broadcast use crate::strmap::axiom_into_string_str; lemma2_to64(); reveal(store_pre); }
//@ after 0 `let bits = operand_storing_width(&instruction.operands()[0])?;`
    let ghost x = dst_rec(instruction.ops@[0]).unwrap();
    proof {
        match instruction.ops@[0] { bad64::Operand::Reg { reg, arrspec } => { lemma_rec_of_ok(reg); } _ => {} }
        assert(x.rec_ok() && bits == x.bits && (bits == 32 || bits == 64));
        lemma_full_rec_ok(x);
        lemma_pow2_pos(bits as nat);
        lemma_small_mod(0, pow2(bits as nat));
    }
//@ after 0 `let rhs = operand_load(block, &instruction.operands()[2], bits)?;`
    let ghost lhs0 = lhs;
    let ghost rhs0 = rhs;
    proof { lemma_expr_wf_bits(lhs0); }
//@ before 0 `block.assign(il::scalar("n", 1), n);`
    let ghost (n0, z0, c0, v0, result0) = (n, z, c, v, result);
//@ before 0 `block.index()`
    proof {
        let b = *block;
        let ops = instruction.ops@;
        let czn = rhs_of(n0)->Constant_0;
        let czz = rhs_of(z0)->Constant_0;
        // Each item is guarded by the SHAPE of its expression and its position in the block: a changed formula then fails exactly
        // the named postcondition of that item (result / negative / zero / carry / overflow), not this proof block.
        if b.instructions@.len() == 5 && expr_wf(lhs0) && expr_wf(rhs0) && expr_bits(lhs0) == bits && expr_bits(rhs0) == bits {
            if result0 == addsub_form(false, lhs0, rhs0) {
                assert forall|env: Env| env_sorted(env) implies #[trigger] flag_block_ok(4, ops, false, x, b, env) by {
                    assert(load_ok(ops[1], bits as nat, lhs0, env)); assert(load_ok(ops[2], bits as nat, rhs0, env));
                    assert(write_ok(x, result0, assign_src(b, 4), env));
                    lemma_flags_eval_rcv(false, lhs0, rhs0, env);
                }
            }
            if n0 == flag_n_form(false, lhs0, rhs0, czn) && assign_src(b, 0) == n0 && czn.wf() && czn.bits == bits && czn.value@ == 0 {
                assert forall|env: Env| env_sorted(env) implies #[trigger] flag_block_ok(0, ops, false, x, b, env) by {
                    assert(load_ok(ops[1], bits as nat, lhs0, env)); assert(load_ok(ops[2], bits as nat, rhs0, env));
                    lemma_flags_eval(false, lhs0, rhs0, czn, env);
                }
            }
            if z0 == flag_z_form(false, lhs0, rhs0, czz) && assign_src(b, 1) == z0 && czz.wf() && czz.bits == bits && czz.value@ == 0 {
                assert forall|env: Env| env_sorted(env) implies #[trigger] flag_block_ok(1, ops, false, x, b, env) by {
                    assert(load_ok(ops[1], bits as nat, lhs0, env)); assert(load_ok(ops[2], bits as nat, rhs0, env));
                    lemma_flags_eval(false, lhs0, rhs0, czz, env);
                }
            }
            if c0 == flag_c_form(false, lhs0, rhs0) && assign_src(b, 2) == c0 {
                assert forall|env: Env| env_sorted(env) implies #[trigger] flag_block_ok(2, ops, false, x, b, env) by {
                    assert(load_ok(ops[1], bits as nat, lhs0, env)); assert(load_ok(ops[2], bits as nat, rhs0, env));
                    lemma_flags_eval_rcv(false, lhs0, rhs0, env);
                }
            }
            if v0 == flag_v_form(false, lhs0, rhs0) && assign_src(b, 3) == v0 {
                assert forall|env: Env| env_sorted(env) implies #[trigger] flag_block_ok(3, ops, false, x, b, env) by {
                    assert(load_ok(ops[1], bits as nat, lhs0, env)); assert(load_ok(ops[2], bits as nat, rhs0, env));
                    lemma_flags_eval_rcv(false, lhs0, rhs0, env);
                }
            }
        }
    }
//@ end

//@ fn fn subs
//@ attr #[verifier::spinoff_prover]
//@ attr #[verifier::rlimit(200)]
//@ rewrite 1 `scalar!("n")` => `il::scalar("n", 1)` ## R-macro: expansion of the local macro `scalar!` (semantics.rs lines 10-30: `("n") => { il::scalar("n", 1) }`); tools/rsx.py cannot extract macro_rules items, so the expansion is written out
//@ rewrite 1 `scalar!("z")` => `il::scalar("z", 1)` ## R-macro: as above (`("z") => { il::scalar("z", 1) }`)
//@ rewrite 1 `scalar!("c")` => `il::scalar("c", 1)` ## R-macro: as above (`("c") => { il::scalar("c", 1) }`)
//@ rewrite 1 `scalar!("v")` => `il::scalar("v", 1)` ## R-macro: as above (`("v") => { il::scalar("v", 1) }`)
//@ spec
    requires
        old(control_flow_graph).cfg_wf(), old(control_flow_graph).next_index < usize::MAX,
        arith_pre(instruction.ops@),
    ensures
        /*@rejected*/ r is Err <==> (dst_rec(instruction.ops@[0]) is None || load_rejected(instruction.ops@[1]) || load_rejected(instruction.ops@[2])),
        /*@graph*/ r is Ok ==> one_block(*old(control_flow_graph), *final(control_flow_graph)),
        // n, z, c, v are assigned BEFORE the destination (which may alias a source); then, item by item, Arm ARM AddWithCarry:
        /*@block*/ r is Ok ==> nzcv_struct(dst_rec(instruction.ops@[0]).unwrap(), final(control_flow_graph).graph.vertices@[old(control_flow_graph).next_index]),
        /*@result*/ r is Ok ==> flag_block(4, instruction.ops@, true, dst_rec(instruction.ops@[0]).unwrap(), final(control_flow_graph).graph.vertices@[old(control_flow_graph).next_index]),
        /*@negative*/ r is Ok ==> flag_block(0, instruction.ops@, true, dst_rec(instruction.ops@[0]).unwrap(), final(control_flow_graph).graph.vertices@[old(control_flow_graph).next_index]),
        /*@zero*/ r is Ok ==> flag_block(1, instruction.ops@, true, dst_rec(instruction.ops@[0]).unwrap(), final(control_flow_graph).graph.vertices@[old(control_flow_graph).next_index]),
        /*@carry*/ r is Ok ==> flag_block(2, instruction.ops@, true, dst_rec(instruction.ops@[0]).unwrap(), final(control_flow_graph).graph.vertices@[old(control_flow_graph).next_index]),
        // REGRESSION PIN of the listed known finding C03-D1 (not part of the property, weakens nothing: `carry` above stays the claim):
        // the source assigned to c is EITHER the Arm carry OR, uniformly in every state, the documented borrow - any third formula fails here
        /*@carry_d1_pin*/ r is Ok ==> (flag_block(2, instruction.ops@, true, dst_rec(instruction.ops@[0]).unwrap(), final(control_flow_graph).graph.vertices@[old(control_flow_graph).next_index])
            || borrow_block(instruction.ops@, dst_rec(instruction.ops@[0]).unwrap(), final(control_flow_graph).graph.vertices@[old(control_flow_graph).next_index])),
        /*@overflow*/ r is Ok ==> flag_block(3, instruction.ops@, true, dst_rec(instruction.ops@[0]).unwrap(), final(control_flow_graph).graph.vertices@[old(control_flow_graph).next_index]),
//@ enter
    proof { broadcast use crate::strmap::axiom_into_string_str; lemma2_to64(); reveal(store_pre); }
//@ after 0 `let bits = operand_storing_width(&instruction.operands()[0])?;`
    let ghost x = dst_rec(instruction.ops@[0]).unwrap();
    proof {
        match instruction.ops@[0] { bad64::Operand::Reg { reg, arrspec } => { lemma_rec_of_ok(reg); } _ => {} }
        assert(x.rec_ok() && bits == x.bits && (bits == 32 || bits == 64));
        lemma_full_rec_ok(x);
        lemma_pow2_pos(bits as nat);
        lemma_small_mod(0, pow2(bits as nat));
    }
//@ after 0 `let rhs = operand_load(block, &instruction.operands()[2], bits)?;`
    let ghost lhs0 = lhs;
    let ghost rhs0 = rhs;
    proof { lemma_expr_wf_bits(lhs0); }
//@ before 0 `block.assign(il::scalar("n", 1), n);`
    let ghost (n0, z0, c0, v0, result0) = (n, z, c, v, result);
//@ before 0 `block.index()`
    proof {
        let b = *block;
        let ops = instruction.ops@;
        let czn = rhs_of(n0)->Constant_0;
        let czz = rhs_of(z0)->Constant_0;
        // Each item is guarded by the SHAPE of its expression and its position in the block: a changed formula then fails exactly
        // the named postcondition of that item (result / negative / zero / carry / overflow), not this proof block.
        if b.instructions@.len() == 5 && expr_wf(lhs0) && expr_wf(rhs0) && expr_bits(lhs0) == bits && expr_bits(rhs0) == bits {
            if result0 == addsub_form(true, lhs0, rhs0) {
                assert forall|env: Env| env_sorted(env) implies #[trigger] flag_block_ok(4, ops, true, x, b, env) by {
                    assert(load_ok(ops[1], bits as nat, lhs0, env)); assert(load_ok(ops[2], bits as nat, rhs0, env));
                    assert(write_ok(x, result0, assign_src(b, 4), env));
                    lemma_flags_eval_rcv(true, lhs0, rhs0, env);
                }
            }
            if n0 == flag_n_form(true, lhs0, rhs0, czn) && assign_src(b, 0) == n0 && czn.wf() && czn.bits == bits && czn.value@ == 0 {
                assert forall|env: Env| env_sorted(env) implies #[trigger] flag_block_ok(0, ops, true, x, b, env) by {
                    assert(load_ok(ops[1], bits as nat, lhs0, env)); assert(load_ok(ops[2], bits as nat, rhs0, env));
                    lemma_flags_eval(true, lhs0, rhs0, czn, env);
                }
            }
            if z0 == flag_z_form(true, lhs0, rhs0, czz) && assign_src(b, 1) == z0 && czz.wf() && czz.bits == bits && czz.value@ == 0 {
                assert forall|env: Env| env_sorted(env) implies #[trigger] flag_block_ok(1, ops, true, x, b, env) by {
                    assert(load_ok(ops[1], bits as nat, lhs0, env)); assert(load_ok(ops[2], bits as nat, rhs0, env));
                    lemma_flags_eval(true, lhs0, rhs0, czz, env);
                }
            }
            if c0 == flag_c_form(true, lhs0, rhs0) && assign_src(b, 2) == c0 {
                assert forall|env: Env| env_sorted(env) implies #[trigger] flag_block_ok(2, ops, true, x, b, env) by {
                    assert(load_ok(ops[1], bits as nat, lhs0, env)); assert(load_ok(ops[2], bits as nat, rhs0, env));
                    lemma_flags_eval_rcv(true, lhs0, rhs0, env);
                }
            }
            if c0 == borrow_c_form(lhs0, rhs0) && assign_src(b, 2) == c0 {
                assert forall|env: Env| env_sorted(env) implies #[trigger] borrow_block_ok(ops, x, b, env) by {
                    assert(load_ok(ops[1], bits as nat, lhs0, env)); assert(load_ok(ops[2], bits as nat, rhs0, env));
                    lemma_borrow_eval(lhs0, rhs0, env);
                }
            }
            if v0 == flag_v_form(true, lhs0, rhs0) && assign_src(b, 3) == v0 {
                assert forall|env: Env| env_sorted(env) implies #[trigger] flag_block_ok(3, ops, true, x, b, env) by {
                    assert(load_ok(ops[1], bits as nat, lhs0, env)); assert(load_ok(ops[2], bits as nat, rhs0, env));
                    lemma_flags_eval_rcv(true, lhs0, rhs0, env);
                }
            }
        }
    }
//@ end

// ---- branches ---------------------------------------------------------------------------------------------------------------

/// DECODER CONTRACT for direct branches: the target operand is a label (absolute address)
pub open spec fn label_of(opr: bad64::Operand) -> Option<nat> { match opr { bad64::Operand::Label(imm) => Some(imm_val(imm)), _ => None } }

/// the instruction graph gets ONE new EMPTY block (entry and exit): direct / conditional branches emit no IL, the control
/// transfer is described by the successor list
pub open spec fn empty_block(c0: ControlFlowGraph, c1: ControlFlowGraph) -> bool {
    one_block(c0, c1) && c1.graph.vertices@[c0.next_index].instructions@.len() == 0
}

//@ fn fn b
//@ spec
    requires
        old(instruction_graph).cfg_wf(), old(instruction_graph).next_index < usize::MAX,
        instruction.ops@.len() >= 1, label_of(instruction.ops@[0]) is Some,
    ensures
        /*@ok*/ r is Ok,
        /*@graph*/ empty_block(*old(instruction_graph), *final(instruction_graph)),
        /*@target*/ final(successors)@ == old(successors)@.push((label_of(instruction.ops@[0]).unwrap() as u64, None::<il::Expression>)),
//@ enter
    proof {
        reveal(load_pre); reveal(load_rejected);
        match instruction.ops@[0] { bad64::Operand::Label(imm) => { lemma_imm_bound(imm); } _ => {} }
        lemma2_to64();
    }
//@ end

// ---- B.cond: Arm ARM ConditionHolds -------------------------------------------------------------------------------------------

/// Arm ARM ConditionHolds(cond) on the flag values N Z C V (each 0 or 1): cond<3:1> selects the base condition
/// (000 EQ Z, 001 CS C, 010 MI N, 011 VS V, 100 HI C && !Z, 101 GE N == V, 110 GT N == V && !Z, 111 AL), cond<0> inverts it
/// except for 1111
pub open spec fn base_cond(k: nat, n: nat, z: nat, c: nat, v: nat) -> bool {
    if k == 0 { z == 1 } else if k == 1 { c == 1 } else if k == 2 { n == 1 } else if k == 3 { v == 1 }
    else if k == 4 { c == 1 && z == 0 } else if k == 5 { n == v } else if k == 6 { n == v && z == 0 } else { true }
}
pub open spec fn cond_holds(cond: nat, n: nat, z: nat, c: nat, v: nat) -> bool {
    let r = base_cond((cond / 2) % 8, n, z, c, v);
    if cond % 2 == 1 && cond != 15 { !r } else { r }
}

pub open spec fn flag_e(name: Seq<char>) -> Expression { Expression::Scalar(named_scalar(name, 1)) }
/// `e` is  inner != 1  (1-bit negation as the lifter writes it)
pub open spec fn is_not(e: Expression, inner: Expression) -> bool {
    e == Expression::Cmpneq(Box::new(inner), Box::new(rhs_of(e))) && const_is(rhs_of(e), 1, 1)
}
/// the expression b_cc builds for base condition k
pub open spec fn cond_shape(k: nat, ct: Expression) -> bool {
    let nf = flag_e("n"@); let zf = flag_e("z"@); let cf = flag_e("c"@); let vf = flag_e("v"@);
    if k == 0 { ct == zf } else if k == 1 { ct == cf } else if k == 2 { ct == nf } else if k == 3 { ct == vf }
    else if k == 4 { ct == Expression::And(Box::new(cf), Box::new(rhs_of(ct))) && is_not(rhs_of(ct), zf) }
    else if k == 5 { ct == Expression::Cmpeq(Box::new(nf), Box::new(vf)) }
    else if k == 6 { ct == Expression::And(Box::new(Expression::Cmpeq(Box::new(nf), Box::new(vf))), Box::new(rhs_of(ct))) && is_not(rhs_of(ct), zf) }
    else { false }
}

/// an IL state in which the four flag scalars hold the 1-bit values n z c v
pub open spec fn flags_are(env: Env, n: nat, z: nat, c: nat, v: nat) -> bool {
    &&& env(named_scalar("n"@, 1)) == Some((1nat, n)) && env(named_scalar("z"@, 1)) == Some((1nat, z))
    &&& env(named_scalar("c"@, 1)) == Some((1nat, c)) && env(named_scalar("v"@, 1)) == Some((1nat, v))
    &&& n < 2 && z < 2 && c < 2 && v < 2
}

/// `e` evaluates to 1 exactly in the states in which `want` holds
pub open spec fn guard_ok(e: Expression, env: Env, want: bool) -> bool { eval_spec(e, env) == EvalR::Val(1, b2n(want)) }

pub proof fn lemma_and_bits(a: nat, b: nat)
    requires a < 2, b < 2,
    ensures bv_and(1, a, b) == (if a == 1 && b == 1 { 1nat } else { 0nat }),
{
    reveal(bv_and);
    reveal_with_fuel(nat_and, 3);
}

pub proof fn lemma_cond_base(k: nat, ct: Expression, env: Env, n: nat, z: nat, c: nat, v: nat)
    requires k <= 6, cond_shape(k, ct), flags_are(env, n, z, c, v),
    ensures expr_wf(ct), expr_bits(ct) == 1, guard_ok(ct, env, base_cond(k, n, z, c, v)),
{
    let nf = flag_e("n"@); let zf = flag_e("z"@); let cf = flag_e("c"@); let vf = flag_e("v"@);
    lemma2_to64();
    assert(eval_spec(nf, env) == EvalR::Val(1, n) && eval_spec(zf, env) == EvalR::Val(1, z) && eval_spec(cf, env) == EvalR::Val(1, c) && eval_spec(vf, env) == EvalR::Val(1, v));
    assert(expr_wf(nf) && expr_wf(zf) && expr_wf(cf) && expr_wf(vf));
    reveal(bv_cmpeq); reveal(bv_cmpneq);
    if k == 4 || k == 6 {
        let nz = rhs_of(ct);
        let one = rhs_of(nz);
        let c1 = one->Constant_0;
        assert(one == Expression::Constant(c1));
        assert(eval_spec(one, env) == EvalR::Val(1, 1));
        assert(expr_wf(one) && expr_bits(one) == 1 && expr_bits(zf) == 1);
        assert(nz == Expression::Cmpneq(Box::new(zf), Box::new(one)));
        assert(expr_wf(nz));
        assert(eval_spec(nz, env) == bin_spec(BinOp::Cmpneq, eval_spec(zf, env), eval_spec(one, env)));
        let l = lhs_of(ct);
        if k == 6 {
            assert(l == Expression::Cmpeq(Box::new(nf), Box::new(vf)));
            assert(eval_spec(l, env) == bin_spec(BinOp::Cmpeq, eval_spec(nf, env), eval_spec(vf, env)));
            assert(expr_wf(l));
        }
        assert(eval_spec(ct, env) == bin_spec(BinOp::And, eval_spec(l, env), eval_spec(nz, env)));
        lemma_and_bits(if k == 4 { c } else { b2n(n == v) }, b2n(z != 1));
    } else if k == 5 {
        assert(eval_spec(ct, env) == bin_spec(BinOp::Cmpeq, eval_spec(nf, env), eval_spec(vf, env)));
    }
}

pub proof fn lemma_cond_not(ct: Expression, cf: Expression, env: Env, want: bool)
    requires expr_wf(ct), expr_bits(ct) == 1, guard_ok(ct, env, want), is_not(cf, ct),
    ensures expr_wf(cf), expr_bits(cf) == 1, guard_ok(cf, env, !want),
{
    let one = rhs_of(cf);
    let c1 = one->Constant_0;
    assert(one == Expression::Constant(c1));
    assert(eval_spec(one, env) == EvalR::Val(1, 1));
    assert(expr_wf(one));
    assert(eval_spec(cf, env) == bin_spec(BinOp::Cmpneq, eval_spec(ct, env), eval_spec(one, env)));
    reveal(bv_cmpneq);
}

/// the two successor guards of a conditional branch: taken iff ConditionHolds(cond), fall-through iff not
pub open spec fn guards_ok(cond: nat, taken: Expression, fall: Expression) -> bool {
    forall|env: Env, n: nat, z: nat, c: nat, v: nat| #[trigger] flags_are(env, n, z, c, v) ==>
        guard_ok(taken, env, cond_holds(cond, n, z, c, v)) && guard_ok(fall, env, !cond_holds(cond, n, z, c, v))
}

pub proof fn lemma_u8_cond(cond: u8)
    requires cond < 16,
    ensures
        ((cond & 0b1110u8) >> 1u8) as nat == ((cond as nat) / 2) % 8, ((cond & 0b1110u8) >> 1u8) <= 7,
        ((cond & 0b1110u8) == 0b1110u8) <==> cond >= 14,
        ((cond & 1u8) != 0u8) <==> (cond as nat) % 2 == 1,
{
    assert(((cond & 0b1110u8) >> 1u8) == (cond / 2u8) % 8u8 && ((cond & 0b1110u8) >> 1u8) <= 7u8
        && (((cond & 0b1110u8) == 0b1110u8) <==> cond >= 14u8) && (((cond & 1u8) != 0u8) <==> cond % 2u8 == 1u8)) by (bit_vector)
        requires cond < 16u8;
}

//@ fn fn b_cc
//@ attr #[verifier::spinoff_prover]
//@ attr #[verifier::rlimit(200)]
//@ rewrite 3 `expr!("z")` => `il::Expression::Scalar(il::scalar("z", 1))` ## R-macro: expansion of the local macros `expr!` / `scalar!` (semantics.rs lines 10-37: `expr!($x) => il::Expression::Scalar(scalar!($x))`, `scalar!("z") => il::scalar("z", 1)`); tools/rsx.py cannot extract macro_rules items
//@ rewrite 2 `expr!("c")` => `il::Expression::Scalar(il::scalar("c", 1))` ## R-macro: as above
//@ rewrite 3 `expr!("n")` => `il::Expression::Scalar(il::scalar("n", 1))` ## R-macro: as above
//@ rewrite 3 `expr!("v")` => `il::Expression::Scalar(il::scalar("v", 1))` ## R-macro: as above
//@ spec
    requires
        cond < 16,
        old(instruction_graph).cfg_wf(), old(instruction_graph).next_index < usize::MAX,
        instruction.ops@.len() >= 1, label_of(instruction.ops@[0]) is Some, instruction.address <= u64::MAX - 4,
    ensures
        /*@ok*/ r is Ok,
        /*@graph*/ empty_block(*old(instruction_graph), *final(instruction_graph)),
        /*@always*/ cond >= 14 ==> final(successors)@ == old(successors)@.push((label_of(instruction.ops@[0]).unwrap() as u64, None::<il::Expression>)),
        /*@targets*/ cond < 14 ==> (final(successors)@.len() == old(successors)@.len() + 2
            && final(successors)@.subrange(0, old(successors)@.len() as int) == old(successors)@
            && final(successors)@[old(successors)@.len() as int].0 == label_of(instruction.ops@[0]).unwrap() as u64
            && final(successors)@[old(successors)@.len() as int + 1].0 == instruction.address + 4),
        /*@condition*/ cond < 14 ==> (final(successors)@[old(successors)@.len() as int].1 matches Some(taken)
            && final(successors)@[old(successors)@.len() as int + 1].1 matches Some(fall) && guards_ok(cond as nat, taken, fall)),
//@ enter
    proof {
        broadcast use crate::strmap::axiom_into_string_str;
        reveal(load_pre); reveal(load_rejected);
        match instruction.ops@[0] { bad64::Operand::Label(imm) => { lemma_imm_bound(imm); } _ => {} }
        lemma2_to64();
        lemma_u8_cond(cond);
    }
//@ before 0 `let cond_false`
    let ghost ct0 = cond_true;
    let ghost k = ((cond as nat) / 2) % 8;
//@ before 0 `cond_true_false =`
    let ghost cf0 = cond_false;
    proof {
        if cond_shape(k, ct0) && is_not(cf0, ct0) {
            assert forall|env: Env, n: nat, z: nat, c: nat, v: nat| #[trigger] flags_are(env, n, z, c, v) implies
                guard_ok(ct0, env, base_cond(k, n, z, c, v)) && guard_ok(cf0, env, !base_cond(k, n, z, c, v)) by {
                lemma_cond_base(k, ct0, env, n, z, c, v);
                lemma_cond_not(ct0, cf0, env, base_cond(k, n, z, c, v));
            }
        }
    }
//@ end

// ---- CBZ / CBNZ / TBZ / TBNZ ------------------------------------------------------------------------------------------------------

/// bit b of the natural number v
pub open spec fn bit_of(v: nat, b: nat) -> nat { (v / pow2(b)) % 2 }

/// v & 2^b isolates bit b
pub proof fn lemma_and_pow2(v: nat, b: nat)
    ensures nat_and(v, pow2(b)) == bit_of(v, b) * pow2(b),
    decreases b,
{
    lemma2_to64();
    lemma_pow2_pos(b);
    if b == 0 {
        assert(pow2(0) == 1);
        assert(v / 1 == v);
        reveal_with_fuel(nat_and, 2);
        if v == 0 { } else { assert(nat_and(v / 2, 0) == 0); }
    } else {
        let b1 = (b - 1) as nat;
        lemma_pow2_step(b1);
        lemma_half_div(v, b);
        let p = pow2(b);
        assert(p / 2 == pow2(b1) && p % 2 == 0);
        lemma_and_pow2(v / 2, b1);
        assert(bit_of(v / 2, b1) == bit_of(v, b));
        if v == 0 {
            lemma_small_div(0, pow2(b));
            assert(bit_of(0, b) * pow2(b) == 0) by (nonlinear_arith) requires bit_of(0, b) == 0;
        } else {
            assert(nat_and(v, p) == 2 * nat_and(v / 2, p / 2) + 0);
            assert(2 * (bit_of(v, b) * pow2(b1)) == bit_of(v, b) * pow2(b)) by (nonlinear_arith) requires pow2(b) == 2 * pow2(b1);
        }
    }
}

/// what CBZ / CBNZ / TBZ / TBNZ test on the register value v: branch taken iff ...
pub open spec fn cb_taken(v: nat, branch_if_zero: bool, test_bit: Option<nat>) -> bool {
    let t = match test_bit { Some(b) => bit_of(v, b), None => v };
    if branch_if_zero { t == 0 } else { t != 0 }
}

/// the two successor guards of a compare / test-bit branch on register x
pub open spec fn cb_guards_ok(x: AArch64Register, branch_if_zero: bool, test_bit: Option<nat>, taken: Expression, fall: Expression) -> bool {
    forall|env: Env| env_sorted(env) ==> (#[trigger] reg_read(x, env) matches EvalR::Val(w, v) ==>
        guard_ok(taken, env, cb_taken(v, branch_if_zero, test_bit)) && guard_ok(fall, env, !cb_taken(v, branch_if_zero, test_bit)))
}

/// the shape of the two guards cbz_cbnz_tbz_tbnz builds from the register expression g
pub open spec fn cb_shape(x: AArch64Register, g: Expression, value: Expression, test_bit: Option<nat>, ne: Expression, eq: Expression) -> bool {
    &&& test_bit is None ==> value == g
    &&& test_bit matches Some(b) ==> b < x.bits && value == Expression::And(Box::new(g), Box::new(rhs_of(value))) && const_is(rhs_of(value), x.bits as nat, pow2(b))
    &&& ne == Expression::Cmpneq(Box::new(value), Box::new(rhs_of(ne))) && const_is(rhs_of(ne), x.bits as nat, 0)
    &&& eq == Expression::Cmpeq(Box::new(value), Box::new(rhs_of(eq))) && const_is(rhs_of(eq), x.bits as nat, 0)
}

pub proof fn lemma_cb_eval(x: AArch64Register, g: Expression, value: Expression, test_bit: Option<nat>, ne: Expression, eq: Expression, env: Env)
    requires
        expr_wf(g), expr_bits(g) == x.bits, reg_read(x, env) is Val ==> eval_spec(g, env) == reg_read(x, env),
        env_sorted(env), 1 <= x.bits <= 64, cb_shape(x, g, value, test_bit, ne, eq),
    ensures
        expr_wf(ne) && expr_wf(eq) && expr_bits(ne) == 1 && expr_bits(eq) == 1,
        reg_read(x, env) matches EvalR::Val(w, v) ==> guard_ok(ne, env, cb_taken(v, false, test_bit)) && guard_ok(eq, env, cb_taken(v, true, test_bit)),
{
    let z1 = rhs_of(ne); let z2 = rhs_of(eq);
    assert(z1 == Expression::Constant(z1->Constant_0) && z2 == Expression::Constant(z2->Constant_0));
    assert(expr_wf(z1) && expr_wf(z2) && expr_wf(g));
    assert(eval_spec(z1, env) == EvalR::Val(x.bits as nat, 0) && eval_spec(z2, env) == EvalR::Val(x.bits as nat, 0));
    if let Some(b) = test_bit {
        let m = rhs_of(value);
        assert(m == Expression::Constant(m->Constant_0));
        assert(expr_wf(m));
        assert(eval_spec(m, env) == EvalR::Val(x.bits as nat, pow2(b)));
        assert(eval_spec(value, env) == bin_spec(BinOp::And, eval_spec(g, env), eval_spec(m, env)));
    }
    assert(expr_wf(value) && expr_bits(value) == x.bits);
    assert(eval_spec(ne, env) == bin_spec(BinOp::Cmpneq, eval_spec(value, env), eval_spec(z1, env)));
    assert(eval_spec(eq, env) == bin_spec(BinOp::Cmpeq, eval_spec(value, env), eval_spec(z2, env)));
    reveal(bv_cmpeq); reveal(bv_cmpneq); reveal(bv_and);
    if let EvalR::Val(w, v) = reg_read(x, env) {
        if let Some(b) = test_bit {
            lemma_and_pow2(v, b);
            lemma_pow2_pos(b);
            let t = bit_of(v, b);
            assert(t * pow2(b) == 0 <==> t == 0) by (nonlinear_arith) requires pow2(b) > 0;
        }
    }
}

//@ fn fn cbz_cbnz_tbz_tbnz
//@ attr #[verifier::spinoff_prover]
//@ attr #[verifier::rlimit(200)]
//@ rewrite 1 `test_bit.then_some(1)` => `if test_bit { Some(1) } else { None }` ## R-then-some: the definition of bool::then_some (vstd has no specification for it)
//@ rewrite 1 `[1, 2][test_bit as usize]` => `if test_bit { 2 } else { 1 }` ## R-bool-index: `true as usize` is 1 and `false as usize` is 0, so indexing the literal array [1, 2] selects 2 resp. 1
//@ spec
    requires
        old(instruction_graph).cfg_wf(), old(instruction_graph).next_index < usize::MAX, instruction.address <= u64::MAX - 4,
        // DECODER CONTRACT: Rt, [#bit,] label; the tested bit number is below the register width
        instruction.ops@.len() >= (if test_bit { 3nat } else { 2nat }), int_dst(instruction.ops@[0]),
        label_of(instruction.ops@[if test_bit { 2int } else { 1int }]) is Some,
        test_bit ==> unshifted_imm(instruction.ops@[1])
            && (dst_rec(instruction.ops@[0]) matches Some(x) ==> plain_imm_val(instruction.ops@[1]) < x.bits),
    ensures
        /*@rejected*/ r is Err <==> dst_rec(instruction.ops@[0]) is None,
        /*@err_frame*/ r is Err ==> final(successors)@ == old(successors)@,
        /*@graph*/ r is Ok ==> empty_block(*old(instruction_graph), *final(instruction_graph)),
        /*@targets*/ r is Ok ==> (final(successors)@.len() == old(successors)@.len() + 2
            && final(successors)@.subrange(0, old(successors)@.len() as int) == old(successors)@
            && final(successors)@[old(successors)@.len() as int].0 == label_of(instruction.ops@[if test_bit { 2int } else { 1int }]).unwrap() as u64
            && final(successors)@[old(successors)@.len() as int + 1].0 == instruction.address + 4),
        /*@condition*/ r is Ok ==> (final(successors)@[old(successors)@.len() as int].1 matches Some(taken)
            && final(successors)@[old(successors)@.len() as int + 1].1 matches Some(fall)
            && cb_guards_ok(dst_rec(instruction.ops@[0]).unwrap(), branch_if_zero, (if test_bit { Some(plain_imm_val(instruction.ops@[1])) } else { None::<nat> }), taken, fall)),
//@ enter
    proof {
        reveal(load_pre); reveal(load_rejected); reveal(load_val); reveal(load_bits);
        lemma2_to64();
        match instruction.ops@[if test_bit { 2int } else { 1int }] { bad64::Operand::Label(imm) => { lemma_imm_bound(imm); } _ => {} }
        match instruction.ops@[0] { bad64::Operand::Reg { reg, arrspec } => { lemma_rec_of_ok(reg); } _ => {} }
    }
//@ after 0 `assert!(bit < bits as u64);`
    proof {
        lemma_one_shl(bit);
        lemma_pow2_strictly_increases(bit as nat, bits as nat);
        lemma_small_mod(pow2(bit as nat), pow2(bits as nat));
    }
//@ before 0 `cond_true = il::Expression::cmpneq`
    let ghost val0 = value;
    let ghost x = dst_rec(instruction.ops@[0]).unwrap();
    let ghost tb = if test_bit { Some(plain_imm_val(instruction.ops@[1])) } else { None::<nat> };
    proof {
        lemma_pow2_pos(bits as nat);
        lemma_small_mod(0, pow2(bits as nat));
    }
//@ before 0 `if branch_if_zero`
    let ghost ne0 = cond_true;
    let ghost eq0 = cond_false;
    proof {
        let g = if test_bit { lhs_of(val0) } else { val0 };
        assert forall|env: Env| (env_sorted(env) && cb_shape(x, g, val0, tb, ne0, eq0)) implies (#[trigger] reg_read(x, env) matches EvalR::Val(w, v) ==>
            guard_ok(ne0, env, cb_taken(v, false, tb)) && guard_ok(eq0, env, cb_taken(v, true, tb))) by {
            assert(load_ok(instruction.ops@[0], bits as nat, g, env));
            // (guarded by the shape of the guards: a changed mask / comparison then fails the named postcondition `condition`)
            lemma_cb_eval(x, g, val0, tb, ne0, eq0, env);
        }
    }
//@ end

/// the bit pattern of an unshifted immediate operand
pub open spec fn plain_imm_val(opr: bad64::Operand) -> nat {
    match opr { bad64::Operand::Imm32 { imm, shift } => imm_val(imm), bad64::Operand::Imm64 { imm, shift } => imm_val(imm), _ => 0 }
}

//@ fn fn cbz
//@ spec
    requires
        old(instruction_graph).cfg_wf(), old(instruction_graph).next_index < usize::MAX, instruction.address <= u64::MAX - 4,
        // DECODER CONTRACT: Rt, [#bit,] label; the tested bit number is below the register width
        instruction.ops@.len() >= 2nat, int_dst(instruction.ops@[0]),
        label_of(instruction.ops@[1int]) is Some,
        false ==> unshifted_imm(instruction.ops@[1])
            && (dst_rec(instruction.ops@[0]) matches Some(x) ==> plain_imm_val(instruction.ops@[1]) < x.bits),
    ensures
        /*@rejected*/ r is Err <==> dst_rec(instruction.ops@[0]) is None,
        /*@err_frame*/ r is Err ==> final(successors)@ == old(successors)@,
        /*@graph*/ r is Ok ==> empty_block(*old(instruction_graph), *final(instruction_graph)),
        /*@targets*/ r is Ok ==> (final(successors)@.len() == old(successors)@.len() + 2
            && final(successors)@.subrange(0, old(successors)@.len() as int) == old(successors)@
            && final(successors)@[old(successors)@.len() as int].0 == label_of(instruction.ops@[1int]).unwrap() as u64
            && final(successors)@[old(successors)@.len() as int + 1].0 == instruction.address + 4),
        /*@condition*/ r is Ok ==> (final(successors)@[old(successors)@.len() as int].1 matches Some(taken)
            && final(successors)@[old(successors)@.len() as int + 1].1 matches Some(fall)
            && cb_guards_ok(dst_rec(instruction.ops@[0]).unwrap(), true, None::<nat>, taken, fall)),
//@ end

//@ fn fn cbnz
//@ spec
    requires
        old(instruction_graph).cfg_wf(), old(instruction_graph).next_index < usize::MAX, instruction.address <= u64::MAX - 4,
        // DECODER CONTRACT: Rt, [#bit,] label; the tested bit number is below the register width
        instruction.ops@.len() >= 2nat, int_dst(instruction.ops@[0]),
        label_of(instruction.ops@[1int]) is Some,
        false ==> unshifted_imm(instruction.ops@[1])
            && (dst_rec(instruction.ops@[0]) matches Some(x) ==> plain_imm_val(instruction.ops@[1]) < x.bits),
    ensures
        /*@rejected*/ r is Err <==> dst_rec(instruction.ops@[0]) is None,
        /*@err_frame*/ r is Err ==> final(successors)@ == old(successors)@,
        /*@graph*/ r is Ok ==> empty_block(*old(instruction_graph), *final(instruction_graph)),
        /*@targets*/ r is Ok ==> (final(successors)@.len() == old(successors)@.len() + 2
            && final(successors)@.subrange(0, old(successors)@.len() as int) == old(successors)@
            && final(successors)@[old(successors)@.len() as int].0 == label_of(instruction.ops@[1int]).unwrap() as u64
            && final(successors)@[old(successors)@.len() as int + 1].0 == instruction.address + 4),
        /*@condition*/ r is Ok ==> (final(successors)@[old(successors)@.len() as int].1 matches Some(taken)
            && final(successors)@[old(successors)@.len() as int + 1].1 matches Some(fall)
            && cb_guards_ok(dst_rec(instruction.ops@[0]).unwrap(), false, None::<nat>, taken, fall)),
//@ end

//@ fn fn tbz
//@ spec
    requires
        old(instruction_graph).cfg_wf(), old(instruction_graph).next_index < usize::MAX, instruction.address <= u64::MAX - 4,
        // DECODER CONTRACT: Rt, [#bit,] label; the tested bit number is below the register width
        instruction.ops@.len() >= 3nat, int_dst(instruction.ops@[0]),
        label_of(instruction.ops@[2int]) is Some,
        true ==> unshifted_imm(instruction.ops@[1])
            && (dst_rec(instruction.ops@[0]) matches Some(x) ==> plain_imm_val(instruction.ops@[1]) < x.bits),
    ensures
        /*@rejected*/ r is Err <==> dst_rec(instruction.ops@[0]) is None,
        /*@err_frame*/ r is Err ==> final(successors)@ == old(successors)@,
        /*@graph*/ r is Ok ==> empty_block(*old(instruction_graph), *final(instruction_graph)),
        /*@targets*/ r is Ok ==> (final(successors)@.len() == old(successors)@.len() + 2
            && final(successors)@.subrange(0, old(successors)@.len() as int) == old(successors)@
            && final(successors)@[old(successors)@.len() as int].0 == label_of(instruction.ops@[2int]).unwrap() as u64
            && final(successors)@[old(successors)@.len() as int + 1].0 == instruction.address + 4),
        /*@condition*/ r is Ok ==> (final(successors)@[old(successors)@.len() as int].1 matches Some(taken)
            && final(successors)@[old(successors)@.len() as int + 1].1 matches Some(fall)
            && cb_guards_ok(dst_rec(instruction.ops@[0]).unwrap(), true, Some(plain_imm_val(instruction.ops@[1])), taken, fall)),
//@ end

//@ fn fn tbnz
//@ spec
    requires
        old(instruction_graph).cfg_wf(), old(instruction_graph).next_index < usize::MAX, instruction.address <= u64::MAX - 4,
        // DECODER CONTRACT: Rt, [#bit,] label; the tested bit number is below the register width
        instruction.ops@.len() >= 3nat, int_dst(instruction.ops@[0]),
        label_of(instruction.ops@[2int]) is Some,
        true ==> unshifted_imm(instruction.ops@[1])
            && (dst_rec(instruction.ops@[0]) matches Some(x) ==> plain_imm_val(instruction.ops@[1]) < x.bits),
    ensures
        /*@rejected*/ r is Err <==> dst_rec(instruction.ops@[0]) is None,
        /*@err_frame*/ r is Err ==> final(successors)@ == old(successors)@,
        /*@graph*/ r is Ok ==> empty_block(*old(instruction_graph), *final(instruction_graph)),
        /*@targets*/ r is Ok ==> (final(successors)@.len() == old(successors)@.len() + 2
            && final(successors)@.subrange(0, old(successors)@.len() as int) == old(successors)@
            && final(successors)@[old(successors)@.len() as int].0 == label_of(instruction.ops@[2int]).unwrap() as u64
            && final(successors)@[old(successors)@.len() as int + 1].0 == instruction.address + 4),
        /*@condition*/ r is Ok ==> (final(successors)@[old(successors)@.len() as int].1 matches Some(taken)
            && final(successors)@[old(successors)@.len() as int + 1].1 matches Some(fall)
            && cb_guards_ok(dst_rec(instruction.ops@[0]).unwrap(), false, Some(plain_imm_val(instruction.ops@[1])), taken, fall)),
//@ end

// ---- ADD / SUB / MOV (no flags) -----------------------------------------------------------------------------------------------

/// kind 0: ADD, 1: SUB, 2: MOV.  The single assignment of the block computes the Arm ARM result from the operand values:
/// ADD: (a + b) mod 2^w, SUB: (a - b) mod 2^w, MOV: the source value; zero-extended into the full register
pub open spec fn arith_block_ok(ops: Seq<bad64::Operand>, kind: int, x: AArch64Register, b: Block, env: Env) -> bool {
    let src = assign_src(b, 0);
    let fb = x.full_rec().bits as nat;
    if kind == 2 {
        load_val(ops[1], x.bits as nat, env) matches EvalR::Val(w, v) ==> eval_spec(src, env) == EvalR::Val(fb, v)
    } else {
        match (load_val(ops[1], x.bits as nat, env), load_val(ops[2], x.bits as nat, env)) {
            (EvalR::Val(w, a), EvalR::Val(w2, b)) => eval_spec(src, env) == EvalR::Val(fb, addsub(w, a, b, kind == 1)),
            _ => true,
        }
    }
}

pub open spec fn arith_block(ops: Seq<bad64::Operand>, kind: int, x: AArch64Register, b: Block) -> bool {
    &&& b.instructions@.len() == 1 && is_assign(b, 0)
    &&& assign_dst(b, 0) == reg_scalar(x.full_rec())
    &&& (gp_class(x.bad64_reg) matches Some((is64, n)) ==> assign_dst(b, 0) == named_scalar(xname(n), 64))
    &&& (is_zero_reg(x.bad64_reg) ==> !is_arch_name(assign_dst(b, 0).name@))
    &&& forall|env: Env| env_sorted(env) ==> #[trigger] arith_block_ok(ops, kind, x, b, env)
}

pub open spec fn mov_pre(ops: Seq<bad64::Operand>) -> bool {
    &&& ops.len() == 2
    &&& int_dst(ops[0])
    &&& (dst_rec(ops[0]) matches Some(x) ==> src_fits(ops[1], x.bits as nat))
}

//@ fn fn add
//@ attr #[verifier::spinoff_prover]
//@ attr #[verifier::rlimit(100)]
//@ rewrite 1 `il::Expression::add(lhs, rhs).map_err(|_| unsupported())?` => `match il::Expression::add(lhs, rhs) { Ok(vf_v) => vf_v, Err(_) => return Err(unsupported()) }` ## R-map-err: Verus rejects `_` closure parameters and un-annotated closures; `r.map_err(|_| e)?` is by definition of Result::map_err and `?` (From<UnsupportedError> for UnsupportedError is the identity) `match r { Ok(v) => v, Err(_) => return Err(e) }`: same value, same early return
//@ spec
    requires
        old(control_flow_graph).cfg_wf(), old(control_flow_graph).next_index < usize::MAX,
        arith_pre(instruction.ops@),
    ensures
        /*@rejected*/ r is Err <==> (dst_rec(instruction.ops@[0]) is None || load_rejected(instruction.ops@[1]) || load_rejected(instruction.ops@[2])),
        /*@graph*/ r is Ok ==> one_block(*old(control_flow_graph), *final(control_flow_graph)),
        /*@result*/ r is Ok ==> arith_block(instruction.ops@, 0, dst_rec(instruction.ops@[0]).unwrap(), final(control_flow_graph).graph.vertices@[old(control_flow_graph).next_index]),
//@ enter
    proof { lemma2_to64(); reveal(store_pre); }
//@ after 0 `let bits = operand_storing_width(&instruction.operands()[0])?;`
    let ghost x = dst_rec(instruction.ops@[0]).unwrap();
    proof {
        match instruction.ops@[0] { bad64::Operand::Reg { reg, arrspec } => { lemma_rec_of_ok(reg); } _ => {} }
        assert(x.rec_ok() && bits == x.bits && (bits == 32 || bits == 64));
        lemma_full_rec_ok(x);
        lemma_gp_scalar(x);
    }
//@ after 0 `let rhs = operand_load(block, &instruction.operands()[2], bits)?;`
    let ghost lhs0 = lhs;
    let ghost rhs0 = rhs;
//@ before 0 `operand_store(block, &instruction.operands()[0], src)?;`
    let ghost src0 = src;
//@ before 0 `block.index()`
    proof {
        let b = *block;
        let ops = instruction.ops@;
        assert forall|env: Env| env_sorted(env) implies #[trigger] arith_block_ok(ops, 0, x, b, env) by {
            assert(load_ok(ops[1], bits as nat, lhs0, env));
            assert(load_ok(ops[2], bits as nat, rhs0, env));
            assert(write_ok(x, src0, assign_src(b, 0), env));
            if src0 == addsub_form(false, lhs0, rhs0) {
                assert(eval_spec(src0, env) == bin_spec(if false { BinOp::Sub } else { BinOp::Add }, eval_spec(lhs0, env), eval_spec(rhs0, env)));
                lemma_eval_wf_val(lhs0, env); lemma_eval_wf_val(rhs0, env);
            }
        }
    }
//@ end

//@ fn fn sub
//@ attr #[verifier::spinoff_prover]
//@ attr #[verifier::rlimit(100)]
//@ rewrite 1 `il::Expression::sub(lhs, rhs).map_err(|_| unsupported())?` => `match il::Expression::sub(lhs, rhs) { Ok(vf_v) => vf_v, Err(_) => return Err(unsupported()) }` ## R-map-err: Verus rejects `_` closure parameters and un-annotated closures; `r.map_err(|_| e)?` is by definition of Result::map_err and `?` (From<UnsupportedError> for UnsupportedError is the identity) `match r { Ok(v) => v, Err(_) => return Err(e) }`: same value, same early return
//@ spec
    requires
        old(control_flow_graph).cfg_wf(), old(control_flow_graph).next_index < usize::MAX,
        arith_pre(instruction.ops@),
    ensures
        /*@rejected*/ r is Err <==> (dst_rec(instruction.ops@[0]) is None || load_rejected(instruction.ops@[1]) || load_rejected(instruction.ops@[2])),
        /*@graph*/ r is Ok ==> one_block(*old(control_flow_graph), *final(control_flow_graph)),
        /*@result*/ r is Ok ==> arith_block(instruction.ops@, 1, dst_rec(instruction.ops@[0]).unwrap(), final(control_flow_graph).graph.vertices@[old(control_flow_graph).next_index]),
//@ enter
    proof { lemma2_to64(); reveal(store_pre); }
//@ after 0 `let bits = operand_storing_width(&instruction.operands()[0])?;`
    let ghost x = dst_rec(instruction.ops@[0]).unwrap();
    proof {
        match instruction.ops@[0] { bad64::Operand::Reg { reg, arrspec } => { lemma_rec_of_ok(reg); } _ => {} }
        assert(x.rec_ok() && bits == x.bits && (bits == 32 || bits == 64));
        lemma_full_rec_ok(x);
        lemma_gp_scalar(x);
    }
//@ after 0 `let rhs = operand_load(block, &instruction.operands()[2], bits)?;`
    let ghost lhs0 = lhs;
    let ghost rhs0 = rhs;
//@ before 0 `operand_store(block, &instruction.operands()[0], src)?;`
    let ghost src0 = src;
//@ before 0 `block.index()`
    proof {
        let b = *block;
        let ops = instruction.ops@;
        assert forall|env: Env| env_sorted(env) implies #[trigger] arith_block_ok(ops, 1, x, b, env) by {
            assert(load_ok(ops[1], bits as nat, lhs0, env));
            assert(load_ok(ops[2], bits as nat, rhs0, env));
            assert(write_ok(x, src0, assign_src(b, 0), env));
            if src0 == addsub_form(true, lhs0, rhs0) {
                assert(eval_spec(src0, env) == bin_spec(if true { BinOp::Sub } else { BinOp::Add }, eval_spec(lhs0, env), eval_spec(rhs0, env)));
                lemma_eval_wf_val(lhs0, env); lemma_eval_wf_val(rhs0, env);
            }
        }
    }
//@ end

//@ fn fn mov
//@ attr #[verifier::spinoff_prover]
//@ attr #[verifier::rlimit(100)]
//@ spec
    requires
        old(control_flow_graph).cfg_wf(), old(control_flow_graph).next_index < usize::MAX,
        mov_pre(instruction.ops@),
    ensures
        /*@rejected*/ r is Err <==> (dst_rec(instruction.ops@[0]) is None || load_rejected(instruction.ops@[1])),
        /*@graph*/ r is Ok ==> one_block(*old(control_flow_graph), *final(control_flow_graph)),
        /*@result*/ r is Ok ==> arith_block(instruction.ops@, 2, dst_rec(instruction.ops@[0]).unwrap(), final(control_flow_graph).graph.vertices@[old(control_flow_graph).next_index]),
//@ enter
    proof { lemma2_to64(); reveal(store_pre); }
//@ after 0 `let bits = operand_storing_width(&instruction.operands()[0])?;`
    let ghost x = dst_rec(instruction.ops@[0]).unwrap();
    proof {
        match instruction.ops@[0] { bad64::Operand::Reg { reg, arrspec } => { lemma_rec_of_ok(reg); } _ => {} }
        assert(x.rec_ok() && bits == x.bits && (bits == 32 || bits == 64));
        lemma_full_rec_ok(x);
        lemma_gp_scalar(x);
    }
//@ after 0 `let rhs = operand_load(block, &instruction.operands()[1], bits)?;`
    let ghost rhs0 = rhs;
//@ before 0 `block.index()`
    proof {
        let b = *block;
        let ops = instruction.ops@;
        assert forall|env: Env| env_sorted(env) implies #[trigger] arith_block_ok(ops, 2, x, b, env) by {
            assert(load_ok(ops[1], bits as nat, rhs0, env));
            assert(write_ok(x, rhs0, assign_src(b, 0), env));
        }
    }
//@ end

// ---- loads and stores ------------------------------------------------------------------------------------------------------------

//@ fn fn temp0
//@ spec
    requires 1 <= bits,
    ensures /*@fields*/ r.bits == bits && r.ssa is None,
//@ end

//@ fn fn temp1
//@ spec
    requires 1 <= bits, instruction.address < u64::MAX,
    ensures /*@fields*/ r.bits == bits && r.ssa is None,
//@ end

/// the base-register write-back of a pre / post-indexed access is the instruction at position k of the block (nothing
/// follows it); without write-back the block ends at k
pub open spec fn writeback_at(b: Block, k: int, se: MemOperandSideeffect) -> bool {
    match se {
        MemOperandSideeffect::None => b.instructions@.len() == k,
        MemOperandSideeffect::Assign(y, v) => b.instructions@.len() == k + 1 && is_assign(b, k) && assign_dst(b, k) == reg_scalar(y.full_rec())
            && (forall|env: Env| env_sorted(env) ==> #[trigger] write_ok(*y, v, assign_src(b, k), env)),
    }
}

/// what a single-register load leaves in the destination: the loaded `size`-bit value, sign-extended to `sx` bits if the
/// mnemonic says so, then zero-extended into the full register
pub open spec fn loaded_val(size: nat, sx: Option<nat>, tv: nat) -> nat { match sx { Some(n) => bv_sext(size, n, tv), None => tv } }

pub open spec fn ld_assign_ok(x: AArch64Register, t: Scalar, size: nat, sx: Option<nat>, src: Expression, env: Env) -> bool {
    env(t) matches Some((w, tv)) ==> eval_spec(src, env) == EvalR::Val(x.full_rec().bits as nat, loaded_val(size, sx, tv))
}

/// LDR / LDRB / LDRH / LDRSB / LDRSH / LDRSW Rt, <mem>:  t := load size bits at the Arm ARM address of <mem>;  full(Rt) := extend(t);
/// then the base write-back (address / write-back value: mem_good)
pub open spec fn ld_block_with(ops: Seq<bad64::Operand>, x: AArch64Register, size: nat, sx: Option<nat>, b: Block, a: Expression, se: MemOperandSideeffect) -> bool {
    &&& mem_good(ops[1], a, se)
    &&& b.instructions@.len() >= 2
    &&& (b.instructions@[0].operation matches Operation::Load { dst, index } && index == a && dst.bits == size && dst.ssa is None
        && is_assign(b, 1) && assign_dst(b, 1) == reg_scalar(x.full_rec())
        && (forall|env: Env| env_sorted(env) ==> #[trigger] ld_assign_ok(x, dst, size, sx, assign_src(b, 1), env)))
    &&& writeback_at(b, 2, se)
}
pub open spec fn ld_block(ops: Seq<bad64::Operand>, x: AArch64Register, size: nat, sx: Option<nat>, b: Block) -> bool {
    exists|a: Expression, se: MemOperandSideeffect| #[trigger] ld_block_with(ops, x, size, sx, b, a, se)
}

/// DECODER CONTRACT for single-register loads / stores: Rt is a plain integer register, operand 1 a memory operand
pub open spec fn ldst_pre(ops: Seq<bad64::Operand>) -> bool {
    ops.len() == 2 && int_dst(ops[0]) && mem_pre(ops[1])
}

//@ fn fn ldr
//@ attr #[verifier::spinoff_prover]
//@ attr #[verifier::rlimit(100)]
//@ spec
    requires
        old(control_flow_graph).cfg_wf(), old(control_flow_graph).next_index < usize::MAX,
        ldst_pre(instruction.ops@),
    ensures
        /*@rejected*/ r is Err <==> (dst_rec(instruction.ops@[0]) is None || mem_rejected(instruction.ops@[1])),
        /*@graph*/ r is Ok ==> one_block(*old(control_flow_graph), *final(control_flow_graph)),
        /*@load*/ r is Ok ==> ld_block(instruction.ops@, dst_rec(instruction.ops@[0]).unwrap(), dst_rec(instruction.ops@[0]).unwrap().bits as nat, None,
            final(control_flow_graph).graph.vertices@[old(control_flow_graph).next_index]),
//@ enter
    proof { lemma2_to64(); reveal(store_pre); }
//@ after 0 `let (address, sideeffect) = mem_operand_address(&instruction.operands()[1])?;`
    let ghost a0 = address;
    let ghost se0 = sideeffect;
//@ after 0 `let bits = operand_storing_width(&instruction.operands()[0])?;`
    let ghost x = dst_rec(instruction.ops@[0]).unwrap();
    proof {
        match instruction.ops@[0] { bad64::Operand::Reg { reg, arrspec } => { lemma_rec_of_ok(reg); } _ => {} }
        assert(x.rec_ok() && bits == x.bits && (bits == 32 || bits == 64));
        lemma_full_rec_ok(x);
    }
//@ after 0 `let temp = temp0(instruction, bits);`
    let ghost t0 = temp;
//@ before 0 `block.index()`
    proof {
        let b = *block;
        let ops = instruction.ops@;
        let src = assign_src(b, 1);
        assert forall|env: Env| env_sorted(env) implies #[trigger] ld_assign_ok(x, t0, bits as nat, None, src, env) by {
            assert(write_ok(x, Expression::Scalar(t0), src, env));
        }
        assert(ld_block_with(ops, x, bits as nat, None, b, a0, se0));
    }
//@ end

//@ fn fn ldrb
//@ attr #[verifier::spinoff_prover]
//@ attr #[verifier::rlimit(100)]
//@ spec
    requires
        old(control_flow_graph).cfg_wf(), old(control_flow_graph).next_index < usize::MAX,
        ldst_pre(instruction.ops@),
    ensures
        /*@rejected*/ r is Err <==> (dst_rec(instruction.ops@[0]) is None || mem_rejected(instruction.ops@[1])),
        /*@graph*/ r is Ok ==> one_block(*old(control_flow_graph), *final(control_flow_graph)),
        /*@load*/ r is Ok ==> ld_block(instruction.ops@, dst_rec(instruction.ops@[0]).unwrap(), 8, None,
            final(control_flow_graph).graph.vertices@[old(control_flow_graph).next_index]),
//@ enter
    proof { lemma2_to64(); reveal(store_pre); }
    let ghost x = dst_rec(instruction.ops@[0]).unwrap();
    proof {
        match instruction.ops@[0] { bad64::Operand::Reg { reg, arrspec } => { lemma_rec_of_ok(reg); } _ => {} }
        if dst_rec(instruction.ops@[0]) is Some { lemma_full_rec_ok(x); lemma_gp_scalar(x); }
    }
//@ after 0 `let (address, sideeffect) = mem_operand_address(&instruction.operands()[1])?;`
    let ghost a0 = address;
    let ghost se0 = sideeffect;
//@ after 0 `let temp = temp0(instruction, 8);`
    let ghost t0 = temp;
//@ before 0 `block.index()`
    proof {
        let b = *block;
        let ops = instruction.ops@;
        let src = assign_src(b, 1);
        assert forall|env: Env| env_sorted(env) implies #[trigger] ld_assign_ok(x, t0, 8, None, src, env) by {
            assert(write_ok(x, Expression::Scalar(t0), src, env));
        }
        assert(ld_block_with(ops, x, 8, None, b, a0, se0));
    }
//@ end

//@ fn fn ldrh
//@ attr #[verifier::spinoff_prover]
//@ attr #[verifier::rlimit(100)]
//@ spec
    requires
        old(control_flow_graph).cfg_wf(), old(control_flow_graph).next_index < usize::MAX,
        ldst_pre(instruction.ops@),
    ensures
        /*@rejected*/ r is Err <==> (dst_rec(instruction.ops@[0]) is None || mem_rejected(instruction.ops@[1])),
        /*@graph*/ r is Ok ==> one_block(*old(control_flow_graph), *final(control_flow_graph)),
        /*@load*/ r is Ok ==> ld_block(instruction.ops@, dst_rec(instruction.ops@[0]).unwrap(), 16, None,
            final(control_flow_graph).graph.vertices@[old(control_flow_graph).next_index]),
//@ enter
    proof { lemma2_to64(); reveal(store_pre); }
    let ghost x = dst_rec(instruction.ops@[0]).unwrap();
    proof {
        match instruction.ops@[0] { bad64::Operand::Reg { reg, arrspec } => { lemma_rec_of_ok(reg); } _ => {} }
        if dst_rec(instruction.ops@[0]) is Some { lemma_full_rec_ok(x); lemma_gp_scalar(x); }
    }
//@ after 0 `let (address, sideeffect) = mem_operand_address(&instruction.operands()[1])?;`
    let ghost a0 = address;
    let ghost se0 = sideeffect;
//@ after 0 `let temp = temp0(instruction, 16);`
    let ghost t0 = temp;
//@ before 0 `block.index()`
    proof {
        let b = *block;
        let ops = instruction.ops@;
        let src = assign_src(b, 1);
        assert forall|env: Env| env_sorted(env) implies #[trigger] ld_assign_ok(x, t0, 16, None, src, env) by {
            assert(write_ok(x, Expression::Scalar(t0), src, env));
        }
        assert(ld_block_with(ops, x, 16, None, b, a0, se0));
    }
//@ end

//@ fn fn ldrsb
//@ attr #[verifier::spinoff_prover]
//@ attr #[verifier::rlimit(100)]
//@ spec
    requires
        old(control_flow_graph).cfg_wf(), old(control_flow_graph).next_index < usize::MAX,
        ldst_pre(instruction.ops@),
    ensures
        /*@rejected*/ r is Err <==> (dst_rec(instruction.ops@[0]) is None || mem_rejected(instruction.ops@[1])),
        /*@graph*/ r is Ok ==> one_block(*old(control_flow_graph), *final(control_flow_graph)),
        /*@load*/ r is Ok ==> ld_block(instruction.ops@, dst_rec(instruction.ops@[0]).unwrap(), 8, Some(dst_rec(instruction.ops@[0]).unwrap().bits as nat),
            final(control_flow_graph).graph.vertices@[old(control_flow_graph).next_index]),
        
//@ enter
    proof { lemma2_to64(); reveal(store_pre); }
//@ after 0 `let bits = operand_storing_width(&instruction.operands()[0])?;`
    let ghost x = dst_rec(instruction.ops@[0]).unwrap();
    proof {
        match instruction.ops@[0] { bad64::Operand::Reg { reg, arrspec } => { lemma_rec_of_ok(reg); } _ => {} }
        if dst_rec(instruction.ops@[0]) is Some { lemma_full_rec_ok(x); lemma_gp_scalar(x); }
    }
//@ after 0 `let (address, sideeffect) = mem_operand_address(&instruction.operands()[1])?;`
    let ghost a0 = address;
    let ghost se0 = sideeffect;
//@ after 0 `let temp = temp0(instruction, 8);`
    let ghost t0 = temp;
//@ before 0 `operand_store(block, &instruction.operands()[0], extended)?;`
    let ghost ext0 = extended;
    proof { assert(expr_wf(Expression::Scalar(t0))); assert(expr_wf(ext0)); }
//@ before 0 `block.index()`
    proof {
        let b = *block;
        let ops = instruction.ops@;
        let src = assign_src(b, 1);
        // (guarded by the shape of the extension: a changed extension then fails the named postcondition `load`)
        if ext0 == Expression::Sext(bits, Box::new(Expression::Scalar(t0))) {
            assert forall|env: Env| env_sorted(env) implies #[trigger] ld_assign_ok(x, t0, 8, Some(bits as nat), src, env) by {
                assert(write_ok(x, ext0, src, env));
                assert(eval_spec(ext0, env) == sext_spec(bits as nat, eval_spec(Expression::Scalar(t0), env)));
            }
        }
        assert(ld_block_with(ops, x, 8, Some(bits as nat), b, a0, se0));
    }
//@ end

//@ fn fn ldrsh
//@ attr #[verifier::spinoff_prover]
//@ attr #[verifier::rlimit(100)]
//@ spec
    requires
        old(control_flow_graph).cfg_wf(), old(control_flow_graph).next_index < usize::MAX,
        ldst_pre(instruction.ops@),
    ensures
        /*@rejected*/ r is Err <==> (dst_rec(instruction.ops@[0]) is None || mem_rejected(instruction.ops@[1])),
        /*@graph*/ r is Ok ==> one_block(*old(control_flow_graph), *final(control_flow_graph)),
        /*@load*/ r is Ok ==> ld_block(instruction.ops@, dst_rec(instruction.ops@[0]).unwrap(), 16, Some(dst_rec(instruction.ops@[0]).unwrap().bits as nat),
            final(control_flow_graph).graph.vertices@[old(control_flow_graph).next_index]),
        
//@ enter
    proof { lemma2_to64(); reveal(store_pre); }
//@ after 0 `let bits = operand_storing_width(&instruction.operands()[0])?;`
    let ghost x = dst_rec(instruction.ops@[0]).unwrap();
    proof {
        match instruction.ops@[0] { bad64::Operand::Reg { reg, arrspec } => { lemma_rec_of_ok(reg); } _ => {} }
        if dst_rec(instruction.ops@[0]) is Some { lemma_full_rec_ok(x); lemma_gp_scalar(x); }
    }
//@ after 0 `let (address, sideeffect) = mem_operand_address(&instruction.operands()[1])?;`
    let ghost a0 = address;
    let ghost se0 = sideeffect;
//@ after 0 `let temp = temp0(instruction, 16);`
    let ghost t0 = temp;
//@ before 0 `operand_store(block, &instruction.operands()[0], extended)?;`
    let ghost ext0 = extended;
    proof { assert(expr_wf(Expression::Scalar(t0))); assert(expr_wf(ext0)); }
//@ before 0 `block.index()`
    proof {
        let b = *block;
        let ops = instruction.ops@;
        let src = assign_src(b, 1);
        // (guarded by the shape of the extension: a changed extension then fails the named postcondition `load`)
        if ext0 == Expression::Sext(bits, Box::new(Expression::Scalar(t0))) {
            assert forall|env: Env| env_sorted(env) implies #[trigger] ld_assign_ok(x, t0, 16, Some(bits as nat), src, env) by {
                assert(write_ok(x, ext0, src, env));
                assert(eval_spec(ext0, env) == sext_spec(bits as nat, eval_spec(Expression::Scalar(t0), env)));
            }
        }
        assert(ld_block_with(ops, x, 16, Some(bits as nat), b, a0, se0));
    }
//@ end

//@ fn fn ldrsw
//@ attr #[verifier::spinoff_prover]
//@ attr #[verifier::rlimit(100)]
//@ rewrite 1 `assert_eq!(bits, 64);` => `assert!(bits == 64);` ## R-assert-eq: Verus has no model of core::panicking::assert_failed; `assert!(a == b)` panics in exactly the same states (only the message differs)
//@ spec
    requires
        old(control_flow_graph).cfg_wf(), old(control_flow_graph).next_index < usize::MAX,
        ldst_pre(instruction.ops@),
        // DECODER CONTRACT: LDRSW writes an X register
        dst_rec(instruction.ops@[0]) matches Some(x) ==> x.bits == 64,
    ensures
        /*@rejected*/ r is Err <==> (dst_rec(instruction.ops@[0]) is None || mem_rejected(instruction.ops@[1])),
        /*@graph*/ r is Ok ==> one_block(*old(control_flow_graph), *final(control_flow_graph)),
        /*@load*/ r is Ok ==> ld_block(instruction.ops@, dst_rec(instruction.ops@[0]).unwrap(), 32, Some(dst_rec(instruction.ops@[0]).unwrap().bits as nat),
            final(control_flow_graph).graph.vertices@[old(control_flow_graph).next_index]),
        
//@ enter
    proof { lemma2_to64(); reveal(store_pre); }
//@ after 0 `let bits = operand_storing_width(&instruction.operands()[0])?;`
    let ghost x = dst_rec(instruction.ops@[0]).unwrap();
    proof {
        match instruction.ops@[0] { bad64::Operand::Reg { reg, arrspec } => { lemma_rec_of_ok(reg); } _ => {} }
        if dst_rec(instruction.ops@[0]) is Some { lemma_full_rec_ok(x); lemma_gp_scalar(x); }
    }
//@ after 0 `let (address, sideeffect) = mem_operand_address(&instruction.operands()[1])?;`
    let ghost a0 = address;
    let ghost se0 = sideeffect;
//@ after 0 `let temp = temp0(instruction, 32);`
    let ghost t0 = temp;
//@ before 0 `operand_store(block, &instruction.operands()[0], extended)?;`
    let ghost ext0 = extended;
    proof { assert(expr_wf(Expression::Scalar(t0))); assert(expr_wf(ext0)); }
//@ before 0 `block.index()`
    proof {
        let b = *block;
        let ops = instruction.ops@;
        let src = assign_src(b, 1);
        // (guarded by the shape of the extension: a changed extension then fails the named postcondition `load`)
        if ext0 == Expression::Sext(bits, Box::new(Expression::Scalar(t0))) {
            assert forall|env: Env| env_sorted(env) implies #[trigger] ld_assign_ok(x, t0, 32, Some(bits as nat), src, env) by {
                assert(write_ok(x, ext0, src, env));
                assert(eval_spec(ext0, env) == sext_spec(bits as nat, eval_spec(Expression::Scalar(t0), env)));
            }
        }
        assert(ld_block_with(ops, x, 32, Some(bits as nat), b, a0, se0));
    }
//@ end

/// what a store writes: the low `size` bits of the source register
pub open spec fn st_val_ok(x: AArch64Register, size: nat, src: Expression, env: Env) -> bool {
    reg_read(x, env) matches EvalR::Val(w, v) ==> eval_spec(src, env) == EvalR::Val(size, v % pow2(size))
}

/// STR / STRB / STRH Rt, <mem>:  store the low size bits of Rt at the Arm ARM address of <mem>; then the base write-back
pub open spec fn st_block_with(ops: Seq<bad64::Operand>, x: AArch64Register, size: nat, b: Block, a: Expression, se: MemOperandSideeffect) -> bool {
    &&& mem_good(ops[1], a, se)
    &&& b.instructions@.len() >= 1
    &&& (b.instructions@[0].operation matches Operation::Store { index, src } && index == a && expr_bits(src) == size
        && (forall|env: Env| env_sorted(env) ==> #[trigger] st_val_ok(x, size, src, env)))
    &&& writeback_at(b, 1, se)
}
pub open spec fn st_block(ops: Seq<bad64::Operand>, x: AArch64Register, size: nat, b: Block) -> bool {
    exists|a: Expression, se: MemOperandSideeffect| #[trigger] st_block_with(ops, x, size, b, a, se)
}
pub open spec fn store_src(b: Block) -> Expression { match b.instructions@[0].operation { Operation::Store { index, src } => src, _ => arbitrary() } }

//@ fn fn str
//@ attr #[verifier::spinoff_prover]
//@ attr #[verifier::rlimit(100)]
//@ spec
    requires
        old(control_flow_graph).cfg_wf(), old(control_flow_graph).next_index < usize::MAX,
        ldst_pre(instruction.ops@),
    ensures
        /*@rejected*/ r is Err <==> (dst_rec(instruction.ops@[0]) is None || mem_rejected(instruction.ops@[1])),
        /*@graph*/ r is Ok ==> one_block(*old(control_flow_graph), *final(control_flow_graph)),
        /*@store*/ r is Ok ==> st_block(instruction.ops@, dst_rec(instruction.ops@[0]).unwrap(), dst_rec(instruction.ops@[0]).unwrap().bits as nat,
            final(control_flow_graph).graph.vertices@[old(control_flow_graph).next_index]),
//@ enter
    proof { lemma2_to64(); reveal(load_pre); reveal(load_rejected); reveal(load_val); reveal(load_bits); }
//@ after 0 `let bits = operand_storing_width(&instruction.operands()[0])?;`
    let ghost x = dst_rec(instruction.ops@[0]).unwrap();
    proof {
        match instruction.ops@[0] { bad64::Operand::Reg { reg, arrspec } => { lemma_rec_of_ok(reg); } _ => {} }
        if dst_rec(instruction.ops@[0]) is Some { lemma_full_rec_ok(x); lemma_gp_scalar(x); }
    }
//@ after 0 `let value = operand_load(block, &instruction.operands()[0], bits)?;`
    let ghost v0 = value;
//@ after 0 `let (address, sideeffect) = mem_operand_address(&instruction.operands()[1])?;`
    let ghost a0 = address;
    let ghost se0 = sideeffect;
//@ before 0 `block.index()`
    proof {
        let b = *block;
        let ops = instruction.ops@;
        let src = store_src(b);
        // (guarded by the shape of the stored expression: a changed truncation then fails the named postcondition `store`)
        if src == v0 || src == Expression::Trun(bits as nat as usize, Box::new(v0)) {
            assert forall|env: Env| env_sorted(env) implies #[trigger] st_val_ok(x, bits as nat, src, env) by {
                assert(load_ok(ops[0], bits as nat, v0, env));
                lemma_eval_wf_val(v0, env);
                reveal(bv_trun);
                if let EvalR::Val(w, v) = reg_read(x, env) {
                    if bits as nat == w { lemma_small_mod(v, pow2(w)); }
                    if src == Expression::Trun(bits as nat as usize, Box::new(v0)) { assert(eval_spec(src, env) == trun_spec(bits as nat, eval_spec(v0, env))); }
                }
            }
        }
        assert(st_block_with(ops, x, bits as nat, b, a0, se0));
    }
//@ end

//@ fn fn strb
//@ attr #[verifier::spinoff_prover]
//@ attr #[verifier::rlimit(100)]
//@ spec
    requires
        old(control_flow_graph).cfg_wf(), old(control_flow_graph).next_index < usize::MAX,
        ldst_pre(instruction.ops@),
    ensures
        /*@rejected*/ r is Err <==> (dst_rec(instruction.ops@[0]) is None || mem_rejected(instruction.ops@[1])),
        /*@graph*/ r is Ok ==> one_block(*old(control_flow_graph), *final(control_flow_graph)),
        /*@store*/ r is Ok ==> st_block(instruction.ops@, dst_rec(instruction.ops@[0]).unwrap(), 8,
            final(control_flow_graph).graph.vertices@[old(control_flow_graph).next_index]),
//@ enter
    proof { lemma2_to64(); reveal(load_pre); reveal(load_rejected); reveal(load_val); reveal(load_bits); }
    let ghost x = dst_rec(instruction.ops@[0]).unwrap();
    proof {
        match instruction.ops@[0] { bad64::Operand::Reg { reg, arrspec } => { lemma_rec_of_ok(reg); } _ => {} }
        if dst_rec(instruction.ops@[0]) is Some { lemma_full_rec_ok(x); lemma_gp_scalar(x); }
    }
//@ after 0 `let value = operand_load(block, &instruction.operands()[0], 32)?;`
    let ghost v0 = value;
//@ after 0 `let (address, sideeffect) = mem_operand_address(&instruction.operands()[1])?;`
    let ghost a0 = address;
    let ghost se0 = sideeffect;
//@ before 0 `block.index()`
    proof {
        let b = *block;
        let ops = instruction.ops@;
        let src = store_src(b);
        // (guarded by the shape of the stored expression: a changed truncation then fails the named postcondition `store`)
        if src == v0 || src == Expression::Trun(8 as usize, Box::new(v0)) {
            assert forall|env: Env| env_sorted(env) implies #[trigger] st_val_ok(x, 8, src, env) by {
                assert(load_ok(ops[0], 32, v0, env));
                lemma_eval_wf_val(v0, env);
                reveal(bv_trun);
                if let EvalR::Val(w, v) = reg_read(x, env) {
                    if 8 == w { lemma_small_mod(v, pow2(w)); }
                    if src == Expression::Trun(8 as usize, Box::new(v0)) { assert(eval_spec(src, env) == trun_spec(8, eval_spec(v0, env))); }
                }
            }
        }
        assert(st_block_with(ops, x, 8, b, a0, se0));
    }
//@ end

//@ fn fn strh
//@ attr #[verifier::spinoff_prover]
//@ attr #[verifier::rlimit(100)]
//@ spec
    requires
        old(control_flow_graph).cfg_wf(), old(control_flow_graph).next_index < usize::MAX,
        ldst_pre(instruction.ops@),
    ensures
        /*@rejected*/ r is Err <==> (dst_rec(instruction.ops@[0]) is None || mem_rejected(instruction.ops@[1])),
        /*@graph*/ r is Ok ==> one_block(*old(control_flow_graph), *final(control_flow_graph)),
        /*@store*/ r is Ok ==> st_block(instruction.ops@, dst_rec(instruction.ops@[0]).unwrap(), 16,
            final(control_flow_graph).graph.vertices@[old(control_flow_graph).next_index]),
//@ enter
    proof { lemma2_to64(); reveal(load_pre); reveal(load_rejected); reveal(load_val); reveal(load_bits); }
    let ghost x = dst_rec(instruction.ops@[0]).unwrap();
    proof {
        match instruction.ops@[0] { bad64::Operand::Reg { reg, arrspec } => { lemma_rec_of_ok(reg); } _ => {} }
        if dst_rec(instruction.ops@[0]) is Some { lemma_full_rec_ok(x); lemma_gp_scalar(x); }
    }
//@ after 0 `let value = operand_load(block, &instruction.operands()[0], 32)?;`
    let ghost v0 = value;
//@ after 0 `let (address, sideeffect) = mem_operand_address(&instruction.operands()[1])?;`
    let ghost a0 = address;
    let ghost se0 = sideeffect;
//@ before 0 `block.index()`
    proof {
        let b = *block;
        let ops = instruction.ops@;
        let src = store_src(b);
        // (guarded by the shape of the stored expression: a changed truncation then fails the named postcondition `store`)
        if src == v0 || src == Expression::Trun(16 as usize, Box::new(v0)) {
            assert forall|env: Env| env_sorted(env) implies #[trigger] st_val_ok(x, 16, src, env) by {
                assert(load_ok(ops[0], 32, v0, env));
                lemma_eval_wf_val(v0, env);
                reveal(bv_trun);
                if let EvalR::Val(w, v) = reg_read(x, env) {
                    if 16 == w { lemma_small_mod(v, pow2(w)); }
                    if src == Expression::Trun(16 as usize, Box::new(v0)) { assert(eval_spec(src, env) == trun_spec(16, eval_spec(v0, env))); }
                }
            }
        }
        assert(st_block_with(ops, x, 16, b, a0, se0));
    }
//@ end

// ---- LDP / STP / LDPSW ---------------------------------------------------------------------------------------------------------------

/// `a2` is the address `a` plus the constant `step` (second element of a pair)
pub open spec fn addr_plus(a: Expression, a2: Expression, step: nat) -> bool {
    a2 == Expression::Add(Box::new(a), Box::new(rhs_of(a2))) && const_is(rhs_of(a2), 64, step)
}

/// LDP / LDPSW Rt, Rt2, <mem>:  t0 := load size bits at address, t1 := load size bits at address + size/8 (both BEFORE any
/// register is written); full(Rt) := extend(t0); full(Rt2) := extend(t1); then the base write-back
pub open spec fn ldp_block_with(ops: Seq<bad64::Operand>, x0: AArch64Register, x1: AArch64Register, size: nat, sx: Option<nat>, b: Block, a: Expression, se: MemOperandSideeffect) -> bool {
    &&& mem_good(ops[2], a, se)
    &&& b.instructions@.len() >= 4
    &&& (b.instructions@[0].operation matches Operation::Load { dst, index } && index == a && dst.bits == size && dst.ssa is None
        && is_assign(b, 2) && assign_dst(b, 2) == reg_scalar(x0.full_rec())
        && (forall|env: Env| env_sorted(env) ==> #[trigger] ld_assign_ok(x0, dst, size, sx, assign_src(b, 2), env)))
    &&& (b.instructions@[1].operation matches Operation::Load { dst, index } && addr_plus(a, index, size / 8) && dst.bits == size && dst.ssa is None
        && is_assign(b, 3) && assign_dst(b, 3) == reg_scalar(x1.full_rec())
        && (forall|env: Env| env_sorted(env) ==> #[trigger] ld_assign_ok(x1, dst, size, sx, assign_src(b, 3), env)))
    &&& writeback_at(b, 4, se)
}
pub open spec fn ldp_block(ops: Seq<bad64::Operand>, x0: AArch64Register, x1: AArch64Register, size: nat, sx: Option<nat>, b: Block) -> bool {
    exists|a: Expression, se: MemOperandSideeffect| #[trigger] ldp_block_with(ops, x0, x1, size, sx, b, a, se)
}

pub open spec fn store_src_at(b: Block, k: int) -> Expression { match b.instructions@[k].operation { Operation::Store { index, src } => src, _ => arbitrary() } }

/// STP Rt, Rt2, <mem>:  store Rt at address, Rt2 at address + size/8; then the base write-back
pub open spec fn stp_block_with(ops: Seq<bad64::Operand>, x0: AArch64Register, x1: AArch64Register, size: nat, b: Block, a: Expression, se: MemOperandSideeffect) -> bool {
    &&& mem_good(ops[2], a, se)
    &&& b.instructions@.len() >= 2
    &&& (b.instructions@[0].operation matches Operation::Store { index, src } && index == a && expr_bits(src) == size
        && (forall|env: Env| env_sorted(env) ==> #[trigger] st_val_ok(x0, size, src, env)))
    &&& (b.instructions@[1].operation matches Operation::Store { index, src } && addr_plus(a, index, size / 8) && expr_bits(src) == size
        && (forall|env: Env| env_sorted(env) ==> #[trigger] st_val_ok(x1, size, src, env)))
    &&& writeback_at(b, 2, se)
}
pub open spec fn stp_block(ops: Seq<bad64::Operand>, x0: AArch64Register, x1: AArch64Register, size: nat, b: Block) -> bool {
    exists|a: Expression, se: MemOperandSideeffect| #[trigger] stp_block_with(ops, x0, x1, size, b, a, se)
}

/// DECODER CONTRACT for pairs: Rt, Rt2 plain integer registers of the same width, operand 2 a memory operand
pub open spec fn pair_pre(ops: Seq<bad64::Operand>) -> bool {
    &&& ops.len() == 3 && int_dst(ops[0]) && int_dst(ops[1]) && mem_pre(ops[2])
    &&& ((dst_rec(ops[0]) is Some && dst_rec(ops[1]) is Some) ==> dst_rec(ops[0]).unwrap().bits == dst_rec(ops[1]).unwrap().bits)
}

//@ fn fn ldp
//@ attr #[verifier::spinoff_prover]
//@ attr #[verifier::rlimit(200)]
//@ spec
    requires
        old(control_flow_graph).cfg_wf(), old(control_flow_graph).next_index < usize::MAX,
        pair_pre(instruction.ops@), instruction.address < u64::MAX,
    ensures
        /*@rejected*/ r is Err <==> (dst_rec(instruction.ops@[0]) is None || dst_rec(instruction.ops@[1]) is None || mem_rejected(instruction.ops@[2])),
        /*@graph*/ r is Ok ==> one_block(*old(control_flow_graph), *final(control_flow_graph)),
        /*@load*/ r is Ok ==> ldp_block(instruction.ops@, dst_rec(instruction.ops@[0]).unwrap(), dst_rec(instruction.ops@[1]).unwrap(), dst_rec(instruction.ops@[0]).unwrap().bits as nat, None,
            final(control_flow_graph).graph.vertices@[old(control_flow_graph).next_index]),
//@ enter
    proof { lemma2_to64(); reveal(store_pre); }
//@ after 0 `let bits = operand_storing_width(&instruction.operands()[0])?;`
    let ghost x0 = dst_rec(instruction.ops@[0]).unwrap();
    let ghost x1 = dst_rec(instruction.ops@[1]).unwrap();
    proof {
        match instruction.ops@[0] { bad64::Operand::Reg { reg, arrspec } => { lemma_rec_of_ok(reg); } _ => {} }
        match instruction.ops@[1] { bad64::Operand::Reg { reg, arrspec } => { lemma_rec_of_ok(reg); } _ => {} }
        if dst_rec(instruction.ops@[0]) is Some { lemma_full_rec_ok(x0); lemma_gp_scalar(x0); }
        if dst_rec(instruction.ops@[1]) is Some { lemma_full_rec_ok(x1); lemma_gp_scalar(x1); }
    }
//@ after 0 `let (address, sideeffect) = mem_operand_address(&instruction.operands()[2])?;`
    let ghost a0 = address;
    let ghost se0 = sideeffect;
//@ after 0 `let temp0 = temp0(instruction, bits);`
    let ghost t0 = temp0;
//@ after 0 `let temp1 = temp1(instruction, bits);`
    let ghost t1 = temp1;
    proof { lemma_small_mod((bits as nat / 8) as nat, pow2(64)); assert(expr_wf(Expression::Scalar(t0)) && expr_wf(Expression::Scalar(t1))); }
//@ before 0 `block.index()`
    proof {
        let b = *block;
        let ops = instruction.ops@;
        assert forall|env: Env| env_sorted(env) implies #[trigger] ld_assign_ok(x0, t0, bits as nat, None::<nat>, assign_src(b, 2), env) by {
            assert(write_ok(x0, Expression::Scalar(t0), assign_src(b, 2), env));
            assert(eval_spec(Expression::Scalar(t0), env) == eval_spec(Expression::Scalar(t0), env));
        }
        assert forall|env: Env| env_sorted(env) implies #[trigger] ld_assign_ok(x1, t1, bits as nat, None::<nat>, assign_src(b, 3), env) by {
            assert(write_ok(x1, Expression::Scalar(t1), assign_src(b, 3), env));
            assert(eval_spec(Expression::Scalar(t1), env) == eval_spec(Expression::Scalar(t1), env));
        }
        assert(ldp_block_with(ops, x0, x1, bits as nat, None::<nat>, b, a0, se0));
    }
//@ end

//@ fn fn ldpsw
//@ attr #[verifier::spinoff_prover]
//@ attr #[verifier::rlimit(200)]
//@ spec
    requires
        old(control_flow_graph).cfg_wf(), old(control_flow_graph).next_index < usize::MAX,
        pair_pre(instruction.ops@), instruction.address < u64::MAX,
        // DECODER CONTRACT: LDPSW writes two X registers
        dst_rec(instruction.ops@[0]) matches Some(x) ==> x.bits == 64, dst_rec(instruction.ops@[1]) matches Some(x) ==> x.bits == 64,
    ensures
        /*@rejected*/ r is Err <==> (dst_rec(instruction.ops@[0]) is None || dst_rec(instruction.ops@[1]) is None || mem_rejected(instruction.ops@[2])),
        /*@graph*/ r is Ok ==> one_block(*old(control_flow_graph), *final(control_flow_graph)),
        /*@load*/ r is Ok ==> ldp_block(instruction.ops@, dst_rec(instruction.ops@[0]).unwrap(), dst_rec(instruction.ops@[1]).unwrap(), 32, Some(64nat),
            final(control_flow_graph).graph.vertices@[old(control_flow_graph).next_index]),
//@ enter
    proof { lemma2_to64(); reveal(store_pre); }
    let ghost x0 = dst_rec(instruction.ops@[0]).unwrap();
    let ghost x1 = dst_rec(instruction.ops@[1]).unwrap();
    proof {
        match instruction.ops@[0] { bad64::Operand::Reg { reg, arrspec } => { lemma_rec_of_ok(reg); } _ => {} }
        match instruction.ops@[1] { bad64::Operand::Reg { reg, arrspec } => { lemma_rec_of_ok(reg); } _ => {} }
        if dst_rec(instruction.ops@[0]) is Some { lemma_full_rec_ok(x0); lemma_gp_scalar(x0); }
        if dst_rec(instruction.ops@[1]) is Some { lemma_full_rec_ok(x1); lemma_gp_scalar(x1); }
    }
//@ after 0 `let (address, sideeffect) = mem_operand_address(&instruction.operands()[2])?;`
    let ghost a0 = address;
    let ghost se0 = sideeffect;
//@ after 0 `let temp0 = temp0(instruction, 32);`
    let ghost t0 = temp0;
//@ after 0 `let temp1 = temp1(instruction, 32);`
    let ghost t1 = temp1;
    proof { lemma_small_mod(4nat, pow2(64)); assert(expr_wf(Expression::Scalar(t0)) && expr_wf(Expression::Scalar(t1))); }
//@ before 0 `block.index()`
    proof {
        let b = *block;
        let ops = instruction.ops@;
        assert forall|env: Env| env_sorted(env) implies #[trigger] ld_assign_ok(x0, t0, 32nat, Some(64nat), assign_src(b, 2), env) by {
            assert(write_ok(x0, Expression::Sext(64, Box::new(Expression::Scalar(t0))), assign_src(b, 2), env));
            assert(eval_spec(Expression::Sext(64, Box::new(Expression::Scalar(t0))), env) == sext_spec(64, eval_spec(Expression::Scalar(t0), env)));
        }
        assert forall|env: Env| env_sorted(env) implies #[trigger] ld_assign_ok(x1, t1, 32nat, Some(64nat), assign_src(b, 3), env) by {
            assert(write_ok(x1, Expression::Sext(64, Box::new(Expression::Scalar(t1))), assign_src(b, 3), env));
            assert(eval_spec(Expression::Sext(64, Box::new(Expression::Scalar(t1))), env) == sext_spec(64, eval_spec(Expression::Scalar(t1), env)));
        }
        assert(ldp_block_with(ops, x0, x1, 32nat, Some(64nat), b, a0, se0));
    }
//@ end

//@ fn fn stp
//@ attr #[verifier::spinoff_prover]
//@ attr #[verifier::rlimit(200)]
//@ spec
    requires
        old(control_flow_graph).cfg_wf(), old(control_flow_graph).next_index < usize::MAX,
        pair_pre(instruction.ops@), instruction.address < u64::MAX,
    ensures
        /*@rejected*/ r is Err <==> (dst_rec(instruction.ops@[0]) is None || dst_rec(instruction.ops@[1]) is None || mem_rejected(instruction.ops@[2])),
        /*@graph*/ r is Ok ==> one_block(*old(control_flow_graph), *final(control_flow_graph)),
        /*@store*/ r is Ok ==> stp_block(instruction.ops@, dst_rec(instruction.ops@[0]).unwrap(), dst_rec(instruction.ops@[1]).unwrap(), dst_rec(instruction.ops@[0]).unwrap().bits as nat,
            final(control_flow_graph).graph.vertices@[old(control_flow_graph).next_index]),
//@ enter
    proof { lemma2_to64(); reveal(load_pre); reveal(load_rejected); reveal(load_val); reveal(load_bits); }
//@ after 0 `let bits = operand_storing_width(&instruction.operands()[0])?;`
    let ghost x0 = dst_rec(instruction.ops@[0]).unwrap();
    let ghost x1 = dst_rec(instruction.ops@[1]).unwrap();
    proof {
        match instruction.ops@[0] { bad64::Operand::Reg { reg, arrspec } => { lemma_rec_of_ok(reg); } _ => {} }
        match instruction.ops@[1] { bad64::Operand::Reg { reg, arrspec } => { lemma_rec_of_ok(reg); } _ => {} }
        if dst_rec(instruction.ops@[0]) is Some { lemma_full_rec_ok(x0); lemma_gp_scalar(x0); }
        if dst_rec(instruction.ops@[1]) is Some { lemma_full_rec_ok(x1); lemma_gp_scalar(x1); }
    }
//@ after 0 `let value1 = operand_load(block, &instruction.operands()[1], bits)?;`
    let ghost v0 = value0;
    let ghost v1 = value1;
//@ after 0 `let (address, sideeffect) = mem_operand_address(&instruction.operands()[2])?;`
    let ghost a0 = address;
    let ghost se0 = sideeffect;
    proof { lemma_small_mod((bits as nat / 8) as nat, pow2(64)); }
//@ before 0 `block.index()`
    proof {
        let b = *block;
        let ops = instruction.ops@;
        assert forall|env: Env| env_sorted(env) implies #[trigger] st_val_ok(x0, bits as nat, store_src_at(b, 0), env) by {
            assert(load_ok(ops[0], bits as nat, v0, env));
            if let EvalR::Val(w, v) = reg_read(x0, env) { lemma_eval_wf_val(v0, env); lemma_small_mod(v, pow2(w)); }
        }
        assert forall|env: Env| env_sorted(env) implies #[trigger] st_val_ok(x1, bits as nat, store_src_at(b, 1), env) by {
            assert(load_ok(ops[1], bits as nat, v1, env));
            if let EvalR::Val(w, v) = reg_read(x1, env) { lemma_eval_wf_val(v1, env); lemma_small_mod(v, pow2(w)); }
        }
        assert(stp_block_with(ops, x0, x1, bits as nat, b, a0, se0));
    }
//@ end

// ---- BR / BL / BLR / RET / NOP ------------------------------------------------------------------------------------------------------

pub open spec fn branch_target(b: Block, k: int) -> Expression { match b.instructions@[k].operation { Operation::Branch { target } => target, _ => arbitrary() } }
pub open spec fn is_branch(b: Block, k: int) -> bool { b.instructions@[k].operation is Branch }

//@ fn fn br
//@ attr #[verifier::spinoff_prover]
//@ spec
    requires
        old(instruction_graph).cfg_wf(), old(instruction_graph).next_index < usize::MAX,
        instruction.ops@.len() >= 1, load_pre(instruction.ops@[0], 64),
    ensures
        /*@rejected*/ r is Err <==> load_rejected(instruction.ops@[0]),
        /*@graph*/ r is Ok ==> one_block(*old(instruction_graph), *final(instruction_graph)),
        /*@branch*/ r is Ok ==> ({ let b = final(instruction_graph).graph.vertices@[old(instruction_graph).next_index];
            b.instructions@.len() == 1 && is_branch(b, 0) && load_good(instruction.ops@[0], 64, branch_target(b, 0)) }),
//@ end

/// BL label / BLR Xn at address pc:  X30 := pc + 4 and branch to the target - the target is READ BEFORE X30 is written
/// (a register target is first copied into a temporary)
pub open spec fn bl_block_with(ops: Seq<bad64::Operand>, pc: u64, b: Block, e: Expression) -> bool {
    &&& load_good(ops[0], 64, e)
    &&& (if expr_all_constants(e) {
            b.instructions@.len() == 2 && is_assign(b, 0) && assign_dst(b, 0) == named_scalar(xname(30), 64)
            && const_is(assign_src(b, 0), 64, (pc as nat + 4) % pow2(64)) && is_branch(b, 1) && branch_target(b, 1) == e
        } else {
            b.instructions@.len() == 3 && is_assign(b, 0) && assign_src(b, 0) == e && assign_dst(b, 0).bits == 64 && assign_dst(b, 0).ssa is None
            && is_assign(b, 1) && assign_dst(b, 1) == named_scalar(xname(30), 64) && const_is(assign_src(b, 1), 64, (pc as nat + 4) % pow2(64))
            && is_branch(b, 2) && branch_target(b, 2) == Expression::Scalar(assign_dst(b, 0))
        })
}
pub open spec fn bl_block(ops: Seq<bad64::Operand>, pc: u64, b: Block) -> bool {
    exists|e: Expression| #[trigger] bl_block_with(ops, pc, b, e)
}

//@ fn fn bl
//@ attr #[verifier::spinoff_prover]
//@ attr #[verifier::rlimit(100)]
//@ rewrite 1 `scalar!("x30")` => `il::scalar("x30", 64)` ## R-macro: expansion of the local macro `scalar!` (semantics.rs lines 10-30: `("x30") => { il::scalar("x30", 64) }`); tools/rsx.py cannot extract macro_rules items
//@ spec
    requires
        old(control_flow_graph).cfg_wf(), old(control_flow_graph).next_index < usize::MAX,
        instruction.ops@.len() >= 1, load_pre(instruction.ops@[0], 64),
    ensures
        /*@rejected*/ r is Err <==> load_rejected(instruction.ops@[0]),
        /*@graph*/ r is Ok ==> one_block(*old(control_flow_graph), *final(control_flow_graph)),
        /*@link*/ r is Ok ==> bl_block(instruction.ops@, instruction.address, final(control_flow_graph).graph.vertices@[old(control_flow_graph).next_index]),
//@ enter
    proof { broadcast use crate::strmap::axiom_into_string_str; lemma2_to64(); }
//@ after 0 `let dst = operand_load(block, &instruction.operands()[0], 64)?;`
    let ghost e0 = dst;
//@ before 0 `block.index()`
    proof {
        let b = *block;
        assert(bl_block_with(instruction.ops@, instruction.address, b, e0));
    }
//@ end

//@ fn fn ret
//@ attr #[verifier::spinoff_prover]
//@ rewrite 1 `expr!("x30")` => `il::Expression::Scalar(il::scalar("x30", 64))` ## R-macro: expansion of the local macros `expr!` / `scalar!` (semantics.rs lines 10-37); tools/rsx.py cannot extract macro_rules items
//@ spec
    requires
        old(instruction_graph).cfg_wf(), old(instruction_graph).next_index < usize::MAX,
        instruction.ops@.len() >= 1 ==> load_pre(instruction.ops@[0], 64),
    ensures
        /*@rejected*/ r is Err <==> (instruction.ops@.len() >= 1 && load_rejected(instruction.ops@[0])),
        /*@graph*/ r is Ok ==> one_block(*old(instruction_graph), *final(instruction_graph)),
        /*@target*/ r is Ok ==> ({ let b = final(instruction_graph).graph.vertices@[old(instruction_graph).next_index];
            b.instructions@.len() == 1 && is_branch(b, 0)
            && (instruction.ops@.len() == 0 ==> branch_target(b, 0) == Expression::Scalar(named_scalar(xname(30), 64)))
            && (instruction.ops@.len() >= 1 ==> load_good(instruction.ops@[0], 64, branch_target(b, 0))) }),
//@ enter
    proof { broadcast use crate::strmap::axiom_into_string_str; }
//@ end

//@ fn fn nop
//@ spec
    requires old(control_flow_graph).cfg_wf(), old(control_flow_graph).next_index < usize::MAX,
    ensures
        /*@ok*/ r is Ok,
        /*@graph*/ one_block(*old(control_flow_graph), *final(control_flow_graph)),
        /*@nop*/ ({ let b = final(control_flow_graph).graph.vertices@[old(control_flow_graph).next_index];
            b.instructions@.len() == 1 && b.instructions@[0].operation == (Operation::Nop { placeholder: None }) }),
//@ end
