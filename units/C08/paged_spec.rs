// ======================================================================================
// units/C08/paged_spec.rs — the mathematical content of a paged memory, DEFINED from its
// `pages` map: the cell map, the representation invariant over cells, the byte view read off the
// cells in the memory's endianness, the layered view (own bytes over the backing's), and the
// per-address permission view.
// ======================================================================================

pub type PageMap<V> = Map<u64, RC<Page<V>>>;
pub type Cells<V> = IMap<u64, MemoryCell<V>>;

pub open spec fn page_base(x: u64) -> u64 { (x - x % 1024) as u64 }
pub open spec fn page_off(x: u64) -> int { (x % 1024) as int }

/// the masks the code uses select page base and offset
pub proof fn lemma_page_bits(x: u64)
    ensures
        x & !1023u64 == page_base(x),
        x & PAGE_MASK == page_base(x),
        (x & 1023u64) as int == page_off(x),
        page_base(x) % 1024 == 0,
        page_base(x) <= x < page_base(x) + 1024,
        page_base(x) + page_off(x) == x,
{
    assert(x & !1023u64 == x - x % 1024) by (bit_vector);
    assert(x & 1023u64 == x % 1024) by (bit_vector);
    assert((x - x % 1024) as u64 % 1024 == 0) by (bit_vector);
}

/// addresses of the same page have the same base; offsets identify them
pub proof fn lemma_page_split(x: u64, y: u64)
    ensures (page_base(x) == page_base(y) && page_off(x) == page_off(y)) <==> x == y,
{
}

/// a page base is its own base; every address of the page has it as base
pub proof fn lemma_page_of_base(k: u64, x: u64)
    requires k % 1024 == 0,
    ensures page_base(x) == k <==> k <= x < k + 1024,
{
}

// ---- structure of the page map ---------------------------------------------------------------------

/// every page has PAGE_SIZE cells and is stored under a page-aligned key
pub open spec fn pages_wf<V: Value>(pages: PageMap<V>) -> bool {
    forall|k: u64| #[trigger] pages.contains_key(k) ==> k % 1024 == 0 && pages[k].cells@.len() == 1024
}

pub open spec fn cell_at<V: Value>(pages: PageMap<V>, x: u64) -> Option<MemoryCell<V>> {
    if pages.contains_key(page_base(x)) && page_off(x) < pages[page_base(x)].cells@.len() {
        pages[page_base(x)].cells@[page_off(x)]
    } else {
        None
    }
}

/// the cell map: address -> cell; absent = never stored
#[verifier::opaque]
pub open spec fn cells_of<V: Value>(pages: PageMap<V>) -> Cells<V> {
    IMap::new(|x: u64| cell_at(pages, x) is Some, |x: u64| cell_at(pages, x).unwrap())
}

/// the permissions recorded for the page stored under key k
pub open spec fn page_perm<V: Value>(pages: PageMap<V>, k: u64) -> Option<MemoryPermissions> {
    if pages.contains_key(k) { pages[k].permissions } else { None }
}

// ---- representation invariant over cells ------------------------------------------------------------

pub open spec fn vlen<V: Value>(v: V) -> nat { v.vbits() / 8 }

/// what `store` accepts and what cells hold: a well-formed value of non-zero byte-multiple width
pub open spec fn val_ok<V: Value>(v: V) -> bool { v.vwf() && v.vbits() % 8 == 0 && v.vbits() >= 8 }

pub open spec fn is_val<V: Value>(c: Cells<V>, a: u64) -> bool { c.contains_key(a) && c[a] is Value }

pub open spec fn val_at<V: Value>(c: Cells<V>, a: u64) -> V { c[a]->Value_0 }

pub open spec fn is_ref<V: Value>(c: Cells<V>, x: u64, a: u64) -> bool { c.contains_key(x) && c[x] == MemoryCell::<V>::Backref(a) }

/// one past the last address the value stored at a occupies
pub open spec fn end_of<V: Value>(c: Cells<V>, a: u64) -> int { a + vlen(val_at(c, a)) }

/// stored values have byte-multiple non-zero width and do not reach the last address 2^64 - 1
pub open spec fn inv_val<V: Value>(c: Cells<V>, a: u64) -> bool {
    is_val(c, a) ==> val_ok(val_at(c, a)) && end_of(c, a) <= u64::MAX
}

/// a back-reference at x points to a value that starts before x and covers x
pub open spec fn inv_ref<V: Value>(c: Cells<V>, x: u64) -> bool {
    (c.contains_key(x) && c[x] is Backref) ==> ({
        let a = c[x]->Backref_0;
        a < x && is_val(c, a) && x < end_of(c, a)
    })
}

/// every address strictly inside the value stored at a holds a back-reference to a
pub open spec fn inv_cov<V: Value>(c: Cells<V>, a: u64, x: u64) -> bool {
    (is_val(c, a) && a < x < end_of(c, a)) ==> is_ref(c, x, a)
}

pub open spec fn cells_base<V: Value>(c: Cells<V>) -> bool {
    &&& forall|a: u64| #[trigger] inv_val(c, a)
    &&& forall|x: u64| #[trigger] inv_ref(c, x)
}

pub open spec fn cells_cov_on<V: Value>(c: Cells<V>, lo: int, hi: int) -> bool {
    forall|a: u64, x: u64| lo <= x < hi ==> #[trigger] inv_cov(c, a, x)
}

pub open spec fn cells_wf<V: Value>(c: Cells<V>) -> bool {
    &&& cells_base(c)
    &&& forall|a: u64, x: u64| #[trigger] inv_cov(c, a, x)
}

// ---- byte views ---------------------------------------------------------------------------------------

/// byte number i, in ADDRESS order, of value v stored in endianness e
pub open spec fn vbyte<V: Value>(e: Endian, v: V, i: int) -> u8 {
    match e {
        Endian::Little => v.le_bytes()[i],
        Endian::Big => v.le_bytes()[v.le_bytes().len() - 1 - i],
    }
}

/// the byte the memory itself holds at x (None = never stored)
pub open spec fn own_at<V: Value>(e: Endian, c: Cells<V>, x: u64) -> Option<u8> {
    if !c.contains_key(x) {
        None
    } else {
        match c[x] {
            MemoryCell::Value(v) => Some(vbyte(e, v, 0)),
            MemoryCell::Backref(a) => Some(vbyte(e, val_at(c, a), x - a)),
        }
    }
}

/// the memory's own bytes as a map
pub open spec fn own_map_of<V: Value>(e: Endian, c: Cells<V>) -> IMap<u64, u8> {
    IMap::new(|x: u64| own_at(e, c, x) is Some, |x: u64| own_at(e, c, x).unwrap())
}

/// a byte map overridden on [address, address + |v|) by the bytes of v in address order
pub open spec fn override_bytes<V: Value>(m: IMap<u64, u8>, address: u64, e: Endian, v: V) -> IMap<u64, u8> {
    IMap::new(
        |x: u64| (address <= x < address + vlen(v)) || m.contains_key(x),
        |x: u64| if address <= x < address + vlen(v) { vbyte(e, v, x - address) } else { m[x] },
    )
}

/// the backing's byte at x
pub open spec fn bk_at(bk: Option<SecMap>, x: int) -> Option<u8> {
    match bk {
        Some(s) => (match vw(s, x) { Some(bp) => Some(bp.0), None => None }),
        None => None,
    }
}

/// the backing's permissions at x
pub open spec fn bk_perm(bk: Option<SecMap>, x: int) -> Option<MemoryPermissions> {
    match bk {
        Some(s) => (match vw(s, x) { Some(bp) => Some(bp.1), None => None }),
        None => None,
    }
}

/// the layered view: own bytes over the backing's bytes; addresses are mathematical integers
pub open spec fn full_at<V: Value>(e: Endian, c: Cells<V>, bk: Option<SecMap>, x: int) -> Option<u8> {
    if 0 <= x <= u64::MAX {
        match own_at(e, c, x as u64) { Some(b) => Some(b), None => bk_at(bk, x) }
    } else {
        None
    }
}

/// every byte of [address, address + n) is present
pub open spec fn all_present<V: Value>(e: Endian, c: Cells<V>, bk: Option<SecMap>, address: u64, n: nat) -> bool {
    forall|i: int| 0 <= i < n ==> (#[trigger] full_at(e, c, bk, address + i)) is Some
}

/// the bytes of v, in address order, are the content of [address, address + |v|)
pub open spec fn reads<V: Value>(e: Endian, c: Cells<V>, bk: Option<SecMap>, address: u64, v: V) -> bool {
    forall|i: int| 0 <= i < vlen(v) ==> #[trigger] full_at(e, c, bk, address + i) == Some(vbyte(e, v, i))
}

/// lv is the window [off, off + |lv|) of v (address order)
pub open spec fn window<V: Value>(e: Endian, v: V, lv: V, off: int) -> bool {
    &&& 0 <= off && off + vlen(lv) <= vlen(v)
    &&& forall|i: int| 0 <= i < vlen(lv) ==> #[trigger] vbyte(e, lv, i) == vbyte(e, v, off + i)
}

/// the cells after writing value v at address a without looking at what was there
pub open spec fn write_cells<V: Value>(c: Cells<V>, a: u64, v: V, k: nat) -> Cells<V> {
    IMap::new(
        |x: u64| (a <= x < a + k) || c.contains_key(x),
        |x: u64| if x == a { MemoryCell::Value(v) } else if a < x < a + k { MemoryCell::Backref(a) } else { c[x] },
    )
}

// ---- cells_of under edits of the page map ---------------------------------------------------------

/// a page is replaced by (or created as) one with the same cells: the cell map does not change
pub proof fn lemma_cells_same_page<V: Value>(pages0: PageMap<V>, k: u64, p1: RC<Page<V>>)
    requires
        pages_wf(pages0),
        k % 1024 == 0,
        p1.cells@.len() == 1024,
        pages0.contains_key(k) ==> p1.cells@ == pages0[k].cells@,
        !pages0.contains_key(k) ==> forall|i: int| 0 <= i < 1024 ==> (#[trigger] p1.cells@[i]) is None,
    ensures
        pages_wf(pages0.insert(k, p1)),
        cells_of(pages0.insert(k, p1)) == cells_of(pages0),
{
    reveal(cells_of);
    let pages1 = pages0.insert(k, p1);
    assert forall|x: u64| cell_at(pages1, x) == cell_at(pages0, x) by {
        if page_base(x) == k {
            if !pages0.contains_key(k) { assert(p1.cells@[page_off(x)] is None); }
        }
    }
    assert(cells_of(pages1) =~= cells_of(pages0));
}

/// one cell of an existing page is overwritten
pub proof fn lemma_cells_store<V: Value>(pages0: PageMap<V>, address: u64, cell: MemoryCell<V>, p1: RC<Page<V>>)
    requires
        pages_wf(pages0),
        pages0.contains_key(page_base(address)),
        p1.cells@ == pages0[page_base(address)].cells@.update(page_off(address), Some(cell)),
    ensures
        pages_wf(pages0.insert(page_base(address), p1)),
        cells_of(pages0.insert(page_base(address), p1)) == cells_of(pages0).insert(address, cell),
{
    reveal(cells_of);
    let k = page_base(address);
    let pages1 = pages0.insert(k, p1);
    assert forall|x: u64| cell_at(pages1, x) == (if x == address { Some(cell) } else { cell_at(pages0, x) }) by {
        lemma_page_split(x, address);
    }
    assert(cells_of(pages1) =~= cells_of(pages0).insert(address, cell));
}

/// a page is created holding one cell
pub proof fn lemma_cells_store_new<V: Value>(pages0: PageMap<V>, address: u64, cell: MemoryCell<V>, p1: RC<Page<V>>)
    requires
        pages_wf(pages0),
        !pages0.contains_key(page_base(address)),
        p1.cells@.len() == 1024,
        forall|i: int| 0 <= i < 1024 ==> #[trigger] p1.cells@[i] == (if i == page_off(address) { Some(cell) } else { None::<MemoryCell<V>> }),
    ensures
        pages_wf(pages0.insert(page_base(address), p1)),
        cells_of(pages0.insert(page_base(address), p1)) == cells_of(pages0).insert(address, cell),
{
    reveal(cells_of);
    let k = page_base(address);
    let pages1 = pages0.insert(k, p1);
    assert forall|x: u64| cell_at(pages1, x) == (if x == address { Some(cell) } else { cell_at(pages0, x) }) by {
        lemma_page_split(x, address);
        if page_base(x) == k { assert(p1.cells@[page_off(x)] == (if page_off(x) == page_off(address) { Some(cell) } else { None::<MemoryCell<V>> })); }
    }
    assert(cells_of(pages1) =~= cells_of(pages0).insert(address, cell));
}

/// an empty page map has no cells
pub proof fn lemma_cells_empty<V: Value>(pages: PageMap<V>)
    requires pages == Map::<u64, RC<Page<V>>>::empty(),
    ensures pages_wf(pages), cells_wf(cells_of(pages)), forall|x: u64| !(#[trigger] cells_of(pages).contains_key(x)),
{
    reveal(cells_of);
}

// ---- equality ---------------------------------------------------------------------------------------

/// same page keys and, per key, the same cells and the same permissions
pub open spec fn pages_eq<V: Value>(a: PageMap<V>, b: PageMap<V>) -> bool {
    a.dom() =~= b.dom() && forall|k: u64| #[trigger] a.contains_key(k) ==> a[k].cells@ == b[k].cells@ && a[k].permissions == b[k].permissions
}

pub open spec fn opt_backing_eq(a: Option<RC<backing::Memory>>, b: Option<RC<backing::Memory>>) -> bool {
    match a {
        Some(x) => (match b { Some(y) => backing::backing_eq(*x, *y), None => false }),
        None => b is None,
    }
}

/// what `==` on paged memories decides
pub open spec fn mem_eq<V: Value>(a: Memory<V>, b: Memory<V>) -> bool {
    pages_eq(a.pages@, b.pages@) && a.endian == b.endian && opt_backing_eq(a.backing, b.backing)
}

/// equality is reflexive on structurally identical memories (a memory and its clone) and implies the
/// same content, the same permissions and the same endianness — hence the same result for every load
pub proof fn lemma_mem_eq<V: Value>(a: Memory<V>, b: Memory<V>)
    ensures
        (a.pages@ == b.pages@ && a.endian == b.endian && a.backing == b.backing) ==> mem_eq(a, b),
        mem_eq(a, b) && b.bk_wf() ==> a.endian == b.endian && a.cells() == b.cells()
            && (forall|x: int| #[trigger] a.full(x) == b.full(x))
            && (forall|x: u64| (#[trigger] a.perm(x)) == b.perm(x)),
{
    if mem_eq(a, b) && b.bk_wf() {
        reveal(cells_of);
        assert forall|x: u64| cell_at(a.pages@, x) == cell_at(b.pages@, x) by {
            let k = page_base(x);
            assert(a.pages@.dom().contains(k) == b.pages@.dom().contains(k));
        }
        assert(a.cells() =~= b.cells());
        if a.backing is Some {
            backing::lemma_backing_eq_view(a.bk()->Some_0, b.bk()->Some_0);
        }
        assert forall|x: u64| (#[trigger] a.perm(x)) == b.perm(x) by {
            let k = page_base(x);
            assert(a.pages@.dom().contains(k) == b.pages@.dom().contains(k));
        }
    }
}
