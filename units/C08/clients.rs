// ======================================================================================
// units/C08/clients.rs — template-level clients (NOT code from /repo): they use only the
// contracts of paged.rs / paged_load.rs / paged_store.rs and show that the contracts compose to
// the history-quantified statement of property C08.
// ======================================================================================

/// one store, as a mathematical object: (address, value)
pub open spec fn st_covers<V: Value>(w: (u64, V), x: u64) -> bool { w.0 <= x < w.0 + vlen(w.1) }

/// "every address holds the byte MOST RECENTLY stored at it; addresses never stored hold nothing":
/// look at the stores from the last one backwards
pub open spec fn after_stores<V: Value>(e: Endian, ws: Seq<(u64, V)>, x: u64) -> Option<u8>
    decreases ws.len(),
{
    if ws.len() == 0 { None }
    else if st_covers(ws.last(), x) { Some(vbyte(e, ws.last().1, x - ws.last().0)) }
    else { after_stores(e, ws.drop_last(), x) }
}

/// any finite sequence of stores of any byte-multiple widths at any (overlapping, page-crossing)
/// addresses into a fresh memory over an optional backing: the memory stays well-formed, its own bytes
/// are the most recently stored ones, every other address shows the backing's byte, and reported
/// permissions are still the backing's
pub fn replay_stores<V: Value>(endian: Endian, backing: Option<RC<backing::Memory>>, ws: Vec<(u64, V)>) -> (m: Memory<V>)
    requires
        backing matches Some(b) ==> b.wf(),
        forall|j: int| 0 <= j < ws@.len() ==> val_ok((#[trigger] ws@[j]).1) && ws@[j].0 + vlen(ws@[j].1) <= u64::MAX,
    ensures
        /*@wf*/ m.wf(),
        /*@frame*/ m.endian == endian && m.backing == backing,
        /*@most_recent*/ forall|x: u64| #[trigger] m.own(x) == after_stores(endian, ws@, x),
        /*@layered*/ forall|x: u64| #[trigger] m.full(x as int) == (match after_stores(endian, ws@, x) { Some(b) => Some(b), None => bk_at(m.bk(), x as int) }),
        /*@perm*/ forall|x: u64| (#[trigger] m.perm(x)) == bk_perm(m.bk(), x as int),
{
    let mut m: Memory<V> = Memory::new(endian);
    let ghost m0 = m;
    m.set_backing(backing);
    let ghost all = ws@;
    proof {
        assert forall|x: u64| #[trigger] m.own(x) == after_stores(endian, all.take(0), x) by {
            assert(m0.full(x as int) is None);
        }
        assert forall|x: u64| (#[trigger] m.perm(x)) == bk_perm(m.bk(), x as int) by {
            assert(m0.perm(x) is None);
        }
    }
    for w in it: ws
        invariant
            it.seq() == all,
            m.wf(),
            m.endian == endian && m.backing == backing,
            forall|j: int| 0 <= j < all.len() ==> val_ok((#[trigger] all[j]).1) && all[j].0 + vlen(all[j].1) <= u64::MAX,
            forall|x: u64| #[trigger] m.own(x) == after_stores(endian, all.take(it.index@), x),
            forall|x: u64| (#[trigger] m.perm(x)) == bk_perm(m.bk(), x as int),
    {
        let ghost before = m;
        let ghost k = it.index@;
        assert(w == all[k]);
        let ghost wv = w.1;
        let r = m.store(w.0, w.1);
        proof {
            let done = all.take(k + 1);
            assert(done.drop_last() =~= all.take(k));
            assert(done.last() == all[k]);
            assert forall|x: u64| #[trigger] m.own(x) == after_stores(endian, done, x) by {
                assert(before.own(x) == after_stores(endian, all.take(k), x));
            }
            assert forall|x: u64| (#[trigger] m.perm(x)) == bk_perm(m.bk(), x as int) by {
                assert(before.perm(x) == bk_perm(before.bk(), x as int));
            }
        }
    }
    proof {
        assert(all.take(all.len() as int) =~= all);
        assert forall|x: u64| #[trigger] m.full(x as int) == (match after_stores(endian, all, x) { Some(b) => Some(b), None => bk_at(m.bk(), x as int) }) by {
            assert(m.own(x) == after_stores(endian, all, x));
        }
    }
    m
}

/// a value stored and loaded back at the same address and width has the same bytes, whatever was
/// stored before (and whatever the backing holds there)
pub fn store_then_load<V: Value>(m: &mut Memory<V>, address: u64, value: V) -> (r: Option<V>)
    requires
        old(m).wf(), val_ok(value), address + vlen(value) <= u64::MAX,
    ensures
        /*@roundtrip*/ r matches Some(v) && val_ok(v) && v.vbits() == value.vbits()
            && forall|i: int| 0 <= i < vlen(value) ==> #[trigger] vbyte(old(m).endian, v, i) == vbyte(old(m).endian, value, i),
        /*@wf*/ final(m).wf(),
{
    proof { value.lemma_value_laws(); }
    let bits = value.bits();
    let ghost gv = value;
    let ghost e = m.endian;
    let s = m.store(address, value);
    assert(s is Ok);
    proof {
        assert forall|i: int| 0 <= i < vlen(gv) implies (#[trigger] full_at(e, m.cells(), m.bk(), address + i)) == Some(vbyte(e, gv, i)) by {
            assert(m.own((address + i) as u64) == Some(vbyte(e, gv, i)));
        }
    }
    let l = m.load(address, bits);
    proof {
        let v = l->Ok_0->Some_0;
        assert forall|i: int| 0 <= i < vlen(gv) implies #[trigger] vbyte(e, v, i) == vbyte(e, gv, i) by {
            assert(full_at(e, m.cells(), m.bk(), address + i) == Some(vbyte(e, v, i)));
        }
    }
    match l { Ok(o) => o, Err(_) => None }
}

/// for V = il::Constant the value loaded back IS the value stored (same width, same number): the
/// byte string determines the number (lemma_le_bytes_inj) and BigUints with the same value are equal
pub fn store_then_load_constant(m: &mut Memory<il::Constant>, address: u64, value: il::Constant) -> (r: Option<il::Constant>)
    requires
        old(m).wf(), val_ok(value), address + vlen(value) <= u64::MAX,
    ensures
        /*@same*/ r == Some(value),
        /*@wf*/ final(m).wf(),
{
    let ghost e = m.endian;
    let r = store_then_load(m, address, value.clone());
    proof {
        broadcast use crate::axiom_biguint_ext;
        let v = r->Some_0;
        let n = vlen(value);
        assert(8 * n == value.bits as nat);
        assert(v.le_bytes() =~= value.le_bytes()) by {
            assert forall|j: int| 0 <= j < n implies v.le_bytes()[j] == value.le_bytes()[j] by {
                match e {
                    Endian::Little => { assert(vbyte(e, v, j) == vbyte(e, value, j)); },
                    Endian::Big => { assert(vbyte(e, v, n - 1 - j) == vbyte(e, value, n - 1 - j)); },
                }
            }
        }
        lemma_le_bytes_inj(v.value@, value.value@, n);
    }
    r
}

/// clones are independent: a store through the original is not visible through a clone taken before
/// it (content and permissions of the clone are those of the original at the time of cloning), and the
/// clone still compares equal to what the original was.
/// Rests on the ASSUMED clone-on-write contract of `Rc::make_mut` (prelude/rc_cow.rs) and on derive(Clone).
pub fn clone_then_store<V: Value>(m: &mut Memory<V>, address: u64, value: V) -> (c: Memory<V>)
    requires
        old(m).wf(), val_ok(value), address + vlen(value) <= u64::MAX,
    ensures
        /*@clone_unchanged*/ c.wf() && c.endian == old(m).endian
            && (forall|x: int| #[trigger] c.full(x) == old(m).full(x))
            && (forall|x: u64| (#[trigger] c.perm(x)) == old(m).perm(x)),
        /*@original_updated*/ final(m).wf() && forall|x: u64| #[trigger] final(m).own(x) == (
            if address <= x < address + vlen(value) { Some(vbyte(old(m).endian, value, x - address)) } else { old(m).own(x) }),
{
    let c = m.clone();
    let r = m.store(address, value);
    c
}

/// equality is reflexive on clones, with and without a backing, before and after stores
pub fn clone_equals_original<V: Value>(m: &Memory<V>) -> (r: bool)
    ensures /*@reflexive*/ r,
{
    let c = m.clone();
    *m == c
}

/// equal memories give the same answer to every load: both absent, or values with the same bytes
pub fn equal_memories_load_alike<V: Value>(a: &Memory<V>, b: &Memory<V>, address: u64, bits: usize) -> (r: (Option<V>, Option<V>))
    requires
        a.wf(), b.wf(), bits as nat <= MAX_BITS(), bits != 0 && bits % 8 == 0,
        mem_eq(*a, *b),
    ensures
        /*@same_presence*/ r.0 is Some <==> r.1 is Some,
        /*@same_bytes*/ r.0 is Some ==> r.0->Some_0.vbits() == r.1->Some_0.vbits()
            && forall|i: int| 0 <= i < bits as int / 8 ==> #[trigger] vbyte(a.endian, r.0->Some_0, i) == vbyte(b.endian, r.1->Some_0, i),
{
    proof { lemma_mem_eq(*a, *b); }
    let x = a.load(address, bits);
    let y = b.load(address, bits);
    proof {
        let e = a.endian;
        assert(a.cells() == b.cells());
        assert forall|i: int| 0 <= i < bits as int / 8 implies #[trigger] full_at(e, a.cells(), a.bk(), address + i) == full_at(e, b.cells(), b.bk(), address + i) by {
            assert(a.full(address + i) == b.full(address + i));
        }
        if all_present(e, a.cells(), a.bk(), address, bits as nat / 8) {
            assert forall|i: int| 0 <= i < bits as nat / 8 implies (#[trigger] full_at(e, b.cells(), b.bk(), address + i)) is Some by {
                assert(full_at(e, a.cells(), a.bk(), address + i) is Some);
            }
            let u = x->Ok_0->Some_0;
            let v = y->Ok_0->Some_0;
            assert forall|i: int| 0 <= i < bits as int / 8 implies #[trigger] vbyte(e, u, i) == vbyte(e, v, i) by {
                assert(full_at(e, a.cells(), a.bk(), address + i) == Some(vbyte(e, u, i)));
                assert(full_at(e, b.cells(), b.bk(), address + i) == Some(vbyte(e, v, i)));
            }
        } else {
            let i = choose|i: int| 0 <= i < bits as nat / 8 && !((#[trigger] full_at(e, a.cells(), a.bk(), address + i)) is Some);
            assert(full_at(e, b.cells(), b.bk(), address + i) is None);
        }
    }
    (match x { Ok(o) => o, Err(_) => None }, match y { Ok(o) => o, Err(_) => None })
}
