// ---- falcon::Error conversions and `chain`, extracted from lib/lib.rs (same pattern as units/C11/error_from.rs
// and units/C15/error_from_string.rs).  `From<&str>` / `From<String>` wrap the text into Error::Custom; the
// contracts only say which variant comes out (the text itself is never inspected by verified code).
impl vstd::std_specs::convert::FromSpecImpl<&str> for Error {
    open spec fn obeys_from_spec() -> bool { false }
    open spec fn from_spec(v: &str) -> Error { arbitrary() }
}
impl From<&str> for Error {
//@ fn lib/lib.rs :: impl From<&str> for Error :: fn from nopub
//@ spec
    ensures /*@custom*/ r is Custom,
//@ end
}
impl vstd::std_specs::convert::FromSpecImpl<String> for Error {
    open spec fn obeys_from_spec() -> bool { false }
    open spec fn from_spec(v: String) -> Error { arbitrary() }
}
impl From<String> for Error {
//@ fn lib/lib.rs :: impl From<String> for Error :: fn from nopub
//@ spec
    ensures /*@custom*/ r is Custom,
//@ end
}
impl Error {
//@ fn lib/lib.rs :: impl Error :: fn chain
//@ spec
    ensures /*@chain*/ r is Chain,
//@ end
}

// derive(Debug) of falcon::Error re-supplied (needed by trait bounds only; the formatter output is
// never inspected by verified code): opaque, no contract.
impl std::fmt::Debug for Error {
    #[verifier::external_body]
    fn fmt(&self, f: &mut std::fmt::Formatter<'_>) -> std::fmt::Result { unimplemented!() }
}
