// Unit C08 — memory::paged::Memory<V> is a byte array layered over its optional backing, with
// independent clones, reflexive equality and a per-address permission map.
// Generated file = this template + the real text of the functions named in the `//@` holes.
#![feature(allocator_api)]
#![allow(unused_imports, unused_variables, dead_code, unused_mut, non_snake_case, unused_parens, unused_braces)]
use vstd::prelude::*;
use vstd::arithmetic::power2::*;
use vstd::arithmetic::div_mod::*;
use vstd::arithmetic::mul::*;
use std::ops::*;
use std::cmp::Ordering;
use std::rc::Rc;

verus! {

//@ include spec/bv.rs
//@ include prelude/bigint.rs
//@ include prelude/error.rs
//@ include prelude/btree_range.rs
//@ include prelude/stdcoll.rs
//@ include prelude/rc_cow.rs

// falcon::RC (default build, feature "thread_safe" off): the real alias, extracted
//@ item lib/lib.rs :: type RC#0

//@ include units/C08/error_glue.rs

// ---- il::Constant / il::Expression / executor::eval: contracts imported from unit C04 ---------
pub mod il {
use super::*;
broadcast use {axiom_biguint_ext, axiom_bigint_ext};
#[verifier::external_body] pub struct ProgramLocation { _p: () }

//@ mode contracts-only C04
//@ include units/C04/constant.rs
//@ include units/C04/expression.rs
//@ mode full

//@ include units/C08/il_glue.rs

proof fn vf_canary_il() ensures false {}
} // mod il

pub mod executor {
use super::*;
use super::il::*;
//@ mode contracts-only C04
//@ include units/C04/eval.rs
//@ mode full
} // mod executor

pub mod architecture {
use super::*;
//@ item lib/architecture.rs :: enum Endian

// derive(Clone), derive(PartialEq) of Endian (a field-less enum): structural copy / equality
impl Clone for Endian {
    #[verifier::external_body]
    fn clone(&self) -> (r: Endian) ensures r == *self { unimplemented!() }
}
impl vstd::std_specs::cmp::PartialEqSpecImpl for Endian {
    open spec fn obeys_eq_spec() -> bool { true }
    open spec fn eq_spec(&self, other: &Endian) -> bool { *self == *other }
}
impl PartialEq for Endian {
    #[verifier::external_body]
    fn eq(&self, other: &Endian) -> (r: bool) ensures r == (*self == *other) { unimplemented!() }
}
} // mod architecture

pub mod translator {
use super::*;
use crate::memory::MemoryPermissions;
//@ include units/C16/translation_memory.rs
} // mod translator

pub mod memory {
use super::*;

// Stand-in for the type the `bitflags!` macro (bitflags 1.x, third party) generates in
// lib/memory/mod.rs:   `pub struct MemoryPermissions { bits: u32 }`  deriving Copy, Clone, PartialEq, Eq, ...
// paged.rs only copies values of this type; no flag operation is used by the code under contract.
#[derive(Clone, Copy)]
pub struct MemoryPermissions { pub bits: u32 }

// ---- memory::backing::Memory: contracts imported from unit C16 ----------------------------------
pub mod backing {
use vstd::prelude::*;
use vstd::arithmetic::power2::*;
use vstd::arithmetic::div_mod::*;
use vstd::arithmetic::mul::*;
use crate::*;
use crate::il::{MAX_BITS, EvalR, Env, BinOp, eval_spec, empty_env, expr_bits, expr_sane, eval_agrees, is_const, is_sort_err, is_div0_err, ctor2, bin_spec, bin_val};
// the `use` lines of lib/memory/backing.rs (serde omitted: derives are dropped)
use crate::architecture::Endian;
use crate::executor;
use crate::il;
use crate::memory::MemoryPermissions;
use crate::translator::TranslationMemory;
use crate::Error;
use std::collections::BTreeMap;
use std::ops::Bound::Included;
#[allow(unused_imports)]
use std::ops::Bound::{Excluded, Unbounded};

//@ mode contracts-only C16
//@ include units/C16/bytes_spec.rs
//@ include units/C16/backing.rs
//@ mode full

//@ include units/C08/backing_glue.rs

proof fn vf_canary_backing() ensures false {}
} // mod backing

pub mod value {
use vstd::prelude::*;
use vstd::arithmetic::power2::*;
use vstd::arithmetic::div_mod::*;
use vstd::arithmetic::mul::*;
use crate::*;
use crate::il::{MAX_BITS, EvalR, Env, BinOp, eval_spec, empty_env, expr_bits, expr_sane, eval_agrees, is_const, is_sort_err, is_div0_err, ctor2, bin_spec, bin_val};
use vstd::std_specs::cmp::PartialEqSpec;
use vstd::std_specs::fmt::DebugSpec;
// the `use` lines of lib/memory/value.rs
use crate::executor::eval;
use crate::il;
use crate::Error;
use std::fmt::Debug;

//@ include units/C08/bytes.rs
//@ include units/C08/value.rs

proof fn vf_canary_value() ensures false {}
} // mod value

pub use self::value::Value;

pub mod paged {
use vstd::prelude::*;
use crate::*;
use crate::il::{MAX_BITS, is_sort_err};
use crate::memory::value::*;
use crate::memory::backing::{vw, SecMap};
use vstd::std_specs::cmp::PartialEqSpec;
use vstd::std_specs::fmt::DebugSpec;
// the `use` lines of lib/memory/paged.rs (serde omitted: derives are dropped)
use crate::architecture::Endian;
use crate::il;
use crate::Error;
use crate::RC;
use std::collections::HashMap;

use crate::memory::backing;
use crate::memory::value::Value;
use crate::memory::MemoryPermissions;

//@ include units/C08/paged_spec.rs
//@ include units/C08/paged.rs
//@ include units/C08/paged_load.rs
//@ include units/C08/paged_store.rs
//@ include units/C08/clients.rs

proof fn vf_canary_paged() ensures false {}
} // mod paged
} // mod memory
proof fn vf_canary_root() ensures false {}

} // verus!

fn main() {}
