// ======================================================================================
// units/C08/value.rs — lib/memory/value.rs: the trait `Value` RESTATED with the byte-level contract
// the paged memory relies on, and `impl Value for il::Constant` proved against it from unit C04's
// operator contracts.
//
// lib/memory/value.rs declares
//     pub trait Value: Clone + Debug + Eq + PartialEq {
//         fn constant(constant: il::Constant) -> Self;      fn bits(&self) -> usize;
//         fn shl(&self, bits: usize) -> Result<Self, Error>; fn shr(&self, bits: usize) -> Result<Self, Error>;
//         fn trun(&self, bits: usize) -> Result<Self, Error>; fn zext(&self, bits: usize) -> Result<Self, Error>;
//         fn or(&self, other: &Self) -> Result<Self, Error>;
//     }
// The executable signatures below are those of the crate; what is added is the contract an
// implementor has to meet (Verus does not allow an impl to add a precondition the trait does not
// declare): a data invariant `vwf`, a width `vbits`, the little-endian byte string `le_bytes` of the
// value (length vbits/8), and what each operator does to that byte string when widths and amounts are
// whole bytes — taken from the property's "assembled in the memory's endianness".  Error conditions are
// exact: shl/shr never fail, trun fails iff the target width is not smaller, zext iff it is not larger,
// or iff the widths differ.
// ======================================================================================

pub trait Value: Clone + Debug + Eq + PartialEq {
    /// data invariant of the value type
    spec fn vwf(&self) -> bool;

    /// width in bits
    spec fn vbits(&self) -> nat;

    /// little-endian byte string (meaningful when the width is a multiple of 8)
    spec fn le_bytes(&self) -> Seq<u8>;

    /// widths are between 1 and MAX_BITS (the bound under which unit C04 proves il::Constant) and
    /// the byte string has one byte per 8 bits
    proof fn lemma_value_laws(&self)
        requires self.vwf(),
        ensures 1 <= self.vbits() <= MAX_BITS(), self.le_bytes().len() == self.vbits() / 8;

    /// `clone` yields an equal value
    proof fn lemma_clone_law(a: Self, b: Self)
        requires cloned(a, b),
        ensures a == b;

    /// `==` decides equality of values
    proof fn lemma_eq_law(a: Self, b: Self)
        ensures a.eq_spec(&b) == (a == b);

    /// ... and the executable `==` obeys its specification
    proof fn lemma_obeys_eq_law()
        ensures Self::obeys_eq_spec();

    /// `{:?}` formatting has no precondition
    proof fn lemma_debug_law(&self)
        ensures forall|f: std::fmt::Formatter<'_>| #[trigger] self.fmt_req(&f);

    /// Turn an il::Constant into a representation of this Value
    fn constant(constant: il::Constant) -> (r: Self)
        requires constant.wf(),
        ensures r.vwf(), r.vbits() == constant.bits as nat, r.le_bytes() == nat_le_bytes(constant.value@, constant.bits as nat / 8);

    /// Return the number of bits contained in this value
    fn bits(&self) -> (r: usize)
        ensures r as nat == self.vbits();

    /// Shift the value left by the given number of bits
    fn shl(&self, bits: usize) -> (r: Result<Self, Error>)
        requires self.vwf(),
        ensures
            r matches Ok(v) && v.vwf() && v.vbits() == self.vbits(),
            self.vbits() % 8 == 0 && bits % 8 == 0 && (bits as nat) < self.vbits() ==> r.unwrap().le_bytes() == shl_bytes(self.le_bytes(), bits as nat / 8);

    /// Shift the value right by the given number of bits
    fn shr(&self, bits: usize) -> (r: Result<Self, Error>)
        requires self.vwf(),
        ensures
            r matches Ok(v) && v.vwf() && v.vbits() == self.vbits(),
            self.vbits() % 8 == 0 && bits % 8 == 0 && (bits as nat) < self.vbits() ==> r.unwrap().le_bytes() == shr_bytes(self.le_bytes(), bits as nat / 8);

    /// Truncate the value to the given number of bits
    fn trun(&self, bits: usize) -> (r: Result<Self, Error>)
        requires self.vwf(), bits >= 1,
        ensures
            bits as nat >= self.vbits() ==> is_sort_err(r),
            (bits as nat) < self.vbits() ==> (r matches Ok(v) && v.vwf() && v.vbits() == bits as nat),
            (bits as nat) < self.vbits() && self.vbits() % 8 == 0 && bits % 8 == 0 ==> r.unwrap().le_bytes() == self.le_bytes().take(bits as int / 8);

    /// Zero-extend the value to the given number of bits
    fn zext(&self, bits: usize) -> (r: Result<Self, Error>)
        requires self.vwf(), bits as nat <= MAX_BITS(),
        ensures
            bits as nat <= self.vbits() ==> is_sort_err(r),
            bits as nat > self.vbits() ==> (r matches Ok(v) && v.vwf() && v.vbits() == bits as nat),
            bits as nat > self.vbits() && self.vbits() % 8 == 0 && bits % 8 == 0 ==> r.unwrap().le_bytes() == zext_bytes(self.le_bytes(), bits as nat / 8);

    /// Or this value with the given value
    fn or(&self, other: &Self) -> (r: Result<Self, Error>)
        requires self.vwf(), other.vwf(),
        ensures
            self.vbits() != other.vbits() ==> is_sort_err(r),
            self.vbits() == other.vbits() ==> (r matches Ok(v) && v.vwf() && v.vbits() == self.vbits()),
            self.vbits() == other.vbits() && self.vbits() % 8 == 0 ==> or_bytes_ok(self.le_bytes(), other.le_bytes(), r.unwrap().le_bytes());
}

// ---- what evaluating the expression each operator builds yields, read byte-wise --------------------------
// One lemma per operator, with explicit arguments: the function bodies below only state the lemma for
// every shift-amount constant / result (a quantified fact whose trigger is the evaluation of exactly the
// expression the operator is supposed to build), so that their own contexts hold no arithmetic.

pub open spec fn amount_of(c: il::Constant, bits: usize, sc: il::Constant) -> bool {
    sc.wf() && sc.bits == c.bits && sc.value@ == (bits as u64 as nat) % pow2(c.bits as nat)
}

pub proof fn lemma_value_shl(c: il::Constant, bits: usize, sc: il::Constant, r: Result<il::Constant, Error>)
    requires
        c.wf(), amount_of(c, bits, sc),
        eval_agrees(r, eval_spec(il::Expression::Shl(Box::new(il::Expression::Constant(c)), Box::new(il::Expression::Constant(sc))), empty_env())),
    ensures
        r matches Ok(v) && v.wf() && v.bits == c.bits,
        c.bits % 8 == 0 && bits % 8 == 0 && bits < c.bits ==> r.unwrap().le_bytes() == shl_bytes(c.le_bytes(), bits as nat / 8),
{
    reveal_with_fuel(eval_spec, 3);
    let w = c.bits as nat;
    lemma_lt_pow2_(w);
    if w % 8 == 0 && bits % 8 == 0 && (bits as nat) < w {
        lemma_small_mod(bits as nat, pow2(w));
        lemma_bytes_shl(w, c.value@, bits as nat);
    }
}

pub proof fn lemma_value_shr(c: il::Constant, bits: usize, sc: il::Constant, r: Result<il::Constant, Error>)
    requires
        c.wf(), amount_of(c, bits, sc),
        eval_agrees(r, eval_spec(il::Expression::Shr(Box::new(il::Expression::Constant(c)), Box::new(il::Expression::Constant(sc))), empty_env())),
    ensures
        r matches Ok(v) && v.wf() && v.bits == c.bits,
        c.bits % 8 == 0 && bits % 8 == 0 && bits < c.bits ==> r.unwrap().le_bytes() == shr_bytes(c.le_bytes(), bits as nat / 8),
{
    reveal_with_fuel(eval_spec, 3);
    let w = c.bits as nat;
    lemma_lt_pow2_(w);
    if w % 8 == 0 && bits % 8 == 0 && (bits as nat) < w {
        lemma_small_mod(bits as nat, pow2(w));
        lemma_bytes_shr(w, c.value@, bits as nat);
    }
}

pub proof fn lemma_value_trun(c: il::Constant, bits: usize, r: Result<il::Constant, Error>)
    requires
        c.wf(), 1 <= bits < c.bits,
        eval_agrees(r, eval_spec(il::Expression::Trun(bits, Box::new(il::Expression::Constant(c))), empty_env())),
    ensures
        r matches Ok(v) && v.wf() && v.bits == bits,
        c.bits % 8 == 0 && bits % 8 == 0 ==> r.unwrap().le_bytes() == c.le_bytes().take(bits as int / 8),
{
    reveal_with_fuel(eval_spec, 3);
    let w = c.bits as nat;
    if w % 8 == 0 && bits % 8 == 0 {
        lemma_bytes_trun(w, c.value@, bits as nat);
    }
}

pub proof fn lemma_value_zext(c: il::Constant, bits: usize, r: Result<il::Constant, Error>)
    requires
        c.wf(), c.bits < bits, bits as nat <= MAX_BITS(),
        eval_agrees(r, eval_spec(il::Expression::Zext(bits, Box::new(il::Expression::Constant(c))), empty_env())),
    ensures
        r matches Ok(v) && v.wf() && v.bits == bits,
        c.bits % 8 == 0 && bits % 8 == 0 ==> r.unwrap().le_bytes() == zext_bytes(c.le_bytes(), bits as nat / 8),
{
    reveal_with_fuel(eval_spec, 3);
    let w = c.bits as nat;
    if w % 8 == 0 && bits % 8 == 0 {
        lemma_bytes_zext(w, c.value@, bits as nat);
    }
}

pub proof fn lemma_value_or(c: il::Constant, d: il::Constant, r: Result<il::Constant, Error>)
    requires
        c.wf(), d.wf(), c.bits == d.bits,
        eval_agrees(r, eval_spec(il::Expression::Or(Box::new(il::Expression::Constant(c)), Box::new(il::Expression::Constant(d))), empty_env())),
    ensures
        r matches Ok(v) && v.wf() && v.bits == c.bits,
        c.bits % 8 == 0 ==> or_bytes_ok(c.le_bytes(), d.le_bytes(), r.unwrap().le_bytes()),
{
    reveal_with_fuel(eval_spec, 3);
    let w = c.bits as nat;
    if w % 8 == 0 {
        lemma_bytes_or(w, c.value@, d.value@);
    }
}

//@ source lib/memory/value.rs
impl Value for il::Constant {
    open spec fn vwf(&self) -> bool { self.wf() }

    open spec fn vbits(&self) -> nat { self.bits as nat }

    open spec fn le_bytes(&self) -> Seq<u8> { nat_le_bytes(self.value@, self.bits as nat / 8) }

    proof fn lemma_value_laws(&self) {}

    proof fn lemma_clone_law(a: Self, b: Self) {}

    proof fn lemma_eq_law(a: Self, b: Self) {
        broadcast use axiom_biguint_ext;
    }

    proof fn lemma_obeys_eq_law() {}

    proof fn lemma_debug_law(&self) {}

// (no `ensures` of their own on the methods below: with an extra clause Verus 0.2026.09.13 resolves a
//  generated self-call `self.shl(bits)` to the INHERENT method il::Constant::shl and rejects the file;
//  the obligations are the trait's clauses and are reported under `<il::Constant as Value>::<fn>.body`)

//@ fn impl Value for il::Constant :: fn constant nopub
//@ end

//@ fn impl Value for il::Constant :: fn bits nopub
//@ end

//@ fn impl Value for il::Constant :: fn shl nopub
//@ enter
    proof {
        reveal_with_fuel(expr_sane, 2);
        assert forall|sc: il::Constant, r: Result<il::Constant, Error>|
            amount_of(*self, bits, sc) && #[trigger] eval_agrees(r, eval_spec(il::Expression::Shl(Box::new(il::Expression::Constant(*self)), Box::new(il::Expression::Constant(sc))), empty_env()))
            implies (r matches Ok(v) && v.wf() && v.bits == self.bits)
                && (self.bits % 8 == 0 && bits % 8 == 0 && bits < self.bits ==> r.unwrap().le_bytes() == shl_bytes(self.le_bytes(), bits as nat / 8)) by {
            lemma_value_shl(*self, bits, sc, r);
        }
    }
//@ end

//@ fn impl Value for il::Constant :: fn shr nopub
//@ enter
    proof {
        reveal_with_fuel(expr_sane, 2);
        assert forall|sc: il::Constant, r: Result<il::Constant, Error>|
            amount_of(*self, bits, sc) && #[trigger] eval_agrees(r, eval_spec(il::Expression::Shr(Box::new(il::Expression::Constant(*self)), Box::new(il::Expression::Constant(sc))), empty_env()))
            implies (r matches Ok(v) && v.wf() && v.bits == self.bits)
                && (self.bits % 8 == 0 && bits % 8 == 0 && bits < self.bits ==> r.unwrap().le_bytes() == shr_bytes(self.le_bytes(), bits as nat / 8)) by {
            lemma_value_shr(*self, bits, sc, r);
        }
    }
//@ end

//@ fn impl Value for il::Constant :: fn trun nopub
//@ enter
    proof {
        reveal_with_fuel(expr_sane, 2);
        assert forall|r: Result<il::Constant, Error>|
            1 <= bits < self.bits && #[trigger] eval_agrees(r, eval_spec(il::Expression::Trun(bits, Box::new(il::Expression::Constant(*self))), empty_env()))
            implies (r matches Ok(v) && v.wf() && v.bits == bits)
                && (self.bits % 8 == 0 && bits % 8 == 0 ==> r.unwrap().le_bytes() == self.le_bytes().take(bits as int / 8)) by {
            lemma_value_trun(*self, bits, r);
        }
    }
//@ end

//@ fn impl Value for il::Constant :: fn zext nopub
//@ enter
    proof {
        reveal_with_fuel(expr_sane, 2);
        assert forall|r: Result<il::Constant, Error>|
            self.bits < bits && #[trigger] eval_agrees(r, eval_spec(il::Expression::Zext(bits, Box::new(il::Expression::Constant(*self))), empty_env()))
            implies (r matches Ok(v) && v.wf() && v.bits == bits)
                && (self.bits % 8 == 0 && bits % 8 == 0 ==> r.unwrap().le_bytes() == zext_bytes(self.le_bytes(), bits as nat / 8)) by {
            lemma_value_zext(*self, bits, r);
        }
    }
//@ end

//@ fn impl Value for il::Constant :: fn or nopub
//@ enter
    proof {
        reveal_with_fuel(expr_sane, 2);
        assert forall|r: Result<il::Constant, Error>|
            self.bits == other.bits && #[trigger] eval_agrees(r, eval_spec(il::Expression::Or(Box::new(il::Expression::Constant(*self)), Box::new(il::Expression::Constant(*other))), empty_env()))
            implies (r matches Ok(v) && v.wf() && v.bits == self.bits)
                && (self.bits % 8 == 0 ==> or_bytes_ok(self.le_bytes(), other.le_bytes(), r.unwrap().le_bytes())) by {
            lemma_value_or(*self, *other, r);
        }
    }
//@ end
}
