// ======================================================================================
// units/C08/paged_store.rs — Memory::store under contract.
//
// `store(A, value)` with n = |value| bytes and W = A + n works in three phases on the cell map:
//   1. tail:  if the cell at W is Backref(b1), the value at b1 reaches past the write; its bytes from W
//             on are loaded (t1) and re-stored at W as a value of their own;
//   2. head:  if the cell at A is Backref(b2), the value at b2 reaches into the write; its bytes before A
//             are loaded (t2) and re-stored at b2 as a shorter value;
//   3. the new value is stored at A.
// Between the phases the representation invariant is broken (coverage of b1 after phase 1, dangling
// back-references in [A, W) after phase 2); the lemmas below describe exactly what holds in between and
// that the final cell map is well-formed and has the old byte view overridden on [A, W) only.
// ======================================================================================

/// the final cell map in terms of the cell map on entry and what the first two phases re-stored
pub open spec fn store_cells<V: Value>(c0: Cells<V>, a: u64, value: V, ph1: Option<(u64, V)>, ph2: Option<(u64, V)>) -> Cells<V> {
    let w = (a + vlen(value)) as u64;
    let c1 = match ph1 { Some(p) => write_cells(c0, w, p.1, vlen(p.1)), None => c0 };
    let c2 = match ph2 { Some(p) => write_cells(c1, p.0, p.1, vlen(p.1)), None => c1 };
    write_cells(c2, a, value, vlen(value))
}

/// what phase 1 found and produced: the cell at w is Backref(b1) and t1 holds the bytes [w, end of b1)
pub open spec fn tail_ok<V: Value>(e: Endian, c0: Cells<V>, w: u64, ph1: Option<(u64, V)>) -> bool {
    &&& ph1 is Some <==> (c0.contains_key(w) && c0[w] is Backref)
    &&& ph1 matches Some(p) ==> {
            &&& c0[w] == MemoryCell::<V>::Backref(p.0)
            &&& val_ok(p.1)
            &&& w + vlen(p.1) == end_of(c0, p.0)
            &&& forall|i: int| 0 <= i < vlen(p.1) ==> own_at(e, c0, (w + i) as u64) == Some(#[trigger] vbyte(e, p.1, i))
        }
}

/// what phase 2 found and produced: the cell at a is Backref(b2) and t2 holds the bytes [b2, a)
pub open spec fn head_ok<V: Value>(e: Endian, c0: Cells<V>, a: u64, ph2: Option<(u64, V)>) -> bool {
    &&& ph2 is Some <==> (c0.contains_key(a) && c0[a] is Backref)
    &&& ph2 matches Some(p) ==> {
            &&& c0[a] == MemoryCell::<V>::Backref(p.0)
            &&& val_ok(p.1)
            &&& p.0 + vlen(p.1) == a
            &&& forall|i: int| 0 <= i < vlen(p.1) ==> own_at(e, c0, (p.0 + i) as u64) == Some(#[trigger] vbyte(e, p.1, i))
        }
}

/// phase 1: the value referenced from w covers [w, its end) with cells, so all those bytes are present
pub proof fn lemma_store_tail_pre<V: Value>(e: Endian, c0: Cells<V>, bk: Option<SecMap>, w: u64)
    requires cells_wf(c0), c0.contains_key(w), c0[w] is Backref,
    ensures ({
        let b1 = c0[w]->Backref_0;
        &&& b1 < w && is_val(c0, b1) && val_ok(val_at(c0, b1)) && w < end_of(c0, b1) <= u64::MAX && val_at(c0, b1).vbits() <= MAX_BITS()
        &&& all_present(e, c0, bk, w, (end_of(c0, b1) - w) as nat)
        &&& forall|x: u64| w <= x < end_of(c0, b1) ==> #[trigger] c0.contains_key(x)
    }),
{
    let b1 = c0[w]->Backref_0;
    assert(inv_ref(c0, w));
    assert(inv_val(c0, b1));
    val_at(c0, b1).lemma_value_laws();
    assert forall|x: u64| w <= x < end_of(c0, b1) implies #[trigger] c0.contains_key(x) by {
        assert(inv_cov(c0, b1, x));
    }
    assert forall|i: int| 0 <= i < end_of(c0, b1) - w implies (#[trigger] full_at(e, c0, bk, w + i)) is Some by {
        assert(c0.contains_key((w + i) as u64));
    }
}

/// where cells exist, `reads` speaks about the memory's own bytes
pub proof fn lemma_reads_own<V: Value>(e: Endian, c: Cells<V>, bk: Option<SecMap>, address: u64, v: V)
    requires
        reads(e, c, bk, address, v),
        address + vlen(v) <= u64::MAX,
        forall|x: u64| address <= x < address + vlen(v) ==> #[trigger] c.contains_key(x),
    ensures forall|i: int| 0 <= i < vlen(v) ==> own_at(e, c, (address + i) as u64) == Some(#[trigger] vbyte(e, v, i)),
{
    assert forall|i: int| 0 <= i < vlen(v) implies own_at(e, c, (address + i) as u64) == Some(#[trigger] vbyte(e, v, i)) by {
        assert(full_at(e, c, bk, address + i) == Some(vbyte(e, v, i)));
        assert(c.contains_key((address + i) as u64));
    }
}

/// the state between phase 1 and phase 2, seen from the head [b2, a): everything `load(b2, ..)` needs
pub proof fn lemma_store_mid<V: Value>(e: Endian, c0: Cells<V>, bk: Option<SecMap>, a: u64, w: u64, ph1: Option<(u64, V)>, c1: Cells<V>)
    requires
        cells_wf(c0), a < w,
        tail_ok(e, c0, w, ph1),
        c1 == (match ph1 { Some(p) => write_cells(c0, w, p.1, vlen(p.1)), None => c0 }),
        c0.contains_key(a), c0[a] is Backref,
    ensures ({
        let b2 = c0[a]->Backref_0;
        &&& b2 < a && a < end_of(c0, b2) <= u64::MAX && val_ok(val_at(c0, b2)) && val_at(c0, b2).vbits() <= MAX_BITS()
        &&& cells_base(c1) && cells_cov_on(c1, b2 as int, a as int)
        &&& c1.contains_key(a) && c1[a] == c0[a] && is_val(c1, b2) && val_at(c1, b2) == val_at(c0, b2)
        &&& all_present(e, c1, bk, b2, (a - b2) as nat)
        &&& forall|x: u64| b2 <= x < a ==> c1.contains_key(x) && #[trigger] own_at(e, c1, x) == own_at(e, c0, x)
        &&& forall|x: u64| b2 <= x < a ==> #[trigger] c1.contains_key(x)
    }),
{
    let b2 = c0[a]->Backref_0;
    assert(inv_ref(c0, a));
    assert(inv_val(c0, b2));
    val_at(c0, b2).lemma_value_laws();
    match ph1 {
        None => {
            assert forall|x: u64| b2 <= x < a implies c1.contains_key(x) && #[trigger] own_at(e, c1, x) == own_at(e, c0, x) by {
                if x != b2 { assert(inv_cov(c0, b2, x)); }
            }
        },
        Some(p) => {
            let b1 = p.0;
            let t1 = p.1;
            let f1 = w + vlen(t1);
            assert(inv_ref(c0, w));
            assert(inv_val(c0, b1));
            // cells of c0 in [w, f1) are back-references to b1, never values
            assert forall|y: u64| w <= y < f1 implies !is_val(c0, y) by {
                assert(inv_cov(c0, b1, y));
            }
            assert forall|y: u64| #[trigger] inv_val(c1, y) by {
                assert(inv_val(c0, y));
            }
            assert forall|x: u64| #[trigger] inv_ref(c1, x) by {
                assert(inv_ref(c0, x));
                if !(w <= x < f1) && c0.contains_key(x) && c0[x] is Backref {
                    let y = c0[x]->Backref_0;
                    assert(!(w <= y < f1));
                }
            }
            assert forall|y: u64, x: u64| b2 <= x < a implies #[trigger] inv_cov(c1, y, x) by {
                assert(inv_cov(c0, y, x));
            }
            assert forall|x: u64| b2 <= x < a implies c1.contains_key(x) && #[trigger] own_at(e, c1, x) == own_at(e, c0, x) by {
                if x != b2 { assert(inv_cov(c0, b2, x)); }
            }
        },
    }
    assert forall|x: u64| b2 <= x < a implies #[trigger] c1.contains_key(x) by {
        assert(own_at(e, c1, x) == own_at(e, c0, x));
    }
    assert forall|i: int| 0 <= i < a - b2 implies (#[trigger] full_at(e, c1, bk, b2 + i)) is Some by {
        let x = (b2 + i) as u64;
        assert(c1.contains_key(x));
        assert(own_at(e, c1, x) == own_at(e, c0, x));
    }
}

/// the changed region [lo, hi) swallows every value of the old cell map that it touches:
/// values that start before lo end at or before lo, values that start inside end at or before hi
pub open spec fn store_lo<V: Value>(a: u64, ph2: Option<(u64, V)>) -> u64 { match ph2 { Some(p) => p.0, None => a } }
pub open spec fn store_hi<V: Value>(w: u64, ph1: Option<(u64, V)>) -> int { match ph1 { Some(p) => w + vlen(p.1), None => w as int } }

pub proof fn lemma_store_region<V: Value>(e: Endian, c0: Cells<V>, a: u64, w: u64, ph1: Option<(u64, V)>, ph2: Option<(u64, V)>)
    requires
        cells_wf(c0), a < w,
        tail_ok(e, c0, w, ph1),
        head_ok(e, c0, a, ph2),
    ensures
        store_lo(a, ph2) <= a && w <= store_hi(w, ph1) <= u64::MAX,
        forall|y: u64| is_val(c0, y) && y < store_lo(a, ph2) ==> #[trigger] end_of(c0, y) <= store_lo(a, ph2),
        forall|y: u64| is_val(c0, y) && store_lo(a, ph2) <= y < store_hi(w, ph1) ==> #[trigger] end_of(c0, y) <= store_hi(w, ph1),
        ph2 matches Some(p) ==> is_val(c0, p.0) && a < end_of(c0, p.0) && (forall|x: u64| p.0 < x < a ==> #[trigger] is_ref(c0, x, p.0)),
        ph1 matches Some(p) ==> is_val(c0, p.0) && p.0 < w && (forall|x: u64| w <= x < w + vlen(p.1) ==> #[trigger] is_ref(c0, x, p.0)),
{
    let lo = store_lo(a, ph2);
    let hi = store_hi(w, ph1);
    assert(inv_ref(c0, a));
    assert(inv_ref(c0, w));
    if let Some(p) = ph1 {
        assert(inv_val(c0, p.0));
        assert forall|x: u64| w <= x < w + vlen(p.1) implies #[trigger] is_ref(c0, x, p.0) by { assert(inv_cov(c0, p.0, x)); }
    }
    if let Some(p) = ph2 {
        assert(inv_val(c0, p.0));
        assert forall|x: u64| p.0 < x < a implies #[trigger] is_ref(c0, x, p.0) by { assert(inv_cov(c0, p.0, x)); }
    }
    assert forall|y: u64| is_val(c0, y) && y < lo implies #[trigger] end_of(c0, y) <= lo by {
        if end_of(c0, y) > lo {
            // y's value covers lo: the cell at lo is a back-reference to y
            assert(inv_cov(c0, y, lo));
            // lo is a (no head) or b2: a holds Backref(b2) with b2 == lo, b2 holds a value
        }
    }
    assert forall|y: u64| is_val(c0, y) && lo <= y < hi implies #[trigger] end_of(c0, y) <= hi by {
        if end_of(c0, y) > hi {
            assert(inv_val(c0, y));
            if y < a {
                // y is in the head: it is b2 itself (the others are back-references)
                if y != lo { assert(inv_cov(c0, lo, y)); }
                assert(inv_cov(c0, y, w));
            } else if y < w {
                assert(inv_cov(c0, y, w));
            } else {
                // y in [w, hi): a back-reference to b1
                assert(inv_cov(c0, ph1->Some_0.0, y));
            }
        }
    }
}

/// the final cell map is well-formed and its byte view is the old one overridden on [a, a + |value|)
pub proof fn lemma_store_final<V: Value>(e: Endian, c0: Cells<V>, a: u64, value: V, ph1: Option<(u64, V)>, ph2: Option<(u64, V)>, c3: Cells<V>)
    requires
        cells_wf(c0), val_ok(value), a + vlen(value) <= u64::MAX,
        tail_ok(e, c0, (a + vlen(value)) as u64, ph1),
        head_ok(e, c0, a, ph2),
        c3 == store_cells(c0, a, value, ph1, ph2),
    ensures
        cells_wf(c3),
        forall|x: u64| #[trigger] own_at(e, c3, x) == (if a <= x < a + vlen(value) { Some(vbyte(e, value, x - a)) } else { own_at(e, c0, x) }),
{
    let w = (a + vlen(value)) as u64;
    let lo = store_lo(a, ph2);
    let hi = store_hi(w, ph1);
    lemma_store_region(e, c0, a, w, ph1, ph2);
    // cells outside [lo, hi) are untouched
    assert forall|x: u64| !(lo <= x < hi) implies c3.contains_key(x) == c0.contains_key(x) && (c0.contains_key(x) ==> #[trigger] c3[x] == c0[x]) by {}
    // cells inside: three stretches, each a value followed by back-references to it
    assert forall|x: u64| a <= x < w implies c3.contains_key(x) && #[trigger] c3[x] == (if x == a { MemoryCell::Value(value) } else { MemoryCell::Backref(a) }) by {}
    if let Some(p) = ph2 {
        assert forall|x: u64| p.0 <= x < a implies c3.contains_key(x) && #[trigger] c3[x] == (if x == p.0 { MemoryCell::Value(p.1) } else { MemoryCell::Backref(p.0) }) by {}
    }
    if let Some(p) = ph1 {
        assert forall|x: u64| w <= x < hi implies c3.contains_key(x) && #[trigger] c3[x] == (if x == w { MemoryCell::Value(p.1) } else { MemoryCell::Backref(w) }) by {}
    }
    assert forall|y: u64| #[trigger] inv_val(c3, y) by {
        assert(inv_val(c0, y));
    }
    assert forall|x: u64| #[trigger] inv_ref(c3, x) by {
        assert(inv_ref(c0, x));
        if !(lo <= x < hi) && c0.contains_key(x) && c0[x] is Backref {
            let y = c0[x]->Backref_0;
            // the referenced value lies outside the changed region: otherwise it would end before x
            assert(end_of(c0, y) > x);
            if y < lo { assert(end_of(c0, y) <= lo); }
            if lo <= y < hi { assert(end_of(c0, y) <= hi); }
        }
    }
    assert forall|y: u64, x: u64| #[trigger] inv_cov(c3, y, x) by {
        if is_val(c3, y) && y < x < end_of(c3, y) {
            if lo <= y < hi {
                // one of the three new values
            } else {
                assert(inv_cov(c0, y, x));
                assert(inv_val(c0, y));
                if y < lo { assert(end_of(c0, y) <= lo); }
            }
        }
    }
    assert forall|x: u64| #[trigger] own_at(e, c3, x) == (if a <= x < a + vlen(value) { Some(vbyte(e, value, x - a)) } else { own_at(e, c0, x) }) by {
        if a <= x < w {
        } else if lo <= x < a {
            let p = ph2->Some_0;
            assert(vbyte(e, p.1, x - p.0) == vbyte(e, p.1, x - p.0));
            assert(own_at(e, c0, (p.0 + (x - p.0)) as u64) == Some(vbyte(e, p.1, x - p.0)));
        } else if w <= x < hi {
            let p = ph1->Some_0;
            assert(own_at(e, c0, (w + (x - w)) as u64) == Some(vbyte(e, p.1, x - w)));
        } else {
            assert(inv_ref(c0, x));
            if c0.contains_key(x) && c0[x] is Backref {
                let y = c0[x]->Backref_0;
                if y < lo { assert(end_of(c0, y) <= lo); }
                if lo <= y < hi { assert(end_of(c0, y) <= hi); }
            }
        }
    }
}

/// the map form of the view postcondition: the whole own-byte map is the old one overridden on the range
pub proof fn lemma_own_map_override<V: Value>(e: Endian, c0: Cells<V>, c3: Cells<V>, a: u64, value: V)
    requires
        forall|x: u64| #[trigger] own_at(e, c3, x) == (if a <= x < a + vlen(value) { Some(vbyte(e, value, x - a)) } else { own_at(e, c0, x) }),
    ensures own_map_of(e, c3) == override_bytes(own_map_of(e, c0), a, e, value),
{
    let m1 = own_map_of(e, c3);
    let m2 = override_bytes(own_map_of(e, c0), a, e, value);
    assert forall|x: u64| m1.contains_key(x) == m2.contains_key(x) && (m1.contains_key(x) ==> m1[x] == m2[x]) by {
        assert(own_at(e, c3, x) == (if a <= x < a + vlen(value) { Some(vbyte(e, value, x - a)) } else { own_at(e, c0, x) }));
    }
    assert(m1 =~= m2);
}

impl<V> Memory<V>
where
    V: Value,
{
//@ source lib/memory/paged.rs
//@ fn impl<V> Memory<V> :: fn store
//@ attr #[verifier::spinoff_prover]
//@ spec
    requires
        old(self).wf(),
        value.vwf(),
        // finding (iv): `address + bytes` is computed in u64; the write must end at or before the last address
        (value.vbits() % 8 == 0 && value.vbits() != 0) ==> address + vlen(value) <= u64::MAX,
    ensures
        /*@err*/ (value.vbits() % 8 != 0 || value.vbits() == 0) ==> r is Err && *final(self) == *old(self),
        /*@ok*/ (value.vbits() % 8 == 0 && value.vbits() != 0) ==> r is Ok,
        /*@wf*/ final(self).wf(),
        /*@view*/ (value.vbits() % 8 == 0 && value.vbits() != 0) ==> forall|x: u64| #[trigger] final(self).own(x) == (
            if address <= x < address + vlen(value) { Some(vbyte(old(self).endian, value, x - address)) } else { old(self).own(x) }),
        /*@view_map*/ (value.vbits() % 8 == 0 && value.vbits() != 0) ==>
            final(self).own_map() == override_bytes(old(self).own_map(), address, old(self).endian, value),
        /*@frame*/ final(self).endian == old(self).endian && final(self).backing == old(self).backing,
        /*@perm*/ forall|x: u64| (#[trigger] final(self).perm(x)) == old(self).perm(x),
//@ enter
    let ghost ge = self.endian;
    let ghost gbk = self.bk();
    let ghost c0 = self.cells();
    let ghost mut ph1: Option<(u64, V)> = None;
    let ghost mut ph2: Option<(u64, V)> = None;
//@ before 0 `let address_after_write`
    proof { value.lemma_value_laws(); }
//@ before 0 `let value_to_write = if let Some(MemoryCell::Backref(backref_address)) = self.load_cell(`
    proof {
        if c0.contains_key(address_after_write) && c0[address_after_write] is Backref {
            lemma_store_tail_pre(ge, c0, gbk, address_after_write);
        }
    }
//@ before 0 `if let Some(value_to_write) = value_to_write`
    proof {
        if value_to_write is Some {
            let t1 = value_to_write->Some_0;
            let b1 = c0[address_after_write]->Backref_0;
            lemma_reads_own(ge, c0, gbk, address_after_write, t1);
            ph1 = Some((b1, t1));
        }
        assert(tail_ok(ge, c0, address_after_write, ph1));
    }
//@ before 1 `let value_to_write = if let Some(MemoryCell::Backref(backref_address)) = self.load_cell(`
    let ghost c1 = self.cells();
    proof {
        assert(c1.contains_key(address) == c0.contains_key(address) && (c0.contains_key(address) ==> c1[address] == c0[address]));
        if c0.contains_key(address) && c0[address] is Backref {
            lemma_store_mid(ge, c0, gbk, address, address_after_write, ph1, c1);
        }
    }
//@ before 1 `if let Some(value_to_write) = value_to_write`
    proof {
        if value_to_write is Some {
            let b2 = value_to_write->Some_0.0;
            let t2 = value_to_write->Some_0.1->Some_0;
            lemma_reads_own(ge, c1, gbk, b2, t2);
            ph2 = Some((b2, t2));
        }
        assert(head_ok(ge, c0, address, ph2));
    }
//@ before 0 `Ok(())`
    proof {
        if tail_ok(ge, c0, address_after_write, ph1) && head_ok(ge, c0, address, ph2) && self.cells() == store_cells(c0, address, value, ph1, ph2) {
            lemma_store_final(ge, c0, address, value, ph1, ph2, self.cells());
            lemma_own_map_override(ge, c0, self.cells(), address, value);
        }
    }
//@ end
}
