// ======================================================================================
// units/C08/paged_load.rs — Memory::load under contract, with the lemmas that read a value's
// bytes off the cell map ("window" of a stored value, byte-by-byte accumulation of the fallback).
// ======================================================================================

/// le-bytes relation that makes lv the window [off, off + |lv|) of v in endianness e:
/// lv's little-endian byte j is v's little-endian byte j + k, where k is off (little endian) or
/// |v| - off - |lv| (big endian: address order is the reverse of significance order)
pub proof fn lemma_window<V: Value>(e: Endian, v: V, lv: V, off: int, k: int)
    requires
        v.vwf(), lv.vwf(),
        0 <= off, off + vlen(lv) <= vlen(v),
        e is Little ==> k == off,
        e is Big ==> k == vlen(v) - off - vlen(lv),
        forall|j: int| 0 <= j < vlen(lv) ==> #[trigger] lv.le_bytes()[j] == v.le_bytes()[j + k],
    ensures window(e, v, lv, off),
{
    v.lemma_value_laws();
    lv.lemma_value_laws();
    let m = vlen(lv) as int;
    assert forall|i: int| 0 <= i < vlen(lv) implies #[trigger] vbyte(e, lv, i) == vbyte(e, v, off + i) by {
        match e {
            Endian::Little => { assert(lv.le_bytes()[i] == v.le_bytes()[i + k]); },
            Endian::Big => { assert(lv.le_bytes()[m - 1 - i] == v.le_bytes()[m - 1 - i + k]); },
        }
    }
}

/// a window of the value stored at b, starting at address, reads the memory's own bytes there
pub proof fn lemma_window_reads<V: Value>(e: Endian, c: Cells<V>, bk: Option<SecMap>, b: u64, address: u64, lv: V)
    requires
        inv_val(c, b), is_val(c, b), b <= address,
        window(e, val_at(c, b), lv, address - b),
        cells_cov_on(c, address as int, address + vlen(lv)),
    ensures reads(e, c, bk, address, lv),
{
    let v = val_at(c, b);
    let off = address - b;
    assert forall|i: int| 0 <= i < vlen(lv) implies #[trigger] full_at(e, c, bk, address + i) == Some(vbyte(e, lv, i)) by {
        let x = (address + i) as u64;
        assert(vbyte(e, lv, i) == vbyte(e, v, off + i));
        if x != b {
            assert(inv_cov(c, b, x));
        }
    }
}

/// a single byte taken from the backing where the memory holds no cell
pub proof fn lemma_backing_reads<V: Value>(e: Endian, c: Cells<V>, bk: Option<SecMap>, address: u64, lv: V, b: u8)
    requires
        !c.contains_key(address), bk_at(bk, address as int) == Some(b),
        val_ok(lv), lv.vbits() == 8, lv.le_bytes() == seq![b],
    ensures reads(e, c, bk, address, lv),
{
    assert forall|i: int| 0 <= i < vlen(lv) implies #[trigger] full_at(e, c, bk, address + i) == Some(vbyte(e, lv, i)) by {
        assert(i == 0);
        assert(lv.le_bytes()[0] == b);
    }
}

/// a present byte lies below the last address 2^64 - 1 (no cell and no section reaches it)
pub proof fn lemma_present_below_max<V: Value>(e: Endian, c: Cells<V>, bk: Option<SecMap>, x: int)
    requires
        cells_base(c),
        bk matches Some(s) ==> crate::memory::backing::sections_wf(s),
        full_at(e, c, bk, x) is Some,
    ensures 0 <= x < u64::MAX,
{
    if own_at(e, c, x as u64) is Some {
        let xu = x as u64;
        assert(inv_val(c, xu));
        assert(inv_ref(c, xu));
        if c[xu] is Backref {
            assert(inv_val(c, c[xu]->Backref_0));
        }
    } else {
        crate::memory::backing::lemma_vw_range(bk->Some_0, x);
    }
}

/// address offset of little-endian byte j of an n-byte value
pub open spec fn apos(e: Endian, n: int, j: int) -> int {
    match e { Endian::Little => j, Endian::Big => n - 1 - j }
}

/// r accumulates the first k bytes of [address, address + n): the others are still zero
pub open spec fn acc<V: Value>(e: Endian, c: Cells<V>, bk: Option<SecMap>, address: u64, n: int, r: V, k: int) -> bool {
    forall|j: int| 0 <= j < n ==> #[trigger] r.le_bytes()[j] == (
        if apos(e, n, j) < k { full_at(e, c, bk, address + apos(e, n, j)).unwrap() } else { 0u8 })
}

/// what one round of the single-byte fallback computes: b8 is the byte at address + k, z its zero
/// extension to n bytes, s that shifted to the byte's position, new_r the accumulator or-ed with s
pub open spec fn acc_step_pre<V: Value>(e: Endian, c: Cells<V>, bk: Option<SecMap>, address: u64, n: int, k: int,
    old_r: Option<V>, b8: V, z: V, s: V, new_r: V) -> bool {
    &&& 0 <= k < n
    &&& val_ok(b8) && b8.vbits() == 8 && reads(e, c, bk, (address + k) as u64, b8) && address + k <= u64::MAX
    &&& z.vwf() && z.vbits() == 8 * n && z.le_bytes() == zext_bytes(b8.le_bytes(), n as nat)
    &&& s.vwf() && s.vbits() == 8 * n && s.le_bytes() == shl_bytes(z.le_bytes(), apos(e, n, k) as nat)
    &&& new_r.vwf() && new_r.vbits() == 8 * n
    &&& old_r is None ==> k == 0 && new_r == s
    &&& old_r matches Some(r) ==> r.vwf() && r.vbits() == 8 * n && acc(e, c, bk, address, n, r, k) && or_bytes_ok(r.le_bytes(), s.le_bytes(), new_r.le_bytes())
}

/// one round of the single-byte fallback: zero-extend the byte, shift it into place, or it in
pub proof fn lemma_acc_step<V: Value>(e: Endian, c: Cells<V>, bk: Option<SecMap>, address: u64, n: int, k: int,
    old_r: Option<V>, b8: V, z: V, s: V, new_r: V)
    requires acc_step_pre(e, c, bk, address, n, k, old_r, b8, z, s, new_r),
    ensures acc(e, c, bk, address, n, new_r, k + 1),
{
    b8.lemma_value_laws();
    z.lemma_value_laws();
    s.lemma_value_laws();
    new_r.lemma_value_laws();
    let p = apos(e, n, k);
    let byte = b8.le_bytes()[0];
    assert(full_at(e, c, bk, (address + k) as u64 + 0) == Some(vbyte(e, b8, 0)));
    assert(vbyte(e, b8, 0) == byte);
    assert(z.le_bytes()[0] == byte);
    assert forall|j: int| 0 <= j < n implies #[trigger] s.le_bytes()[j] == (if j == p { byte } else { 0u8 }) by {
        if j >= p { assert(z.le_bytes()[j - p] == (if j - p < 1 { b8.le_bytes()[j - p] } else { 0u8 })); }
    }
    assert forall|j: int| 0 <= j < n implies #[trigger] new_r.le_bytes()[j] == (
        if apos(e, n, j) < k + 1 { full_at(e, c, bk, address + apos(e, n, j)).unwrap() } else { 0u8 }) by {
        assert(apos(e, n, j) == k <==> j == p);
        match old_r {
            Some(r) => {
                r.lemma_value_laws();
                assert(r.le_bytes()[j] == (if apos(e, n, j) < k { full_at(e, c, bk, address + apos(e, n, j)).unwrap() } else { 0u8 }));
                assert(s.le_bytes()[j] == (if j == p { byte } else { 0u8 }));
            },
            None => {
                assert(s.le_bytes()[j] == (if j == p { byte } else { 0u8 }));
            },
        }
    }
}

/// all n bytes accumulated: the value reads [address, address + n)
pub proof fn lemma_acc_done<V: Value>(e: Endian, c: Cells<V>, bk: Option<SecMap>, address: u64, n: int, r: V)
    requires
        r.vwf(), r.vbits() == 8 * n, n >= 1,
        acc(e, c, bk, address, n, r, n),
        forall|i: int| 0 <= i < n ==> (#[trigger] full_at(e, c, bk, address + i)) is Some,
    ensures reads(e, c, bk, address, r), all_present(e, c, bk, address, n as nat),
{
    r.lemma_value_laws();
    assert forall|i: int| 0 <= i < vlen(r) implies #[trigger] full_at(e, c, bk, address + i) == Some(vbyte(e, r, i)) by {
        let j = apos(e, n, i);
        assert(apos(e, n, j) == i);
        assert(r.le_bytes()[j] == full_at(e, c, bk, address + apos(e, n, j)).unwrap());
    }
}

impl<V> Memory<V>
where
    V: Value,
{
//@ source lib/memory/paged.rs
//@ fn impl<V> Memory<V> :: fn load loops=1
//@ attr #[verifier::spinoff_prover]
//@ closure 0 |e: Error| -> (r0: Error)
    requires forall|f: std::fmt::Formatter<'_>| #[trigger] value.fmt_req(&f),
//@ closure 1 |e: Error| -> (r1: Error)
    requires forall|f: std::fmt::Formatter<'_>| #[trigger] value.fmt_req(&f),
//@ closure 2 |e: Error| -> (r2: Error)
//@ spec
    requires
        self.pre_load(address, bits as nat / 8),
        bits as nat <= MAX_BITS(),   // width bound under which unit C04 proves il::Constant
    ensures
        /*@err*/ (bits == 0 || bits % 8 != 0) ==> r is Err,
        /*@value*/ (bits != 0 && bits % 8 == 0 && all_present(self.endian, self.cells(), self.bk(), address, bits as nat / 8)) ==>
            (r matches Ok(Some(v)) && val_ok(v) && v.vbits() == bits as nat && reads(self.endian, self.cells(), self.bk(), address, v)),
        /*@absent*/ (bits != 0 && bits % 8 == 0 && !all_present(self.endian, self.cells(), self.bk(), address, bits as nat / 8)) ==>
            r matches Ok(None),
    decreases bits,
//@ enter
    broadcast use rc_cow::axiom_ref_debug;
    let ghost ge = self.endian;
    let ghost gc = self.cells();
    let ghost gbk = self.bk();
    let ghost gn = bits as int / 8;
    let ghost mut g_b: u64 = 0;
    let ghost mut g_t: Option<V> = None;
//@ before 0 `let load_value = if let Some(cell) = self.load_cell(address)`
    proof {
        assert(inv_val(gc, address));
        assert(inv_ref(gc, address));
        if gc.contains_key(address) && gc[address] is Backref {
            assert(inv_val(gc, gc[address]->Backref_0));
        }
    }
//@ before 0 `let value = match self.endian`
    proof {
        g_b = backref_address;
        value.lemma_debug_law();
        value.lemma_value_laws();
    }
    let ghost bv = *value;
//@ before 0 `if value.bits() > bits`
    proof {
        // `value` is now the part of the referenced value `bv` from `address` to its end, or the first gn bytes of that part
        value.lemma_value_laws();
        let off = address - g_b;
        let k = match ge { Endian::Little => off, Endian::Big => vlen(bv) - off - vlen(value) };
        assert forall|j: int| 0 <= j < vlen(value) implies #[trigger] value.le_bytes()[j] == bv.le_bytes()[j + k] by {}
        lemma_window(ge, bv, value, off, k);
        g_t = Some(value);
    }
//@ before 0 `if load_value.bits() == bits`
    proof {
        if gc.contains_key(address) {
            match gc[address] {
                MemoryCell::Value(v) => {
                    v.lemma_value_laws();
                    if v.vbits() <= bits {
                        V::lemma_clone_law(v, load_value);
                    }
                    let k = match ge { Endian::Little => 0int, Endian::Big => vlen(v) - vlen(load_value) };
                    assert forall|j: int| 0 <= j < vlen(load_value) implies #[trigger] load_value.le_bytes()[j] == v.le_bytes()[j + k] by {}
                    lemma_window(ge, v, load_value, 0, k);
                    lemma_window_reads(ge, gc, gbk, address, address, load_value);
                },
                MemoryCell::Backref(b) => {
                    let t = g_t->Some_0;
                    let v = val_at(gc, b);
                    assert(g_b == b && window(ge, v, t, address - b));
                    if t.vbits() > bits {
                        // only on the little-endian path: the low bytes are the first bytes in address order
                        assert(ge is Little);
                        assert forall|i: int| 0 <= i < vlen(load_value) implies #[trigger] vbyte(ge, load_value, i) == vbyte(ge, v, address - b + i) by {
                            assert(vbyte(ge, t, i) == vbyte(ge, v, address - b + i));
                        }
                    }
                    assert(window(ge, v, load_value, address - b));
                    lemma_window_reads(ge, gc, gbk, b, address, load_value);
                },
            }
        } else {
            lemma_backing_reads(ge, gc, gbk, address, load_value, bk_at(gbk, address as int)->Some_0);
        }
        load_value.lemma_value_laws();
        assert(val_ok(load_value) && load_value.vbits() <= bits && reads(ge, gc, gbk, address, load_value));
        if load_value.vbits() == bits {
            assert forall|i: int| 0 <= i < gn implies (#[trigger] full_at(ge, gc, gbk, address + i)) is Some by {
                assert(full_at(ge, gc, gbk, address + i) == Some(vbyte(ge, load_value, i)));
            }
        }
    }
//@ before 0 `match self.load_backing(address) {`
    proof {
        if bk_at(gbk, address as int) is None { assert(full_at(ge, gc, gbk, address + 0) is None); }
    }
//@ loop 0
    invariant
        /*@ctx*/ self.pre_load(address, bits as nat / 8) && ge == self.endian && gc == self.cells() && gbk == self.bk() && gn == bits as int / 8
            && bytes == gn && bits % 8 == 0 && 16 <= bits && bits as nat <= MAX_BITS(),
        /*@present*/ forall|i: int| 0 <= i < offset ==> (#[trigger] full_at(ge, gc, gbk, address + i)) is Some,
        /*@acc*/ offset == 0 ==> result is None,
        /*@acc2*/ offset > 0 ==> (result matches Some(r) && r.vwf() && r.vbits() == bits as nat && acc(ge, gc, gbk, address, gn, r, offset as int)),
//@ before 0 `let value = match self.load(address + offset, 8)?`
    proof {
        if offset > 0 {
            assert(full_at(ge, gc, gbk, address + (offset - 1)) is Some);
            lemma_present_below_max(ge, gc, gbk, address + (offset - 1));
        }
        assert(cells_cov_on(gc, (address + offset) as int, address + offset + 1));
    }
//@ before 0 `let value = value.zext(bits)?;`
    let ghost g_b8 = value;
    proof {
        if !all_present(ge, gc, gbk, (address + offset) as u64, 1) {
            // the recursive load said None and so did the backing: unreachable
            assert(full_at(ge, gc, gbk, (address + offset) as u64 + 0) is None);
        }
        assert(reads(ge, gc, gbk, (address + offset) as u64, value));
    }
//@ before 0 `let shift = match self.endian`
    let ghost g_z = value;
//@ before 0 `result = match result`
    let ghost g_s = value;
    let ghost old_result = result;
//@ after 0 `None => Some(value), };`
    proof {
        if acc_step_pre(ge, gc, gbk, address, gn, offset as int, old_result, g_b8, g_z, g_s, result->Some_0) {
            lemma_acc_step(ge, gc, gbk, address, gn, offset as int, old_result, g_b8, g_z, g_s, result->Some_0);
        }
        assert(full_at(ge, gc, gbk, (address + offset) as u64 + 0) is Some);
    }
//@ before 0 `Ok(result)`
    proof {
        lemma_acc_done(ge, gc, gbk, address, gn, result->Some_0);
    }
//@ end
}
