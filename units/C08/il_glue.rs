// ---- il glue for unit C08 (template text + one extracted conversion) ------------------------------
// `Constant -> Expression` conversion used by `impl Value for il::Constant` (`self.clone().into()`).
impl vstd::std_specs::convert::FromSpecImpl<Constant> for Expression {
    open spec fn obeys_from_spec() -> bool { true }
    open spec fn from_spec(c: Constant) -> Expression { Expression::Constant(c) }
}
//@ source lib/il/expression.rs
impl From<Constant> for Expression {
//@ fn impl From<Constant> for Expression :: fn from nopub
//@ spec
    ensures /*@wrap*/ r == Expression::Constant(constant),
//@ end
}

// derive(PartialEq), derive(Eq), derive(Debug) of il::Constant { value: BigUint, bits: usize }:
// compiler-generated structural equality (`bits == bits && value == value`; BigUint equality is equality
// of the mathematical value, prelude/bigint.rs).  With axiom_biguint_ext this is spec equality.
impl vstd::std_specs::cmp::PartialEqSpecImpl for Constant {
    open spec fn obeys_eq_spec() -> bool { true }
    open spec fn eq_spec(&self, other: &Constant) -> bool { self.bits == other.bits && self.value@ == other.value@ }
}
impl PartialEq for Constant {
    #[verifier::external_body]
    fn eq(&self, other: &Constant) -> (r: bool) ensures r == (self.bits == other.bits && self.value@ == other.value@) { unimplemented!() }
}
impl Eq for Constant {}
impl vstd::std_specs::fmt::DebugSpecImpl for Constant {
    open spec fn fmt_req(&self, f: &std::fmt::Formatter<'_>) -> bool { true }
}
impl std::fmt::Debug for Constant {
    #[verifier::external_body]
    fn fmt(&self, f: &mut std::fmt::Formatter<'_>) -> std::fmt::Result { unimplemented!() }
}
