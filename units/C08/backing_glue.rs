// ---- backing glue for unit C08 (template text) ---------------------------------------------------
// derive(PartialEq), derive(Eq) of backing::Memory { endian, sections: BTreeMap<u64, Section> } and of
// Section { data: Vec<u8>, permissions }: compiler-generated structural equality — same endianness, same
// section keys, and per key the same bytes and the same permissions (MemoryPermissions compares its bits).
pub open spec fn secmap_eq(sa: SecMap, sb: SecMap) -> bool {
    &&& sa.dom() =~= sb.dom()
    &&& forall|k: u64| #[trigger] sa.contains_key(k) ==>
            sa[k].data@ == sb[k].data@ && sa[k].permissions.bits == sb[k].permissions.bits
}
pub open spec fn backing_eq(a: Memory, b: Memory) -> bool {
    a.endian == b.endian && secmap_eq(a.sections@, b.sections@)
}
impl vstd::std_specs::cmp::PartialEqSpecImpl for Memory {
    open spec fn obeys_eq_spec() -> bool { true }
    open spec fn eq_spec(&self, other: &Memory) -> bool { backing_eq(*self, *other) }
}
impl PartialEq for Memory {
    #[verifier::external_body]
    fn eq(&self, other: &Memory) -> (r: bool) ensures r == backing_eq(*self, *other) { unimplemented!() }
}
impl Eq for Memory {}

/// equal backings have the same content at every address
pub proof fn lemma_backing_eq_view(sa: SecMap, sb: SecMap)
    requires secmap_eq(sa, sb), sections_wf(sb),
    ensures forall|x: int| (#[trigger] vw(sa, x)) == vw(sb, x),
{
    assert forall|x: int| (#[trigger] vw(sa, x)) == vw(sb, x) by {
        lemma_vw_inv(sa, x);
        if vw(sa, x) is Some {
            let k = choose|k: u64| covers(sa, k, x) && vw(sa, x) == Some((sa[k].data@[x - k], sa[k].permissions));
            assert(sa.contains_key(k));
            assert(sb.contains_key(k));
            assert(covers(sb, k, x));
            lemma_vw_some(sb, k, x);
        } else {
            assert forall|k: u64| !covers(sb, k, x) by {
                if covers(sb, k, x) {
                    assert(sb.dom().contains(k));
                    assert(sa.contains_key(k));
                    assert(covers(sa, k, x));
                }
            }
            lemma_vw_none(sb, x);
        }
    }
}
