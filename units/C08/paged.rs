// ======================================================================================
// units/C08/paged.rs — lib/memory/paged.rs under contract: MemoryCell, Page, Memory (everything
// except `load` and `store`, which are in paged_load.rs / paged_store.rs).
// Specifications are in units/C08/paged_spec.rs.
// ======================================================================================
//@ source lib/memory/paged.rs
//@ item const PAGE_SIZE
//@ item const PAGE_MASK
//@ item enum MemoryCell
//@ itemx struct Page
//@ rewrite 1 `pub(crate) cells` => `pub cells` ## R-vis: field visibility widened (the automatic rule only adds `pub` to private fields); needed because Verus treats a datatype with a crate-visible field as opaque in `pub open spec fn`s; no executable change
//@ end
//@ itemx struct Memory
//@ rewrite 1 `pub(crate) pages` => `pub pages` ## R-vis: field visibility widened (see Page); no executable change
//@ end

/// "`==` on V decides equality of values" (trait law of Value, see lemma_eq_law)
pub open spec fn value_eq_law<V: Value>() -> bool {
    V::obeys_eq_spec() && forall|a: V, b: V| #[trigger] a.eq_spec(&b) == (a == b)
}

/// "`clone` on V yields an equal value" (trait law of Value, see lemma_clone_law)
pub open spec fn value_clone_law<V: Value>() -> bool {
    forall|a: V, b: V| #[trigger] cloned(a, b) ==> a == b
}

pub proof fn lemma_value_laws_hold<V: Value>()
    ensures value_eq_law::<V>(), value_clone_law::<V>(),
{
    assert forall|a: V, b: V| #[trigger] a.eq_spec(&b) == (a == b) by { V::lemma_eq_law(a, b); }
    assert forall|a: V, b: V| #[trigger] cloned(a, b) implies a == b by { V::lemma_clone_law(a, b); }
    V::lemma_obeys_eq_law();
}

// derive(Clone) of Page<V> { cells: Vec<Option<MemoryCell<V>>>, permissions: Option<MemoryPermissions> }:
// compiler-generated structural copy (Vec::clone clones every element; an element is None, a Backref
// address, or a V cloned with V::clone); equal to the original whenever V::clone yields equal values.
impl<V: Value> Clone for Page<V> {
    #[verifier::external_body]
    fn clone(&self) -> (r: Page<V>)
        ensures value_clone_law::<V>() ==> r.cells@ == self.cells@ && r.permissions == self.permissions,
    { unimplemented!() }
}

// derive(PartialEq) of Page<V>: compiler-generated structural equality (`cells == cells &&
// permissions == permissions`; Vec equality is length + element-wise equality, an element compares
// with V's `==` at the leaves); equality of the two views whenever V's `==` decides equality.
impl<V: Value> vstd::std_specs::cmp::PartialEqSpecImpl for Page<V> {
    open spec fn obeys_eq_spec() -> bool { value_eq_law::<V>() }
    open spec fn eq_spec(&self, other: &Page<V>) -> bool { self.cells@ == other.cells@ && self.permissions == other.permissions }
}
impl<V: Value> PartialEq for Page<V> {
    #[verifier::external_body]
    fn eq(&self, other: &Page<V>) -> (r: bool)
        ensures value_eq_law::<V>() ==> r == (self.cells@ == other.cells@ && self.permissions == other.permissions),
    { unimplemented!() }
}

// derive(Clone) of Memory<V> { backing: Option<RC<backing::Memory>>, endian, pages: HashMap<u64, RC<Page<V>>> }:
// compiler-generated structural copy.  `Rc::clone` yields a handle to the SAME allocation (equal value),
// HashMap::clone copies every (key, handle) pair, Endian is a field-less enum.
impl<V: Value> Clone for Memory<V> {
    #[verifier::external_body]
    fn clone(&self) -> (r: Memory<V>)
        ensures r.backing == self.backing, r.endian == self.endian, r.pages@ == self.pages@,
    { unimplemented!() }
}

impl<V> MemoryCell<V>
where
    V: Value,
{
//@ fn impl<V> MemoryCell<V> :: fn value
//@ spec
    ensures
        /*@value*/ *self is Value ==> r == Some(&self->Value_0),
        /*@backref*/ *self is Backref ==> r is None,
//@ end
}

impl<V> Page<V>
where
    V: Value,
{
//@ fn impl<V> Page<V> :: fn new
//@ rewrite 1 `for _ in` => `for _ in it0:` ## R-ghost-iter-name: names the ghost iterator of the for loop so that the invariant can mention it; no executable change
//@ spec
    ensures
        /*@len*/ r.cells@.len() == size,
        /*@empty*/ forall|i: int| 0 <= i < size ==> (#[trigger] r.cells@[i]) is None,
        /*@no_perm*/ r.permissions is None,
//@ loop 0
    invariant
        /*@len*/ v@.len() == it0.index@,
        /*@empty*/ forall|i: int| 0 <= i < v@.len() ==> (#[trigger] v@[i]) is None,
//@ end

//@ fn impl<V> Page<V> :: fn store
//@ spec
    requires offset < old(self).cells@.len(),
    ensures
        /*@cells*/ final(self).cells@ == old(self).cells@.update(offset as int, Some(cell)),
        /*@perm*/ final(self).permissions == old(self).permissions,
//@ end

//@ fn impl<V> Page<V> :: fn load
//@ spec
    requires offset < self.cells@.len(),
    ensures
        /*@some*/ self.cells@[offset as int] is Some ==> r == Some(&self.cells@[offset as int]->Some_0),
        /*@none*/ self.cells@[offset as int] is None ==> r is None,
//@ end

//@ fn impl<V> Page<V> :: fn permissions
//@ spec
    ensures
        /*@some*/ self.permissions is Some ==> r == Some(&self.permissions->Some_0),
        /*@none*/ self.permissions is None ==> r is None,
//@ end

//@ fn impl<V> Page<V> :: fn set_permissions
//@ spec
    ensures
        /*@perm*/ final(self).permissions == permissions,
        /*@cells*/ final(self).cells == old(self).cells,
//@ end

//@ fn impl<V> Page<V> :: fn cells
//@ spec
    ensures /*@same*/ r@ == self.cells@,
//@ end
}

// ---- specification vocabulary of Memory<V> ----------------------------------------------------------
impl<V: Value> Memory<V> {
    /// the cell map
    pub open spec fn cells(&self) -> Cells<V> { cells_of(self.pages@) }

    /// the backing's section map, if there is a backing
    pub open spec fn bk(&self) -> Option<SecMap> {
        match self.backing { Some(b) => Some(b.sections@), None => None }
    }

    /// the backing satisfies unit C16's data invariant
    pub open spec fn bk_wf(&self) -> bool { self.backing matches Some(b) ==> b.wf() }

    /// representation invariant of paged::Memory
    pub open spec fn wf(&self) -> bool {
        pages_wf(self.pages@) && cells_wf(self.cells()) && self.bk_wf()
    }

    /// what `load(address, 8 * n)` needs: the invariant, with coverage only on the range read
    pub open spec fn pre_load(&self, address: u64, n: nat) -> bool {
        pages_wf(self.pages@) && cells_base(self.cells()) && cells_cov_on(self.cells(), address as int, address + n) && self.bk_wf()
    }

    /// the byte this memory itself holds at x
    pub open spec fn own(&self, x: u64) -> Option<u8> { own_at(self.endian, self.cells(), x) }

    /// the own bytes as a map (address -> byte; absent = never stored)
    pub open spec fn own_map(&self) -> IMap<u64, u8> { own_map_of(self.endian, self.cells()) }

    /// the layered content at x: own byte, else the backing's
    pub open spec fn full(&self, x: int) -> Option<u8> { full_at(self.endian, self.cells(), self.bk(), x) }

    /// the permissions reported for x: the page's if it has some, else the backing's
    pub open spec fn perm(&self, x: u64) -> Option<MemoryPermissions> {
        match page_perm(self.pages@, page_base(x)) { Some(p) => Some(p), None => bk_perm(self.bk(), x as int) }
    }
}

impl<V> Memory<V>
where
    V: Value,
{
//@ fn impl<V> Memory<V> :: fn new
//@ spec
    ensures
        /*@wf*/ r.wf(),
        /*@endian*/ r.endian == endian,
        /*@no_backing*/ r.backing is None,
        /*@empty*/ forall|x: int| (#[trigger] r.full(x)) is None,
        /*@no_perm*/ forall|x: u64| (#[trigger] r.perm(x)) is None,
//@ before 0 `Memory {`
    proof { reveal(cells_of); }
//@ end

//@ fn impl<V> Memory<V> :: fn endian
//@ spec
    ensures /*@same*/ r == self.endian,
//@ end

//@ fn impl<V> Memory<V> :: fn new_with_backing
//@ spec
    requires backing.wf(),
    ensures
        /*@wf*/ r.wf(),
        /*@endian*/ r.endian == endian,
        /*@backing*/ r.backing == Some(backing),
        /*@backed*/ forall|x: int| #[trigger] r.full(x) == bk_at(Some(backing.sections@), x),
        /*@perm*/ forall|x: u64| #[trigger] r.perm(x) == bk_perm(Some(backing.sections@), x as int),
//@ before 0 `Memory {`
    proof {
        reveal(cells_of);
        assert forall|x: int| !(0 <= x <= u64::MAX) implies bk_at(Some(backing.sections@), x) is None by {
            crate::memory::backing::lemma_vw_range(backing.sections@, x);
        }
    }
//@ end

//@ fn impl<V> Memory<V> :: fn permissions
//@ closure 0 |page: &RC<Page<V>>| -> (r0: Option<MemoryPermissions>)
    ensures r0 == page.permissions,
//@ closure 1 || -> (r1: Option<MemoryPermissions>)
    requires self.bk_wf(),
    ensures r1 == bk_perm(self.bk(), address as int),
//@ closure 2 |backing: RC<backing::Memory>| -> (r2: Option<MemoryPermissions>)
    requires backing.wf(),
    ensures r2 == bk_perm(Some(backing.sections@), address as int),
//@ spec
    requires self.wf(),
    ensures /*@read*/ r == self.perm(address),
//@ enter
    proof { lemma_page_bits(address); }
//@ end

//@ fn impl<V> Memory<V> :: fn set_permissions
//@ attr #[verifier::loop_isolation(false)]
//@ rewrite 1 `RC::make_mut(` => `rc_cow::rc_make_mut(` ## R-std-standin: Rc::make_mut replaced by the stand-in of prelude/rc_cow.rs (same argument; the stand-in's body calls the real `Rc::make_mut`)
//@ rewrite 1 `self.pages .entry(page_address) .or_insert_with(` => `rc_cow::entry_or_insert_with(&mut self.pages, page_address, ` ## R-std-standin: `MAP.entry(K).or_insert_with(F)` replaced by the stand-in of prelude/rc_cow.rs (same map, key and closure; the stand-in's body calls the real `entry` / `or_insert_with`)
//@ closure 0 || -> (r0: RC<Page<V>>)
    ensures r0.cells@.len() == 1024, forall|i: int| 0 <= i < 1024 ==> (#[trigger] r0.cells@[i]) is None, r0.permissions is None,
//@ spec
    requires
        old(self).wf(),
        address + len <= u64::MAX - 1023,   // finding (iv): the range must end before the last page (address arithmetic would wrap)
    ensures
        /*@wf*/ final(self).wf(),
        /*@frame*/ final(self).endian == old(self).endian && final(self).backing == old(self).backing && final(self).cells() == old(self).cells(),
        /*@set*/ forall|x: u64| address <= x < address + len ==> #[trigger] final(self).perm(x) == Some(permissions),
        /*@view*/ forall|x: u64| #[trigger] final(self).perm(x) == (
            if page_base(address) <= x && page_base(x) < address + len { Some(permissions) } else { old(self).perm(x) }),
//@ enter
    proof { lemma_page_bits(address); lemma_value_laws_hold::<V>(); }
//@ loop 0
    invariant
        /*@ctx*/ address + len <= u64::MAX - 1023 && page_address % 1024 == 0 && page_base(address) <= page_address && page_address <= address + len + 1023,
        /*@wf*/ self.wf(),
        /*@frame*/ self.endian == old(self).endian && self.backing == old(self).backing && self.cells() == old(self).cells(),
        /*@done*/ forall|k: u64| #[trigger] page_perm(self.pages@, k) == (
            if k % 1024 == 0 && page_base(address) <= k < page_address { Some(permissions) } else { page_perm(old(self).pages@, k) }),
    decreases address + len + 1024 - page_address,
//@ before 0 `rc_cow::rc_make_mut(`
    let ghost pages0 = self.pages@;
//@ before 0 `page_address += PAGE_SIZE as u64;`
    proof {
        let p1 = self.pages@[page_address];
        assert(self.pages@ =~= pages0.insert(page_address, p1));
        lemma_cells_same_page(pages0, page_address, p1);
        assert forall|k: u64| #[trigger] page_perm(self.pages@, k) == (if k == page_address { Some(permissions) } else { page_perm(pages0, k) }) by {}
    }
//@ end

//@ fn impl<V> Memory<V> :: fn backing
//@ spec
    ensures /*@same*/ r == self.backing,
//@ enter
    proof { broadcast use rc_cow::axiom_rc_cloned; }
//@ end

//@ fn impl<V> Memory<V> :: fn set_backing
//@ spec
    ensures
        /*@backing*/ final(self).backing == backing,
        /*@frame*/ final(self).endian == old(self).endian && final(self).pages == old(self).pages,
        /*@wf*/ old(self).wf() && (backing matches Some(b) ==> b.wf()) ==> final(self).wf(),
        /*@own*/ forall|x: u64| #[trigger] final(self).own(x) == old(self).own(x),
//@ end

//@ fn impl<V> Memory<V> :: fn pages
//@ spec
    ensures /*@same*/ *r == self.pages,
//@ end

//@ fn impl<V> Memory<V> :: fn store_cell
//@ rewrite 1 `RC::make_mut(` => `rc_cow::rc_make_mut(` ## R-std-standin: Rc::make_mut replaced by the stand-in of prelude/rc_cow.rs (same argument; the stand-in's body calls the real `Rc::make_mut`)
//@ spec
    requires pages_wf(old(self).pages@),
    ensures
        /*@pages*/ pages_wf(final(self).pages@),
        /*@cells*/ final(self).cells() == old(self).cells().insert(address, cell),
        /*@frame*/ final(self).endian == old(self).endian && final(self).backing == old(self).backing,
        /*@perm*/ forall|k: u64| #[trigger] page_perm(final(self).pages@, k) == page_perm(old(self).pages@, k),
//@ enter
    proof { lemma_page_bits(address); lemma_value_laws_hold::<V>(); }
//@ before 0 `return;`
    proof {
        let p1 = self.pages@[page_address];
        assert(self.pages@ =~= old(self).pages@.insert(page_address, p1));
        lemma_cells_store(old(self).pages@, address, cell, p1);
    }
//@ after 0 `self.pages.insert(page_address, RC::new(page));`
    proof {
        let p1 = self.pages@[page_address];
        lemma_cells_store_new(old(self).pages@, address, cell, p1);
    }
//@ end

//@ fn impl<V> Memory<V> :: fn load_cell
//@ spec
    requires pages_wf(self.pages@),
    ensures
        /*@some*/ self.cells().contains_key(address) ==> r == Some(&self.cells()[address]),
        /*@none*/ !self.cells().contains_key(address) ==> r is None,
//@ enter
    proof { lemma_page_bits(address); reveal(cells_of); }
//@ end

//@ fn impl<V> Memory<V> :: fn load_backing
//@ closure 0 |backing: RC<backing::Memory>| -> (r0: Option<V>)
    requires backing.wf(),
    ensures
        bk_at(Some(backing.sections@), address as int) is None ==> r0 is None,
        bk_at(Some(backing.sections@), address as int) matches Some(b) ==> (r0 matches Some(v) && val_ok(v) && v.vbits() == 8 && v.le_bytes() == seq![b]),
//@ closure 1 |v: u8| -> (r1: V)
    ensures val_ok(r1) && r1.vbits() == 8 && r1.le_bytes() == seq![v],
//@ spec
    requires self.bk_wf(),
    ensures
        /*@none*/ bk_at(self.bk(), address as int) is None ==> r is None,
        /*@some*/ bk_at(self.bk(), address as int) matches Some(b) ==> (r matches Some(v) && val_ok(v) && v.vbits() == 8 && v.le_bytes() == seq![b]),
//@ before 0 `V::constant(`
    proof { lemma_nat_byte_small(v); }
//@ end

//@ fn impl<V> Memory<V> :: fn store_no_backref
//@ spec
    requires
        pages_wf(old(self).pages@),
        val_ok(value),
        address + vlen(value) <= u64::MAX,
    ensures
        /*@pages*/ pages_wf(final(self).pages@),
        /*@cells*/ final(self).cells() == write_cells(old(self).cells(), address, value, vlen(value)),
        /*@frame*/ final(self).endian == old(self).endian && final(self).backing == old(self).backing,
        /*@perm*/ forall|k: u64| #[trigger] page_perm(final(self).pages@, k) == page_perm(old(self).pages@, k),
//@ after 0 `self.store_cell(address, MemoryCell::Value(value));`
    proof { assert(self.cells() =~= write_cells(old(self).cells(), address, value, 1)); }
//@ loop 0
    invariant
        /*@ctx*/ bytes as nat == vlen(value) && address + vlen(value) <= u64::MAX && 1 <= bytes,
        /*@pages*/ pages_wf(self.pages@),
        /*@cells*/ self.cells() == write_cells(old(self).cells(), address, value, i as nat),
        /*@frame*/ self.endian == old(self).endian && self.backing == old(self).backing,
        /*@perm*/ forall|k: u64| #[trigger] page_perm(self.pages@, k) == page_perm(old(self).pages@, k),
//@ before 0 `self.store_cell(address + i as u64, MemoryCell::Backref(address));`
    let ghost c_before = self.cells();
//@ after 0 `self.store_cell(address + i as u64, MemoryCell::Backref(address));`
    proof { assert(self.cells() =~= write_cells(old(self).cells(), address, value, (i + 1) as nat)); }
//@ end
}

impl<V: Value> vstd::std_specs::cmp::PartialEqSpecImpl for Memory<V> {
    open spec fn obeys_eq_spec() -> bool { false }
    open spec fn eq_spec(&self, other: &Memory<V>) -> bool { mem_eq(*self, *other) }
}

impl<V: Value> PartialEq for Memory<V> {
//@ fn impl<V: Value> PartialEq for Memory<V> :: fn eq nopub
//@ closure 0 |self_backing: RC<backing::Memory>| -> (r0: Option<bool>)
    ensures r0 == (match other.backing { Some(ob) => Some(backing::backing_eq(*self_backing, *ob)), None => None::<bool> }),
//@ closure 1 |other_backing: RC<backing::Memory>| -> (r1: bool)
    ensures r1 == backing::backing_eq(*self_backing, *other_backing),
//@ spec
    ensures
        /*@exact*/ r == mem_eq(*self, *other),
        /*@reflexive*/ (self.pages@ == other.pages@ && self.endian == other.endian && self.backing == other.backing) ==> r,
        /*@same_view*/ r && other.bk_wf() ==> self.endian == other.endian
            && (forall|x: int| #[trigger] self.full(x) == other.full(x))
            && (forall|x: u64| (#[trigger] self.perm(x)) == other.perm(x)),
//@ enter
    proof {
        broadcast use {rc_cow::axiom_rc_obeys_eq, rc_cow::axiom_rc_eq, rc_cow::axiom_hashmap_obeys_eq, rc_cow::axiom_hashmap_eq};
        lemma_value_laws_hold::<V>();
        lemma_mem_eq(*self, *other);
    }
//@ end
}
