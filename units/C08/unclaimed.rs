// ======================================================================================
// units/C08/unclaimed.rs — NOT included by unit.rs.  Parts of property C08 that are not claimed,
// kept here as ready-to-include template text so that nothing annotated-but-unproved is counted.
// ======================================================================================

// ---- (1) impl Value for il::Expression (lib/memory/value.rs) ------------------------------------------
// Not under contract.  The byte-level trait contract speaks about the little-endian byte string of a
// value; for a symbolic expression that string depends on an environment for its scalars, so
// `le_bytes` would have to be defined as "for every environment env, the bytes of eval_spec(e, env)"
// and each operator clause proved for every env (Expression::shl/shr/trun/zext/or only build nodes, so
// the obligation is C04's eval_spec unfolded once per operator — feasible, but it needs the trait's
// `le_bytes` to take an environment, which changes every statement of this unit).  The width rules and
// error conditions of the five constructors are already proved by unit C04 (ctor2 / zext / trun clauses).
//
// //@ source lib/memory/value.rs
// impl Value for il::Expression {
// //@ fn impl Value for il::Expression :: fn constant nopub
// //@ end
// //@ fn impl Value for il::Expression :: fn bits nopub
// //@ end
// //@ fn impl Value for il::Expression :: fn shl nopub
// //@ end
// //@ fn impl Value for il::Expression :: fn shr nopub
// //@ end
// //@ fn impl Value for il::Expression :: fn trun nopub
// //@ end
// //@ fn impl Value for il::Expression :: fn zext nopub
// //@ end
// //@ fn impl Value for il::Expression :: fn or nopub
// //@ end
// }

// ---- (2) set_permissions: strict per-address frame ------------------------------------------------------
// The property says "addresses whose permissions were never set report the backing's".  Read per ADDRESS
// this demands, for Memory::set_permissions(address, len, p):
//
//     /*@frame_outside_range*/ forall|x: u64| !(address <= x < address + len) ==> #[trigger] final(self).perm(x) == old(self).perm(x),
//
// The code cannot satisfy it: permissions are stored per 1024-byte page (`Page::permissions`), so every
// address of a page that overlaps the range reports p.  Confirmed on the real crate (witness/src/bin/
// c08_probe.rs, case (v)): backing READ on [0x1000,0x1400); set_permissions(0x1000, 4, READ|WRITE);
// permissions(0x1004) and permissions(0x13ff) are Some(READ | WRITE) although neither address was ever
// in a set range (the backing says READ).  The doc comment of the function ("Set memory permissions for
// the page at the given address") makes page granularity the documented design, and a repair is a
// change of representation, not a few lines — so the clause is NOT in paged.rs; the contract there
// (`set_permissions.ensures.view`) states the page-granular truth exactly: x reports p iff its page
// overlaps [page_base(address), address + len), every other address is unchanged.  If the property is to
// be read per address, add the clause above to `//@ fn impl<V> Memory<V> :: fn set_permissions` in
// paged.rs and list `C08.memory::paged::Memory::set_permissions.ensures.frame_outside_range` as a known
// finding.
