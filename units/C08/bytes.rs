// ======================================================================================
// units/C08/bytes.rs — byte-level reading of bit-vector values ("assembled in the memory's
// endianness"): the little-endian byte string of a natural number, what the five operators the
// paged memory uses (shr, trun, zext, shl, or) do to that byte string, and the arithmetic lemmas
// that connect them to spec/bv.rs (bv_shr, bv_trun, bv_zext, bv_shl, bv_or).
// ======================================================================================

/// byte number i (weight 256^i) of a natural number
#[verifier::opaque]
pub open spec fn nat_byte(a: nat, i: nat) -> u8 { ((a / pow2(8 * i)) % 256) as u8 }

/// the n low bytes of a, least significant first
pub open spec fn nat_le_bytes(a: nat, n: nat) -> Seq<u8> { Seq::new(n, |i: int| nat_byte(a, i as nat)) }

/// logical shift right by k bytes within the width: byte i becomes byte i + k, zero-filled
pub open spec fn shr_bytes(s: Seq<u8>, k: nat) -> Seq<u8> { Seq::new(s.len(), |i: int| if i + k < s.len() { s[i + k] } else { 0u8 }) }

/// shift left by k bytes within the width: byte i becomes byte i - k, the k low bytes are zero
pub open spec fn shl_bytes(s: Seq<u8>, k: nat) -> Seq<u8> { Seq::new(s.len(), |i: int| if i >= k { s[i - k] } else { 0u8 }) }

/// zero extension to n bytes
pub open spec fn zext_bytes(s: Seq<u8>, n: nat) -> Seq<u8> { Seq::new(n, |i: int| if i < s.len() { s[i] } else { 0u8 }) }

/// r is a bytewise `or` of a and b wherever one of the two bytes is zero
pub open spec fn or_bytes_ok(a: Seq<u8>, b: Seq<u8>, r: Seq<u8>) -> bool {
    &&& r.len() == a.len()
    &&& forall|i: int| #![trigger r[i]] 0 <= i < a.len() ==> (a[i] == 0 ==> r[i] == b[i]) && (b[i] == 0 ==> r[i] == a[i])
}

pub proof fn lemma_p8(i: nat)
    ensures pow2(8 * i) >= 1, pow2(8 * (i + 1)) == pow2(8 * i) * 256, pow2(8) == 256, pow2(0) == 1,
{
    lemma2_to64();
    lemma_pow2_pos(8 * i);
    lemma_pow2_adds(8 * i, 8);
    assert(8 * (i + 1) == 8 * i + 8);
}

pub proof fn lemma_p8_add(i: nat, k: nat)
    ensures pow2(8 * (i + k)) == pow2(8 * i) * pow2(8 * k), pow2(8 * i) >= 1, pow2(8 * k) >= 1,
{
    lemma_pow2_pos(8 * i);
    lemma_pow2_pos(8 * k);
    lemma_pow2_adds(8 * i, 8 * k);
    assert(8 * (i + k) == 8 * i + 8 * k);
}

pub proof fn lemma_nat_byte_small(v: u8)
    ensures nat_byte(v as nat, 0) == v, nat_le_bytes(v as nat, 1) =~= seq![v], (v as nat) % pow2(8) == v as nat,
{
    reveal(nat_byte);
    lemma2_to64();
    assert(pow2(0) == 1);
    assert(8 * 0 == 0);
    assert((v as nat) / 1 == v as nat);
    assert((v as nat) % 256 == v as nat);
}

/// bytes at and above the width are zero
pub proof fn lemma_nat_byte_high(a: nat, n: nat, i: nat)
    requires a < pow2(8 * n), i >= n,
    ensures nat_byte(a, i) == 0,
{
    reveal(nat_byte);
    lemma_pow2_mono(8 * n, 8 * i);
    lemma_small_div(a, pow2(8 * i));
}

pub proof fn lemma_nat_byte_shr(a: nat, k: nat, i: nat)
    ensures nat_byte(a / pow2(8 * k), i) == nat_byte(a, i + k),
{
    reveal(nat_byte);
    lemma_p8_add(i, k);
    let pk = pow2(8 * k);
    let pi = pow2(8 * i);
    lemma_div_denominator(a as int, pk as int, pi as int);
    assert(pk * pi == pi * pk) by (nonlinear_arith);
}

pub proof fn lemma_nat_byte_trun(a: nat, k: nat, i: nat)
    requires i < k,
    ensures nat_byte(a % pow2(8 * k), i) == nat_byte(a, i),
{
    reveal(nat_byte);
    let j = (k - i - 1) as nat;
    let p = pow2(8 * i);
    let q = pow2(8 * (j + 1));
    lemma_p8_add(i, j + 1);
    assert(i + (j + 1) == k);
    assert(pow2(8 * k) == p * q);
    lemma_p8(j);
    assert(q == pow2(8 * j) * 256);
    // (a % (p*q)) / p == (a / p) % q
    lemma_mod_breakdown(a as int, p as int, q as int);
    let x = a % (p * q);
    let d = (a / p) % q;
    let r = a % p;
    lemma_mod_bound(a as int, p as int);
    assert(x == p * d + r);
    assert(x == d * p + r) by (nonlinear_arith) requires x == p * d + r;
    lemma_fundamental_div_mod_converse(x as int, p as int, d as int, r as int);
    assert(x / p == d);
    // ((a / p) % (256 * m)) % 256 == (a / p) % 256
    lemma_pow2_pos(8 * j);
    assert(q == 256 * pow2(8 * j)) by (nonlinear_arith) requires q == pow2(8 * j) * 256;
    lemma_mod_mod((a / p) as int, 256, pow2(8 * j) as int);
}

pub proof fn lemma_nat_byte_shl(a: nat, k: nat, i: nat)
    ensures nat_byte(a * pow2(8 * k), i) == (if i >= k { nat_byte(a, (i - k) as nat) } else { 0u8 }),
{
    reveal(nat_byte);
    let pk = pow2(8 * k);
    let pi = pow2(8 * i);
    if i >= k {
        let d = (i - k) as nat;
        lemma_p8_add(k, d);
        let pd = pow2(8 * d);
        assert(k + d == i);
        assert(pi == pk * pd);
        lemma_div_denominator((a * pk) as int, pk as int, pd as int);
        lemma_div_multiples_vanish(a as int, pk as int);
        assert(a * pk == pk * a) by (nonlinear_arith);
    } else {
        let j = (k - i - 1) as nat;
        lemma_p8_add(i, j + 1);
        assert(i + (j + 1) == k);
        lemma_p8(j);
        let pj = pow2(8 * j);
        assert(pk == pi * (pj * 256));
        let m = a * pj;
        assert(a * pk == pi * (m * 256)) by (nonlinear_arith) requires pk == pi * (pj * 256), m == a * pj;
        lemma_div_multiples_vanish((m * 256) as int, pi as int);
        assert((a * pk) / pi == m * 256);
        lemma_mod_multiples_basic(m as int, 256);
    }
}

// ---- nat_or, digit by digit ----------------------------------------------------------------------

pub proof fn lemma_or_half(a: nat, b: nat)
    ensures
        nat_or(a, b) / 2 == nat_or(a / 2, b / 2),
        nat_or(a, b) % 2 == (if a % 2 == 1 || b % 2 == 1 { 1nat } else { 0nat }),
{
    reveal_with_fuel(nat_or, 2);
    if a == 0 {
        assert(nat_or(0, b / 2) == b / 2);
    } else if b == 0 {
        assert(nat_or(a / 2, 0) == a / 2);
    } else {
    }
}

pub proof fn lemma_or_div_pow2(a: nat, b: nat, k: nat)
    ensures nat_or(a, b) / pow2(k) == nat_or(a / pow2(k), b / pow2(k)),
    decreases k,
{
    lemma2_to64();
    if k == 0 {
        assert(pow2(0) == 1);
    } else {
        let j = (k - 1) as nat;
        lemma_pow2_step(j);
        lemma_pow2_pos(j);
        lemma_or_div_pow2(a, b, j);
        let pj = pow2(j);
        lemma_div_denominator(nat_or(a, b) as int, pj as int, 2);
        lemma_div_denominator(a as int, pj as int, 2);
        lemma_div_denominator(b as int, pj as int, 2);
        assert(pj * 2 == pow2(k));
        lemma_or_half(a / pj, b / pj);
    }
}

pub proof fn lemma_or_mod_pow2(a: nat, b: nat, k: nat)
    ensures nat_or(a, b) % pow2(k) == nat_or(a % pow2(k), b % pow2(k)),
    decreases k,
{
    lemma2_to64();
    if k == 0 {
        assert(pow2(0) == 1);
        assert(nat_or(0, 0) == 0);
    } else {
        let j = (k - 1) as nat;
        lemma_pow2_step(j);
        lemma_pow2_pos(j);
        let pj = pow2(j);
        let n = nat_or(a, b);
        // x % (2 * 2^j) == 2 * ((x / 2) % 2^j) + x % 2
        lemma_mod_breakdown(n as int, 2, pj as int);
        lemma_mod_breakdown(a as int, 2, pj as int);
        lemma_mod_breakdown(b as int, 2, pj as int);
        let a1 = a % pow2(k);
        let b1 = b % pow2(k);
        assert(a1 == 2 * ((a / 2) % pj) + a % 2);
        assert(b1 == 2 * ((b / 2) % pj) + b % 2);
        assert(a1 / 2 == (a / 2) % pj && a1 % 2 == a % 2);
        assert(b1 / 2 == (b / 2) % pj && b1 % 2 == b % 2);
        lemma_or_half(a, b);
        lemma_or_half(a1, b1);
        lemma_or_mod_pow2(a / 2, b / 2, j);
        let m = nat_or(a1, b1);
        assert(m / 2 == (n / 2) % pj);
        assert(m % 2 == n % 2);
        assert(m == 2 * (m / 2) + m % 2);
    }
}

pub proof fn lemma_nat_byte_or(a: nat, b: nat, i: nat)
    ensures
        nat_byte(a, i) == 0 ==> nat_byte(nat_or(a, b), i) == nat_byte(b, i),
        nat_byte(b, i) == 0 ==> nat_byte(nat_or(a, b), i) == nat_byte(a, i),
{
    reveal(nat_byte);
    lemma2_to64();
    let p = pow2(8 * i);
    lemma_or_div_pow2(a, b, 8 * i);
    lemma_or_mod_pow2(a / p, b / p, 8);
    assert(pow2(8) == 256);
    let x = (a / p) % 256;
    let y = (b / p) % 256;
    assert(nat_or(a, b) / p % 256 == nat_or(x, y));
    reveal_with_fuel(nat_or, 1);
    if x == 0 { assert(nat_or(x, y) == y); }
    if y == 0 { assert(nat_or(x, y) == x); }
}

// ---- the operators of spec/bv.rs, read byte-wise ---------------------------------------------------

pub proof fn lemma_lt_pow2_(n: nat)
    ensures n < pow2(n),
    decreases n,
{
    lemma2_to64();
    if n > 0 {
        lemma_lt_pow2_((n - 1) as nat);
        lemma_pow2_step((n - 1) as nat);
    }
}

pub proof fn lemma_bytes_shr(w: nat, a: nat, s: nat)
    requires a < pow2(w), w % 8 == 0, s % 8 == 0, s < w,
    ensures nat_le_bytes(bv_shr(w, a, s), w / 8) == shr_bytes(nat_le_bytes(a, w / 8), s / 8),
{
    reveal(bv_shr);
    lemma_pow2_pos(s);
    let n = w / 8;
    let k = s / 8;
    assert(8 * n == w && 8 * k == s);
    let l = nat_le_bytes(a / pow2(s), n);
    let r = shr_bytes(nat_le_bytes(a, n), k);
    assert forall|i: int| 0 <= i < n implies l[i] == r[i] by {
        lemma_nat_byte_shr(a, k, i as nat);
        if i + k >= n { lemma_nat_byte_high(a, n, (i + k) as nat); }
    }
    assert(l =~= r);
}

pub proof fn lemma_bytes_trun(w: nat, a: nat, b: nat)
    requires w % 8 == 0, b % 8 == 0, b < w,
    ensures nat_le_bytes(bv_trun(b, a), b / 8) == nat_le_bytes(a, w / 8).take((b / 8) as int),
{
    reveal(bv_trun);
    lemma_pow2_pos(b);
    let n = w / 8;
    let k = b / 8;
    assert(8 * n == w && 8 * k == b);
    let l = nat_le_bytes(a % pow2(b), k);
    let r = nat_le_bytes(a, n).take(k as int);
    assert forall|i: int| 0 <= i < k implies l[i] == r[i] by {
        lemma_nat_byte_trun(a, k, i as nat);
    }
    assert(l =~= r);
}

pub proof fn lemma_bytes_zext(w: nat, a: nat, b: nat)
    requires a < pow2(w), w % 8 == 0, b % 8 == 0, w < b,
    ensures nat_le_bytes(bv_zext(a), b / 8) == zext_bytes(nat_le_bytes(a, w / 8), b / 8),
{
    reveal(bv_zext);
    let n = w / 8;
    let m = b / 8;
    assert(8 * n == w && 8 * m == b);
    let l = nat_le_bytes(a, m);
    let r = zext_bytes(nat_le_bytes(a, n), m);
    assert forall|i: int| 0 <= i < m implies l[i] == r[i] by {
        if i >= n { lemma_nat_byte_high(a, n, i as nat); }
    }
    assert(l =~= r);
}

pub proof fn lemma_bytes_shl(w: nat, a: nat, s: nat)
    requires w % 8 == 0, s % 8 == 0, s < w,
    ensures nat_le_bytes(bv_shl(w, a, s), w / 8) == shl_bytes(nat_le_bytes(a, w / 8), s / 8),
{
    reveal(bv_shl);
    lemma_pow2_pos(s);
    lemma_pow2_pos(w);
    let n = w / 8;
    let k = s / 8;
    assert(8 * n == w && 8 * k == s);
    let l = nat_le_bytes((a * pow2(s)) % pow2(w), n);
    let r = shl_bytes(nat_le_bytes(a, n), k);
    assert forall|i: int| 0 <= i < n implies l[i] == r[i] by {
        lemma_nat_byte_trun(a * pow2(s), n, i as nat);
        lemma_nat_byte_shl(a, k, i as nat);
    }
    assert(l =~= r);
}

pub proof fn lemma_bytes_or(w: nat, a: nat, b: nat)
    requires w % 8 == 0,
    ensures or_bytes_ok(nat_le_bytes(a, w / 8), nat_le_bytes(b, w / 8), nat_le_bytes(bv_or(w, a, b), w / 8)),
{
    reveal(bv_or);
    let n = w / 8;
    let r = nat_le_bytes(nat_or(a, b), n);
    assert forall|i: int| #![trigger r[i]] 0 <= i < n implies
        (nat_le_bytes(a, n)[i] == 0 ==> r[i] == nat_le_bytes(b, n)[i]) && (nat_le_bytes(b, n)[i] == 0 ==> r[i] == nat_le_bytes(a, n)[i]) by {
        lemma_nat_byte_or(a, b, i as nat);
    }
}

// ---- the byte string determines the number ------------------------------------------------------------

/// the little-endian byte string of a (n bytes) assembles back to a: le_value is unit C16's
/// "byte i has weight 256^i" (units/C16/bytes_spec.rs)
pub proof fn lemma_le_bytes_value(a: nat, n: nat)
    requires a < pow2(8 * n),
    ensures crate::memory::backing::le_value(nat_le_bytes(a, n)) == a,
    decreases n,
{
    let b = nat_le_bytes(a, n);
    if n == 0 {
        lemma2_to64();
        assert(8 * 0 == 0);
    } else {
        let m = (n - 1) as nat;
        let p = pow2(8 * m);
        lemma_p8(m);
        assert(pow2(8 * n) == p * 256);
        let lo = a % p;
        lemma_mod_bound(a as int, p as int);
        lemma_le_bytes_value(lo, m);
        assert(b.drop_last() =~= nat_le_bytes(lo, m)) by {
            assert forall|i: int| 0 <= i < m implies b.drop_last()[i] == nat_le_bytes(lo, m)[i] by {
                lemma_nat_byte_trun(a, m, i as nat);
            }
        }
        // the top byte is a / p
        assert(b.last() == nat_byte(a, m));
        reveal(nat_byte);
        lemma_fundamental_div_mod(a as int, p as int);
        assert(a / p < 256) by {
            lemma_div_by_multiple_is_strongly_ordered(a as int, (p * 256) as int, 256, p as int);
            lemma_div_multiples_vanish(256, p as int);
            assert(p * 256 == 256 * p) by (nonlinear_arith);
        }
        lemma_small_mod(a / p, 256);
        assert(a == p * (a / p) + a % p);
        assert((b.last() as nat) * p == p * (a / p)) by (nonlinear_arith) requires b.last() as nat == a / p;
        assert(pow2((8 * (b.len() - 1)) as nat) == p);
    }
}

/// two numbers below 2^(8n) with the same n-byte string are the same number
pub proof fn lemma_le_bytes_inj(a: nat, b: nat, n: nat)
    requires a < pow2(8 * n), b < pow2(8 * n), nat_le_bytes(a, n) == nat_le_bytes(b, n),
    ensures a == b,
{
    lemma_le_bytes_value(a, n);
    lemma_le_bytes_value(b, n);
}
