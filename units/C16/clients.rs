// ======================================================================================
// units/C16/clients.rs — template-level clients (NOT code from /repo): they use only the
// contracts of backing.rs and show that the contracts compose to the sequence-quantified
// statement of property C16.
// ======================================================================================

/// one region write, as a mathematical object
pub struct Write { pub address: u64, pub data: Seq<u8>, pub p: MemoryPermissions }

pub open spec fn w_covers(w: Write, x: int) -> bool { w.address <= x < w.address + w.data.len() }

/// "every address reads the byte and permissions of the MOST RECENT region covering it,
/// addresses never covered are unmapped": look at the writes from the last one backwards
pub open spec fn after_writes(ws: Seq<Write>, x: int) -> Option<(u8, MemoryPermissions)>
    decreases ws.len(),
{
    if ws.len() == 0 { None }
    else if w_covers(ws.last(), x) { Some((ws.last().data[x - ws.last().address], ws.last().p)) }
    else { after_writes(ws.drop_last(), x) }
}

pub open spec fn write_of(t: (u64, Vec<u8>, MemoryPermissions)) -> Write { Write { address: t.0, data: t.1@, p: t.2 } }

pub open spec fn writes_of(s: Seq<(u64, Vec<u8>, MemoryPermissions)>) -> Seq<Write> { s.map_values(|t: (u64, Vec<u8>, MemoryPermissions)| write_of(t)) }

/// any sequence of region writes (overlapping, nested, adjacent, empty), starting from an empty memory
pub fn replay_writes(endian: Endian, ws: Vec<(u64, Vec<u8>, MemoryPermissions)>) -> (m: Memory)
    requires
        forall|j: int| 0 <= j < ws@.len() ==> (#[trigger] ws@[j]).0 + ws@[j].1@.len() <= u64::MAX,
    ensures
        /*@no_overlap*/ m.wf(),
        /*@most_recent*/ forall|x: int| #[trigger] vw(m.sections@, x) == after_writes(writes_of(ws@), x),
{
    let mut m = Memory::new(endian);
    let ghost all = ws@;
    for w in it: ws
        invariant
            it.seq() == all,
            m.wf(),
            forall|j: int| 0 <= j < all.len() ==> (#[trigger] all[j]).0 + all[j].1@.len() <= u64::MAX,
            forall|x: int| #[trigger] vw(m.sections@, x) == after_writes(writes_of(all.take(it.index@)), x),
    {
        let ghost before = m.sections@;
        let ghost k = it.index@;
        assert(w == all[k]);
        m.set_memory(w.0, w.1, w.2);
        proof {
            let done = writes_of(all.take(k + 1));
            assert(done.drop_last() =~= writes_of(all.take(k)));
            assert(done.last() == write_of(all[k]));
            assert forall|x: int| #[trigger] vw(m.sections@, x) == after_writes(done, x) by {
                assert(vw(m.sections@, x) == write_at(before, w.0, all[k].1@, w.2, x));
                assert(vw(before, x) == after_writes(writes_of(all.take(k)), x));
            }
        }
    }
    proof { assert(all.take(all.len() as int) =~= all); }
    m
}

/// a 32-bit store lying within one region, read back: the value, in either endianness; every
/// other address (and the permissions of the four written ones) unchanged
pub fn store_load32(m: &mut Memory, address: u64, value: u32) -> (r: Option<u32>)
    requires
        old(m).wf(),
        within32(old(m).sections@, address),
    ensures
        /*@roundtrip*/ r == Some(value),
        /*@frame*/ forall|x: int| !(address <= x < address + 4) ==> #[trigger] vw(final(m).sections@, x) == vw(old(m).sections@, x),
        /*@perm*/ forall|x: int| address <= x < address + 4 ==> (#[trigger] vw(final(m).sections@, x)) is Some
            && vw(old(m).sections@, x) is Some && vw(final(m).sections@, x).unwrap().1 == vw(old(m).sections@, x).unwrap().1,
{
    proof {
        let k = choose|k: u64| #[trigger] m.sections@.contains_key(k) && k <= address && address + 4 <= k + m.sections@[k].data@.len();
        lemma_vw_section(m.sections@, k);
    }
    let ghost s0 = m.sections@;
    let res = m.set32(address, value);
    assert(res is Ok);
    proof {
        let k = choose|k: u64| #[trigger] s0.contains_key(k) && k <= address && address + 4 <= k + s0[k].data@.len();
        assert(m.sections@.contains_key(k));
        assert(within32(m.sections@, address));
        // the section structure (hence `within32`) is untouched by set32: the four bytes are still in one section
        lemma_w32_roundtrip(m.endian, value);
        assert(bytes_at(m.sections@, address, 4) =~= Seq::new(4, |i: int| w32_byte(m.endian, value, i)));
    }
    let r = m.get32(address);
    r
}
