// Unit C16 — memory::backing::Memory is a byte-and-permission map: region writes override, reads
// assemble bytes in the memory's endianness, sections never overlap.
// Generated file = this template + the real text of the functions named in the `//@` holes.
#![allow(unused_imports, unused_variables, dead_code, unused_mut, non_snake_case, unused_parens, unused_braces)]
use vstd::prelude::*;
use vstd::arithmetic::power2::*;
use vstd::arithmetic::div_mod::*;
use vstd::arithmetic::mul::*;
use std::ops::*;
use std::cmp::Ordering;

verus! {

//@ include spec/bv.rs
//@ include prelude/bigint.rs
//@ include prelude/error.rs
//@ include prelude/btree_range.rs

// derive(Debug) of falcon::Error re-supplied (needed by `Result::unwrap`'s trait bound only; the
// formatter output is never inspected by verified code): opaque, no contract.
impl std::fmt::Debug for Error {
    #[verifier::external_body]
    fn fmt(&self, f: &mut std::fmt::Formatter<'_>) -> std::fmt::Result { unimplemented!() }
}

// ---- il::Constant / il::Expression / executor::eval: contracts imported from unit C04 ---------
pub mod il {
use super::*;
broadcast use {axiom_biguint_ext, axiom_bigint_ext};
#[verifier::external_body] pub struct ProgramLocation { _p: () }

//@ mode contracts-only C04
//@ include units/C04/constant.rs
//@ include units/C04/expression.rs
//@ mode full

proof fn vf_canary_il() ensures false {}
} // mod il

pub mod executor {
use super::*;
use super::il::*;
//@ mode contracts-only C04
//@ include units/C04/eval.rs
//@ mode full
} // mod executor

pub mod architecture {
use super::*;
//@ item lib/architecture.rs :: enum Endian
} // mod architecture

pub mod translator {
use super::*;
use crate::memory::MemoryPermissions;
//@ include units/C16/translation_memory.rs
} // mod translator

pub mod memory {
use super::*;

// Stand-in for the type the `bitflags!` macro (bitflags 1.x, third party) generates in
// lib/memory/mod.rs:   `pub struct MemoryPermissions { bits: u32 }`  deriving Copy, Clone, PartialEq, Eq, ...
// backing.rs only copies values of this type; no flag operation is used by the code under contract.
#[derive(Clone, Copy)]
pub struct MemoryPermissions { pub bits: u32 }

pub mod backing {
use vstd::prelude::*;
use vstd::arithmetic::power2::*;
use vstd::arithmetic::div_mod::*;
use vstd::arithmetic::mul::*;
use crate::*;
use crate::il::{MAX_BITS, EvalR, Env, BinOp, eval_spec, empty_env, expr_bits, expr_sane, eval_agrees, is_const, is_sort_err, is_div0_err, ctor2, bin_spec, bin_val};
// the `use` lines of lib/memory/backing.rs (serde omitted: derives are dropped)
use crate::architecture::Endian;
use crate::executor;
use crate::il;
use crate::memory::MemoryPermissions;
use crate::translator::TranslationMemory;
use crate::Error;
use std::collections::BTreeMap;
use std::ops::Bound::Included;
#[allow(unused_imports)]
use std::ops::Bound::{Excluded, Unbounded};

//@ include units/C16/bytes_spec.rs
//@ include units/C16/get_spec.rs
//@ include units/C16/backing.rs
//@ include units/C16/clients.rs

proof fn vf_canary_backing() ensures false {}
} // mod backing
} // mod memory
proof fn vf_canary_root() ensures false {}

} // verus!

fn main() {}
