// ---- translator::TranslationMemory --------------------------------------------------------------
// lib/translator/mod.rs declares
//     pub trait TranslationMemory {
//         fn permissions(&self, address: u64) -> Option<MemoryPermissions>;
//         fn get_u8(&self, address: u64) -> Option<u8>;
//         fn get_bytes(&self, address: u64, length: usize) -> Vec<u8> { ..default.. }
//     }
// The two REQUIRED methods are restated here with the contract an implementor has to meet (Verus
// does not allow an impl to add a precondition the trait does not declare): a memory has a data
// invariant `tm_wf` and a mathematical content `tm_read` (address -> (byte, permissions) or
// unmapped); the two methods are the two projections of `tm_read`.  The executable signatures are
// those of the crate.  The default method `get_bytes` (bitflags `contains`) is not part of C16.
pub trait TranslationMemory {
    spec fn tm_wf(&self) -> bool;

    spec fn tm_read(&self, address: u64) -> Option<(u8, MemoryPermissions)>;

    fn permissions(&self, address: u64) -> (r: Option<MemoryPermissions>)
        requires self.tm_wf(),
        ensures r == (match self.tm_read(address) { Some(bp) => Some(bp.1), None => None::<MemoryPermissions> });

    fn get_u8(&self, address: u64) -> (r: Option<u8>)
        requires self.tm_wf(),
        ensures r == (match self.tm_read(address) { Some(bp) => Some(bp.0), None => None::<u8> });
}
