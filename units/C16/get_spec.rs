// ======================================================================================
// units/C16/get_spec.rs — lemmas for Memory::get: the IL expression the code builds byte by byte
// (Or / Shl of constants) evaluates, under unit C04's `eval_spec`, to the big-/little-endian value
// of the bytes read so far.
// ======================================================================================
use crate::il::Expression;

pub open spec fn is_const_expr(e: Expression, bits: usize, v: nat) -> bool {
    e matches Expression::Constant(c) && c.wf() && c.bits == bits && c.value@ == v
}

/// new_e == Or(Shl(old_e, const 8), const b)            (the big-endian step of the code)
pub open spec fn be_step(old_e: Expression, new_e: Expression, bits: usize, b: u8) -> bool {
    new_e matches Expression::Or(l, r)
    && (*l matches Expression::Shl(x, s) && *x == old_e && is_const_expr(*s, bits, 8nat % pow2(bits as nat)))
    && is_const_expr(*r, bits, (b as nat) % pow2(bits as nat))
}

/// new_e == Or(Shl(const b, const 8*i), old_e)          (the little-endian step of the code)
pub open spec fn le_step(old_e: Expression, new_e: Expression, bits: usize, b: u8, i: nat) -> bool {
    new_e matches Expression::Or(l, r)
    && (*l matches Expression::Shl(x, s) && is_const_expr(*x, bits, (b as nat) % pow2(bits as nat)) && is_const_expr(*s, bits, (8 * i) % pow2(bits as nat)))
    && *r == old_e
}

pub proof fn lemma_lt_pow2(n: nat)
    ensures n < pow2(n),
    decreases n,
{
    lemma2_to64();
    if n > 0 {
        lemma_lt_pow2((n - 1) as nat);
        lemma_pow2_step((n - 1) as nat);
    }
}

pub proof fn lemma_bytes_at_step(s: SecMap, address: u64, i: nat)
    ensures
        bytes_at(s, address, i + 1).drop_last() == bytes_at(s, address, i),
        bytes_at(s, address, i + 1).last() == vw(s, address + i).unwrap().0,
{
    assert(bytes_at(s, address, i + 1).drop_last() =~= bytes_at(s, address, i));
}

/// facts about widths used by both steps
pub proof fn lemma_width_facts(bits: usize, i: nat, v: nat, b: nat)
    requires 8 * (i + 1) <= bits, v < pow2(8 * i), b < 256,
    ensures
        pow2(8 * i) * 256 == pow2(8 * i + 8),
        pow2(8 * i + 8) <= pow2(bits as nat),
        v * 256 + b < pow2(bits as nat),
        b * pow2(8 * i) + v < pow2(bits as nat),
        b * pow2(8 * i) < pow2(bits as nat),
        v * 256 < pow2(bits as nat),
        256 <= pow2(bits as nat),
        pow2(8) == 256,
{
    lemma2_to64();
    lemma_pow2_adds(8 * i, 8);
    lemma_pow2_mono(8 * i + 8, bits as nat);
    lemma_pow2_mono(8, bits as nat);
    let p = pow2(8 * i);
    assert(v * 256 + 256 <= p * 256) by (nonlinear_arith) requires v < p;
    assert(b * p + p <= 256 * p) by (nonlinear_arith) requires b < 256;
    assert(256 * p == p * 256) by (nonlinear_arith);
}

/// the first byte: a constant of the requested width
pub proof fn lemma_get_init(e: Expression, bits: usize, s: SecMap, address: u64)
    requires
        8 <= bits, bits as nat <= MAX_BITS(),
        vw(s, address as int) is Some,
        is_const_expr(e, bits, (vw(s, address as int).unwrap().0 as nat) % pow2(bits as nat)),
    ensures
        expr_sane(e), expr_bits(e) == bits,
        eval_spec(e, empty_env()) == EvalR::Val(bits as nat, be_value(bytes_at(s, address, 1))),
        eval_spec(e, empty_env()) == EvalR::Val(bits as nat, le_value(bytes_at(s, address, 1))),
{
    let b = vw(s, address as int).unwrap().0 as nat;
    lemma2_to64();
    lemma_width_facts(bits, 0, 0, b);
    lemma_small_mod(b, pow2(bits as nat));
    let bs = bytes_at(s, address, 1);
    lemma_bytes_at_step(s, address, 0);
    assert(bs.drop_last().len() == 0);
    assert(be_value(bs.drop_last()) == 0 && le_value(bs.drop_last()) == 0);
    assert(bs.last() as nat == b);
    lemma2_to64();
    assert(be_value(bs) == be_value(bs.drop_last()) * 256 + b);
    assert(bs.len() == 1);
    assert(pow2(0) == 1);
    assert(((8 * (bs.len() - 1)) as nat) == 0);
    assert(le_value(bs) == le_value(bs.drop_last()) + b * pow2((8 * (bs.len() - 1)) as nat));
    assert(b * pow2(0) == b) by (nonlinear_arith) requires pow2(0) == 1;
}

pub proof fn lemma_get_step_be(old_e: Expression, new_e: Expression, bits: usize, s: SecMap, address: u64, i: nat)
    requires
        bits as nat <= MAX_BITS(), 1 <= i, 8 * (i + 1) <= bits,
        vw(s, address + i) is Some,
        expr_sane(old_e), expr_bits(old_e) == bits,
        eval_spec(old_e, empty_env()) == EvalR::Val(bits as nat, be_value(bytes_at(s, address, i))),
        be_step(old_e, new_e, bits, vw(s, address + i).unwrap().0),
    ensures
        expr_sane(new_e), expr_bits(new_e) == bits,
        eval_spec(new_e, empty_env()) == EvalR::Val(bits as nat, be_value(bytes_at(s, address, i + 1))),
{
    let w = bits as nat;
    let v = be_value(bytes_at(s, address, i));
    let b = vw(s, address + i).unwrap().0 as nat;
    let env = empty_env();
    lemma_value_bound(bytes_at(s, address, i));
    lemma_width_facts(bits, i, v, b);
    lemma_small_mod(8, pow2(w));
    lemma_small_mod(b, pow2(w));
    lemma_small_mod(v * 256, pow2(w));
    lemma_or_disjoint(v, 8, b);
    lemma_bytes_at_step(s, address, i);
    assert(be_value(bytes_at(s, address, i + 1)) == v * 256 + b);
    match new_e {
        Expression::Or(l, r) => {
            match *l {
                Expression::Shl(x, sh) => {
                    assert(eval_spec(*sh, env) == EvalR::Val(w, 8));
                    assert(eval_spec(*r, env) == EvalR::Val(w, b));
                    assert(eval_spec(*x, env) == EvalR::Val(w, v));
                    assert(bv_shl(w, v, 8) == v * 256) by { reveal(bv_shl); }
                    assert(eval_spec(*l, env) == bin_spec(BinOp::Shl, eval_spec(*x, env), eval_spec(*sh, env)));
                    assert(eval_spec(*l, env) == EvalR::Val(w, v * 256));
                    assert(bv_or(w, v * 256, b) == v * 256 + b) by { reveal(bv_or); }
                    assert(eval_spec(new_e, env) == bin_spec(BinOp::Or, eval_spec(*l, env), eval_spec(*r, env)));
                    assert(expr_bits(*l) == expr_bits(*x));
                    assert(expr_sane(*l) == (expr_sane(*x) && expr_sane(*sh)));
                    assert(expr_sane(*sh) && expr_sane(*r));
                },
                _ => {},
            }
        },
        _ => {},
    }
}

pub proof fn lemma_get_step_le(old_e: Expression, new_e: Expression, bits: usize, s: SecMap, address: u64, i: nat)
    requires
        bits as nat <= MAX_BITS(), 1 <= i, 8 * (i + 1) <= bits,
        vw(s, address + i) is Some,
        expr_sane(old_e), expr_bits(old_e) == bits,
        eval_spec(old_e, empty_env()) == EvalR::Val(bits as nat, le_value(bytes_at(s, address, i))),
        le_step(old_e, new_e, bits, vw(s, address + i).unwrap().0, i),
    ensures
        expr_sane(new_e), expr_bits(new_e) == bits,
        eval_spec(new_e, empty_env()) == EvalR::Val(bits as nat, le_value(bytes_at(s, address, i + 1))),
{
    let w = bits as nat;
    let v = le_value(bytes_at(s, address, i));
    let b = vw(s, address + i).unwrap().0 as nat;
    let env = empty_env();
    lemma_value_bound(bytes_at(s, address, i));
    lemma_width_facts(bits, i, v, b);
    lemma_lt_pow2(w);
    lemma_small_mod(8 * i, pow2(w));
    lemma_small_mod(b, pow2(w));
    lemma_small_mod(b * pow2(8 * i), pow2(w));
    lemma_or_disjoint(b, 8 * i, v);
    lemma_bytes_at_step(s, address, i);
    assert(le_value(bytes_at(s, address, i + 1)) == v + b * pow2(8 * i));
    match new_e {
        Expression::Or(l, r) => {
            match *l {
                Expression::Shl(x, sh) => {
                    assert(eval_spec(*sh, env) == EvalR::Val(w, 8 * i));
                    assert(eval_spec(*x, env) == EvalR::Val(w, b));
                    assert(eval_spec(*r, env) == EvalR::Val(w, v));
                    assert(bv_shl(w, b, 8 * i) == b * pow2(8 * i)) by { reveal(bv_shl); }
                    assert(eval_spec(*l, env) == bin_spec(BinOp::Shl, eval_spec(*x, env), eval_spec(*sh, env)));
                    assert(eval_spec(*l, env) == EvalR::Val(w, b * pow2(8 * i)));
                    assert(bv_or(w, b * pow2(8 * i), v) == b * pow2(8 * i) + v) by { reveal(bv_or); }
                    assert(eval_spec(new_e, env) == bin_spec(BinOp::Or, eval_spec(*l, env), eval_spec(*r, env)));
                    assert(expr_bits(*l) == expr_bits(*x));
                    assert(expr_sane(*l) == (expr_sane(*x) && expr_sane(*sh)));
                    assert(expr_sane(*sh) && expr_sane(*x));
                },
                _ => {},
            }
        },
        _ => {},
    }
}
