// ======================================================================================
// units/C16/backing.rs — lib/memory/backing.rs under contract: Section, Memory, and
// `impl TranslationMemory for Memory`.  Specifications are in units/C16/bytes_spec.rs.
// ======================================================================================
//@ source lib/memory/backing.rs
//@ item struct Section
//@ item struct Memory

impl Section {

//@ fn impl Section :: fn new
//@ spec
    ensures /*@fields*/ r.data == data && r.permissions == permissions,
//@ end

//@ fn impl Section :: fn data
//@ spec
    ensures /*@data*/ r@ == self.data@,
//@ end

//@ fn impl Section :: fn len
//@ spec
    ensures /*@len*/ r == self.data@.len(),
//@ end

//@ fn impl Section :: fn is_empty
//@ spec
    ensures /*@empty*/ r == (self.data@.len() == 0),
//@ end

//@ fn impl Section :: fn permissions
//@ spec
    ensures /*@perm*/ r == self.permissions,
//@ end

//@ fn impl Section :: fn truncate
//@ spec
    ensures
        /*@perm*/ final(self).permissions == old(self).permissions,
        /*@data*/ final(self).data@ == (if size <= old(self).data@.len() { old(self).data@.take(size as int) } else { old(self).data@ }),
//@ end

} // impl Section

impl Memory {

    /// data invariant of backing::Memory
    pub open spec fn wf(&self) -> bool { sections_wf(self.sections@) }

    /// the content: address -> (byte, permissions); absent = unmapped
    pub open spec fn bytes(&self) -> Map<u64, (u8, MemoryPermissions)> { bytes_of(self.sections@) }

//@ fn impl Memory :: fn new
//@ spec
    ensures
        /*@wf*/ r.wf(),
        /*@endian*/ r.endian == endian,
        /*@unmapped*/ forall|x: int| (#[trigger] vw(r.sections@, x)) is None,
        /*@view*/ r.bytes() == Map::<u64, (u8, MemoryPermissions)>::empty(),
//@ before 0 `Memory {`
    proof {
        lemma_vw_empty(Map::<u64, Section>::empty());
        assert(bytes_of(Map::<u64, Section>::empty()) =~= Map::<u64, (u8, MemoryPermissions)>::empty());
    }
//@ end

//@ fn impl Memory :: fn sections
//@ spec
    ensures /*@same*/ *r == self.sections,
//@ end

//@ fn impl Memory :: fn section_address
//@ rewrite 1 `self.sections.range(` => `btree_range::btree_range(&self.sections, ` ## R-std-standin: BTreeMap::range replaced by the stand-in of prelude/btree_range.rs (same map, same bounds expression; the stand-in's body calls the real `range`)
//@ spec
    requires self.wf(),
    ensures
        /*@found*/ r matches Some(k) ==> covers(self.sections@, k, address as int),
        /*@absent*/ r is None ==> forall|k: u64| !covers(self.sections@, k, address as int),
//@ before 0 `if let Some((section_address, section)) = sections.next_back()`
    let ghost rem = sections.remaining();
    proof {
        assert forall|k: u64| rem.len() == 0 implies !covers(self.sections@, k, address as int) by {
            if rem.len() == 0 && covers(self.sections@, k, address as int) {
                assert(self.sections@.contains_key(k));
            }
        }
    }
//@ before 0 `if *section_address <= address`
    proof {
        assert(rem.len() > 0);
        let top = rem.last();
        assert(top == rem[rem.len() - 1]);
        assert(self.sections@.contains_key(top.0) && self.sections@[top.0] == top.1);
        assert forall|k: u64| covers(self.sections@, k, address as int) implies k == top.0 by {
            assert(self.sections@.contains_key(k));
            let i = choose|i: int| 0 <= i < rem.len() && (#[trigger] rem[i]).0 == k;
            if i < rem.len() - 1 {
                assert(rem[i].0 < rem[rem.len() - 1].0);
            }
        }
    }
//@ end

//@ fn impl Memory :: fn section_address_offset
//@ closure 0 |section_address: u64| -> (r0: (u64, usize))
    requires section_address <= address,
    ensures r0.0 == section_address, r0.1 as int == address - section_address,
//@ spec
    requires self.wf(),
    ensures
        /*@found*/ r matches Some(ko) ==> covers(self.sections@, ko.0, address as int) && ko.1 as int == address - ko.0,
        /*@absent*/ r is None ==> forall|k: u64| !covers(self.sections@, k, address as int),
//@ end

//@ fn impl Memory :: fn permissions
//@ closure 0 |section_address: u64| -> (r0: MemoryPermissions)
    requires self.sections@.contains_key(section_address),
    ensures r0 == self.sections@[section_address].permissions,
//@ closure 1 || -> (r1: &Section)
    requires false,
//@ spec
    requires self.wf(),
    ensures
        /*@read*/ r == (match vw(self.sections@, address as int) { Some(bp) => Some(bp.1), None => None::<MemoryPermissions> }),
//@ enter
    proof {
        lemma_vw_inv(self.sections@, address as int);
        assert forall|k: u64| covers(self.sections@, k, address as int) implies
            vw(self.sections@, address as int) == Some((self.sections@[k].data@[address - k], self.sections@[k].permissions)) by {
            lemma_vw_some(self.sections@, k, address as int);
        }
    }
//@ end

//@ fn impl Memory :: fn get8
//@ closure 0 |(address, offset): (u64, usize)| -> (r0: u8)
    requires self.sections@.contains_key(address), offset < self.sections@[address].data@.len(),
    ensures r0 == self.sections@[address].data@[offset as int],
//@ closure 1 || -> (r1: &Section)
    requires false,
//@ closure 2 || -> (r2: &u8)
    requires false,
//@ spec
    requires self.wf(),
    ensures
        /*@read*/ r == (match vw(self.sections@, address as int) { Some(bp) => Some(bp.0), None => None::<u8> }),
//@ enter
    proof {
        lemma_vw_inv(self.sections@, address as int);
        assert forall|k: u64| covers(self.sections@, k, address as int) implies
            vw(self.sections@, address as int) == Some((self.sections@[k].data@[address - k], self.sections@[k].permissions)) by {
            lemma_vw_some(self.sections@, k, address as int);
        }
    }
//@ end

} // impl Memory
