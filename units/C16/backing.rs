// ======================================================================================
// units/C16/backing.rs — lib/memory/backing.rs under contract: Section, Memory, and
// `impl TranslationMemory for Memory`.  Specifications are in units/C16/bytes_spec.rs.
// ======================================================================================
//@ source lib/memory/backing.rs
//@ item struct Section
//@ item struct Memory

impl Section {

//@ fn impl Section :: fn new
//@ spec
    ensures /*@fields*/ r.data == data && r.permissions == permissions,
//@ end

//@ fn impl Section :: fn data
//@ spec
    ensures /*@data*/ r@ == self.data@,
//@ end

//@ fn impl Section :: fn len
//@ spec
    ensures /*@len*/ r == self.data@.len(),
//@ end

//@ fn impl Section :: fn is_empty
//@ spec
    ensures /*@empty*/ r == (self.data@.len() == 0),
//@ end

//@ fn impl Section :: fn permissions
//@ spec
    ensures /*@perm*/ r == self.permissions,
//@ end

//@ fn impl Section :: fn truncate
//@ spec
    ensures
        /*@perm*/ final(self).permissions == old(self).permissions,
        /*@data*/ final(self).data@ == (if size <= old(self).data@.len() { old(self).data@.take(size as int) } else { old(self).data@ }),
//@ end

} // impl Section

impl Memory {

    /// data invariant of backing::Memory
    pub open spec fn wf(&self) -> bool { sections_wf(self.sections@) }

    /// the content: address -> (byte, permissions); absent = unmapped
    pub open spec fn bytes(&self) -> IMap<u64, (u8, MemoryPermissions)> { bytes_of(self.sections@) }

//@ fn impl Memory :: fn new
//@ spec
    ensures
        /*@wf*/ r.wf(),
        /*@endian*/ r.endian == endian,
        /*@unmapped*/ forall|x: int| (#[trigger] vw(r.sections@, x)) is None,
        /*@view*/ r.bytes() == IMap::<u64, (u8, MemoryPermissions)>::empty(),
//@ before 0 `Memory {`
    proof {
        lemma_vw_empty(Map::<u64, Section>::empty());
        assert(bytes_of(Map::<u64, Section>::empty()) =~= IMap::<u64, (u8, MemoryPermissions)>::empty());
    }
//@ end

//@ fn impl Memory :: fn sections
//@ spec
    ensures /*@same*/ *r == self.sections,
//@ end

//@ fn impl Memory :: fn section_address
//@ rewrite 1 `self.sections.range(` => `btree_range::btree_range(&self.sections, ` ## R-std-standin: BTreeMap::range replaced by the stand-in of prelude/btree_range.rs (same map, same bounds expression; the stand-in's body calls the real `range`)
//@ spec
    requires self.wf(),
    ensures
        /*@found*/ r matches Some(k) ==> covers(self.sections@, k, address as int) && address - k < usize::MAX,
        /*@absent*/ r is None ==> forall|k: u64| !covers(self.sections@, k, address as int),
//@ before 0 `if let Some((section_address, section)) = sections.next_back()`
    let ghost rem = sections.remaining();
    proof {
        assert forall|k: u64| rem.len() == 0 implies !covers(self.sections@, k, address as int) by {
            if rem.len() == 0 && covers(self.sections@, k, address as int) {
                assert(self.sections@.contains_key(k));
            }
        }
    }
//@ before 0 `if *section_address <= address`
    proof {
        assert(rem.len() > 0);
        let top = rem.last();
        assert(top == rem[rem.len() - 1]);
        assert(self.sections@.contains_key(top.0) && self.sections@[top.0] == top.1);
        assert forall|k: u64| covers(self.sections@, k, address as int) implies k == top.0 by {
            assert(self.sections@.contains_key(k));
            let i = choose|i: int| 0 <= i < rem.len() && (#[trigger] rem[i]).0 == k;
            if i < rem.len() - 1 {
                assert(rem[i].0 < rem[rem.len() - 1].0);
            }
        }
    }
//@ end

//@ fn impl Memory :: fn section_address_offset
//@ closure 0 |section_address: u64| -> (r0: (u64, usize))
    requires section_address <= address, address - section_address < usize::MAX,
    ensures r0.0 == section_address, r0.1 as int == address - section_address,
//@ spec
    requires self.wf(),
    ensures
        /*@found*/ r matches Some(ko) ==> covers(self.sections@, ko.0, address as int) && ko.1 as int == address - ko.0,
        /*@absent*/ r is None ==> forall|k: u64| !covers(self.sections@, k, address as int),
//@ end

//@ fn impl Memory :: fn permissions
//@ closure 0 |section_address: u64| -> (r0: MemoryPermissions)
    requires self.sections@.contains_key(section_address),
    ensures r0 == self.sections@[section_address].permissions,
//@ closure 1 || -> (r1: &Section)
    requires false,
//@ spec
    requires self.wf(),
    ensures
        /*@read*/ r == (match vw(self.sections@, address as int) { Some(bp) => Some(bp.1), None => None::<MemoryPermissions> }),
        /*@read_map*/ r == (if self.bytes().contains_key(address) { Some(self.bytes()[address].1) } else { None::<MemoryPermissions> }),
//@ enter
    proof {
        lemma_vw_inv(self.sections@, address as int);
        assert forall|k: u64| covers(self.sections@, k, address as int) implies
            vw(self.sections@, address as int) == Some((self.sections@[k].data@[address - k], self.sections@[k].permissions)) by {
            lemma_vw_some(self.sections@, k, address as int);
        }
    }
//@ end

//@ fn impl Memory :: fn get8
//@ rewrite 1 `|(address, offset)| {` => `|ao__| { let (address, offset) = ao__;` ## R-closure-pattern: a tuple pattern in a closure's parameter list is by definition a `let` destructuring of that parameter at the start of the body (Verus accepts only variable parameters)
//@ closure 0 |ao__: (u64, usize)| -> (r0: u8)
    requires self.sections@.contains_key(ao__.0), ao__.1 < self.sections@[ao__.0].data@.len(),
    ensures r0 == self.sections@[ao__.0].data@[ao__.1 as int],
//@ closure 1 || -> (r1: &Section)
    requires false,
//@ closure 2 || -> (r2: &u8)
    requires false,
//@ spec
    requires self.wf(),
    ensures
        /*@read*/ r == (match vw(self.sections@, address as int) { Some(bp) => Some(bp.0), None => None::<u8> }),
        /*@read_map*/ r == (if self.bytes().contains_key(address) { Some(self.bytes()[address].0) } else { None::<u8> }),
//@ enter
    proof {
        lemma_vw_inv(self.sections@, address as int);
        assert forall|k: u64| covers(self.sections@, k, address as int) implies
            vw(self.sections@, address as int) == Some((self.sections@[k].data@[address - k], self.sections@[k].permissions)) by {
            lemma_vw_some(self.sections@, k, address as int);
        }
    }
//@ end

//@ fn impl Memory :: fn get32
//@ spec
    requires self.wf(),
    ensures
        /*@none*/ !within32(self.sections@, address) ==> r is None,
        /*@value*/ within32(self.sections@, address) ==> all_mapped(self.sections@, address, 4)
            && (r matches Some(v) && v as nat == endian_value(self.endian, bytes_at(self.sections@, address, 4))),
//@ enter
    proof {
        if forall|k: u64| !covers(self.sections@, k, address as int) {
            lemma_vw_none(self.sections@, address as int);
            lemma_not_within32(self.sections@, address);
        }
    }
//@ before 0 `if offset + 4 > section.len()`
    proof {
        axiom_vec_u8_len(section.data);
        lemma_within32(self.sections@, section_address, address);
    }
//@ before 0 `Some(match self.endian`
    proof {
        let d = section.data@;
        let o = offset as int;
        let (d0, d1, d2, d3) = (d[o], d[o + 1], d[o + 2], d[o + 3]);
        assert(((d0 as u32) << 24 | (d1 as u32) << 16 | (d2 as u32) << 8 | (d3 as u32))
            == (d0 as u32) * 0x100_0000 + (d1 as u32) * 0x1_0000 + (d2 as u32) * 0x100 + (d3 as u32)) by (bit_vector);
        assert(((d0 as u32) | (d1 as u32) << 8 | (d2 as u32) << 16 | (d3 as u32) << 24)
            == (d0 as u32) + (d1 as u32) * 0x100 + (d2 as u32) * 0x1_0000 + (d3 as u32) * 0x100_0000) by (bit_vector);
        let bs = bytes_at(self.sections@, address, 4);
        assert forall|i: int| 0 <= i < 4 implies (#[trigger] vw(self.sections@, address + i)) == Some((d[o + i], section.permissions)) by {
            assert(covers(self.sections@, section_address, address + i));
            lemma_vw_some(self.sections@, section_address, address + i);
        }
        assert(bs[0] == d0 && bs[1] == d1 && bs[2] == d2 && bs[3] == d3);
        lemma_value4(bs);
    }
//@ end

//@ fn impl Memory :: fn set32
//@ closure 0 || -> (r0: (u64, usize))
    requires false,
//@ spec
    requires
        old(self).wf(),
        vw(old(self).sections@, address as int) is Some,   // finding (iii): the code panics on an unmapped address
    ensures
        /*@wf*/ final(self).wf(),
        /*@endian*/ final(self).endian == old(self).endian,
        /*@err*/ !within32(old(self).sections@, address) ==> (r matches Err(e) && e is Custom) && final(self).sections@ == old(self).sections@,
        /*@shape*/ forall|k: u64| #![trigger final(self).sections@.contains_key(k)] #![trigger old(self).sections@.contains_key(k)]
            final(self).sections@.contains_key(k) == old(self).sections@.contains_key(k)
            && (old(self).sections@.contains_key(k) ==> final(self).sections@[k].data@.len() == old(self).sections@[k].data@.len()
                && final(self).sections@[k].permissions == old(self).sections@[k].permissions),
        /*@ok*/ within32(old(self).sections@, address) ==> r is Ok && (forall|x: int| #[trigger] vw(final(self).sections@, x) == (
            if address <= x < address + 4 { Some((w32_byte(old(self).endian, value, x - address), vw(old(self).sections@, x).unwrap().1)) }
            else { vw(old(self).sections@, x) })),
//@ enter
    proof { lemma_vw_inv(self.sections@, address as int); }
//@ before 0 `if offset + 4 > section.len()`
    let ghost d_old = section.data@;
    let ghost p_old = section.permissions;
    proof {
        axiom_vec_u8_len(section.data);
        lemma_within32(old(self).sections@, section_address, address);
        assert(old(self).sections@[section_address].data@ == d_old);
    }
//@ before 0 `Ok(())`
    proof {
        let s0 = old(self).sections@;
        let k = section_address;
        let o = offset as int;
        let sec = self.sections@[k];
        assert(self.sections@ =~= s0.insert(k, sec));
        assert(sec.permissions == p_old);
        assert(sec.data@.len() == d_old.len());
        assert(value as u8 == (value % 0x100) as u8) by (bit_vector);
        assert((value >> 8) as u8 == ((value / 0x100) % 0x100) as u8) by (bit_vector);
        assert((value >> 16) as u8 == ((value / 0x1_0000) % 0x100) as u8) by (bit_vector);
        assert((value >> 24) as u8 == ((value / 0x100_0000) % 0x100) as u8) by (bit_vector);
        assert forall|i: int| 0 <= i < d_old.len() implies sec.data@[i] == (if o <= i < o + 4 { w32_byte(self.endian, value, i - o) } else { d_old[i] }) by {}
        lemma_replace(s0, k, sec);
        assert forall|x: int| #[trigger] vw(self.sections@, x) == (
            if address <= x < address + 4 { Some((w32_byte(self.endian, value, x - address), vw(s0, x).unwrap().1)) }
            else { vw(s0, x) }) by {
            if k <= x < k + d_old.len() {
                assert(covers(s0, k, x));
                lemma_vw_some(s0, k, x);
            }
        }
    }
//@ end

//@ fn impl Memory :: fn get loops=2
//@ spec
    requires
        self.wf(),
        bits as nat <= MAX_BITS(),   // width bound under which unit C04 proves il::Constant / eval
    ensures
        /*@none_width*/ (bits == 0 || bits % 8 != 0) ==> r is None,
        /*@none_unmapped*/ !all_mapped(self.sections@, address, (bits / 8) as nat) ==> r is None,
        /*@value*/ (bits != 0 && bits % 8 == 0 && all_mapped(self.sections@, address, (bits / 8) as nat)) ==>
            (r matches Some(c) && c.wf() && c.bits == bits
             && c.value@ == endian_value(self.endian, bytes_at(self.sections@, address, (bits / 8) as nat))),
//@ before 0 `match self.endian`
    proof { lemma_get_init(value, bits, self.sections@, address); }
//@ loop 0
    invariant
        /*@ctx*/ self.wf() && 8 <= bits && bits as nat <= MAX_BITS() && bits % 8 == 0 && 1 <= i <= bits / 8,
        /*@prefix_mapped*/ forall|x: int| address <= x < address + i ==> (#[trigger] vw(self.sections@, x)) is Some,
        /*@expr_ok*/ expr_sane(value) && expr_bits(value) == bits,
        /*@prefix_value*/ eval_spec(value, empty_env()) == EvalR::Val(bits as nat, be_value(bytes_at(self.sections@, address, i as nat))),
//@ before 0 `value = il::Expression::or(`
    let ghost old_value = value;
    proof {
        assert(vw(self.sections@, address + i - 1) is Some);
        lemma_vw_range(self.sections@, address + i - 1);
    }
//@ after 0 `.unwrap();`
    proof {
        assert(vw(self.sections@, address + i) is Some);
        lemma_get_step_be(old_value, value, bits, self.sections@, address, i as nat);
    }
//@ loop 1
    invariant
        /*@ctx*/ self.wf() && 8 <= bits && bits as nat <= MAX_BITS() && bits % 8 == 0 && 1 <= i <= bits / 8,
        /*@prefix_mapped*/ forall|x: int| address <= x < address + i ==> (#[trigger] vw(self.sections@, x)) is Some,
        /*@expr_ok*/ expr_sane(value) && expr_bits(value) == bits,
        /*@prefix_value*/ eval_spec(value, empty_env()) == EvalR::Val(bits as nat, le_value(bytes_at(self.sections@, address, i as nat))),
//@ before 1 `value = il::Expression::or(`
    let ghost old_value = value;
    proof {
        assert(vw(self.sections@, address + i - 1) is Some);
        lemma_vw_range(self.sections@, address + i - 1);
    }
//@ after 1 `.unwrap();`
    proof {
        assert(vw(self.sections@, address + i) is Some);
        lemma_get_step_le(old_value, value, bits, self.sections@, address, i as nat);
    }
//@ end

//@ fn impl Memory :: fn set_memory loops=2
//@ rewrite 1 `self .sections .iter() .map(|(address, section)|` => `{ let mut als__: Vec<(u64, usize)> = Vec::new(); for (address, section) in it0: self.sections.iter() { als__.push(` ## R-map-collect: `ITER.map(|x| F).collect::<Vec<T>>()` is by definition the loop that pushes F for every item of ITER, in order, onto an initially empty Vec<T> (part 1 of 2; the iterator expression and F stay the original tokens)
//@ rewrite 1 `.collect::<Vec<(u64, usize)>>();` => `; } als__ };` ## R-map-collect: part 2 of 2
//@ rewrite 1 `for al in` => `for al in it1:` ## R-ghost-iter-name: names the ghost iterator of the for loop so that invariants can mention it; no executable change
//@ closure 0 || -> (r0: &mut Section)
    requires false,
//@ closure 1 || -> (r1: &mut Section)
    requires false,
//@ closure 2 || -> (r2: &Section)
    requires false,
//@ closure 3 || -> (r3: &Section)
    requires false,
//@ spec
    requires
        old(self).wf(),
        address + data@.len() <= u64::MAX,   // finding (iv): the region must not reach the last address 2^64-1
    ensures
        /*@wf*/ final(self).wf(),
        /*@endian*/ final(self).endian == old(self).endian,
        /*@view*/ forall|x: int| #[trigger] vw(final(self).sections@, x) == write_at(old(self).sections@, address, data@, permissions, x),
        /*@view_map*/ final(self).bytes() == write_map(old(self).bytes(), address, data@, permissions),
//@ loop 0
    invariant
        /*@snap_unchanged*/ self.sections@ == old(self).sections@,
        /*@snap_len*/ als__@.len() == it0.index@,
        /*@snap_nodup*/ it0.seq().no_duplicates(),
        /*@snap_sound*/ forall|j: int| 0 <= j < it0.seq().len() ==> self.sections@.contains_key(*(#[trigger] it0.seq()[j]).0) && self.sections@[*it0.seq()[j].0] == *it0.seq()[j].1,
        /*@snap_complete*/ forall|k: u64| #[trigger] self.sections@.contains_key(k) ==> exists|j: int| 0 <= j < it0.seq().len() && *(#[trigger] it0.seq()[j]).0 == k,
        /*@snap_items*/ forall|j: int| #![trigger als__@[j]] #![trigger it0.seq()[j]] 0 <= j < it0.index@ ==> als__@[j].0 == *it0.seq()[j].0 && als__@[j].1 as nat == it0.seq()[j].1.data@.len(),
//@ loop 1
    invariant
        /*@fits*/ address + data@.len() <= u64::MAX,
        /*@endian*/ self.endian == old(self).endian,
        /*@no_overlap*/ sections_wf(self.sections@),
        // the snapshot lists the sections of the memory as it was on entry, each once
        /*@snapshot*/ forall|j: int| 0 <= j < it1.seq().len() ==> old(self).sections@.contains_key((#[trigger] it1.seq()[j]).0)
            && it1.seq()[j].1 as nat == old(self).sections@[it1.seq()[j].0].data@.len(),
        /*@snapshot_distinct*/ forall|i: int, j: int| 0 <= i < j < it1.seq().len() ==> (#[trigger] it1.seq()[i]).0 != (#[trigger] it1.seq()[j]).0,
        // sections not yet visited are untouched
        /*@unvisited_untouched*/ forall|j: int| it1.index@ <= j < it1.seq().len() ==> self.sections@.contains_key((#[trigger] it1.seq()[j]).0)
            && self.sections@[it1.seq()[j].0] == old(self).sections@[it1.seq()[j].0],
        // every stored section is either not yet visited or already clear of the written region
        /*@visited_clear_of_region*/ forall|k: u64| #[trigger] self.sections@.contains_key(k) ==>
            (exists|j: int| it1.index@ <= j < it1.seq().len() && (#[trigger] it1.seq()[j]).0 == k)
            || k + self.sections@[k].data@.len() <= address || address + data@.len() <= k,
        // outside the written region nothing has changed
        /*@frame*/ forall|x: int| !(address <= x < address + data@.len()) ==> #[trigger] vw(self.sections@, x) == vw(old(self).sections@, x),
//@ after 0 `let (a, l) = (al.0, al.1 as u64);`
    let ghost s1 = self.sections@;
    proof {
        assert(al == it1.seq()[it1.index@]);
        assert(s1.contains_key(a) && s1[a] == old(self).sections@[a] && l == s1[a].data@.len());
        lemma_vw_section(s1, a);
    }
//@ after 0 `.truncate(new_length);`
    proof {
        assert(self.sections@ =~= s1.insert(a, self.sections@[a]));
        lemma_truncate(s1, a, self.sections@[a], address - a);
    }
//@ after 0 `.split_off(offset as usize);`
    let ghost s2 = self.sections@;
    proof {
        assert(s2 =~= s1.insert(a, s2[a]));
        lemma_truncate(s1, a, s2[a], address + data@.len() - a);
    }
//@ before 0 `let new_length = (address - a) as usize; self.sections.get_mut(&a).unwrap()`
    let ghost s3 = self.sections@;
    proof {
        let n = (address + data@.len()) as u64;
        assert(s3 =~= s2.insert(n, s3[n]));
        lemma_insert(s2, n, s3[n]);
    }
//@ after 1 `.truncate(new_length);`
    proof {
        assert(self.sections@ =~= s3.insert(a, self.sections@[a]));
        lemma_truncate(s3, a, self.sections@[a], address - a);
    }
//@ after 0 `self.sections.remove(&a);`
    proof {
        assert(self.sections@ =~= s1.remove(a));
        lemma_remove(s1, a);
    }
//@ after 1 `self.sections.remove(&a);`
    let ghost s3 = self.sections@;
    proof {
        assert(s3 =~= s1.remove(a));
        lemma_remove(s1, a);
    }
//@ after 1 `Section::new(split, permissions), );`
    proof {
        let n = (address + data@.len()) as u64;
        assert(self.sections@ =~= s3.insert(n, self.sections@[n]));
        lemma_insert(s3, n, self.sections@[n]);
    }
//@ before 2 `self.sections .insert(address`
    let ghost s_end = self.sections@;
    let ghost data0 = data@;
//@ after 0 `Section::new(data, permissions));`
    proof {
        let sec = self.sections@[address];
        assert(self.sections@ =~= s_end.insert(address, sec));
        if data0.len() > 0 {
            lemma_insert(s_end, address, sec);
        }
        if forall|x: int| #[trigger] vw(self.sections@, x) == write_at(old(self).sections@, address, data0, permissions, x) {
            lemma_write_map(old(self).sections@, self.sections@, address, data0, permissions);
        }
    }
//@ end

} // impl Memory

impl TranslationMemory for Memory {
    open spec fn tm_wf(&self) -> bool { self.wf() }

    open spec fn tm_read(&self, address: u64) -> Option<(u8, MemoryPermissions)> { vw(self.sections@, address as int) }

//@ fn impl TranslationMemory for Memory :: fn get_u8 nopub
//@ spec
    ensures /*@read*/ r == (match vw(self.sections@, address as int) { Some(bp) => Some(bp.0), None => None::<u8> }),
//@ end

//@ fn impl TranslationMemory for Memory :: fn permissions nopub
//@ spec
    ensures /*@read*/ r == (match vw(self.sections@, address as int) { Some(bp) => Some(bp.1), None => None::<MemoryPermissions> }),
//@ end
}
