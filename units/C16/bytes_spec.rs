// ======================================================================================
// units/C16/bytes_spec.rs — the mathematical content of a backing memory, DEFINED from its
// `sections` map, the data invariant, byte-assembly specifications and the lemmas that say
// what one edit of the section map does to the content of EVERY address.
// ======================================================================================

pub type SecMap = Map<u64, Section>;

/// section `k` of `s` contains address `x` (addresses are mathematical integers: no wrap-around)
pub open spec fn covers(s: SecMap, k: u64, x: int) -> bool {
    s.contains_key(k) && k <= x < k + s[k].data@.len()
}

/// data invariant: stored sections never overlap (for keys a < b section a ends at or before b)
/// and no section reaches the last address 2^64-1 (so `a + len`, computed in u64 by the code,
/// never overflows — finding (iv): regions touching 2^64 are outside the supported domain).
pub open spec fn sections_wf(s: SecMap) -> bool {
    &&& forall|a: u64| #[trigger] s.contains_key(a) ==> a + s[a].data@.len() <= u64::MAX
    &&& forall|a: u64, b: u64| #![trigger s.contains_key(a), s.contains_key(b)]
            s.contains_key(a) && s.contains_key(b) && a < b ==> a + s[a].data@.len() <= b
}

/// what a read at address `x` yields: the byte and the permissions of the section containing
/// `x`, or None when no section contains it.  (Under `sections_wf` the section is unique.)
#[verifier::opaque]
pub open spec fn vw(s: SecMap, x: int) -> Option<(u8, MemoryPermissions)> {
    if exists|k: u64| covers(s, k, x) {
        let k = choose|k: u64| covers(s, k, x);
        Some((s[k].data@[x - k], s[k].permissions))
    } else {
        None
    }
}

/// the view as a map from addresses to (byte, permissions)
pub open spec fn bytes_of(s: SecMap) -> IMap<u64, (u8, MemoryPermissions)> {
    IMap::new(|x: u64| vw(s, x as int) is Some, |x: u64| vw(s, x as int).unwrap())
}

/// the content after writing region [address, address + data.len()) with permissions p
pub open spec fn write_at(s0: SecMap, address: u64, data: Seq<u8>, p: MemoryPermissions, x: int) -> Option<(u8, MemoryPermissions)> {
    if address <= x < address + data.len() { Some((data[x - address], p)) } else { vw(s0, x) }
}

/// the same on the map view: old content overridden on [address, address + data.len())
pub open spec fn write_map(m: IMap<u64, (u8, MemoryPermissions)>, address: u64, data: Seq<u8>, p: MemoryPermissions) -> IMap<u64, (u8, MemoryPermissions)> {
    IMap::new(
        |x: u64| (address <= x < address + data.len()) || m.contains_key(x),
        |x: u64| if address <= x < address + data.len() { (data[x - address], p) } else { m[x] },
    )
}

/// [address, address+4) lies within ONE section
pub open spec fn within32(s: SecMap, address: u64) -> bool {
    exists|k: u64| #[trigger] s.contains_key(k) && k <= address && address + 4 <= k + s[k].data@.len()
}

// ---- byte assembly ---------------------------------------------------------------------------

/// little endian: byte i has weight 256^i
pub open spec fn le_value(b: Seq<u8>) -> nat
    decreases b.len(),
{
    if b.len() == 0 { 0 } else { le_value(b.drop_last()) + (b.last() as nat) * pow2((8 * (b.len() - 1)) as nat) }
}

/// big endian: the first byte is the most significant
pub open spec fn be_value(b: Seq<u8>) -> nat
    decreases b.len(),
{
    if b.len() == 0 { 0 } else { be_value(b.drop_last()) * 256 + (b.last() as nat) }
}

pub open spec fn endian_value(e: Endian, b: Seq<u8>) -> nat {
    match e { Endian::Big => be_value(b), Endian::Little => le_value(b) }
}

/// the n bytes at address.. (only meaningful when all of them are mapped)
pub open spec fn bytes_at(s: SecMap, address: u64, n: nat) -> Seq<u8> {
    Seq::new(n, |i: int| vw(s, address + i).unwrap().0)
}

pub open spec fn all_mapped(s: SecMap, address: u64, n: nat) -> bool {
    forall|x: int| address <= x < address + n ==> (#[trigger] vw(s, x)) is Some
}

/// byte number i (in address order) of the 32-bit value written in endianness e
pub open spec fn w32_byte(e: Endian, value: u32, i: int) -> u8 {
    let j = match e { Endian::Little => i, Endian::Big => 3 - i };
    if j == 0 { (value % 0x100) as u8 }
    else if j == 1 { ((value / 0x100) % 0x100) as u8 }
    else if j == 2 { ((value / 0x1_0000) % 0x100) as u8 }
    else { ((value / 0x100_0000) % 0x100) as u8 }
}

pub proof fn lemma_value_bound(b: Seq<u8>)
    ensures le_value(b) < pow2((8 * b.len()) as nat), be_value(b) < pow2((8 * b.len()) as nat),
    decreases b.len(),
{
    lemma2_to64();
    if b.len() == 0 {
    } else {
        let n = (b.len() - 1) as nat;
        lemma_value_bound(b.drop_last());
        lemma_pow2_adds(8 * n, 8);
        assert(pow2(8 * n + 8) == pow2(8 * n) * 256);
        assert(((8 * b.len()) as nat) == 8 * n + 8);
        let p = pow2(8 * n);
        let l = b.last() as nat;
        assert(l * p <= 255 * p) by (nonlinear_arith) requires l <= 255;
        assert(be_value(b.drop_last()) * 256 + 256 <= p * 256) by (nonlinear_arith) requires be_value(b.drop_last()) < p;
    }
}

/// 4-byte values, written out
pub proof fn lemma_value4(b: Seq<u8>)
    requires b.len() == 4,
    ensures
        le_value(b) == b[0] as nat + (b[1] as nat) * 0x100 + (b[2] as nat) * 0x1_0000 + (b[3] as nat) * 0x100_0000,
        be_value(b) == (b[0] as nat) * 0x100_0000 + (b[1] as nat) * 0x1_0000 + (b[2] as nat) * 0x100 + b[3] as nat,
{
    lemma2_to64();
    let b3 = b.drop_last();
    let b2 = b3.drop_last();
    let b1 = b2.drop_last();
    let b0 = b1.drop_last();
    assert(b0.len() == 0 && b1.len() == 1 && b2.len() == 2 && b3.len() == 3);
    assert(b1.last() == b[0] && b2.last() == b[1] && b3.last() == b[2] && b.last() == b[3]);
    assert(pow2(0) == 1 && pow2(8) == 0x100 && pow2(16) == 0x1_0000 && pow2(24) == 0x100_0000);
    assert(le_value(b0) == 0 && be_value(b0) == 0);
    assert(le_value(b1) == le_value(b0) + (b1.last() as nat) * pow2(0));
    assert(le_value(b2) == le_value(b1) + (b2.last() as nat) * pow2(8));
    assert(le_value(b3) == le_value(b2) + (b3.last() as nat) * pow2(16));
    assert(le_value(b) == le_value(b3) + (b.last() as nat) * pow2(24));
    assert(be_value(b1) == be_value(b0) * 256 + (b1.last() as nat));
    assert(be_value(b2) == be_value(b1) * 256 + (b2.last() as nat));
    assert(be_value(b3) == be_value(b2) * 256 + (b3.last() as nat));
    assert(be_value(b) == be_value(b3) * 256 + (b.last() as nat));
}

/// reading back, in the same endianness, the four bytes that `set32` stores yields the value
pub proof fn lemma_w32_roundtrip(e: Endian, value: u32)
    ensures endian_value(e, Seq::new(4, |i: int| w32_byte(e, value, i))) == value as nat,
{
    let b = Seq::new(4, |i: int| w32_byte(e, value, i));
    lemma_value4(b);
    assert(value == (value % 0x100) + ((value / 0x100) % 0x100) * 0x100 + ((value / 0x1_0000) % 0x100) * 0x1_0000
        + ((value / 0x100_0000) % 0x100) * 0x100_0000) by (bit_vector);
    match e {
        Endian::Little => {
            assert(b[0] == w32_byte(e, value, 0) && b[1] == w32_byte(e, value, 1) && b[2] == w32_byte(e, value, 2) && b[3] == w32_byte(e, value, 3));
        },
        Endian::Big => {
            assert(b[0] == w32_byte(e, value, 0) && b[1] == w32_byte(e, value, 1) && b[2] == w32_byte(e, value, 2) && b[3] == w32_byte(e, value, 3));
        },
    }
}

/// ASSUMED (std): "Vec ... never allocates more than isize::MAX bytes", so a Vec<u8> never holds
/// more than isize::MAX elements.  Needed for `offset + 4` (usize) not to overflow.
pub axiom fn axiom_vec_u8_len(v: Vec<u8>)
    ensures v@.len() <= isize::MAX as nat;

// ---- facts about vw ----------------------------------------------------------------------------

pub proof fn lemma_cover_unique(s: SecMap, k1: u64, k2: u64, x: int)
    requires sections_wf(s), covers(s, k1, x), covers(s, k2, x),
    ensures k1 == k2,
{
}

pub proof fn lemma_vw_some(s: SecMap, k: u64, x: int)
    requires sections_wf(s), covers(s, k, x),
    ensures vw(s, x) == Some((s[k].data@[x - k], s[k].permissions)),
{
    reveal(vw);
    let k2 = choose|k: u64| covers(s, k, x);
    lemma_cover_unique(s, k, k2, x);
}

pub proof fn lemma_vw_none(s: SecMap, x: int)
    requires forall|k: u64| !covers(s, k, x),
    ensures vw(s, x) is None,
{
    reveal(vw);
}

/// inversion: a mapped address has a covering section; an unmapped one has none
pub proof fn lemma_vw_inv(s: SecMap, x: int)
    ensures
        vw(s, x) is Some ==> exists|k: u64| covers(s, k, x) && vw(s, x) == Some((s[k].data@[x - k], s[k].permissions)),
        vw(s, x) is None ==> forall|k: u64| !covers(s, k, x),
        vw(s, x) is Some ==> 0 <= x,
{
    reveal(vw);
}

/// under the invariant nothing at or above 2^64 - 1 is mapped
pub proof fn lemma_vw_range(s: SecMap, x: int)
    requires sections_wf(s),
    ensures vw(s, x) is Some ==> 0 <= x < u64::MAX,
{
    lemma_vw_inv(s, x);
}

pub proof fn lemma_vw_empty(s: SecMap)
    requires s == Map::<u64, Section>::empty(),
    ensures sections_wf(s), forall|x: int| (#[trigger] vw(s, x)) is None,
{
    assert forall|x: int| (#[trigger] vw(s, x)) is None by { lemma_vw_none(s, x); }
}

pub proof fn lemma_within32(s: SecMap, k: u64, address: u64)
    requires sections_wf(s), s.contains_key(k), k <= address, address < k + s[k].data@.len(),
    ensures within32(s, address) <==> address + 4 <= k + s[k].data@.len(),
{
    if within32(s, address) {
        let k2 = choose|k2: u64| #[trigger] s.contains_key(k2) && k2 <= address && address + 4 <= k2 + s[k2].data@.len();
        lemma_cover_unique(s, k, k2, address as int);
    }
}

pub proof fn lemma_not_within32(s: SecMap, address: u64)
    requires sections_wf(s), vw(s, address as int) is None,
    ensures !within32(s, address),
{
    lemma_vw_inv(s, address as int);
    if within32(s, address) {
        let k2 = choose|k2: u64| #[trigger] s.contains_key(k2) && k2 <= address && address + 4 <= k2 + s[k2].data@.len();
        assert(covers(s, k2, address as int));
    }
}

// ---- one edit of the section map: effect on every address -------------------------------------

/// the section at `a` is replaced by one that is not longer (truncate, split_off's front part,
/// in-place byte updates)
pub proof fn lemma_replace(s: SecMap, a: u64, sec: Section)
    requires sections_wf(s), s.contains_key(a), sec.data@.len() <= s[a].data@.len(),
    ensures
        sections_wf(s.insert(a, sec)),
        forall|x: int| #[trigger] vw(s.insert(a, sec), x) == (
            if a <= x < a + sec.data@.len() { Some((sec.data@[x - a], sec.permissions)) }
            else if a + sec.data@.len() <= x < a + s[a].data@.len() { None }
            else { vw(s, x) }),
{
    let s2 = s.insert(a, sec);
    assert(sections_wf(s2)) by {
        assert forall|a1: u64| #[trigger] s2.contains_key(a1) implies a1 + s2[a1].data@.len() <= u64::MAX by {
            assert(s.contains_key(a1));
        }
        assert forall|a1: u64, b1: u64| #![trigger s2.contains_key(a1), s2.contains_key(b1)]
            s2.contains_key(a1) && s2.contains_key(b1) && a1 < b1 implies a1 + s2[a1].data@.len() <= b1 by {
            assert(s.contains_key(a1) && s.contains_key(b1));
        }
    }
    assert forall|x: int| #[trigger] vw(s2, x) == (
            if a <= x < a + sec.data@.len() { Some((sec.data@[x - a], sec.permissions)) }
            else if a + sec.data@.len() <= x < a + s[a].data@.len() { None }
            else { vw(s, x) }) by {
        if a <= x < a + sec.data@.len() {
            assert(covers(s2, a, x));
            lemma_vw_some(s2, a, x);
        } else if a + sec.data@.len() <= x < a + s[a].data@.len() {
            assert forall|k2: u64| !covers(s2, k2, x) by {
                if covers(s2, k2, x) {
                    assert(k2 != a);
                    assert(covers(s, k2, x));
                    assert(covers(s, a, x));
                    lemma_cover_unique(s, k2, a, x);
                }
            }
            lemma_vw_none(s2, x);
        } else {
            lemma_vw_inv(s, x);
            if vw(s, x) is Some {
                let k = choose|k: u64| covers(s, k, x) && vw(s, x) == Some((s[k].data@[x - k], s[k].permissions));
                assert(k != a);
                assert(covers(s2, k, x));
                lemma_vw_some(s2, k, x);
            } else {
                assert forall|k2: u64| !covers(s2, k2, x) by {
                    if covers(s2, k2, x) { assert(k2 != a); assert(covers(s, k2, x)); }
                }
                lemma_vw_none(s2, x);
            }
        }
    }
}

/// every address of a stored section reads that section's byte and permissions
pub proof fn lemma_vw_section(s: SecMap, a: u64)
    requires sections_wf(s), s.contains_key(a),
    ensures forall|x: int| a <= x < a + s[a].data@.len() ==> #[trigger] vw(s, x) == Some((s[a].data@[x - a], s[a].permissions)),
{
    assert forall|x: int| a <= x < a + s[a].data@.len() implies #[trigger] vw(s, x) == Some((s[a].data@[x - a], s[a].permissions)) by {
        lemma_vw_some(s, a, x);
    }
}

/// the section at `a` keeps its first m bytes (Vec::truncate, or the part Vec::split_off leaves behind)
pub proof fn lemma_truncate(s: SecMap, a: u64, sec: Section, m: int)
    requires
        sections_wf(s), s.contains_key(a), 0 <= m <= s[a].data@.len(),
        sec.data@ == s[a].data@.take(m), sec.permissions == s[a].permissions,
    ensures
        sections_wf(s.insert(a, sec)),
        forall|x: int| #[trigger] vw(s.insert(a, sec), x) == (if a + m <= x < a + s[a].data@.len() { None } else { vw(s, x) }),
{
    lemma_replace(s, a, sec);
    lemma_vw_section(s, a);
}

/// the section at `a` is removed
pub proof fn lemma_remove(s: SecMap, a: u64)
    requires sections_wf(s), s.contains_key(a),
    ensures
        sections_wf(s.remove(a)),
        forall|x: int| #[trigger] vw(s.remove(a), x) == (if a <= x < a + s[a].data@.len() { None } else { vw(s, x) }),
{
    let s2 = s.remove(a);
    assert(sections_wf(s2)) by {
        assert forall|a1: u64| #[trigger] s2.contains_key(a1) implies a1 + s2[a1].data@.len() <= u64::MAX by {
            assert(s.contains_key(a1));
        }
        assert forall|a1: u64, b1: u64| #![trigger s2.contains_key(a1), s2.contains_key(b1)]
            s2.contains_key(a1) && s2.contains_key(b1) && a1 < b1 implies a1 + s2[a1].data@.len() <= b1 by {
            assert(s.contains_key(a1) && s.contains_key(b1));
        }
    }
    assert forall|x: int| #[trigger] vw(s2, x) == (if a <= x < a + s[a].data@.len() { None } else { vw(s, x) }) by {
        if a <= x < a + s[a].data@.len() {
            assert forall|k2: u64| !covers(s2, k2, x) by {
                if covers(s2, k2, x) {
                    assert(covers(s, k2, x));
                    assert(covers(s, a, x));
                    lemma_cover_unique(s, k2, a, x);
                }
            }
            lemma_vw_none(s2, x);
        } else {
            lemma_vw_inv(s, x);
            if vw(s, x) is Some {
                let k = choose|k: u64| covers(s, k, x) && vw(s, x) == Some((s[k].data@[x - k], s[k].permissions));
                assert(k != a);
                assert(covers(s2, k, x));
                lemma_vw_some(s2, k, x);
            } else {
                assert forall|k2: u64| !covers(s2, k2, x) by {
                    if covers(s2, k2, x) { assert(covers(s, k2, x)); }
                }
                lemma_vw_none(s2, x);
            }
        }
    }
}

/// a section is stored at key `k` where it overlaps no other section (a section already stored
/// at `k` itself must be empty: it is replaced)
pub proof fn lemma_insert(s: SecMap, k: u64, sec: Section)
    requires
        sections_wf(s),
        k + sec.data@.len() <= u64::MAX,
        s.contains_key(k) ==> s[k].data@.len() == 0,
        forall|b: u64| #[trigger] s.contains_key(b) && b != k ==> b + s[b].data@.len() <= k || k + sec.data@.len() <= b,
    ensures
        sections_wf(s.insert(k, sec)),
        forall|x: int| #[trigger] vw(s.insert(k, sec), x) == (if k <= x < k + sec.data@.len() { Some((sec.data@[x - k], sec.permissions)) } else { vw(s, x) }),
{
    let s2 = s.insert(k, sec);
    assert(sections_wf(s2)) by {
        assert forall|a1: u64| #[trigger] s2.contains_key(a1) implies a1 + s2[a1].data@.len() <= u64::MAX by {
            if a1 != k { assert(s.contains_key(a1)); }
        }
        assert forall|a1: u64, b1: u64| #![trigger s2.contains_key(a1), s2.contains_key(b1)]
            s2.contains_key(a1) && s2.contains_key(b1) && a1 < b1 implies a1 + s2[a1].data@.len() <= b1 by {
            if a1 != k { assert(s.contains_key(a1)); }
            if b1 != k { assert(s.contains_key(b1)); }
        }
    }
    assert forall|x: int| #[trigger] vw(s2, x) == (if k <= x < k + sec.data@.len() { Some((sec.data@[x - k], sec.permissions)) } else { vw(s, x) }) by {
        if k <= x < k + sec.data@.len() {
            assert(covers(s2, k, x));
            lemma_vw_some(s2, k, x);
        } else {
            lemma_vw_inv(s, x);
            if vw(s, x) is Some {
                let k1 = choose|k1: u64| covers(s, k1, x) && vw(s, x) == Some((s[k1].data@[x - k1], s[k1].permissions));
                assert(k1 != k);
                assert(covers(s2, k1, x));
                lemma_vw_some(s2, k1, x);
            } else {
                assert forall|k2: u64| !covers(s2, k2, x) by {
                    if covers(s2, k2, x) { assert(k2 != k); assert(covers(s, k2, x)); }
                }
                lemma_vw_none(s2, x);
            }
        }
    }
}

/// pointwise content == map view
pub proof fn lemma_write_map(s0: SecMap, s1: SecMap, address: u64, data: Seq<u8>, p: MemoryPermissions)
    requires
        address + data.len() <= u64::MAX,
        forall|x: int| #[trigger] vw(s1, x) == write_at(s0, address, data, p, x),
    ensures bytes_of(s1) == write_map(bytes_of(s0), address, data, p),
{
    let m1 = bytes_of(s1);
    let m2 = write_map(bytes_of(s0), address, data, p);
    assert forall|x: u64| m1.contains_key(x) == m2.contains_key(x) && (m1.contains_key(x) ==> m1[x] == m2[x]) by {
        assert(vw(s1, x as int) == write_at(s0, address, data, p, x as int));
    }
    assert(m1 =~= m2);
}
