// ---- units/C01/flags.rs: the flag helpers of translator::x86::semantics::Semantics (set_zf, set_sf, set_of, set_cf)
//@ source lib/translator/x86/semantics.rs
//@ item struct Semantics

/// the 1-bit IL scalar that holds a flag
pub open spec fn flag_scalar(name: Seq<char>) -> Scalar { named_scalar(name, 1) }

/// exactly one instruction `flag := src` was appended to the block; `src` is a well-sorted 1-bit expression
pub open spec fn flag_assigned(b0: Block, b1: Block, name: Seq<char>) -> bool {
    &&& b1.instructions@.len() == b0.instructions@.len() + 1
    &&& b1.instructions@.last().operation matches Operation::Assign { dst, src }
    &&& b1.pushed_op(b0, Operation::Assign { dst, src })
    &&& dst == flag_scalar(name)
    &&& expr_wf(src) && expr_bits(src) == 1
}

/// the expression assigned by the last instruction of the block
pub open spec fn last_src(b: Block) -> Expression {
    match b.instructions@.last().operation { Operation::Assign { dst, src } => src, _ => arbitrary() }
}

/// ZF: the result is zero
pub open spec fn zf_ok(result: Expression, src: Expression, env: Env) -> bool {
    eval_spec(result, env) matches EvalR::Val(w, v) ==> eval_spec(src, env) == EvalR::Val(1, b2n(v == 0))
}

/// SF: the most significant bit of the result
pub open spec fn sf_ok(result: Expression, src: Expression, env: Env) -> bool {
    eval_spec(result, env) matches EvalR::Val(w, v) ==> eval_spec(src, env) == EvalR::Val(1, msb(w, v))
}

/// OF: whenever `result` holds lhs - rhs (subtract) resp. lhs + rhs at their common width, the flag says that the
/// SIGNED subtraction resp. addition overflows
pub open spec fn of_ok(result: Expression, lhs: Expression, rhs: Expression, subtract: bool, src: Expression, env: Env) -> bool {
    match (eval_spec(lhs, env), eval_spec(rhs, env), eval_spec(result, env)) {
        (EvalR::Val(w, a), EvalR::Val(wb, b), EvalR::Val(wr, res)) =>
            res == (if subtract { bv_sub(w, a, b) } else { bv_add(w, a, b) }) ==> eval_spec(src, env) == EvalR::Val(1, b2n(signed_overflow(w, a, b, subtract))),
        _ => true,
    }
}

/// CF (subtraction): whenever `result` holds lhs - b for some b of the same width, the flag says that the UNSIGNED
/// subtraction borrows (lhs < b)
pub open spec fn cf_ok(result: Expression, lhs: Expression, src: Expression, env: Env) -> bool {
    match (eval_spec(lhs, env), eval_spec(result, env)) {
        (EvalR::Val(w, a), EvalR::Val(wr, res)) =>
            forall|b: nat| (b < pow2(w) && res == #[trigger] bv_sub(w, a, b)) ==> eval_spec(src, env) == EvalR::Val(1, b2n(unsigned_overflow(w, a, b, true))),
        _ => true,
    }
}

pub proof fn lemma_zf_eval(result: Expression, c: Constant, env: Env)
    requires expr_wf(result), env_sorted(env), c.wf(), c.bits as nat == expr_bits(result), c.value@ == 0,
    ensures zf_ok(result, Expression::Cmpeq(Box::new(result), Box::new(Expression::Constant(c))), env),
{
    lemma_eval_wf_val(result, env);
    reveal(bv_cmpeq);
    assert(eval_spec(Expression::Constant(c), env) == EvalR::Val(c.bits as nat, c.value@));
}

pub proof fn lemma_sf_eval(result: Expression, c: Constant, env: Env)
    requires expr_wf(result), expr_bits(result) >= 2, env_sorted(env), c.wf(), c.bits as nat == expr_bits(result), c.value@ == expr_bits(result) - 1,
    ensures sf_ok(result, Expression::Trun(1, Box::new(Expression::Shr(Box::new(result), Box::new(Expression::Constant(c))))), env),
{
    lemma_eval_wf_val(result, env);
    reveal(bv_shr); reveal(bv_trun);
    let sh = Expression::Shr(Box::new(result), Box::new(Expression::Constant(c)));
    assert(eval_spec(Expression::Constant(c), env) == EvalR::Val(c.bits as nat, c.value@));
    assert(eval_spec(sh, env) == bin_spec(BinOp::Shr, eval_spec(result, env), EvalR::Val(c.bits as nat, c.value@)));
    if let EvalR::Val(w, v) = eval_spec(result, env) {
        lemma_msb(w, v);
        lemma2_to64();
        assert(pow2(1) == 2);
        lemma_small_mod(msb(w, v), 2);
    }
}

pub open spec fn of_form(lhs: Expression, rhs: Expression, result: Expression, subtract: bool, ones: Constant, cw: Constant) -> Expression {
    let x0 = Expression::Xor(Box::new(lhs), Box::new(rhs));
    let e0 = if subtract { x0 } else { Expression::Xor(Box::new(x0), Box::new(Expression::Constant(ones))) };
    let e1 = Expression::Xor(Box::new(lhs), Box::new(result));
    let anded = Expression::And(Box::new(e0), Box::new(e1));
    Expression::Trun(1, Box::new(Expression::Shr(Box::new(anded), Box::new(Expression::Constant(cw)))))
}

/// value level: msb( (a ^ b [^ ones]) & (a ^ res) ) is the signed-overflow bit
pub proof fn lemma_of_value(w: nat, a: nat, b: nat, res: nat, subtract: bool)
    requires w >= 2, a < pow2(w), b < pow2(w), res == (if subtract { bv_sub(w, a, b) } else { bv_add(w, a, b) }),
    ensures
        res < pow2(w),
        nat_xor(a, b) < pow2(w),
        nat_xor(nat_xor(a, b), (pow2(w) - 1) as nat) == pow2(w) - 1 - nat_xor(a, b),
        ({ let t0 = if subtract { nat_xor(a, b) } else { (pow2(w) - 1 - nat_xor(a, b)) as nat };
           let t = nat_and(t0, nat_xor(a, res));
           t < pow2(w) && msb(w, t) % 2 == b2n(signed_overflow(w, a, b, subtract)) }),
{
    lemma_of_formula(w, a, b, res, subtract);
    lemma_msb(w, a); lemma_msb(w, b); lemma_msb(w, res);
    let t0 = nat_xor(a, b);
    lemma_msb_xor(w, a, b);
    lemma_msb(w, t0);
    let t0n = (pow2(w) - 1 - t0) as nat;
    lemma_msb_not(w, t0);
    let t0x = if subtract { t0 } else { t0n };
    let t1 = nat_xor(a, res);
    lemma_msb_xor(w, a, res);
    lemma_msb(w, t1);
    lemma_pow2_pos(w);
    let t = nat_and(t0x, t1);
    lemma_msb_and(w, t0x, t1);
    lemma_msb(w, t);
    lemma_small_mod(msb(w, t), 2);
}

pub proof fn lemma_of_eval(lhs: Expression, rhs: Expression, result: Expression, subtract: bool, ones: Constant, cw: Constant, env: Env)
    requires
        expr_wf(lhs), expr_wf(rhs), expr_wf(result), expr_bits(lhs) == expr_bits(rhs), expr_bits(lhs) == expr_bits(result),
        expr_bits(lhs) >= 2, env_sorted(env),
        !subtract ==> (ones.wf() && ones.bits as nat == expr_bits(lhs) && ones.value@ == pow2(expr_bits(lhs)) - 1),
        cw.wf(), cw.bits as nat == expr_bits(lhs), cw.value@ == expr_bits(lhs) - 1,
    ensures of_ok(result, lhs, rhs, subtract, of_form(lhs, rhs, result, subtract, ones, cw), env),
{
    let w = expr_bits(lhs);
    lemma_eval_wf_val(lhs, env);
    lemma_eval_wf_val(rhs, env);
    lemma_eval_wf_val(result, env);
    let x0 = Expression::Xor(Box::new(lhs), Box::new(rhs));
    let cones = Expression::Constant(ones);
    let x0n = Expression::Xor(Box::new(x0), Box::new(cones));
    let e0 = if subtract { x0 } else { x0n };
    let e1 = Expression::Xor(Box::new(lhs), Box::new(result));
    let anded = Expression::And(Box::new(e0), Box::new(e1));
    let ccw = Expression::Constant(cw);
    let sh = Expression::Shr(Box::new(anded), Box::new(ccw));
    let whole = Expression::Trun(1, Box::new(sh));
    assert(whole == of_form(lhs, rhs, result, subtract, ones, cw));
    assert(eval_spec(cones, env) == EvalR::Val(ones.bits as nat, ones.value@));
    assert(eval_spec(ccw, env) == EvalR::Val(w, cw.value@));
    assert(eval_spec(x0, env) == bin_spec(BinOp::Xor, eval_spec(lhs, env), eval_spec(rhs, env)));
    assert(eval_spec(x0n, env) == bin_spec(BinOp::Xor, eval_spec(x0, env), eval_spec(cones, env)));
    assert(eval_spec(e1, env) == bin_spec(BinOp::Xor, eval_spec(lhs, env), eval_spec(result, env)));
    assert(eval_spec(anded, env) == bin_spec(BinOp::And, eval_spec(e0, env), eval_spec(e1, env)));
    assert(eval_spec(sh, env) == bin_spec(BinOp::Shr, eval_spec(anded, env), EvalR::Val(w, cw.value@)));
    assert(eval_spec(whole, env) == trun_spec(1, eval_spec(sh, env)));
    if let EvalR::Val(wa, a) = eval_spec(lhs, env) {
        if let EvalR::Val(wb, b) = eval_spec(rhs, env) {
            if let EvalR::Val(wr, res) = eval_spec(result, env) {
                if res == (if subtract { bv_sub(w, a, b) } else { bv_add(w, a, b) }) {
                    lemma_of_value(w, a, b, res, subtract);
                    lemma2_to64();
                    assert(pow2(1) == 2);
                    let t0 = if subtract { nat_xor(a, b) } else { (pow2(w) - 1 - nat_xor(a, b)) as nat };
                    let t = nat_and(t0, nat_xor(a, res));
                    assert(eval_spec(x0, env) == EvalR::Val(w, nat_xor(a, b))) by { reveal(bv_xor); }
                    assert(eval_spec(e0, env) == EvalR::Val(w, t0)) by { reveal(bv_xor); }
                    assert(eval_spec(e1, env) == EvalR::Val(w, nat_xor(a, res))) by { reveal(bv_xor); }
                    assert(eval_spec(anded, env) == EvalR::Val(w, t)) by { reveal(bv_and); }
                    assert(eval_spec(sh, env) == EvalR::Val(w, msb(w, t))) by { reveal(bv_shr); }
                    assert(eval_spec(whole, env) == EvalR::Val(1, msb(w, t) % 2)) by { reveal(bv_trun); }
                }
            }
        }
    }
}

pub proof fn lemma_cf_eval(result: Expression, lhs: Expression, env: Env)
    requires expr_wf(lhs), expr_wf(result), expr_bits(lhs) == expr_bits(result), env_sorted(env),
    ensures cf_ok(result, lhs, Expression::Cmpltu(Box::new(lhs), Box::new(result)), env),
{
    lemma_eval_wf_val(lhs, env);
    lemma_eval_wf_val(result, env);
    reveal(bv_cmpltu);
    if let EvalR::Val(w, a) = eval_spec(lhs, env) {
        if let EvalR::Val(wr, res) = eval_spec(result, env) {
            assert forall|b: nat| (b < pow2(w) && res == #[trigger] bv_sub(w, a, b)) implies
                eval_spec(Expression::Cmpltu(Box::new(lhs), Box::new(result)), env) == EvalR::Val(1, b2n(unsigned_overflow(w, a, b, true))) by {
                lemma_cf_formula(w, a, b);
            }
        }
    }
}

impl<'s> Semantics<'s> {

//@ fn impl<'s> Semantics<'s> :: fn new
//@ spec
    ensures /*@fields*/ r.mode == mode && r.instruction == instruction,
//@ end

//@ fn impl<'s> Semantics<'s> :: fn mode
//@ spec
    ensures /*@field*/ r == self.mode,
//@ end

//@ fn impl<'s> Semantics<'s> :: fn instruction
//@ spec
    ensures /*@field*/ r == self.instruction,
//@ end

//@ fn impl<'s> Semantics<'s> :: fn get_register
//@ spec
    ensures
        /*@found*/ lookup(table_of(*self.mode), capstone_id) matches Some(k) ==> (r matches Ok(x) && *x == table_of(*self.mode)[k]),
        /*@missing*/ lookup(table_of(*self.mode), capstone_id) is None ==> (r matches Err(e) && e is Custom),
        /*@inv*/ r matches Ok(x) ==> x.rec_ok() && x.mode == *self.mode && x.capstone_reg == capstone_id,
//@ end

//@ fn impl<'s> Semantics<'s> :: fn set_zf
//@ spec
    requires expr_wf(result), old(block).block_wf(), old(block).next_instruction_index < usize::MAX,
    ensures
        /*@wf*/ final(block).block_wf(),
        /*@ok*/ r is Ok,
        /*@assigned*/ flag_assigned(*old(block), *final(block), "ZF"@),
        /*@zero*/ forall|env: Env| env_sorted(env) ==> #[trigger] zf_ok(result, last_src(*final(block)), env),
//@ enter
    proof {
        broadcast use crate::strmap::axiom_into_string_str;
        lemma_expr_wf_bits(result);
        lemma_pow2_pos(expr_bits(result));
        lemma_small_mod(0, pow2(expr_bits(result)));
    }
//@ before 0 `block.assign(scalar("ZF", 1), expr)`
    proof {
        let c = rhs_of(expr)->Constant_0;
        assert(expr_wf(Expression::Constant(c)));
        assert(expr_wf(expr) && expr_bits(expr) == 1);
        // (premises instead of plain facts: a wrong constant / operand then fails the named postcondition, not this proof block)
        assert forall|env: Env| (env_sorted(env) && c.value@ == 0 && expr == Expression::Cmpeq(Box::new(result), Box::new(Expression::Constant(c)))) implies #[trigger] zf_ok(result, expr, env) by { lemma_zf_eval(result, c, env); }
    }
//@ end

//@ fn impl<'s> Semantics<'s> :: fn set_sf
//@ spec
    requires expr_wf(result), old(block).block_wf(), old(block).next_instruction_index < usize::MAX,
    ensures
        /*@wf*/ final(block).block_wf(),
        /*@no_sort_error*/ expr_bits(result) >= 2 ==> r is Ok,
        /*@assigned*/ r is Ok ==> flag_assigned(*old(block), *final(block), "SF"@),
        /*@sign*/ r is Ok ==> (forall|env: Env| env_sorted(env) ==> #[trigger] sf_ok(result, last_src(*final(block)), env)),
        /*@err_frame*/ r is Err ==> *final(block) == *old(block),
//@ enter
    proof {
        broadcast use crate::strmap::axiom_into_string_str;
        lemma_expr_wf_bits(result);
        lemma_lt_pow2(expr_bits(result));
        lemma_small_mod((expr_bits(result) - 1) as nat, pow2(expr_bits(result)));
    }
//@ before 0 `block.assign(scalar("SF", 1), expr)`
    proof {
        let sh = lhs_of(expr);
        let c = rhs_of(sh)->Constant_0;
        assert(expr_wf(Expression::Constant(c)));
        assert(expr_wf(sh) && expr_bits(sh) == expr_bits(result));
        assert(expr_wf(expr) && expr_bits(expr) == 1);
        // (premises instead of plain facts: a wrong shift amount then fails the named postcondition `sign`, not this proof block)
        assert forall|env: Env| (env_sorted(env) && expr_bits(result) >= 2 && c.value@ == expr_bits(result) - 1 && expr == Expression::Trun(1, Box::new(Expression::Shr(Box::new(result), Box::new(Expression::Constant(c)))))) implies #[trigger] sf_ok(result, expr, env) by { lemma_sf_eval(result, c, env); }
    }
//@ end

//@ fn impl<'s> Semantics<'s> :: fn set_of
//@ spec
    requires
        expr_wf(result), expr_wf(lhs), expr_wf(rhs),
        old(block).block_wf(), old(block).next_instruction_index < usize::MAX,
    ensures
        /*@wf*/ final(block).block_wf(),
        /*@no_sort_error*/ (expr_bits(lhs) == expr_bits(rhs) && expr_bits(lhs) == expr_bits(result) && expr_bits(lhs) >= 2) ==> r is Ok,
        /*@assigned*/ r is Ok ==> flag_assigned(*old(block), *final(block), "OF"@),
        /*@overflow*/ (r is Ok && expr_bits(lhs) <= 64) ==> (forall|env: Env| env_sorted(env) ==> #[trigger] of_ok(result, lhs, rhs, subtract, last_src(*final(block)), env)),
        /*@err_frame*/ r is Err ==> *final(block) == *old(block),
//@ enter
    proof {
        broadcast use crate::strmap::axiom_into_string_str;
        lemma_expr_wf_bits(lhs);
        lemma_expr_wf_bits(rhs);
        lemma_expr_wf_bits(result);
        let w = expr_bits(lhs);
        lemma_lt_pow2(w);
        lemma_small_mod((w - 1) as nat, pow2(w));
        if w <= 64 { lemma_ones64(w); }
    }
//@ before 0 `block.assign(scalar("OF", 1), Expr::trun(1, expr)?)`
    proof {
        let anded = lhs_of(expr);
        let cw = rhs_of(expr)->Constant_0;
        let e0 = lhs_of(anded);
        let e1 = rhs_of(anded);
        let ones = rhs_of(e0)->Constant_0;
        let w = expr_bits(lhs);
        assert(expr_wf(Expression::Constant(cw)));
        assert(expr_wf(e1) && expr_bits(e1) == w);
        assert(expr_wf(e0) && expr_bits(e0) == w) by {
            if !subtract { assert(expr_wf(Expression::Constant(ones))); assert(expr_wf(lhs_of(e0))); }
        }
        assert(expr_wf(anded) && expr_bits(anded) == w);
        assert(expr_wf(expr) && expr_bits(expr) == w);
        if w >= 2 {
            assert(expr_wf(Expression::Trun(1, Box::new(expr))));
            if w <= 64 {
                // (a premise instead of an assertion: an expression of another shape then fails the named postcondition `overflow`)
                if Expression::Trun(1, Box::new(expr)) == of_form(lhs, rhs, result, subtract, ones, cw) && cw.value@ == w - 1 {
                    assert forall|env: Env| env_sorted(env) implies #[trigger] of_ok(result, lhs, rhs, subtract, Expression::Trun(1, Box::new(expr)), env) by {
                        lemma_of_eval(lhs, rhs, result, subtract, ones, cw, env);
                    }
                }
            }
        }
    }
//@ end

//@ fn impl<'s> Semantics<'s> :: fn set_cf
//@ spec
    requires expr_wf(result), expr_wf(lhs), old(block).block_wf(), old(block).next_instruction_index < usize::MAX,
    ensures
        /*@wf*/ final(block).block_wf(),
        /*@no_sort_error*/ expr_bits(lhs) == expr_bits(result) ==> r is Ok,
        /*@assigned*/ r is Ok ==> flag_assigned(*old(block), *final(block), "CF"@),
        /*@borrow*/ r is Ok ==> (forall|env: Env| env_sorted(env) ==> #[trigger] cf_ok(result, lhs, last_src(*final(block)), env)),
        /*@err_frame*/ r is Err ==> *final(block) == *old(block),
//@ enter
    proof { broadcast use crate::strmap::axiom_into_string_str; }
//@ before 0 `block.assign(scalar("CF", 1), expr)`
    proof {
        assert(expr_wf(expr) && expr_bits(expr) == 1);
        // (a premise instead of a plain fact: swapped operands then fail the named postcondition `borrow`)
        assert forall|env: Env| (env_sorted(env) && expr == Expression::Cmpltu(Box::new(lhs), Box::new(result))) implies #[trigger] cf_ok(result, lhs, expr, env) by { lemma_cf_eval(result, lhs, env); }
    }
//@ end

} // impl Semantics
