// ---- units/C01/flags.rs (placeholder)
