// ---- units/C01/bits.rs: arithmetic facts about masks and bit ranges on `nat` (spec/bv.rs vocabulary) and the
// machine-integer facts about the two mask computations of X86Register::set. Included inside `pub mod il`.

/// the value of the bit range [offset, offset + bits) of `full`
pub open spec fn extract(full: nat, offset: nat, bits: nat) -> nat { (full / pow2(offset)) % pow2(bits) }

/// `full` with the bit range [offset, offset + bits) replaced by `v` (v < 2^bits), every other bit unchanged
pub open spec fn replace_bits(full: nat, offset: nat, bits: nat, v: nat) -> nat {
    (full - extract(full, offset, bits) * pow2(offset) + v * pow2(offset)) as nat
}

pub proof fn lemma_extract_bound(full: nat, offset: nat, bits: nat)
    ensures extract(full, offset, bits) < pow2(bits), extract(full, offset, bits) * pow2(offset) <= full,
{
    lemma_pow2_pos(offset);
    lemma_pow2_pos(bits);
    let q = full / pow2(offset);
    lemma_mod_bound(q as int, pow2(bits) as int);
    lemma_fundamental_div_mod(full as int, pow2(offset) as int);
    lemma_mod_bound(full as int, pow2(offset) as int);
    lemma_fundamental_div_mod(q as int, pow2(bits) as int);
    lemma_div_pos_is_pos(q as int, pow2(bits) as int);
    let e = extract(full, offset, bits);
    assert(e <= q) by (nonlinear_arith)
        requires q as int == pow2(bits) as int * (q as int / pow2(bits) as int) + e as int, q as int / pow2(bits) as int >= 0, pow2(bits) > 0;
    assert(e * pow2(offset) <= q * pow2(offset)) by (nonlinear_arith) requires e <= q;
    assert(q * pow2(offset) == pow2(offset) * q) by (nonlinear_arith);
}

pub proof fn lemma_extract_low(full: nat, bits: nat)
    ensures extract(full, 0, bits) == full % pow2(bits),
{
    lemma2_to64();
    assert(pow2(0) == 1);
    assert(full / 1 == full);
}

pub proof fn lemma_half_div(x: nat, o: nat)
    requires o >= 1,
    ensures (x / 2) / pow2((o - 1) as nat) == x / pow2(o), pow2(o) == 2 * pow2((o - 1) as nat),
{
    let o1 = (o - 1) as nat;
    lemma_pow2_step(o1);
    lemma_pow2_pos(o1);
    lemma_div_denominator(x as int, 2, pow2(o1) as int);
}

/// x & (2^n - 2^b) clears the low b bits of x
pub proof fn lemma_and_himask(x: nat, b: nat, n: nat)
    requires x < pow2(n), b <= n,
    ensures pow2(b) <= pow2(n), nat_and(x, (pow2(n) - pow2(b)) as nat) == x - x % pow2(b),
    decreases b,
{
    lemma_pow2_mono(b, n);
    lemma_pow2_pos(b);
    lemma_mod_bound(x as int, pow2(b) as int);
    if b == 0 {
        lemma2_to64();
        assert(pow2(0) == 1);
        lemma_and_mask(x, n);
        lemma_small_mod(x, pow2(n));
        assert(x % 1 == 0);
    } else {
        let m = (pow2(n) - pow2(b)) as nat;
        let b1 = (b - 1) as nat;
        let n1 = (n - 1) as nat;
        lemma_pow2_step(b1);
        lemma_pow2_step(n1);
        lemma_pow2_mono(b1, n1);
        let m1 = (pow2(n1) - pow2(b1)) as nat;
        assert(m == 2 * m1);
        assert(m / 2 == m1 && m % 2 == 0);
        assert(x / 2 < pow2(n1));
        lemma_and_himask(x / 2, b1, n1);
        lemma_mod_breakdown(x as int, 2, pow2(b1) as int);
        if x == 0 {
            lemma_small_mod(0, pow2(b));
        } else if m == 0 {
            lemma_small_mod(x, pow2(b));
        } else {
            assert(nat_and(x, m) == 2 * nat_and(x / 2, m / 2) + 0);
        }
    }
}

pub proof fn lemma_hole_bound(o: nat, b: nat, n: nat)
    requires o + b <= n,
    ensures (pow2(b) - 1) * pow2(o) + pow2(o) == pow2(o + b), (pow2(b) - 1) * pow2(o) <= pow2(n) - 1, pow2(b) >= 1, pow2(o) >= 1,
{
    lemma_pow2_pos(b);
    lemma_pow2_pos(o);
    lemma_pow2_adds(o, b);
    lemma_pow2_mono(o + b, n);
    assert((pow2(b) - 1) * pow2(o) + pow2(o) == pow2(o) * pow2(b)) by (nonlinear_arith) requires pow2(b) >= 1;
}

/// x & ~(((2^b) - 1) << o), at width n, clears the bit range [o, o + b) of x and nothing else
pub proof fn lemma_and_holemask(x: nat, o: nat, b: nat, n: nat)
    requires x < pow2(n), o + b <= n,
    ensures
        (pow2(b) - 1) * pow2(o) <= pow2(n) - 1,
        extract(x, o, b) * pow2(o) <= x,
        nat_and(x, (pow2(n) - 1 - (pow2(b) - 1) * pow2(o)) as nat) == x - extract(x, o, b) * pow2(o),
    decreases o,
{
    lemma_hole_bound(o, b, n);
    lemma_extract_bound(x, o, b);
    if o == 0 {
        lemma2_to64();
        assert(pow2(0) == 1);
        lemma_and_himask(x, b, n);
        lemma_extract_low(x, b);
        assert((pow2(b) - 1) * 1 == pow2(b) - 1);
    } else {
        let o1 = (o - 1) as nat;
        let n1 = (n - 1) as nat;
        lemma_half_div(x, o);
        lemma_pow2_step(n1);
        let hole = ((pow2(b) - 1) * pow2(o)) as nat;
        let hole1 = ((pow2(b) - 1) * pow2(o1)) as nat;
        lemma_hole_bound(o1, b, n1);
        assert(hole == 2 * hole1) by (nonlinear_arith)
            requires hole == ((pow2(b) - 1) * pow2(o)) as nat, hole1 == ((pow2(b) - 1) * pow2(o1)) as nat, pow2(o) == 2 * pow2(o1), pow2(b) >= 1;
        let m = (pow2(n) - 1 - hole) as nat;
        let m1 = (pow2(n1) - 1 - hole1) as nat;
        assert(m == 2 * m1 + 1);
        assert(m / 2 == m1 && m % 2 == 1);
        assert(x / 2 < pow2(n1));
        lemma_and_holemask(x / 2, o1, b, n1);
        let e = extract(x, o, b);
        assert(extract(x / 2, o1, b) == e);
        assert(2 * (e * pow2(o1)) == e * pow2(o)) by (nonlinear_arith) requires pow2(o) == 2 * pow2(o1);
        if x == 0 {
            lemma_pow2_pos(o);
            lemma_small_div(0, pow2(o));
            lemma_pow2_pos(b);
            lemma_small_mod(0, pow2(b));
            assert(e == 0);
            assert(e * pow2(o) == 0) by (nonlinear_arith) requires e == 0;
        } else {
            assert(nat_and(x, m) == 2 * nat_and(x / 2, m / 2) + (if x % 2 == 1 { 1nat } else { 0nat }));
        }
    }
}

/// or-ing v << o into a value whose bit range [o, o + b) is zero is an addition
pub proof fn lemma_or_hole(a: nat, o: nat, b: nat, v: nat)
    requires extract(a, o, b) == 0, v < pow2(b),
    ensures nat_or(a, v * pow2(o)) == a + v * pow2(o),
    decreases o,
{
    lemma_pow2_pos(b);
    if o == 0 {
        lemma2_to64();
        assert(pow2(0) == 1);
        assert(a / 1 == a);
        lemma_fundamental_div_mod(a as int, pow2(b) as int);
        let q = a / pow2(b);
        assert(a == q * pow2(b)) by (nonlinear_arith) requires a as int == pow2(b) as int * (a as int / pow2(b) as int) + 0, q as int == a as int / pow2(b) as int;
        lemma_or_disjoint(q, b, v);
        assert(v * 1 == v);
    } else {
        let o1 = (o - 1) as nat;
        lemma_half_div(a, o);
        let big = v * pow2(o);
        let big1 = v * pow2(o1);
        assert(big == 2 * big1) by (nonlinear_arith) requires big == v * pow2(o), big1 == v * pow2(o1), pow2(o) == 2 * pow2(o1);
        assert(big / 2 == big1 && big % 2 == 0);
        assert(extract(a / 2, o1, b) == 0);
        lemma_or_hole(a / 2, o1, b, v);
        if a == 0 {
        } else if big == 0 {
        } else {
            assert(nat_or(a, big) == 2 * nat_or(a / 2, big / 2) + (if a % 2 == 1 || big % 2 == 1 { 1nat } else { 0nat }));
        }
    }
}

// ---- most significant bit (sign bit) of xor / and ---------------------------------------------------------------

/// the most significant bit of a w-bit value
pub open spec fn msb(w: nat, x: nat) -> nat { x / pow2((w - 1) as nat) }

pub proof fn lemma_msb(w: nat, x: nat)
    requires w >= 1, x < pow2(w),
    ensures
        msb(w, x) == 0 || msb(w, x) == 1,
        msb(w, x) == 1 <==> x >= pow2((w - 1) as nat),
        msb(w, x) == 1 <==> sval(w, x) < 0,
        pow2(w) == 2 * pow2((w - 1) as nat),
{
    let h = pow2((w - 1) as nat);
    lemma_pow2_step((w - 1) as nat);
    if x >= h {
        lemma_fundamental_div_mod_converse(x as int, h as int, 1, x as int - h as int);
    } else {
        lemma_small_div(x, h);
    }
}

pub proof fn lemma_xor_half(x: nat, y: nat)
    ensures nat_xor(x, y) / 2 == nat_xor(x / 2, y / 2),
{
    if x == 0 {
        assert(nat_xor(0, y / 2) == y / 2);
    } else if y == 0 {
        if x / 2 == 0 { } else { }
        assert(nat_xor(x / 2, 0) == x / 2);
    } else {
    }
}

pub proof fn lemma_and_half(x: nat, y: nat)
    ensures nat_and(x, y) / 2 == nat_and(x / 2, y / 2),
{
    if x == 0 || y == 0 {
        assert(nat_and(x / 2, y / 2) == 0);
    } else {
    }
}

pub proof fn lemma_msb_half(w: nat, z: nat)
    requires w >= 2,
    ensures msb(w, z) == msb((w - 1) as nat, z / 2),
{
    lemma_half_div(z, (w - 1) as nat);
}

pub proof fn lemma_msb_xor(w: nat, x: nat, y: nat)
    requires w >= 1, x < pow2(w), y < pow2(w),
    ensures nat_xor(x, y) < pow2(w), msb(w, nat_xor(x, y)) == (if msb(w, x) == msb(w, y) { 0nat } else { 1nat }),
    decreases w,
{
    lemma_xor_bound(x, y, w);
    if w == 1 {
        lemma2_to64();
        assert(pow2(0) == 1 && pow2(1) == 2);
        let z = nat_xor(x, y);
        assert(z / 1 == z && x / 1 == x && y / 1 == y);
        if x == 0 || y == 0 { } else {
            assert(x == 1 && y == 1);
            assert(nat_xor(0, 0) == 0);
            assert(z == 2 * nat_xor(0, 0) + 0);
        }
    } else {
        let w1 = (w - 1) as nat;
        lemma_pow2_step(w1);
        lemma_msb_half(w, x);
        lemma_msb_half(w, y);
        lemma_msb_half(w, nat_xor(x, y));
        lemma_xor_half(x, y);
        lemma_msb_xor(w1, x / 2, y / 2);
    }
}

pub proof fn lemma_msb_and(w: nat, x: nat, y: nat)
    requires w >= 1, x < pow2(w), y < pow2(w),
    ensures nat_and(x, y) < pow2(w), msb(w, nat_and(x, y)) == (if msb(w, x) == 1 && msb(w, y) == 1 { 1nat } else { 0nat }),
    decreases w,
{
    lemma_and_le(x, y);
    lemma_msb(w, x);
    lemma_msb(w, y);
    if w == 1 {
        lemma2_to64();
        assert(pow2(0) == 1 && pow2(1) == 2);
        let z = nat_and(x, y);
        assert(z / 1 == z && x / 1 == x && y / 1 == y);
        if x == 0 || y == 0 { } else {
            assert(x == 1 && y == 1);
            assert(nat_and(0, 0) == 0);
            assert(z == 2 * nat_and(0, 0) + 1);
        }
    } else {
        let w1 = (w - 1) as nat;
        lemma_pow2_step(w1);
        lemma_msb_half(w, x);
        lemma_msb_half(w, y);
        lemma_msb_half(w, nat_and(x, y));
        lemma_and_half(x, y);
        lemma_msb(w1, x / 2);
        lemma_msb(w1, y / 2);
        lemma_msb_and(w1, x / 2, y / 2);
    }
}

/// complementing flips the sign bit
pub proof fn lemma_msb_not(w: nat, x: nat)
    requires w >= 1, x < pow2(w),
    ensures nat_xor(x, (pow2(w) - 1) as nat) == pow2(w) - 1 - x, msb(w, (pow2(w) - 1 - x) as nat) == 1 - msb(w, x),
{
    lemma_xor_mask(x, w);
    lemma_msb(w, x);
    lemma_msb(w, (pow2(w) - 1 - x) as nat);
}

// ---- signed / unsigned overflow of addition and subtraction --------------------------------------------------------

/// a + b (sub == false) resp. a - b (sub == true) on the SIGNED values does not fit w bits
pub open spec fn signed_overflow(w: nat, a: nat, b: nat, sub: bool) -> bool {
    let x = if sub { sval(w, a) - sval(w, b) } else { sval(w, a) + sval(w, b) };
    !(-(pow2((w - 1) as nat) as int) <= x < pow2((w - 1) as nat) as int)
}

/// a + b resp. a - b on the UNSIGNED values does not fit w bits (carry resp. borrow)
pub open spec fn unsigned_overflow(w: nat, a: nat, b: nat, sub: bool) -> bool {
    if sub { a < b } else { a + b >= pow2(w) }
}

/// the textbook sign-bit formula for the overflow flag
pub proof fn lemma_of_formula(w: nat, a: nat, b: nat, res: nat, sub: bool)
    requires w >= 1, a < pow2(w), b < pow2(w), res == (if sub { bv_sub(w, a, b) } else { bv_add(w, a, b) }),
    ensures
        res < pow2(w),
        signed_overflow(w, a, b, sub) <==> (if sub { msb(w, a) != msb(w, b) && msb(w, a) != msb(w, res) } else { msb(w, a) == msb(w, b) && msb(w, a) != msb(w, res) }),
{
    reveal(bv_add); reveal(bv_sub);
    let h = pow2((w - 1) as nat);
    lemma_msb(w, a);
    lemma_msb(w, b);
    lemma_pow2_pos(w);
    if sub {
        let d = a as int - b as int;
        if d >= 0 { lemma_enc_small(w, d); } else { lemma_enc_neg(w, d); }
    } else {
        let s = a + b;
        if s < pow2(w) { lemma_small_mod(s, pow2(w)); } else {
            lemma_fundamental_div_mod_converse(s as int, pow2(w) as int, 1, s as int - pow2(w) as int);
        }
    }
    lemma_msb(w, res);
}

/// carry out of an addition: the truncated sum is below an operand; borrow of a subtraction: the truncated difference is above the minuend
pub proof fn lemma_cf_formula(w: nat, a: nat, b: nat)
    requires a < pow2(w), b < pow2(w),
    ensures
        unsigned_overflow(w, a, b, false) <==> bv_add(w, a, b) < a,
        unsigned_overflow(w, a, b, true) <==> a < bv_sub(w, a, b),
{
    reveal(bv_add); reveal(bv_sub);
    lemma_pow2_pos(w);
    let d = a as int - b as int;
    if d >= 0 { lemma_enc_small(w, d); } else { lemma_enc_neg(w, d); }
    let s = a + b;
    if s < pow2(w) { lemma_small_mod(s, pow2(w)); } else {
        lemma_fundamental_div_mod_converse(s as int, pow2(w) as int, 1, s as int - pow2(w) as int);
    }
}

// ---- machine-integer facts about the mask computations of X86Register::set ------------------------------------------

pub proof fn lemma_one_shl(b: u64)
    requires b < 64,
    ensures (1u64 << b) as nat == pow2(b as nat), 1 <= pow2(b as nat) <= u64::MAX,
{
    vstd::bits::lemma_u64_pow2_no_overflow(b as nat);
    vstd::bits::lemma_u64_shl_is_mul(1, b);
    lemma_pow2_pos(b as nat);
}

/// `!0 << b` on u64 is 2^64 - 2^b
pub proof fn lemma_ones_shl(b: u64)
    requires b < 64,
    ensures ((!0u64) << b) as nat == pow2(64) - pow2(b as nat),
{
    lemma_one_shl(b);
    lemma2_to64();
    assert(((!0u64) << b) == 0xffff_ffff_ffff_ffffu64 - ((1u64 << b) - 1) as u64) by (bit_vector) requires b < 64;
}

/// `((1 << b) - 1) << o` on u64 is (2^b - 1) * 2^o when the range [o, o + b) lies inside 64 bits, and its complement
pub proof fn lemma_range_mask(b: u64, o: u64)
    requires 1 <= b, 1 <= o, b + o <= 64,
    ensures
        (1u64 << b) >= 1,
        ((((1u64 << b) - 1) as u64) << o) as nat == (pow2(b as nat) - 1) * pow2(o as nat),
        (!((((1u64 << b) - 1) as u64) << o)) as nat == pow2(64) - 1 - (pow2(b as nat) - 1) * pow2(o as nat),
{
    lemma_one_shl(b);
    lemma2_to64();
    lemma_hole_bound(o as nat, b as nat, 64);
    let x: u64 = ((1u64 << b) - 1) as u64;
    assert(x as nat == pow2(b as nat) - 1);
    assert(x * pow2(o as nat) <= u64::MAX);
    vstd::bits::lemma_u64_shl_is_mul(x, o);
    let y: u64 = x << o;
    assert(!y == 0xffff_ffff_ffff_ffffu64 - y) by (bit_vector);
}

/// a u64 constant trimmed to n <= 64 bits, when it is 2^64 - k * 2^... : (2^64 - d) mod 2^n == 2^n - d for 0 < d <= 2^n
pub proof fn lemma_trim_top(d: nat, n: nat)
    requires n <= 64, 0 < d <= pow2(n),
    ensures ((pow2(64) - d) as nat) % pow2(n) == pow2(n) - d, pow2(n) <= pow2(64),
{
    lemma_pow2_mono(n, 64);
    lemma_pow2_pos(n);
    let k = (64 - n) as nat;
    lemma_pow2_adds(n, k);
    lemma_pow2_pos(k);
    assert(pow2(64) == pow2(n) * pow2(k));
    assert((pow2(64) - d) as int == (pow2(k) as int - 1) * pow2(n) as int + (pow2(n) as int - d as int)) by (nonlinear_arith)
        requires pow2(64) == pow2(n) * pow2(k);
    lemma_fundamental_div_mod_converse((pow2(64) - d) as int, pow2(n) as int, pow2(k) as int - 1, pow2(n) as int - d as int);
}

/// after the bit range [o, o + b) of x has been cleared it reads as zero
pub proof fn lemma_clear_extract(x: nat, o: nat, b: nat)
    ensures extract(x, o, b) * pow2(o) <= x, extract((x - extract(x, o, b) * pow2(o)) as nat, o, b) == 0,
{
    lemma_extract_bound(x, o, b);
    lemma_pow2_pos(o);
    lemma_pow2_pos(b);
    let po = pow2(o) as int;
    let pb = pow2(b) as int;
    let q = x as int / po;
    let r = x as int % po;
    lemma_fundamental_div_mod(x as int, po);
    lemma_mod_bound(x as int, po);
    let e = q % pb;
    let qq = q / pb;
    lemma_fundamental_div_mod(q, pb);
    let a = x as int - e * po;
    // a == (qq * pb) * po + r
    assert(a == (qq * pb) * po + r) by (nonlinear_arith) requires a == x as int - e * po, x as int == po * q + r, q == pb * qq + e;
    lemma_div_pos_is_pos(x as int, po);
    lemma_div_pos_is_pos(q, pb);
    assert(qq * pb >= 0) by (nonlinear_arith) requires qq >= 0, pb > 0;
    lemma_fundamental_div_mod_converse(a, po, qq * pb, r);
    assert(a / po == qq * pb);
    lemma_fundamental_div_mod_converse(qq * pb, pb, qq, 0);
}

/// what `replace_bits` means bit range by bit range: the written range reads back as v, the bits below `o` and the bits
/// from `o + b` upwards are those of `full` (so EVERY other bit is unchanged), and the result still fits n bits
pub proof fn lemma_replace_bits(full: nat, o: nat, b: nat, v: nat, n: nat)
    requires full < pow2(n), o + b <= n, v < pow2(b),
    ensures
        extract(replace_bits(full, o, b, v), o, b) == v,
        replace_bits(full, o, b, v) % pow2(o) == full % pow2(o),
        replace_bits(full, o, b, v) / pow2(o + b) == full / pow2(o + b),
        replace_bits(full, o, b, v) < pow2(n),
{
    lemma_extract_bound(full, o, b);
    lemma_pow2_pos(o);
    lemma_pow2_pos(b);
    lemma_pow2_adds(o, b);
    lemma_pow2_mono(o + b, n);
    let po = pow2(o) as int;
    let pb = pow2(b) as int;
    let q = full as int / po;
    let lo = full as int % po;
    lemma_fundamental_div_mod(full as int, po);
    lemma_mod_bound(full as int, po);
    let e = q % pb;
    let hi = q / pb;
    lemma_fundamental_div_mod(q, pb);
    lemma_mod_bound(q, pb);
    lemma_div_pos_is_pos(full as int, po);
    lemma_div_pos_is_pos(q, pb);
    lemma_div_denominator(full as int, po, pb);
    assert(po * pb == pow2(o + b));
    assert(full as int / (po * pb) == hi);
    let r = replace_bits(full, o, b, v) as int;
    let mid = hi * pb + v as int;
    assert(r == mid * po + lo) by (nonlinear_arith)
        requires r == full as int - e * po + v as int * po, full as int == po * q + lo, q == pb * hi + e, mid == hi * pb + v as int;
    assert(hi * pb >= 0) by (nonlinear_arith) requires hi >= 0, pb > 0;
    lemma_fundamental_div_mod_converse(r, po, mid, lo);
    lemma_fundamental_div_mod_converse(mid, pb, hi, v as int);
    lemma_div_denominator(r, po, pb);
    // bound: hi < 2^(n-o-b)
    let k = (n - o - b) as nat;
    lemma_pow2_adds(o + b, k);
    lemma_pow2_pos(k);
    assert(hi < pow2(k)) by (nonlinear_arith)
        requires (full as int) < pow2(o + b) * pow2(k), full as int == po * q + lo, q == pb * hi + e, lo >= 0, e >= 0, po * pb == pow2(o + b), po > 0, pb > 0, hi >= 0;
    assert(r < pow2(n)) by (nonlinear_arith)
        requires r == (hi * pb + v as int) * po + lo, hi < pow2(k), (v as int) < pb, lo < po, pow2(n) == (po * pb) * pow2(k), po > 0, pb > 0, hi >= 0;
}
