// ---- units/C01/rep.rs: Semantics::rep_prefix / repne_prefix - the STRUCTURAL contract over the control flow graph they
// build (the ControlFlowGraph operations under the contracts of unit C15, see units/C01/cfg_glue.rs), and the facts about ONE
// trip round the loop that follow from it (lemma_rep_trip). The composition of trips (an execution model of a whole control
// flow graph) is NOT formalised: iteration semantics stay with the bounded enumerator (witness group `str`).
// ORACLE: Intel SDM vol. 2 "REP/REPE/REPZ/REPNE/REPNZ - Repeat String Operation Prefix":
//   WHILE CountReg != 0 DO  execute the string instruction once;  CountReg := CountReg - 1;
//                           IF CountReg = 0 THEN exit;  IF (REPE and ZF = 0) or (REPNE and ZF = 1) THEN exit;  OD
//   CountReg is CX / ECX / RCX according to the ADDRESS size; the ZF test applies to CMPS / SCAS only.
// The lifted graph: head --[count != 0]--> body entry .. body exit --> loop block {count := count - 1}
//   loop --> head (MOVS / STOS)      resp.  loop --[ZF == z]--> head, loop --[ZF == 1 - z]--> terminating (CMPS / SCAS; repe: z = 1, repne: z = 0)
//   head --[count == 0]--> terminating;    entry = head, exit = terminating.
// (exit test after the decrement: a trip that leaves through `loop --> head` meets the count test of the head next.)

pub enum RepKind { Plain, WhileZf(nat) }

/// SDM: which string instructions a repeat prefix applies to, and whether ZF takes part (F3 = rep / repe, F2 = repne)
pub open spec fn rep_kind(i: x86_insn, repne: bool) -> Option<RepKind> {
    match i {
        x86_insn::X86_INS_CMPSB | x86_insn::X86_INS_CMPSW | x86_insn::X86_INS_CMPSD | x86_insn::X86_INS_CMPSQ
        | x86_insn::X86_INS_SCASB | x86_insn::X86_INS_SCASW | x86_insn::X86_INS_SCASD | x86_insn::X86_INS_SCASQ => Some(RepKind::WhileZf(if repne { 0nat } else { 1nat })),
        x86_insn::X86_INS_STOSB | x86_insn::X86_INS_STOSW | x86_insn::X86_INS_STOSD | x86_insn::X86_INS_STOSQ
        | x86_insn::X86_INS_MOVSB | x86_insn::X86_INS_MOVSW | x86_insn::X86_INS_MOVSD | x86_insn::X86_INS_MOVSQ => Some(RepKind::Plain),
        _ => None,
    }
}

/// the count register: the record of CX / ECX / RCX selected by the address size (None: the lifter has no such register)
pub open spec fn count_rec(mode: Mode, instr: capstone::Instr) -> Option<X86Register> {
    match addr_reg_id(x86_reg::X86_REG_CX, addr_bits_spec(mode, instr)) { Some(id) => comp_rec(mode, id), None => None }
}

/// `c` is 1 exactly when register `x` reads as non-zero
pub open spec fn nonzero_env_ok(c: Expression, x: X86Register, env: Env) -> bool {
    env_sorted(env) ==> (reg_read(x, env) matches EvalR::Val(w, v) ==> eval_spec(c, env) == EvalR::Val(1, b2n(v != 0)))
}
/// `c` is 1 exactly when ZF holds z
pub open spec fn zf_env_ok(c: Expression, z: nat, env: Env) -> bool {
    (env_sorted(env) && env(flag_scalar("ZF"@)) is Some) ==> eval_spec(c, env) == EvalR::Val(1, b2n(fl(env, "ZF"@) == z))
}
pub open spec fn plain_edge(e: Edge, h: usize, t: usize) -> bool { e == (Edge { head: h, tail: t, condition: None, comment: None }) }
pub open spec fn guard_shape(e: Edge, h: usize, t: usize) -> bool {
    e.head == h && e.tail == t && e.comment is None && (e.condition matches Some(c) && expr_wf(c) && expr_bits(c) == 1)
}
pub open spec fn guard_nonzero(e: Edge, h: usize, t: usize, x: X86Register) -> bool {
    guard_shape(e, h, t) && (forall|env: Env| #[trigger] nonzero_env_ok(e.condition->Some_0, x, env))
}
pub open spec fn guard_zero(e: Edge, h: usize, t: usize, x: X86Register) -> bool {
    guard_shape(e, h, t) && (forall|env: Env| #[trigger] count_env_ok(e.condition->Some_0, x, env))
}
pub open spec fn guard_zf(e: Edge, h: usize, t: usize, z: nat) -> bool {
    guard_shape(e, h, t) && (forall|env: Env| #[trigger] zf_env_ok(e.condition->Some_0, z, env))
}

/// the block holds nothing
pub open spec fn empty_block(b: Block, idx: usize) -> bool {
    b.index == idx && b.instructions@.len() == 0 && b.phi_nodes@.len() == 0
}
/// `src` computes the full count register with the count field replaced by (count - 1) mod 2^width, every other bit as
/// X86Register::set leaves it (write_val)
pub open spec fn dec_env_ok(x: X86Register, src: Expression, env: Env) -> bool {
    let f = x.full_rec();
    env_sorted(env) ==> (env(reg_scalar(f)) matches Some((fw, full)) ==>
        eval_spec(src, env) == EvalR::Val(f.bits as nat, write_val(x, full, bv_sub(x.bits as nat, extract(full, x.offset as nat, x.bits as nat), 1))))
}
#[verifier::opaque]
pub open spec fn dec_ok(x: X86Register, src: Expression) -> bool { forall|env: Env| #[trigger] dec_env_ok(x, src, env) }
/// the loop block: exactly ONE instruction, `full count register := (count - 1 written into it)`
pub open spec fn count_dec_block(x: X86Register, b: Block, idx: usize) -> bool {
    &&& b.index == idx && b.block_wf() && b.instructions@.len() == 1 && b.phi_nodes@.len() == 0
    &&& b.instructions@.last().operation matches Operation::Assign { dst, src }
    &&& dst == reg_scalar(x.full_rec()) && expr_wf(src) && expr_bits(src) == x.full_rec().bits
    &&& dec_ok(x, src)
}

/// the graph `c1` is the body graph `c0` wrapped into head / loop / terminating blocks
pub open spec fn rep_wrapped(c0: ControlFlowGraph, c1: ControlFlowGraph, x: X86Register, kind: RepKind) -> bool {
    let head = c0.next_index;
    let lp = (c0.next_index + 1) as usize;
    let term = (c0.next_index + 2) as usize;
    let entry0 = c0.entry->Some_0;
    let exit0 = c0.exit->Some_0;
    &&& c1.next_index == c0.next_index + 3 && c1.next_temp_index == c0.next_temp_index && c1.ssa_form == c0.ssa_form
    &&& c1.entry == Some(head) && c1.exit == Some(term)
    // blocks: the body untouched, three new blocks
    &&& c1.graph.vertices@.dom() =~= c0.graph.vertices@.dom().insert(head).insert(lp).insert(term)
    &&& (forall|k: usize| c0.has_block(k) ==> #[trigger] c1.graph.vertices@[k] == c0.graph.vertices@[k])
    &&& !c0.has_block(head) && !c0.has_block(lp) && !c0.has_block(term)
    &&& empty_block(c1.graph.vertices@[head], head)
    &&& empty_block(c1.graph.vertices@[term], term)
    &&& count_dec_block(x, c1.graph.vertices@[lp], lp)
    // edges: the body untouched, plus exactly these
    &&& (forall|k: (usize, usize)| c0.graph.edges@.contains_key(k) ==> #[trigger] c1.graph.edges@[k] == c0.graph.edges@[k])
    &&& guard_nonzero(c1.graph.edges@[(head, entry0)], head, entry0, x)
    &&& guard_zero(c1.graph.edges@[(head, term)], head, term, x)
    &&& plain_edge(c1.graph.edges@[(exit0, lp)], exit0, lp)
    &&& (match kind {
        RepKind::Plain =>
            c1.graph.edges@.dom() =~= c0.graph.edges@.dom().insert((head, entry0)).insert((head, term)).insert((exit0, lp)).insert((lp, head))
            && plain_edge(c1.graph.edges@[(lp, head)], lp, head),
        RepKind::WhileZf(z) =>
            c1.graph.edges@.dom() =~= c0.graph.edges@.dom().insert((head, entry0)).insert((head, term)).insert((exit0, lp)).insert((lp, head)).insert((lp, term))
            && guard_zf(c1.graph.edges@[(lp, head)], lp, head, z)
            && guard_zf(c1.graph.edges@[(lp, term)], lp, term, (1 - z) as nat),
    })
}

// ---- the steps --------------------------------------------------------------------------------------------------------------
pub proof fn lemma_nonzero_guard(x: X86Register, e: Expression, c: Constant, env: Env)
    requires env_sorted(env) ==> eval_spec(e, env) == reg_read(x, env), c.wf(), c.bits == x.bits, c.value@ == 0,
    ensures nonzero_env_ok(Expression::Cmpneq(Box::new(e), Box::new(Expression::Constant(c))), x, env),
{
    reveal(bv_cmpneq);
    assert(eval_spec(Expression::Constant(c), env) == EvalR::Val(c.bits as nat, c.value@));
}
pub proof fn lemma_zero_guard(x: X86Register, e: Expression, c: Constant, env: Env)
    requires env_sorted(env) ==> eval_spec(e, env) == reg_read(x, env), c.wf(), c.bits == x.bits, c.value@ == 0,
    ensures count_env_ok(Expression::Cmpeq(Box::new(e), Box::new(Expression::Constant(c))), x, env),
{
    reveal(bv_cmpeq);
    assert(eval_spec(Expression::Constant(c), env) == EvalR::Val(c.bits as nat, c.value@));
}
pub proof fn lemma_zf_guard(c: Constant, env: Env)
    requires c.wf(), c.bits == 1,
    ensures zf_env_ok(Expression::Cmpeq(Box::new(Expression::Scalar(flag_scalar("ZF"@))), Box::new(Expression::Constant(c))), c.value@, env),
{
    if env_sorted(env) && env(flag_scalar("ZF"@)) is Some { lemma_scalar_is(flag_scalar("ZF"@), c, env); }
}
/// the value X86Register::set writes for `count - 1`
pub proof fn lemma_dec(x: X86Register, ge: Expression, c: Constant, src: Expression, env: Env)
    requires
        env_sorted(env) ==> eval_spec(ge, env) == reg_read(x, env), c.wf(), c.bits == x.bits, c.value@ == 1,
        env_sorted(env) ==> write_ok(x, Expression::Sub(Box::new(ge), Box::new(Expression::Constant(c))), src, env),
    ensures dec_env_ok(x, src, env),
{
    let v = Expression::Sub(Box::new(ge), Box::new(Expression::Constant(c)));
    assert(eval_spec(Expression::Constant(c), env) == EvalR::Val(c.bits as nat, c.value@));
    assert(eval_spec(v, env) == bin_spec(BinOp::Sub, eval_spec(ge, env), eval_spec(Expression::Constant(c), env)));
}

/// X86Register::set of `count - 1`: the appended instruction decrements the count
pub proof fn lemma_dec_all(x: X86Register, ge: Expression, ce: Expression, b0: Block, b1: Block)
    requires
        set_effect(x, Expression::Sub(Box::new(ge), Box::new(ce)), b0, b1),
        forall|env: Env| env_sorted(env) ==> #[trigger] eval_spec(ge, env) == reg_read(x, env),
        ce matches Expression::Constant(c) && c.wf() && c.bits == x.bits && c.value@ == 1,
    ensures dec_ok(x, b1.instructions@.last().operation->Assign_src),
{
    reveal(dec_ok);
    let src = b1.instructions@.last().operation->Assign_src;
    let c = ce->Constant_0;
    assert forall|env: Env| #[trigger] dec_env_ok(x, src, env) by {
        if env_sorted(env) {
            assert(write_ok(x, Expression::Sub(Box::new(ge), Box::new(ce)), src, env));
        }
        lemma_dec(x, ge, c, src, env);
    }
}

// ---- ONE trip round the loop, from the structural contract (statements about eval_spec; not tied to an executor) ---------------
/// the IL state after the assignment `s := (w, v)`
pub open spec fn env_set(env: Env, s: Scalar, w: nat, v: nat) -> Env { |t: Scalar| if t == s { Some((w, v)) } else { env(t) } }

/// (1) at the head exactly one guard holds: into the body iff count != 0, to the terminating block iff count == 0
pub proof fn lemma_rep_head(c0: ControlFlowGraph, c1: ControlFlowGraph, x: X86Register, kind: RepKind, env: Env)
    requires rep_wrapped(c0, c1, x, kind), env_sorted(env), env(reg_scalar(x.full_rec())) is Some,
    ensures ({
        let head = c0.next_index;
        let term = (c0.next_index + 2) as usize;
        let count = extract(env(reg_scalar(x.full_rec()))->Some_0.1, x.offset as nat, x.bits as nat);
        &&& eval_spec(c1.graph.edges@[(head, c0.entry->Some_0)].condition->Some_0, env) == EvalR::Val(1, b2n(count != 0))
        &&& eval_spec(c1.graph.edges@[(head, term)].condition->Some_0, env) == EvalR::Val(1, b2n(count == 0))
    }),
{
    let head = c0.next_index;
    let term = (c0.next_index + 2) as usize;
    assert(nonzero_env_ok(c1.graph.edges@[(head, c0.entry->Some_0)].condition->Some_0, x, env));
    assert(count_env_ok(c1.graph.edges@[(head, term)].condition->Some_0, x, env));
}

/// (2) the loop block holds ONE instruction; executed in `env` it leaves (count - 1) mod 2^width in the count register,
/// every other scalar unchanged, and the state stays width-respecting (body once, count - 1)
pub proof fn lemma_rep_dec(c0: ControlFlowGraph, c1: ControlFlowGraph, x: X86Register, kind: RepKind, env: Env)
    requires rep_wrapped(c0, c1, x, kind), x.rec_ok(), env_sorted(env), env(reg_scalar(x.full_rec())) is Some,
    ensures ({
        let lp = (c0.next_index + 1) as usize;
        let f = x.full_rec();
        let count = extract(env(reg_scalar(f))->Some_0.1, x.offset as nat, x.bits as nat);
        let b = c1.graph.vertices@[lp];
        &&& b.instructions@.len() == 1
        &&& b.instructions@.last().operation matches Operation::Assign { dst, src }
        &&& dst == reg_scalar(f)
        &&& eval_spec(src, env) matches EvalR::Val(w2, v2)
        &&& w2 == f.bits && env_sorted(env_set(env, dst, w2, v2))
        &&& reg_read(x, env_set(env, dst, w2, v2)) == EvalR::Val(x.bits as nat, bv_sub(x.bits as nat, count, 1))
        &&& forall|t: Scalar| t != dst ==> #[trigger] env_set(env, dst, w2, v2)(t) == env(t)
    }),
{
    reveal(dec_ok);
    let lp = (c0.next_index + 1) as usize;
    let f = x.full_rec();
    let full = env(reg_scalar(f))->Some_0.1;
    let o = x.offset as nat;
    let b = x.bits as nat;
    let n = f.bits as nat;
    let count = extract(full, o, b);
    let blk = c1.graph.vertices@[lp];
    let src = blk.instructions@.last().operation->Assign_src;
    assert(dec_env_ok(x, src, env));
    lemma_full_rec_ok(x);
    lemma_extract_bound(full, o, b);
    lemma_pow2_pos(b);
    lemma2_to64();
    if b >= 1 { lemma_pow2_strictly_increases(0, b); lemma_binop_bound(b, count, 1); }
    let d = bv_sub(b, count, 1);
    let v2 = write_val(x, full, d);
    lemma_pow2_mono(b, n);
    if x.bits == f.bits {
        lemma_extract_low(d, b);
        lemma_small_mod(d, pow2(b));
    } else if x.bits == 32 && f.bits == 64 && x.offset == 0 {
        lemma_extract_low(d, b);
        lemma_small_mod(d, pow2(b));
    } else {
        lemma_replace_bits(full, o, b, d, n);
    }
    let env2 = env_set(env, reg_scalar(f), n, v2);
    assert(env_sorted(env2)) by {
        assert forall|s: Scalar| (#[trigger] env2(s)) is Some implies env2(s)->Some_0.0 == s.bits as nat && env2(s)->Some_0.1 < pow2(env2(s)->Some_0.0) by { }
    }
}

/// (3) the exit test of CMPS / SCAS loops reads ZF only (so it is the same before and after the decrement) and exactly one
/// of the two edges out of the loop block is enabled: back to the head iff ZF == z, to the terminating block iff ZF == 1 - z
pub proof fn lemma_rep_exit(c0: ControlFlowGraph, c1: ControlFlowGraph, x: X86Register, z: nat, env: Env)
    requires rep_wrapped(c0, c1, x, RepKind::WhileZf(z)), z <= 1, env_sorted(env), env(flag_scalar("ZF"@)) is Some,
    ensures ({
        let head = c0.next_index;
        let lp = (c0.next_index + 1) as usize;
        let term = (c0.next_index + 2) as usize;
        &&& fl(env, "ZF"@) < 2
        &&& eval_spec(c1.graph.edges@[(lp, head)].condition->Some_0, env) == EvalR::Val(1, b2n(fl(env, "ZF"@) == z))
        &&& eval_spec(c1.graph.edges@[(lp, term)].condition->Some_0, env) == EvalR::Val(1, b2n(fl(env, "ZF"@) != z))
    }),
{
    let head = c0.next_index;
    let lp = (c0.next_index + 1) as usize;
    let term = (c0.next_index + 2) as usize;
    lemma_scalar_bit(flag_scalar("ZF"@), env);
    assert(zf_env_ok(c1.graph.edges@[(lp, head)].condition->Some_0, z, env));
    assert(zf_env_ok(c1.graph.edges@[(lp, term)].condition->Some_0, (1 - z) as nat, env));
}

//@ source lib/translator/x86/semantics.rs
impl<'s> Semantics<'s> {

//@ fn impl<'s> Semantics<'s> :: fn rep_prefix
//@ attr #[verifier::rlimit(100)]
//@ spec
    requires old(control_flow_graph).cfg_wf(), old(control_flow_graph).next_index < usize::MAX - 2,
    ensures
        /*@wf*/ final(control_flow_graph).cfg_wf(),
        /*@no_entry_exit*/ (old(control_flow_graph).entry is None || old(control_flow_graph).exit is None) ==> (r == Err::<(), Error>(Error::ControlFlowGraphEntryExitNotFound) && *final(control_flow_graph) == *old(control_flow_graph)),
        /*@no_count_register*/ (old(control_flow_graph).entry is Some && old(control_flow_graph).exit is Some && count_rec(*self.mode, *self.instruction) is None) ==> (r is Err && *final(control_flow_graph) == *old(control_flow_graph)),
        /*@unsupported*/ (old(control_flow_graph).entry is Some && old(control_flow_graph).exit is Some && count_rec(*self.mode, *self.instruction) is Some) ==>
            (self.instruction.id matches capstone::InstrIdArch::X86(i) ==> (rep_kind(i, false) is None ==> r is Err)),
        /*@wrapped*/ (old(control_flow_graph).entry is Some && old(control_flow_graph).exit is Some) ==> (count_rec(*self.mode, *self.instruction) matches Some(x) ==>
            (self.instruction.id matches capstone::InstrIdArch::X86(i) ==> (rep_kind(i, false) matches Some(kind) ==> (r is Ok && rep_wrapped(*old(control_flow_graph), *final(control_flow_graph), x, kind))))),
//@ enter
    proof {
        broadcast use crate::strmap::axiom_into_string_str;
        lemma2_to64();
        assert(pow2(1) == 2);
        lemma_small_mod(0, 2); lemma_small_mod(1, 2);
        reveal_with_fuel(expr_wf, 3); reveal_with_fuel(expr_bits, 3);
        if count_rec(*self.mode, *self.instruction) is Some {
            let x = count_rec(*self.mode, *self.instruction)->Some_0;
            lemma_lt_pow2(x.bits as nat);
            if x.bits >= 2 { lemma_small_mod(0, pow2(x.bits as nat)); lemma_small_mod(1, pow2(x.bits as nat)); }
            // one rule per expression the code builds, fired by the predicate of the postcondition that asks for it
            assert forall|e: Expression, c: Constant, env: Env| #![trigger nonzero_env_ok(Expression::Cmpneq(Box::new(e), Box::new(Expression::Constant(c))), x, env)]
                ((env_sorted(env) ==> eval_spec(e, env) == reg_read(x, env)) && c.wf() && c.bits == x.bits && c.value@ == 0)
                implies nonzero_env_ok(Expression::Cmpneq(Box::new(e), Box::new(Expression::Constant(c))), x, env) by { lemma_nonzero_guard(x, e, c, env); }
            assert forall|e: Expression, c: Constant, env: Env| #![trigger count_env_ok(Expression::Cmpeq(Box::new(e), Box::new(Expression::Constant(c))), x, env)]
                ((env_sorted(env) ==> eval_spec(e, env) == reg_read(x, env)) && c.wf() && c.bits == x.bits && c.value@ == 0)
                implies count_env_ok(Expression::Cmpeq(Box::new(e), Box::new(Expression::Constant(c))), x, env) by { lemma_zero_guard(x, e, c, env); }
            assert forall|ge: Expression, ce: Expression, b0: Block, b1: Block| #![trigger set_effect(x, Expression::Sub(Box::new(ge), Box::new(ce)), b0, b1)]
                (set_effect(x, Expression::Sub(Box::new(ge), Box::new(ce)), b0, b1) && (forall|env: Env| env_sorted(env) ==> #[trigger] eval_spec(ge, env) == reg_read(x, env))
                    && (ce matches Expression::Constant(c) && c.wf() && c.bits == x.bits && c.value@ == 1))
                implies dec_ok(x, b1.instructions@.last().operation->Assign_src) by { lemma_dec_all(x, ge, ce, b0, b1); }
        }
        assert forall|c: Constant, z: nat, env: Env| #![trigger zf_env_ok(Expression::Cmpeq(Box::new(Expression::Scalar(flag_scalar("ZF"@))), Box::new(Expression::Constant(c))), z, env)]
            (c.wf() && c.bits == 1 && c.value@ == z)
            implies zf_env_ok(Expression::Cmpeq(Box::new(Expression::Scalar(flag_scalar("ZF"@))), Box::new(Expression::Constant(c))), z, env) by { lemma_zf_guard(c, env); }
    }
//@ end

//@ fn impl<'s> Semantics<'s> :: fn repne_prefix
//@ attr #[verifier::rlimit(100)]
//@ spec
    requires old(control_flow_graph).cfg_wf(), old(control_flow_graph).next_index < usize::MAX - 2,
    ensures
        /*@wf*/ final(control_flow_graph).cfg_wf(),
        /*@no_entry_exit*/ (old(control_flow_graph).entry is None || old(control_flow_graph).exit is None) ==> (r == Err::<(), Error>(Error::ControlFlowGraphEntryExitNotFound) && *final(control_flow_graph) == *old(control_flow_graph)),
        /*@no_count_register*/ (old(control_flow_graph).entry is Some && old(control_flow_graph).exit is Some && count_rec(*self.mode, *self.instruction) is None) ==> (r is Err && *final(control_flow_graph) == *old(control_flow_graph)),
        /*@unsupported*/ (old(control_flow_graph).entry is Some && old(control_flow_graph).exit is Some && count_rec(*self.mode, *self.instruction) is Some) ==>
            (self.instruction.id matches capstone::InstrIdArch::X86(i) ==> (rep_kind(i, true) is None ==> r is Err)),
        /*@wrapped*/ (old(control_flow_graph).entry is Some && old(control_flow_graph).exit is Some) ==> (count_rec(*self.mode, *self.instruction) matches Some(x) ==>
            (self.instruction.id matches capstone::InstrIdArch::X86(i) ==> (rep_kind(i, true) matches Some(kind) ==> (r is Ok && rep_wrapped(*old(control_flow_graph), *final(control_flow_graph), x, kind))))),
//@ enter
    proof {
        broadcast use crate::strmap::axiom_into_string_str;
        lemma2_to64();
        assert(pow2(1) == 2);
        lemma_small_mod(0, 2); lemma_small_mod(1, 2);
        reveal_with_fuel(expr_wf, 3); reveal_with_fuel(expr_bits, 3);
        if count_rec(*self.mode, *self.instruction) is Some {
            let x = count_rec(*self.mode, *self.instruction)->Some_0;
            lemma_lt_pow2(x.bits as nat);
            if x.bits >= 2 { lemma_small_mod(0, pow2(x.bits as nat)); lemma_small_mod(1, pow2(x.bits as nat)); }
            // one rule per expression the code builds, fired by the predicate of the postcondition that asks for it
            assert forall|e: Expression, c: Constant, env: Env| #![trigger nonzero_env_ok(Expression::Cmpneq(Box::new(e), Box::new(Expression::Constant(c))), x, env)]
                ((env_sorted(env) ==> eval_spec(e, env) == reg_read(x, env)) && c.wf() && c.bits == x.bits && c.value@ == 0)
                implies nonzero_env_ok(Expression::Cmpneq(Box::new(e), Box::new(Expression::Constant(c))), x, env) by { lemma_nonzero_guard(x, e, c, env); }
            assert forall|e: Expression, c: Constant, env: Env| #![trigger count_env_ok(Expression::Cmpeq(Box::new(e), Box::new(Expression::Constant(c))), x, env)]
                ((env_sorted(env) ==> eval_spec(e, env) == reg_read(x, env)) && c.wf() && c.bits == x.bits && c.value@ == 0)
                implies count_env_ok(Expression::Cmpeq(Box::new(e), Box::new(Expression::Constant(c))), x, env) by { lemma_zero_guard(x, e, c, env); }
            assert forall|ge: Expression, ce: Expression, b0: Block, b1: Block| #![trigger set_effect(x, Expression::Sub(Box::new(ge), Box::new(ce)), b0, b1)]
                (set_effect(x, Expression::Sub(Box::new(ge), Box::new(ce)), b0, b1) && (forall|env: Env| env_sorted(env) ==> #[trigger] eval_spec(ge, env) == reg_read(x, env))
                    && (ce matches Expression::Constant(c) && c.wf() && c.bits == x.bits && c.value@ == 1))
                implies dec_ok(x, b1.instructions@.last().operation->Assign_src) by { lemma_dec_all(x, ge, ce, b0, b1); }
        }
        assert forall|c: Constant, z: nat, env: Env| #![trigger zf_env_ok(Expression::Cmpeq(Box::new(Expression::Scalar(flag_scalar("ZF"@))), Box::new(Expression::Constant(c))), z, env)]
            (c.wf() && c.bits == 1 && c.value@ == z)
            implies zf_env_ok(Expression::Cmpeq(Box::new(Expression::Scalar(flag_scalar("ZF"@))), Box::new(Expression::Constant(c))), z, env) by { lemma_zf_guard(c, env); }
    }
//@ end

} // impl Semantics (rep.rs)
