// ---- units/C01/cfg_glue.rs: the ControlFlowGraph edit operations rep_prefix / repne_prefix call. Included inside `pub mod il`.
// The spec vocabulary (same_scalars, edge_added, edge_insert_spec) and the six holes below (Edge::new + five of ControlFlowGraph) are VERBATIM COPIES of
// units/C15/cfg_edit.rs (same contracts, proved by unit C15 against the same text; imported here as contracts-only,
// `proved-in:C15`). units/C15/cfg_edit.rs cannot be included as a whole: it also holds C15's `Scalar::new`, which would
// collide with the NAME-precise `Scalar::new` of units/C01/il_glue.rs (the same arrangement as units/C03/il_glue.rs).
// tools check: `python3 units/C01/check_cfg_glue.py` compares the copies with the originals.
//@ mode contracts-only C15
impl Edge {
//@ fn lib/il/edge.rs :: impl Edge :: fn new
//@ spec
    ensures /*@ctor*/ r == (Edge { head, tail, condition, comment: None }),
//@ end
}

impl ControlFlowGraph {
    /// everything but the inner graph is unchanged
    pub open spec fn same_scalars(&self, o: ControlFlowGraph) -> bool {
        &&& self.next_index == o.next_index
        &&& self.next_temp_index == o.next_temp_index
        &&& self.entry == o.entry
        &&& self.exit == o.exit
        &&& self.ssa_form == o.ssa_form
    }

    /// `self` is `o` plus the edge `e` (stored under its own ends); blocks untouched
    pub open spec fn edge_added(&self, o: ControlFlowGraph, e: Edge) -> bool {
        &&& self.graph.vertices == o.graph.vertices
        &&& self.graph.edges@.dom() == o.graph.edges@.dom().insert((e.head, e.tail))
        &&& self.graph.edges@[(e.head, e.tail)] == e
        &&& forall|k: (usize, usize)| #![trigger self.graph.edges@[k]] k != (e.head, e.tail) && o.graph.edges@.contains_key(k) ==> self.graph.edges@[k] == o.graph.edges@[k]
    }

    /// the exact result / effect of inserting the edge `e` (unconditional_edge / conditional_edge)
    pub open spec fn edge_insert_spec(&self, o: ControlFlowGraph, e: Edge, r: Result<(), Error>) -> bool {
        &&& self.same_scalars(o)
        &&& (r is Ok) == (!o.has_edge(e.head, e.tail) && o.has_block(e.head) && o.has_block(e.tail))
        &&& (r is Ok ==> self.edge_added(o, e))
        &&& (r is Err ==> *self == o)
        &&& (o.has_edge(e.head, e.tail) ==> (r matches Err(x) && x is Custom))
        &&& (!o.has_edge(e.head, e.tail) && !o.has_block(e.head) ==> r == Err::<(), Error>(Error::GraphVertexNotFound(e.head)))
        &&& (!o.has_edge(e.head, e.tail) && o.has_block(e.head) && !o.has_block(e.tail) ==> r == Err::<(), Error>(Error::GraphVertexNotFound(e.tail)))
    }

//@ source lib/il/control_flow_graph.rs
//@ fn impl ControlFlowGraph :: fn set_entry
//@ spec
    requires old(self).cfg_wf(),
    ensures
        /*@wf*/ final(self).cfg_wf(),
        /*@ok*/ old(self).has_block(entry) ==> r is Ok && final(self).entry == Some(entry),
        /*@missing*/ !old(self).has_block(entry) ==> (r matches Err(e) && e is Custom) && final(self).entry == old(self).entry,
        /*@frame*/ final(self).graph == old(self).graph && final(self).next_index == old(self).next_index && final(self).next_temp_index == old(self).next_temp_index
            && final(self).exit == old(self).exit && final(self).ssa_form == old(self).ssa_form,
//@ end

//@ fn impl ControlFlowGraph :: fn set_exit
//@ spec
    requires old(self).cfg_wf(),
    ensures
        /*@wf*/ final(self).cfg_wf(),
        /*@ok*/ old(self).has_block(exit) ==> r is Ok && final(self).exit == Some(exit),
        /*@missing*/ !old(self).has_block(exit) ==> (r matches Err(e) && e is Custom) && final(self).exit == old(self).exit,
        /*@frame*/ final(self).graph == old(self).graph && final(self).next_index == old(self).next_index && final(self).next_temp_index == old(self).next_temp_index
            && final(self).entry == old(self).entry && final(self).ssa_form == old(self).ssa_form,
//@ end

//@ fn impl ControlFlowGraph :: fn new_block
//@ spec
    requires old(self).cfg_wf(), old(self).next_index < usize::MAX,
    ensures
        /*@ok*/ r is Ok,
        /*@block*/ r matches Ok(b) ==> b.index == old(self).next_index && b.next_instruction_index == 0
            && b.instructions@ == Seq::<Instruction>::empty() && b.phi_nodes@ == Seq::<PhiNode>::empty(),
        /*@vertices*/ r matches Ok(b) ==> !old(self).has_block(old(self).next_index)
            && final(self).graph.vertices@ == old(self).graph.vertices@.insert(old(self).next_index, *final(b)),
        /*@edges*/ final(self).graph.edges == old(self).graph.edges,
        /*@counter*/ final(self).next_index == old(self).next_index + 1,
        /*@frame*/ final(self).next_temp_index == old(self).next_temp_index && final(self).entry == old(self).entry
            && final(self).exit == old(self).exit && final(self).ssa_form == old(self).ssa_form,
        /*@wf*/ r matches Ok(b) ==> (final(b).index == old(self).next_index && final(b).block_wf() ==> final(self).cfg_wf()),
//@ end

//@ fn impl ControlFlowGraph :: fn unconditional_edge
//@ spec
    requires old(self).cfg_wf(),
    ensures
        /*@wf*/ final(self).cfg_wf(),
        /*@effect*/ final(self).edge_insert_spec(*old(self), Edge { head, tail, condition: None, comment: None }, r),
//@ end

//@ fn impl ControlFlowGraph :: fn conditional_edge
//@ spec
    requires old(self).cfg_wf(),
    ensures
        /*@wf*/ final(self).cfg_wf(),
        /*@effect*/ final(self).edge_insert_spec(*old(self), Edge { head, tail, condition: Some(condition), comment: None }, r),
//@ end
}
//@ mode full
